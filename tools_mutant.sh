#!/bin/bash
# usage: tools_mutant.sh <patch-file> <CHECK-ID> [tier]   -- run a check against a scratch worktree of /repo with the patch applied
# (never touches /repo itself; the worktree and its build output are removed afterwards)
set -u
patch=$1; cid=$2; tier=${3:-quick}
tag=$(basename $(dirname $patch))-$(echo -n $patch | sha1sum | cut -c1-6)-$cid      # unique per patch file: concurrent runs never share a worktree
wt=/tmp/mt-$tag
git -C /repo worktree remove --force $wt >/dev/null 2>&1; rm -rf $wt
git -C /repo worktree add -q --detach $wt HEAD || exit 9
cp /repo/Cargo.lock $wt/Cargo.lock; (cd $wt && git apply $patch) || { echo "PATCH DOES NOT APPLY"; git -C /repo worktree remove --force $wt; exit 9; }
cd /verif
VERIF_REPO=$wt timeout ${MT_TIMEOUT:-3000} ./check $cid --tier $tier > /tmp/mt-$tag.log 2>&1
rc=$?
echo "rc=$rc" >> /tmp/mt-$tag.log
git -C /repo worktree remove --force $wt >/dev/null 2>&1; rm -rf $wt
altb=/verif/.build/alt-$(python3 -c "import hashlib;print(hashlib.sha1('$wt'.encode()).hexdigest()[:8])")
rm -rf $altb
grep -E "^(VIOLATION|KNOWN-FINDING|INCONCLUSIVE|OK|rc=)" /tmp/mt-$tag.log | cut -c1-400 | head -12
