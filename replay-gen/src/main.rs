//! Native replay for generator properties: runs the real conjure-codegen on an IR file.
//! usage: verif-replay-gen <ir.json> <out-dir> [exhaustive] [serialize-empty-collections]
use std::path::Path;

fn main() {
    let args: Vec<String> = std::env::args().collect();
    let mut cfg = conjure_codegen::Config::new();
    for a in &args[3..] {
        match a.as_str() {
            "exhaustive" => {
                cfg.exhaustive(true);
            }
            "serialize-empty-collections" => {
                cfg.serialize_empty_collections(true);
            }
            _ => {}
        }
    }
    match cfg.generate_files(Path::new(&args[1]), Path::new(&args[2])) {
        Ok(()) => println!("ok"),
        Err(e) => {
            println!("error: {}", e);
            std::process::exit(3);
        }
    }
}
