//! Clients and server traits emitted by the real conjure-codegen of /repo for /verif/gen-crates/service/ir/service.json.
#[allow(dead_code, unused_imports, clippy::all)]
pub mod gen {
    include!(concat!(env!("OUT_DIR"), "/conjure/mod.rs"));
}
