// The *real* generator of /repo is run on a small service definition; the emitted clients (blocking + async) and the emitted
// #[conjure_endpoints] server traits are compiled into this crate (C04: generated client -> generated endpoints).
use std::env;
use std::path::PathBuf;

fn main() {
    let input = "ir/service.json";
    println!("cargo:rerun-if-changed={}", input);
    let out = PathBuf::from(env::var_os("OUT_DIR").unwrap());
    conjure_codegen::Config::new().generate_files(input, out.join("conjure")).unwrap();
}
