//! Harness traits expanded by the *real* #[conjure_endpoints] macro of /repo; the MIR of the expansion is what engine M executes.
//! Rust identifiers deliberately differ from the declared (`log_as`) names, and from the wire names.
#![allow(clippy::too_many_arguments)]
use conjure_error::Error;
use conjure_http::client::{ConjureResponseDeserializer, DisplaySeqEncoder};
use conjure_http::server::conjure::{FromPlainDecoder, FromPlainOptionDecoder};
use conjure_http::server::StdResponseSerializer;
use conjure_http::{conjure_client, conjure_endpoints, endpoint};
use conjure_object::BearerToken;

#[conjure_endpoints]
pub trait Svc {
    /// path + query + header, all required, plus header auth; the first two safe
    #[endpoint(method = GET, path = "/a/{pathWire}")]
    fn e1(
        &self,
        #[path(name = "pathWire", decoder = FromPlainDecoder, log_as = "pathLog", safe)] path_arg: i32,
        #[query(name = "queryWire", decoder = FromPlainDecoder, log_as = "queryLog", safe)] query_arg: String,
        #[header(name = "X-Foo", decoder = FromPlainDecoder, log_as = "headerLog")] header_arg: i32,
        #[auth] auth_token: BearerToken,
    ) -> Result<(), Error>;

    /// optional query + optional header (safe) + unsafe path + cookie auth
    #[endpoint(method = GET, path = "/b/{p}")]
    fn e2(
        &self,
        #[path(name = "p", decoder = FromPlainDecoder, log_as = "unsafePathLog")] p_arg: String,
        #[query(name = "optWire", decoder = FromPlainOptionDecoder, log_as = "optLog")] opt_arg: Option<i32>,
        #[header(name = "X-Bar", decoder = FromPlainOptionDecoder, log_as = "barLog", safe)] bar_arg: Option<String>,
        #[auth(cookie_name = "TOKEN")] cookie_token: BearerToken,
    ) -> Result<(), Error>;

    /// JSON body in, JSON value out
    #[endpoint(method = POST, path = "/c", produces = StdResponseSerializer)]
    fn e3(&self, #[body(log_as = "bodyLog")] body_arg: String) -> Result<String, Error>;
}

/// The client half of the same definition, expanded by the real #[conjure_client] (C04: client -> server composition).
#[conjure_client]
pub trait SvcApi {
    #[endpoint(method = GET, path = "/a/{pathWire}")]
    fn e1(
        &self,
        #[path(name = "pathWire")] path_arg: i32,
        #[query(name = "queryWire")] query_arg: &str,
        #[header(name = "X-Foo")] header_arg: i32,
        #[auth] auth_token: &BearerToken,
    ) -> Result<(), Error>;

    #[endpoint(method = GET, path = "/b/{p}")]
    fn e2(
        &self,
        #[path(name = "p")] p_arg: &str,
        #[query(name = "optWire", encoder = DisplaySeqEncoder)] opt_arg: Option<i32>,
        #[header(name = "X-Bar", encoder = DisplaySeqEncoder)] bar_arg: Option<&str>,
        #[auth(cookie_name = "TOKEN")] cookie_token: &BearerToken,
    ) -> Result<(), Error>;

    #[endpoint(method = POST, path = "/c", accept = ConjureResponseDeserializer)]
    fn e3(&self, #[body] body_arg: &str) -> Result<String, Error>;

    /// a self-describing (`any`) result: a response without content must not turn into a value
    #[endpoint(method = GET, path = "/d", accept = ConjureResponseDeserializer)]
    fn e4(&self) -> Result<conjure_object::Any, Error>;
}

/// async flavour of the client half
#[conjure_client]
pub trait SvcApiAsync {
    #[endpoint(method = GET, path = "/a/{pathWire}")]
    async fn e1(
        &self,
        #[path(name = "pathWire")] path_arg: i32,
        #[query(name = "queryWire")] query_arg: &str,
        #[header(name = "X-Foo")] header_arg: i32,
        #[auth] auth_token: &BearerToken,
    ) -> Result<(), Error>;

    #[endpoint(method = POST, path = "/c", accept = ConjureResponseDeserializer)]
    async fn e3(&self, #[body] body_arg: &str) -> Result<String, Error>;

    #[endpoint(method = GET, path = "/d", accept = ConjureResponseDeserializer)]
    async fn e4(&self) -> Result<conjure_object::Any, Error>;
}
