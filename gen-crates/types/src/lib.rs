//! Types emitted by the real conjure-codegen of /repo for /verif/gen-crates/types/ir/family.json.
#[allow(dead_code, unused_imports, clippy::all)]
pub mod types {
    include!(concat!(env!("OUT_DIR"), "/conjure/mod.rs"));
}

#[allow(dead_code, unused_imports, clippy::all)]
pub mod exhaustive_types {
    include!(concat!(env!("OUT_DIR"), "/conjure-exhaustive/mod.rs"));
}

#[allow(dead_code, unused_imports, clippy::all)]
pub mod empty_types {
    include!(concat!(env!("OUT_DIR"), "/conjure-empty/mod.rs"));
}
