// The *real* generator of /repo is run on the IR family; its output is compiled into this crate (default, exhaustive and serialize-empty-collections configurations).
use std::env;
use std::path::PathBuf;

fn main() {
    let input = "ir/family.json";
    println!("cargo:rerun-if-changed={}", input);
    let out = PathBuf::from(env::var_os("OUT_DIR").unwrap());
    conjure_codegen::Config::new().generate_files(input, out.join("conjure")).unwrap();
    conjure_codegen::Config::new().exhaustive(true).generate_files(input, out.join("conjure-exhaustive")).unwrap();
    conjure_codegen::Config::new().serialize_empty_collections(true).generate_files(input, out.join("conjure-empty")).unwrap();
}
