//! Native replay of solver models against the real build of /repo (public API only).
//! usage: verif-replay <scenario.json>   -- a JSON array of ops; prints a JSON array of results.
use conjure_object::{BearerToken, FromPlain, Plain, ResourceIdentifier, SafeLong, ToPlain};
use serde_json::{json, Value};
use std::convert::TryFrom;
use std::str::FromStr;

fn hex(s: &str) -> Vec<u8> {
    (0..s.len() / 2).map(|i| u8::from_str_radix(&s[2 * i..2 * i + 2], 16).unwrap()).collect()
}
fn tohex(b: &[u8]) -> String {
    b.iter().map(|x| format!("{:02x}", x)).collect()
}

#[derive(PartialEq, Eq, PartialOrd, Ord, Debug, Clone)]
struct Bin(Vec<u8>);
impl serde::Serialize for Bin {
    fn serialize<S: serde::Serializer>(&self, s: S) -> Result<S::Ok, S::Error> { s.serialize_bytes(&self.0) }
}
impl<'de> serde::Deserialize<'de> for Bin {
    fn deserialize<D: serde::Deserializer<'de>>(d: D) -> Result<Bin, D::Error> {
        struct V;
        impl<'de> serde::de::Visitor<'de> for V {
            type Value = Bin;
            fn expecting(&self, f: &mut std::fmt::Formatter) -> std::fmt::Result { f.write_str("bytes") }
            fn visit_bytes<E: serde::de::Error>(self, v: &[u8]) -> Result<Bin, E> { Ok(Bin(v.to_vec())) }
            fn visit_byte_buf<E: serde::de::Error>(self, v: Vec<u8>) -> Result<Bin, E> { Ok(Bin(v)) }
        }
        d.deserialize_byte_buf(V)
    }
}
fn serde_bytes_like(v: Vec<u8>) -> Bin { Bin(v) }
/// reference RFC 4648 section 4 encoder (standard alphabet, padded), independent of the base64 crate
fn ref_b64(b: &[u8]) -> String {
    const A: &[u8; 64] = b"ABCDEFGHIJKLMNOPQRSTUVWXYZabcdefghijklmnopqrstuvwxyz0123456789+/";
    let mut o = String::new();
    for c in b.chunks(3) {
        let n = (c[0] as u32) << 16 | (*c.get(1).unwrap_or(&0) as u32) << 8 | *c.get(2).unwrap_or(&0) as u32;
        o.push(A[(n >> 18) as usize & 63] as char);
        o.push(A[(n >> 12) as usize & 63] as char);
        o.push(if c.len() > 1 { A[(n >> 6) as usize & 63] as char } else { '=' });
        o.push(if c.len() > 2 { A[n as usize & 63] as char } else { '=' });
    }
    o
}

fn mk_resp<B>(op: &Value, body: B) -> http::Response<B> {
    let mut r = http::Response::new(body);
    *r.status_mut() = http::StatusCode::from_u16(op["status"].as_u64().unwrap() as u16).unwrap();
    if let Some(ct) = op["content_type"].as_str() {
        r.headers_mut().insert(http::header::CONTENT_TYPE, http::HeaderValue::from_str(ct).unwrap());
    }
    r
}

fn run(op: &Value) -> Value {
    let name = op["op"].as_str().unwrap_or("");
    match name {
        "safelong_new" => {
            let n: i64 = op["n"].as_str().unwrap().parse().unwrap();
            match SafeLong::new(n) {
                Ok(s) => json!({"ok": true, "value": (*s).to_string()}),
                Err(_) => json!({"ok": false}),
            }
        }
        "safelong_try_from" => {
            let ty = op["ty"].as_str().unwrap();
            let s = op["n"].as_str().unwrap();
            let r = match ty {
                "i64" => SafeLong::try_from(s.parse::<i64>().unwrap()),
                "u64" => SafeLong::try_from(s.parse::<u64>().unwrap()),
                "i128" => SafeLong::try_from(s.parse::<i128>().unwrap()),
                "u128" => SafeLong::try_from(s.parse::<u128>().unwrap()),
                "isize" => SafeLong::try_from(s.parse::<isize>().unwrap()),
                "usize" => SafeLong::try_from(s.parse::<usize>().unwrap()),
                _ => return json!({"error": "type"}),
            };
            match r {
                Ok(s) => json!({"ok": true, "value": (*s).to_string()}),
                Err(_) => json!({"ok": false}),
            }
        }
        "safelong_text" => {
            // every text / document route for one input string
            let bytes = hex(op["hex"].as_str().unwrap());
            let text = match String::from_utf8(bytes) {
                Ok(t) => t,
                Err(_) => return json!({"error": "not utf8"}),
            };
            let f = |r: Option<SafeLong>| match r {
                Some(s) => json!({"ok": true, "value": (*s).to_string()}),
                None => json!({"ok": false}),
            };
            json!({
                "from_str": f(SafeLong::from_str(&text).ok()),
                "from_plain": f(SafeLong::from_plain(&text).ok()),
                "json_client": f(conjure_serde::json::client_from_str::<SafeLong>(&text).ok()),
                "json_server": f(conjure_serde::json::server_from_str::<SafeLong>(&text).ok()),
                "json_key": f(conjure_serde::json::client_from_str::<std::collections::BTreeMap<SafeLong, bool>>(&format!("{{\"{}\":true}}", text)).ok().and_then(|m| m.keys().next().copied())),
                "any": f(conjure_serde::json::client_from_str::<conjure_object::Any>(&text).ok().and_then(|a| a.deserialize_into::<SafeLong>().ok())),
                "any_key": f(conjure_serde::json::client_from_str::<conjure_object::Any>(&format!("{{\"{}\":true}}", text)).ok().and_then(|a| a.deserialize_into::<std::collections::BTreeMap<SafeLong, bool>>().ok()).and_then(|m| m.keys().next().copied())),
            })
        }
        "bearer" => {
            let bytes = hex(op["hex"].as_str().unwrap());
            let text = match String::from_utf8(bytes) {
                Ok(t) => t,
                Err(_) => return json!({"error": "not utf8"}),
            };
            let f = |r: Option<BearerToken>| match r {
                Some(t) => json!({"ok": true, "as_str": tohex(t.as_str().as_bytes()), "plain": tohex(t.to_plain().as_bytes()),
                                  "json": serde_json::to_string(&t).unwrap(), "debug": format!("{:?}", t)}),
                None => json!({"ok": false}),
            };
            json!({
                "from_str": f(BearerToken::from_str(&text).ok()),
                "new": f(BearerToken::new(&text).ok()),
                "from_plain": f(BearerToken::from_plain(&text).ok()),
                "deserialize": f(serde_json::from_value::<BearerToken>(Value::String(text.clone())).ok()),
            })
        }
        "rid" => {
            let bytes = hex(op["hex"].as_str().unwrap());
            let text = match String::from_utf8(bytes) {
                Ok(t) => t,
                Err(_) => return json!({"error": "not utf8"}),
            };
            let f = |r: Option<ResourceIdentifier>| match r {
                Some(t) => json!({"ok": true, "as_str": t.as_str(), "service": t.service(), "instance": t.instance(), "type": t.type_(),
                                  "locator": t.locator(), "display": t.to_string(), "plain": t.to_plain()}),
                None => json!({"ok": false}),
            };
            json!({
                "from_str": f(ResourceIdentifier::from_str(&text).ok()),
                "new": f(ResourceIdentifier::new(&text).ok()),
                "from_plain": f(ResourceIdentifier::from_plain(&text).ok()),
                "deserialize": f(serde_json::from_value::<ResourceIdentifier>(Value::String(text.clone())).ok()),
            })
        }
        "rid_components" => {
            let g = |k: &str| String::from_utf8(hex(op[k].as_str().unwrap())).unwrap_or_default();
            match ResourceIdentifier::from_components(&g("service"), &g("instance"), &g("type"), &g("locator")) {
                Ok(r) => json!({"ok": true, "as_str": r.as_str()}),
                Err(_) => json!({"ok": false}),
            }
        }
        "uri_build" => {
            let mut b = conjure_http::private::UriBuilder::new();
            for o in op["ops"].as_array().unwrap() {
                let kind = o[0].as_str().unwrap();
                match kind {
                    "lit" => b.push_literal(o[1].as_str().unwrap()),
                    "path" => b.push_path_parameter_raw(&String::from_utf8(hex(o[1].as_str().unwrap())).unwrap()),
                    "query" => b.push_query_parameter_raw(o[1].as_str().unwrap(), &String::from_utf8(hex(o[2].as_str().unwrap())).unwrap()),
                    _ => {}
                }
            }
            let uri = b.build();
            // server-side view: the same decoding functions the server helpers use
            let segments: Vec<String> = uri.path().split('/').skip(1)
                .map(|s| tohex(&percent_encoding::percent_decode_str(s).collect::<Vec<u8>>())).collect();
            let req = http::Request::builder().uri(uri.clone()).body(()).unwrap();
            let (parts, _) = req.into_parts();
            let pairs: Vec<Vec<String>> = match parts.uri.query() {
                Some(q) => form_urlencoded::parse(q.as_bytes()).map(|(k, v)| vec![tohex(k.as_bytes()), tohex(v.as_bytes())]).collect(),
                None => vec![],
            };
            let grouped = conjure_http::private::parse_query_params(&parts);
            let mut n_grouped = 0;
            for (_, v) in grouped.iter() { n_grouped += v.len(); }
            let u = uri.to_string();
            json!({"uri": if u.len() > 300 { format!("{}...", &u[..300]) } else { u }, "segments_hex": segments, "pairs_hex": pairs, "grouped_values": n_grouped})
        }
        "negotiate" | "request_encoding" => {
            use conjure_http::server::{ConjureRuntime, JsonEncoding, SmileEncoding};
            let mut b = ConjureRuntime::builder();
            for o in op["order"].as_array().unwrap() {
                b = match o.as_str().unwrap() {
                    "json" => b.encoding(JsonEncoding),
                    _ => b.encoding(SmileEncoding),
                };
            }
            let rt = b.build();
            let mut headers = http::HeaderMap::new();
            if name == "negotiate" {
                for a in op["accept"].as_array().unwrap() {
                    headers.append(http::header::ACCEPT, http::HeaderValue::from_str(a.as_str().unwrap()).unwrap());
                }
                match rt.response_body_encoding(&headers) {
                    Ok(e) => json!({"chosen": e.content_type().to_str().unwrap()}),
                    Err(e) => json!({"chosen": Value::Null, "code": format!("{:?}", match e.kind() { conjure_error::ErrorKind::Service(s) => format!("{:?}", s.error_code()), _ => "other".to_string() })}),
                }
            } else {
                if let Some(h) = op.get("content_type_hex").and_then(|v| v.as_str()) {
                    headers.insert(http::header::CONTENT_TYPE, http::HeaderValue::from_bytes(&hex(h)).unwrap());
                }
                match rt.request_body_encoding(&headers) {
                    Ok(e) => json!({"chosen": e.content_type().to_str().unwrap()}),
                    Err(e) => json!({"chosen": Value::Null, "code": format!("{:?}", match e.kind() { conjure_error::ErrorKind::Service(s) => format!("{:?}", s.error_code()), _ => "other".to_string() })}),
                }
            }
        }
        "read_body" | "client_decode" => {
            use conjure_error::Error;
            let chunks: Vec<Option<Vec<u8>>> = op["chunks"].as_array().unwrap().iter()
                .map(|c| c.as_str().map(hex)).collect();
            let items = |chunks: &Vec<Option<Vec<u8>>>| -> Vec<Result<bytes::Bytes, Error>> {
                chunks.iter().map(|c| match c {
                    Some(b) => Ok(bytes::Bytes::from(b.clone())),
                    None => Err(Error::internal_safe("stream")),
                }).collect()
            };
            let show = |r: Result<String, Error>| match r {
                Ok(v) => json!({"ok": v}),
                Err(e) => json!({"err": if e.cause().to_string() == "stream" { "stream".to_string() } else if e.cause().to_string() == "body too large" { "too large".to_string() } else { e.cause().to_string() }}),
            };
            if name == "read_body" {
                let limit = op["limit"].as_u64().map(|v| v as usize);
                let b = conjure_http::private::read_body(items(&chunks).into_iter(), limit).map(|b| tohex(&b));
                let a = futures::executor::block_on(conjure_http::private::async_read_body(futures::stream::iter(items(&chunks)), limit)).map(|b| tohex(&b));
                json!({"blocking": show(b), "async": show(a)})
            } else {
                let kind = op["kind"].as_str().unwrap();
                let (b, a) = match kind {
                    "value" => (
                        conjure_http::private::decode_serializable_response::<i32, _>(mk_resp(op, items(&chunks).into_iter())).map(|v| v.to_string()),
                        futures::executor::block_on(conjure_http::private::async_decode_serializable_response::<i32, _>(mk_resp(op, futures::stream::iter(items(&chunks))))).map(|v| v.to_string()),
                    ),
                    "default" => (
                        conjure_http::private::decode_default_serializable_response::<Option<i32>, _>(mk_resp(op, items(&chunks).into_iter())).map(|v| format!("{:?}", v)),
                        futures::executor::block_on(conjure_http::private::async_decode_default_serializable_response::<Option<i32>, _>(mk_resp(op, futures::stream::iter(items(&chunks))))).map(|v| format!("{:?}", v)),
                    ),
                    "binary" => (
                        conjure_http::private::decode_binary_response(mk_resp(op, items(&chunks).into_iter())).map(|_| "body".to_string()),
                        conjure_http::private::decode_binary_response(mk_resp(op, futures::stream::iter(items(&chunks)))).map(|_| "body".to_string()),
                    ),
                    "optional_binary" => (
                        conjure_http::private::decode_optional_binary_response(mk_resp(op, items(&chunks).into_iter())).map(|v| if v.is_some() { "some".to_string() } else { "none".to_string() }),
                        conjure_http::private::decode_optional_binary_response(mk_resp(op, futures::stream::iter(items(&chunks)))).map(|v| if v.is_some() { "some".to_string() } else { "none".to_string() }),
                    ),
                    _ => (
                        conjure_http::private::decode_empty_response(mk_resp(op, items(&chunks).into_iter())).map(|_| "()".to_string()),
                        futures::executor::block_on(conjure_http::private::async_decode_empty_response(mk_resp(op, futures::stream::iter(items(&chunks))))).map(|_| "()".to_string()),
                    ),
                };
                json!({"blocking": show(b), "async": show(a)})
            }
        }
        "server_body_opt_bin" => {
            // C06: OptionalRequestDeserializer and BinaryRequestDeserializer on one chunk with a given Content-Type (or none)
            use conjure_http::server::conjure::{BinaryRequestDeserializer, OptionalRequestDeserializer};
            use conjure_http::server::{ConjureRuntime, DeserializeRequest};
            let rt = ConjureRuntime::new();
            let mut headers = http::HeaderMap::new();
            if let Some(ct) = op["content_type"].as_str() {
                headers.insert(http::header::CONTENT_TYPE, http::HeaderValue::from_str(ct).unwrap());
            }
            // "chunks": explicit list of stream items (hex; possibly empty chunks); otherwise "chunk": one item, or no item when empty
            let chunk_list: Vec<Vec<u8>> = match op["chunks"].as_array() {
                Some(a) => a.iter().map(|c| hex(c.as_str().unwrap_or(""))).collect(),
                None => { let c = hex(op["chunk"].as_str().unwrap_or("")); if c.is_empty() { vec![] } else { vec![c] } }
            };
            let items = |c: &Vec<Vec<u8>>| -> std::vec::IntoIter<Result<bytes::Bytes, conjure_error::Error>> { c.iter().map(|b| Ok(bytes::Bytes::from(b.clone()))).collect::<Vec<_>>().into_iter() };
            let show = |o: Result<Option<i32>, conjure_error::Error>| match o { Ok(Some(v)) => format!("some:{}", v), Ok(None) => "none".to_string(), Err(_) => "err".to_string() };
            let o = <OptionalRequestDeserializer as DeserializeRequest<Option<i32>, _>>::deserialize(&rt, &headers, items(&chunk_list));
            let oa = futures::executor::block_on(<OptionalRequestDeserializer as conjure_http::server::AsyncDeserializeRequest<Option<i32>, _>>::deserialize(&rt, &headers, futures::stream::iter(items(&chunk_list))));
            let b = <BinaryRequestDeserializer as DeserializeRequest<_, _>>::deserialize(&rt, &headers, items(&chunk_list)).map(|_: std::vec::IntoIter<Result<bytes::Bytes, conjure_error::Error>>| ());
            json!({"optional": show(o), "optional_async": show(oa), "binary": if b.is_ok() { "ok" } else { "err" }})
        }
        "server_body" => {
            use conjure_error::Error;
            use conjure_http::server::{AsyncDeserializeRequest, ConjureRuntime, DeserializeRequest, JsonEncoding, SmileEncoding, StdRequestDeserializer};
            let chunks: Vec<Option<Vec<u8>>> = op["chunks"].as_array().unwrap().iter().map(|c| c.as_str().map(hex)).collect();
            let items = |chunks: &Vec<Option<Vec<u8>>>| -> Vec<Result<bytes::Bytes, Error>> {
                chunks.iter().map(|c| match c {
                    Some(b) => Ok(bytes::Bytes::from(b.clone())),
                    None => Err(Error::internal_safe("stream")),
                }).collect()
            };
            let mut b = ConjureRuntime::builder();
            for o in op["order"].as_array().unwrap() {
                b = match o.as_str().unwrap() { "json" => b.encoding(JsonEncoding), _ => b.encoding(SmileEncoding) };
            }
            let rt = b.build();
            let mut headers = http::HeaderMap::new();
            if let Some(ct) = op["content_type"].as_str() {
                headers.insert(http::header::CONTENT_TYPE, http::HeaderValue::from_str(ct).unwrap());
            }
            let show = |r: Result<i32, Error>| match r {
                Ok(v) => json!({"ok": v.to_string()}),
                Err(e) => json!({"err": e.cause().to_string(), "code": match e.kind() { conjure_error::ErrorKind::Service(s) => format!("{:?}", s.error_code()), _ => "other".to_string() },
                                 "safe_params": e.safe_params().iter().map(|(k, v)| format!("{}={:?}", k, v)).collect::<Vec<_>>()}),
            };
            macro_rules! with_n {
                ($n:expr, [$($k:literal),*]) => {
                    match $n {
                        $($k => (
                            <StdRequestDeserializer<$k> as DeserializeRequest<i32, _>>::deserialize(&rt, &headers, items(&chunks).into_iter()),
                            futures::executor::block_on(<StdRequestDeserializer<$k> as AsyncDeserializeRequest<i32, _>>::deserialize(&rt, &headers, futures::stream::iter(items(&chunks)))),
                        ),)*
                        _ => (
                            <StdRequestDeserializer as DeserializeRequest<i32, _>>::deserialize(&rt, &headers, items(&chunks).into_iter()),
                            futures::executor::block_on(<StdRequestDeserializer as AsyncDeserializeRequest<i32, _>>::deserialize(&rt, &headers, futures::stream::iter(items(&chunks)))),
                        ),
                    }
                };
            }
            let (bl, asy) = with_n!(op["N"].as_u64().unwrap_or(99), [0, 1, 2, 3, 4, 5, 6, 8, 16]);
            json!({"blocking": show(bl), "async": show(asy)})
        }
        "endpoint" => {
            use conjure_http::server::{ConjureRuntime, Service};
            use std::sync::{Arc, Mutex};
            struct H(Arc<Mutex<Vec<String>>>);
            impl verif_endpoints::Svc for H {
                fn e1(&self, path_arg: i32, query_arg: String, header_arg: i32, auth_token: BearerToken) -> Result<(), conjure_error::Error> {
                    self.0.lock().unwrap().push(format!("e1({},{:?},{},{})", path_arg, query_arg, header_arg, auth_token.as_str()));
                    Ok(())
                }
                fn e2(&self, p_arg: String, opt_arg: Option<i32>, bar_arg: Option<String>, cookie_token: BearerToken) -> Result<(), conjure_error::Error> {
                    self.0.lock().unwrap().push(format!("e2({:?},{:?},{:?},{})", p_arg, opt_arg, bar_arg, cookie_token.as_str()));
                    Ok(())
                }
                fn e3(&self, body_arg: String) -> Result<String, conjure_error::Error> {
                    self.0.lock().unwrap().push(format!("e3({:?})", body_arg));
                    Ok(body_arg)
                }
            }
            let calls = Arc::new(Mutex::new(vec![]));
            let svc = verif_endpoints::SvcEndpoints::new(H(calls.clone()));
            let rt = Arc::new(ConjureRuntime::new());
            let eps: Vec<Box<dyn conjure_http::server::Endpoint<std::vec::IntoIter<Result<bytes::Bytes, conjure_error::Error>>, Vec<u8>> + Sync + Send>> = Service::endpoints(&svc, &rt);
            let want = op["endpoint"].as_str().unwrap();
            let ep = eps.into_iter().find(|e| e.name() == want).unwrap();
            let mut uri = String::from("/x");
            let mut first = true;
            for kv in op["query"].as_array().unwrap() {
                uri.push(if first { '?' } else { '&' });
                first = false;
                uri.push_str(kv[0].as_str().unwrap());
                uri.push('=');
                uri.push_str(&String::from_utf8(hex(kv[1].as_str().unwrap())).unwrap_or_default());
            }
            let mut b = http::Request::builder().uri(uri.as_str());
            for kv in op["headers"].as_array().unwrap() {
                match http::HeaderValue::from_bytes(&hex(kv[1].as_str().unwrap())) {
                    Ok(v) => b = b.header(kv[0].as_str().unwrap(), v),
                    Err(_) => return json!({"error": "header value not constructible"}),
                }
            }
            let mut req = match b.body(Vec::<Result<bytes::Bytes, conjure_error::Error>>::new().into_iter()) { Ok(r) => r, Err(e) => return json!({"error": format!("request not constructible: {}", e)}) };
            let mut pp = conjure_http::PathParams::new();
            for (k, v) in op["path"].as_object().unwrap() {
                pp.insert(k.as_str(), String::from_utf8(hex(v.as_str().unwrap())).unwrap_or_default());
            }
            req.extensions_mut().insert(pp);
            let mut ext = http::Extensions::new();
            let r = ep.handle(req, &mut ext);
            let safe: Vec<String> = ext.get::<conjure_http::SafeParams>().map(|s| s.iter().map(|(k, v)| format!("{}={:?}", k, v)).collect()).unwrap_or_default();
            let ncalls = calls.lock().unwrap().len();
            match r {
                Ok(_) => json!({"ok": true, "handler_calls": ncalls, "calls": calls.lock().unwrap().clone(), "safe_params": safe}),
                Err(e) => {
                    let param = e.safe_params().iter().find(|(k, _)| *k == "param").map(|(_, v)| format!("{:?}", v));
                    let param = param.map(|p| p.trim_start_matches("Any(String(\"").trim_end_matches("\"))").to_string());
                    json!({"ok": false, "handler_calls": ncalls,
                           "code": match e.kind() { conjure_error::ErrorKind::Service(s) => { let c = format!("{:?}", s.error_code()); match c.as_str() { "InvalidArgument" => "InvalidArgument".to_string(), "PermissionDenied" => "PermissionDenied".to_string(), o => o.to_string() } }, _ => "other".to_string() },
                           "param": param, "cause_safe": e.cause_safe(), "cause": e.cause().to_string(),
                           "error_safe_params": e.safe_params().iter().map(|(k, v)| format!("{}={:?}", k, v)).collect::<Vec<_>>(), "safe_params": safe})
                }
            }
        }
        "loopback" => {
            // C04: the real #[conjure_client] client wired to the real #[conjure_endpoints] service through a minimal router
            // (method + path template match, raw path segments into PathParams, headers and body copied)
            use conjure_http::client::{Client, RequestBody};
            use conjure_http::server::{ConjureRuntime, Endpoint, PathSegment, ResponseBody, Service};
            use std::sync::{Arc, Mutex};
            use verif_endpoints::SvcApi;
            type Items = std::vec::IntoIter<Result<bytes::Bytes, conjure_error::Error>>;
            struct H(Arc<Mutex<Vec<Value>>>, String);
            impl verif_endpoints::Svc for H {
                fn e1(&self, path_arg: i32, query_arg: String, header_arg: i32, auth_token: BearerToken) -> Result<(), conjure_error::Error> {
                    self.0.lock().unwrap().push(json!({"endpoint": "e1", "path_arg": path_arg, "query_arg": tohex(query_arg.as_bytes()), "header_arg": header_arg, "token": auth_token.as_str()}));
                    Ok(())
                }
                fn e2(&self, p_arg: String, opt_arg: Option<i32>, bar_arg: Option<String>, cookie_token: BearerToken) -> Result<(), conjure_error::Error> {
                    self.0.lock().unwrap().push(json!({"endpoint": "e2", "p_arg": tohex(p_arg.as_bytes()), "opt_arg": opt_arg, "bar_arg": bar_arg.map(|b| tohex(b.as_bytes())), "token": cookie_token.as_str()}));
                    Ok(())
                }
                fn e3(&self, body_arg: String) -> Result<String, conjure_error::Error> {
                    self.0.lock().unwrap().push(json!({"endpoint": "e3", "body_arg": tohex(body_arg.as_bytes())}));
                    Ok(self.1.clone())
                }
            }
            struct Loop(Vec<Box<dyn Endpoint<Items, Vec<u8>> + Sync + Send>>);
            // (g5: bearer tokens as path and query arguments)
            impl Client for Loop {
                type BodyWriter = Vec<u8>;
                type ResponseBody = Items;
                fn send(&self, req: http::Request<RequestBody<'_, Vec<u8>>>) -> Result<http::Response<Items>, conjure_error::Error> {
                    let (parts, body) = req.into_parts();
                    let body = match body {
                        RequestBody::Empty => vec![],
                        RequestBody::Fixed(b) => vec![Ok(b)],
                        RequestBody::Streaming(mut w) => { let mut buf = vec![]; w.write_body(&mut buf)?; vec![Ok(bytes::Bytes::from(buf))] }
                    };
                    let segs: Vec<&str> = parts.uri.path().split('/').skip(1).collect();
                    for e in &self.0 {
                        if e.method() != parts.method || e.path().len() != segs.len() { continue; }
                        let mut pp = conjure_http::PathParams::new();
                        let mut ok = true;
                        for (t, s) in e.path().iter().zip(&segs) {
                            match t {
                                PathSegment::Literal(l) => ok &= l == s,
                                PathSegment::Parameter { name, .. } => pp.insert(&**name, *s),
                            }
                        }
                        if !ok { continue; }
                        let mut sreq = http::Request::new(body.into_iter());
                        *sreq.method_mut() = parts.method.clone();
                        *sreq.uri_mut() = parts.uri.clone();
                        *sreq.headers_mut() = parts.headers.clone();
                        sreq.extensions_mut().insert(pp);
                        let mut ext = http::Extensions::new();
                        let resp = e.handle(sreq, &mut ext)?;
                        let (rparts, rbody) = resp.into_parts();
                        let items = match rbody {
                            ResponseBody::Empty => vec![],
                            ResponseBody::Fixed(b) => vec![Ok(b)],
                            ResponseBody::Streaming(w) => { let mut buf = vec![]; w.write_body(&mut buf)?; vec![Ok(bytes::Bytes::from(buf))] }
                        };
                        return Ok(http::Response::from_parts(rparts, items.into_iter()));
                    }
                    Err(conjure_error::Error::internal_safe("no endpoint matches the request"))
                }
            }
            let calls = Arc::new(Mutex::new(vec![]));
            let ret = String::from_utf8(hex(op["ret"].as_str().unwrap_or(""))).unwrap_or_default();
            let svc = verif_endpoints::SvcEndpoints::new(H(calls.clone(), ret));
            let rt = Arc::new(ConjureRuntime::new());
            let client = <verif_endpoints::SvcApiClient<Loop> as conjure_http::client::Service<Loop>>::new(Loop(Service::endpoints(&svc, &rt)));
            let s = |k: &str| String::from_utf8(hex(op[k].as_str().unwrap_or(""))).unwrap_or_default();
            let tok = |k: &str| BearerToken::new(op[k].as_str().unwrap_or("t")).unwrap();
            let i = |k: &str| op[k].as_i64().unwrap_or(0) as i32;
            let r = match op["endpoint"].as_str().unwrap() {
                "e1" => client.e1(i("path_arg"), &s("query_arg"), i("header_arg"), &tok("token")).map(|_| Value::Null),
                "e2" => {
                    let bar = if op["bar_arg"].is_null() { None } else { Some(s("bar_arg")) };
                    client.e2(&s("p_arg"), op["opt_arg"].as_i64().map(|v| v as i32), bar.as_deref(), &tok("token")).map(|_| Value::Null)
                }
                "e3" => client.e3(&s("body_arg")).map(|v| Value::String(tohex(v.as_bytes()))),
                _ => return json!({"error": "endpoint"}),
            };
            let c = calls.lock().unwrap().clone();
            match r {
                Ok(v) => json!({"ok": true, "returned": v, "calls": c}),
                Err(e) => json!({"ok": false, "calls": c, "cause": e.cause().to_string()}),
            }
        }
        "error_encode_kinds" => {
            // C17: one error parameter of every kind through the real conjure_error::encode
            use conjure_error::{ErrorCode, ErrorType};
            #[derive(serde::Serialize)]
            struct Alias(i64);
            #[derive(serde::Serialize)]
            struct K { b: bool, i: i32, l: i64, u: u64, d: f64, s: String, e: verif_types::types::p::TestEnum, o: Option<i32>, a: Alias, n: Option<i32>, v: Vec<i32>, unit: () }
            impl ErrorType for K {
                fn code(&self) -> ErrorCode { ErrorCode::InvalidArgument }
                fn name(&self) -> &str { "Ns:K" }
                fn instance_id(&self) -> Option<conjure_object::Uuid> { None }
                fn safe_args(&self) -> &'static [&'static str] { &[] }
            }
            let se = conjure_error::encode(&K { b: false, i: -2147483648, l: i64::MIN, u: u64::MAX, d: -0.5, s: "q\"x".into(), e: verif_types::types::p::TestEnum::TwoB, o: Some(7), a: Alias(-9), n: None, v: vec![], unit: () });
            let params: Vec<(String, String)> = se.parameters().iter().map(|(k, v)| (k.clone(), v.clone())).collect();
            let want: Vec<(String, String)> = vec![("a", "-9"), ("b", "false"), ("d", "-0.5"), ("e", "TWO_B"), ("i", "-2147483648"), ("l", "-9223372036854775808"), ("o", "7"), ("s", "q\"x"), ("u", "18446744073709551615")]
                .into_iter().map(|(k, v)| (k.to_string(), v.to_string())).collect();
            json!({"ok": params == want, "params": format!("{:?}", params)})
        }
        "error_encode_doubles" => {
            // C17: a double parameter is encoded as one text that parses back to the same number, for every class of double
            use conjure_error::{ErrorCode, ErrorType};
            #[derive(serde::Serialize)]
            struct D { d: f64, f: f32, od: Option<f64> }
            impl ErrorType for D {
                fn code(&self) -> ErrorCode { ErrorCode::Internal }
                fn name(&self) -> &str { "Ns:D" }
                fn instance_id(&self) -> Option<conjure_object::Uuid> { None }
                fn safe_args(&self) -> &'static [&'static str] { &["d"] }
            }
            let mut bad: Vec<String> = vec![];
            for v in [f64::NAN, -f64::NAN, f64::INFINITY, f64::NEG_INFINITY, 0.0, -0.0, 15.0, -0.5, 0.1, 1e300, -1e-300, 5e-324, f64::MAX, f64::MIN_POSITIVE, 9007199254740993.0, 1e21, 1.5e16] {
                let se = conjure_error::encode(&D { d: v, f: v as f32, od: Some(v) });
                for (k, want32) in [("d", false), ("od", false), ("f", true)] {
                    match se.parameters().get(k) {
                        None => bad.push(format!("{:?}: no entry {}", v, k)),
                        Some(t) => {
                            let same = if want32 {
                                t.parse::<f32>().map(|b| b.to_bits() == (v as f32).to_bits() || (b.is_nan() && v.is_nan())).unwrap_or(false)
                            } else {
                                t.parse::<f64>().map(|b| b.to_bits() == v.to_bits() || (b.is_nan() && v.is_nan())).unwrap_or(false)
                            };
                            if !same { bad.push(format!("{:?}: {} encoded as {:?}", v, k, t)); }
                        }
                    }
                }
                if se.parameters().len() != 3 { bad.push(format!("{:?}: {} entries", v, se.parameters().len())); }
                // the same text must reach the service error's parameter sets
                let e = conjure_error::Error::service_safe("x", D { d: v, f: 0.0, od: None });
                let sp: Vec<String> = e.safe_params().iter().filter(|(k, _)| *k == "d").map(|(_, a)| conjure_serde::json::to_string(a).unwrap_or_default()).collect();
                let txt = se.parameters().get("d").cloned().unwrap_or_default();
                if sp != vec![serde_json::to_string(&txt).unwrap()] { bad.push(format!("{:?}: safe param d = {:?}, encoded {:?}", v, sp, txt)); }
            }
            json!({"ok": bad.is_empty(), "bad": bad})
        }
        "loopback_gen" => {
            // C04: the client emitted by the real generator wired to the #[conjure_endpoints] trait emitted by the real generator
            use conjure_http::client::{Client, RequestBody, Service as ClientService};
            use conjure_http::server::{ConjureRuntime, Endpoint, PathSegment, ResponseBody, Service};
            use std::sync::{Arc, Mutex};
            use verif_service::gen::p::{Gsvc, GsvcClient, GsvcEndpoints};
            type Items = std::vec::IntoIter<Result<bytes::Bytes, conjure_error::Error>>;
            struct H(Arc<Mutex<Vec<Value>>>, String, Option<String>, Vec<i32>);
            impl Gsvc for H {
                fn g1(&self, auth_: BearerToken, path_arg: i32, query_arg: String, header_arg: i32) -> Result<(), conjure_error::Error> {
                    self.0.lock().unwrap().push(json!({"endpoint": "g1", "path_arg": path_arg, "query_arg": tohex(query_arg.as_bytes()), "header_arg": header_arg, "token": auth_.as_str()}));
                    Ok(())
                }
                fn g2(&self, auth_: BearerToken, p: String, opt_arg: Option<i32>, lst_arg: Vec<i32>, bar_arg: Option<String>) -> Result<(), conjure_error::Error> {
                    self.0.lock().unwrap().push(json!({"endpoint": "g2", "p_arg": tohex(p.as_bytes()), "opt_arg": opt_arg, "lst_arg": lst_arg, "bar_arg": bar_arg.map(|b| tohex(b.as_bytes())), "token": auth_.as_str()}));
                    Ok(())
                }
                fn g3(&self, body_arg: String) -> Result<String, conjure_error::Error> {
                    self.0.lock().unwrap().push(json!({"endpoint": "g3", "body_arg": tohex(body_arg.as_bytes())}));
                    Ok(self.1.clone())
                }
                fn g4(&self, set_arg: std::collections::BTreeSet<String>, opt_body: Option<String>) -> Result<Option<String>, conjure_error::Error> {
                    self.0.lock().unwrap().push(json!({"endpoint": "g4", "set_arg": set_arg.iter().map(|x| tohex(x.as_bytes())).collect::<Vec<_>>(), "opt_body": opt_body.map(|b| tohex(b.as_bytes()))}));
                    Ok(self.2.clone())
                }
                fn g5(&self, tok: BearerToken, qt: BearerToken) -> Result<(), conjure_error::Error> {
                    self.0.lock().unwrap().push(json!({"endpoint": "g5", "tok": tok.as_str(), "qt": qt.as_str()}));
                    Ok(())
                }
                fn g7(&self) -> Result<verif_service::gen::p::IntListAlias, conjure_error::Error> {
                    self.0.lock().unwrap().push(json!({"endpoint": "g7"}));
                    Ok(verif_service::gen::p::IntListAlias(self.3.clone()))
                }
                fn g6(&self, lst: Vec<i32>, sset: std::collections::BTreeSet<String>, q: String) -> Result<(), conjure_error::Error> {
                    self.0.lock().unwrap().push(json!({"endpoint": "g6", "lst_arg": lst, "set_arg": sset.iter().map(|x| tohex(x.as_bytes())).collect::<Vec<_>>(), "q_arg": tohex(q.as_bytes())}));
                    Ok(())
                }
            }
            struct Loop(Vec<Box<dyn Endpoint<Items, Vec<u8>> + Sync + Send>>);
            impl Client for Loop {
                type BodyWriter = Vec<u8>;
                type ResponseBody = Items;
                fn send(&self, req: http::Request<RequestBody<'_, Vec<u8>>>) -> Result<http::Response<Items>, conjure_error::Error> {
                    let (parts, body) = req.into_parts();
                    let body = match body {
                        RequestBody::Empty => vec![],
                        RequestBody::Fixed(b) => vec![Ok(b)],
                        RequestBody::Streaming(mut w) => { let mut buf = vec![]; w.write_body(&mut buf)?; vec![Ok(bytes::Bytes::from(buf))] }
                    };
                    let segs: Vec<&str> = parts.uri.path().split('/').skip(1).collect();
                    for e in &self.0 {
                        if e.method() != parts.method || e.path().len() != segs.len() { continue; }
                        let mut pp = conjure_http::PathParams::new();
                        let mut ok = true;
                        for (t, s) in e.path().iter().zip(&segs) {
                            match t {
                                PathSegment::Literal(l) => ok &= l == s,
                                PathSegment::Parameter { name, .. } => pp.insert(&**name, *s),
                            }
                        }
                        if !ok { continue; }
                        let mut sreq = http::Request::new(body.into_iter());
                        *sreq.method_mut() = parts.method.clone();
                        *sreq.uri_mut() = parts.uri.clone();
                        *sreq.headers_mut() = parts.headers.clone();
                        sreq.extensions_mut().insert(pp);
                        let mut ext = http::Extensions::new();
                        let resp = e.handle(sreq, &mut ext)?;
                        let (rparts, rbody) = resp.into_parts();
                        let items = match rbody {
                            ResponseBody::Empty => vec![],
                            ResponseBody::Fixed(b) => vec![Ok(b)],
                            ResponseBody::Streaming(w) => { let mut buf = vec![]; w.write_body(&mut buf)?; vec![Ok(bytes::Bytes::from(buf))] }
                        };
                        return Ok(http::Response::from_parts(rparts, items.into_iter()));
                    }
                    Err(conjure_error::Error::internal_safe("no endpoint matches the request"))
                }
            }
            // the same handler behind the ASYNC server flavour ("async_server": true): AsyncGsvc endpoints driven by block_on
            use conjure_http::server::{AsyncEndpoint, AsyncResponseBody, AsyncService, EndpointMetadata};
            use verif_service::gen::p::{AsyncGsvc, AsyncGsvcEndpoints};
            struct AH(H);
            impl AsyncGsvc for AH {
                async fn g1(&self, auth_: BearerToken, path_arg: i32, query_arg: String, header_arg: i32) -> Result<(), conjure_error::Error> { Gsvc::g1(&self.0, auth_, path_arg, query_arg, header_arg) }
                async fn g2(&self, auth_: BearerToken, p: String, opt_arg: Option<i32>, lst_arg: Vec<i32>, bar_arg: Option<String>) -> Result<(), conjure_error::Error> { Gsvc::g2(&self.0, auth_, p, opt_arg, lst_arg, bar_arg) }
                async fn g3(&self, body_arg: String) -> Result<String, conjure_error::Error> { Gsvc::g3(&self.0, body_arg) }
                async fn g4(&self, set_arg: std::collections::BTreeSet<String>, opt_body: Option<String>) -> Result<Option<String>, conjure_error::Error> { Gsvc::g4(&self.0, set_arg, opt_body) }
                async fn g5(&self, tok: BearerToken, qt: BearerToken) -> Result<(), conjure_error::Error> { Gsvc::g5(&self.0, tok, qt) }
                async fn g6(&self, lst: Vec<i32>, sset: std::collections::BTreeSet<String>, q: String) -> Result<(), conjure_error::Error> { Gsvc::g6(&self.0, lst, sset, q) }
                async fn g7(&self) -> Result<verif_service::gen::p::IntListAlias, conjure_error::Error> { Gsvc::g7(&self.0) }
            }
            type AItems = futures::stream::Iter<std::vec::IntoIter<Result<bytes::Bytes, conjure_error::Error>>>;
            struct ALoop(Vec<conjure_http::server::BoxAsyncEndpoint<'static, AItems, Vec<u8>>>);
            impl Client for ALoop {
                type BodyWriter = Vec<u8>;
                type ResponseBody = Items;
                fn send(&self, req: http::Request<RequestBody<'_, Vec<u8>>>) -> Result<http::Response<Items>, conjure_error::Error> {
                    let (parts, body) = req.into_parts();
                    let body = match body {
                        RequestBody::Empty => vec![],
                        RequestBody::Fixed(b) => vec![Ok(b)],
                        RequestBody::Streaming(mut w) => { let mut buf = vec![]; w.write_body(&mut buf)?; vec![Ok(bytes::Bytes::from(buf))] }
                    };
                    let segs: Vec<&str> = parts.uri.path().split('/').skip(1).collect();
                    for e in &self.0 {
                        if e.method() != parts.method || e.path().len() != segs.len() { continue; }
                        let mut pp = conjure_http::PathParams::new();
                        let mut ok = true;
                        for (t, s) in e.path().iter().zip(&segs) {
                            match t {
                                PathSegment::Literal(l) => ok &= l == s,
                                PathSegment::Parameter { name, .. } => pp.insert(AsRef::<str>::as_ref(name), *s),
                            }
                        }
                        if !ok { continue; }
                        let mut sreq = http::Request::new(futures::stream::iter(body));
                        *sreq.method_mut() = parts.method.clone();
                        *sreq.uri_mut() = parts.uri.clone();
                        *sreq.headers_mut() = parts.headers.clone();
                        sreq.extensions_mut().insert(pp);
                        let mut ext = http::Extensions::new();
                        let resp = futures::executor::block_on(e.handle(sreq, &mut ext))?;
                        let (rparts, rbody) = resp.into_parts();
                        let items = match rbody {
                            AsyncResponseBody::Empty => vec![],
                            AsyncResponseBody::Fixed(b) => vec![Ok(b)],
                            AsyncResponseBody::Streaming(_) => return Err(conjure_error::Error::internal_safe("streaming response not supported by the replay router")),
                        };
                        return Ok(http::Response::from_parts(rparts, items.into_iter()));
                    }
                    Err(conjure_error::Error::internal_safe("no endpoint matches the request"))
                }
            }
            let calls = Arc::new(Mutex::new(vec![]));
            let ret = String::from_utf8(hex(op["ret"].as_str().unwrap_or(""))).unwrap_or_default();
            let ret_opt = op["ret_opt"].as_str().map(|h| String::from_utf8(hex(h)).unwrap_or_default());
            let ret_list: Vec<i32> = op["ret_list"].as_array().map(|a| a.iter().map(|v| v.as_i64().unwrap() as i32).collect()).unwrap_or_default();
            let svc = GsvcEndpoints::new(H(calls.clone(), ret, ret_opt, ret_list.clone()));
            let rt = Arc::new(ConjureRuntime::new());
            let s = |k: &str| String::from_utf8(hex(op[k].as_str().unwrap_or(""))).unwrap_or_default();
            let tok = |k: &str| BearerToken::new(op[k].as_str().unwrap_or("t")).unwrap();
            let i = |k: &str| op[k].as_i64().unwrap_or(0) as i32;
            macro_rules! drive { ($client:expr) => {{ let client = $client; match op["endpoint"].as_str().unwrap() {
                "g1" => client.g1(&tok("token"), i("path_arg"), &s("query_arg"), i("header_arg")).map(|_| Value::Null),
                "g2" => {
                    let bar = if op["bar_arg"].is_null() { None } else { Some(s("bar_arg")) };
                    let lst: Vec<i32> = op["lst_arg"].as_array().map(|a| a.iter().map(|v| v.as_i64().unwrap() as i32).collect()).unwrap_or_default();
                    client.g2(&tok("token"), &s("p_arg"), op["opt_arg"].as_i64().map(|v| v as i32), &lst, bar.as_deref()).map(|_| Value::Null)
                }
                "g3" => client.g3(&s("body_arg")).map(|v| Value::String(tohex(v.as_bytes()))),
                "g5" => client.g5(&tok("tok"), &tok("qt")).map(|_| Value::Null),
                "g7" => client.g7().map(|v| json!(v.0)),
                "g6" => {
                    let lst: Vec<i32> = op["lst_arg"].as_array().map(|a| a.iter().map(|v| v.as_i64().unwrap() as i32).collect()).unwrap_or_default();
                    let set: std::collections::BTreeSet<String> = op["set_arg"].as_array().map(|a| a.iter().map(|v| String::from_utf8(hex(v.as_str().unwrap())).unwrap_or_default()).collect()).unwrap_or_default();
                    client.g6(&lst, &set, &s("q_arg")).map(|_| Value::Null)
                }
                "g4" => {
                    let set: std::collections::BTreeSet<String> = op["set_arg"].as_array().map(|a| a.iter().map(|v| String::from_utf8(hex(v.as_str().unwrap())).unwrap_or_default()).collect()).unwrap_or_default();
                    let ob = if op["opt_body"].is_null() { None } else { Some(s("opt_body")) };
                    client.g4(&set, ob.as_deref()).map(|v| v.map(|x| Value::String(tohex(x.as_bytes()))).unwrap_or(Value::Null))
                }
                _ => return json!({"error": "endpoint"}),
            } }}; }
            let r = if op["async_server"].as_bool().unwrap_or(false) {
                let ret_opt2 = op["ret_opt"].as_str().map(|h| String::from_utf8(hex(h)).unwrap_or_default());
                let ret2 = String::from_utf8(hex(op["ret"].as_str().unwrap_or(""))).unwrap_or_default();
                let asvc = AsyncGsvcEndpoints::new(AH(H(calls.clone(), ret2, ret_opt2, ret_list.clone())));
                drive!(<GsvcClient<ALoop> as ClientService<ALoop>>::new(ALoop(AsyncService::endpoints(&asvc, &rt))))
            } else {
                drive!(<GsvcClient<Loop> as ClientService<Loop>>::new(Loop(Service::endpoints(&svc, &rt))))
            };
            let c = calls.lock().unwrap().clone();
            match r {
                Ok(v) => json!({"ok": true, "returned": v, "calls": c}),
                Err(e) => json!({"ok": false, "calls": c, "cause": e.cause().to_string()}),
            }
        }
        "error_instance_id" => {
            // C17: an explicitly supplied instance id survives encode() and Error::service_safe when the error is handed over by value,
            // behind a reference, behind a reference to a reference, or boxed
            use conjure_error::{ErrorType, InvalidArgument};
            let id = conjure_object::Uuid::from_u128(0x0123456789abcdef0123456789abcdef);
            let e = InvalidArgument::new().with_instance_id(id);
            let by_ref = conjure_error::encode(&e).error_instance_id() == id;
            let by_ref_ref = conjure_error::encode(&&e).error_instance_id() == id;
            let via_service = match conjure_error::Error::service_safe("cause", &e).kind() { conjure_error::ErrorKind::Service(s) => s.error_instance_id() == id, _ => false };
            let meta = (&e).code() == e.code() && (&e).name() == e.name() && (&e).safe_args() == e.safe_args();
            json!({"ok": by_ref && by_ref_ref && via_service && meta, "by_ref": by_ref, "by_ref_ref": by_ref_ref, "service_ref": via_service, "meta": meta})
        }
        "gen_error" => {
            // C17: error types emitted by the real generator: ErrorType metadata, encode(), and the safe/unsafe partition of Error::service_safe
            use conjure_error::ErrorType;
            fn show<E: ErrorType + serde::Serialize + Clone>(e: E) -> Value {
                let se = conjure_error::encode(&e);
                let mut params: Vec<(String, String)> = se.parameters().iter().map(|(k, v)| (k.clone(), v.clone())).collect();
                params.sort();
                let err = conjure_error::Error::service_safe("cause", e.clone());
                let mut sp: Vec<String> = err.safe_params().iter().map(|(k, _)| k.to_string()).collect();
                let mut up: Vec<String> = err.unsafe_params().iter().map(|(k, _)| k.to_string()).collect();
                sp.sort(); up.sort();
                json!({"name": e.name(), "code": format!("{:?}", e.code()), "safe_args": e.safe_args(), "encoded_name": se.error_name(), "encoded_code": format!("{:?}", se.error_code()),
                       "params": params, "safe_params": sp, "unsafe_params": up})
            }
            json!({"http": show(verif_types::types::p::HttpUpstreamFailed::new("z", 7, "s")), "plain": show(verif_types::types::p::PlainErr::new())})
        }
        "client_macro_status" => {
            // C18: the #[conjure_client] client (ConjureResponseDeserializer) with an `any` result against a scripted response, blocking and async
            use conjure_http::client::{AsyncClient, AsyncRequestBody, AsyncService as AsyncClientService, Client, RequestBody, Service as ClientService};
            use verif_endpoints::{SvcApi, SvcApiAsync, SvcApiAsyncClient, SvcApiClient};
            type Items = std::vec::IntoIter<Result<bytes::Bytes, conjure_error::Error>>;
            #[derive(Clone)]
            struct Scripted(u16, Option<String>, Vec<u8>);
            impl Scripted {
                fn response<B>(&self, body: B) -> http::Response<B> {
                    let mut r = http::Response::new(body);
                    *r.status_mut() = http::StatusCode::from_u16(self.0).unwrap();
                    if let Some(ct) = &self.1 { r.headers_mut().insert(http::header::CONTENT_TYPE, http::HeaderValue::from_str(ct).unwrap()); }
                    r
                }
                fn items(&self) -> Vec<Result<bytes::Bytes, conjure_error::Error>> { if self.2.is_empty() { vec![] } else { vec![Ok(bytes::Bytes::from(self.2.clone()))] } }
            }
            impl Client for Scripted {
                type BodyWriter = Vec<u8>;
                type ResponseBody = Items;
                fn send(&self, _req: http::Request<RequestBody<'_, Vec<u8>>>) -> Result<http::Response<Items>, conjure_error::Error> { Ok(self.response(self.items().into_iter())) }
            }
            impl AsyncClient for Scripted {
                type BodyWriter = Vec<u8>;
                type ResponseBody = futures::stream::Iter<Items>;
                async fn send(&self, _req: http::Request<AsyncRequestBody<'_, Vec<u8>>>) -> Result<http::Response<Self::ResponseBody>, conjure_error::Error> { Ok(self.response(futures::stream::iter(self.items()))) }
            }
            let sc = Scripted(op["status"].as_u64().unwrap_or(200) as u16, op["content_type"].as_str().map(|x| x.to_string()), hex(op["body"].as_str().unwrap_or("")));
            let show = |r: Result<conjure_object::Any, conjure_error::Error>| match r { Ok(v) => json!({"ok": true, "returned": conjure_serde::json::to_string(&v).unwrap_or_default()}), Err(e) => json!({"ok": false, "cause": e.cause().to_string()}) };
            let b = show(<SvcApiClient<Scripted> as ClientService<Scripted>>::new(sc.clone()).e4());
            let a = show(futures::executor::block_on(<SvcApiAsyncClient<Scripted> as AsyncClientService<Scripted>>::new(sc).e4()));
            json!({"blocking": b, "async": a})
        }
        "client_gen_status" => {
            // C18: the client emitted by the real generator against a scripted response (status, Content-Type, one body chunk)
            use conjure_http::client::{Client, RequestBody, Service as ClientService};
            use verif_service::gen::p::GsvcClient;
            type Items = std::vec::IntoIter<Result<bytes::Bytes, conjure_error::Error>>;
            struct Scripted(u16, Option<String>, Vec<u8>);
            impl Client for Scripted {
                type BodyWriter = Vec<u8>;
                type ResponseBody = Items;
                fn send(&self, _req: http::Request<RequestBody<'_, Vec<u8>>>) -> Result<http::Response<Items>, conjure_error::Error> {
                    let items: Vec<Result<bytes::Bytes, conjure_error::Error>> = if self.2.is_empty() { vec![] } else { vec![Ok(bytes::Bytes::from(self.2.clone()))] };
                    let mut r = http::Response::new(items.into_iter());
                    *r.status_mut() = http::StatusCode::from_u16(self.0).unwrap();
                    if let Some(ct) = &self.1 { r.headers_mut().insert(http::header::CONTENT_TYPE, http::HeaderValue::from_str(ct).unwrap()); }
                    Ok(r)
                }
            }
            let client = <GsvcClient<Scripted> as ClientService<Scripted>>::new(Scripted(op["status"].as_u64().unwrap_or(200) as u16, op["content_type"].as_str().map(|x| x.to_string()), hex(op["body"].as_str().unwrap_or(""))));
            let tok = BearerToken::new("t").unwrap();
            let r = match op["endpoint"].as_str().unwrap() {
                "g1" => client.g1(&tok, 1, "q", 2).map(|_| Value::Null),
                "g3" => client.g3("b").map(|v| Value::String(tohex(v.as_bytes()))),
                "g4" => client.g4(&std::collections::BTreeSet::new(), None).map(|v| v.map(|x| Value::String(tohex(x.as_bytes()))).unwrap_or(Value::Null)),
                "g7" => client.g7().map(|v| json!(v.0)),
                _ => return json!({"error": "endpoint"}),
            };
            match r { Ok(v) => json!({"ok": true, "returned": v}), Err(e) => json!({"ok": false, "cause": e.cause().to_string()}) }
        }
        "double_map_laws" => {
            // C14: DoubleOps for BTreeMap<i32, f64> on three concrete maps
            use conjure_object::private::DoubleOps;
            use std::collections::BTreeMap;
            use std::hash::Hasher;
            struct Rec(Vec<u8>);
            impl Hasher for Rec {
                fn finish(&self) -> u64 { 0 }
                fn write(&mut self, b: &[u8]) { self.0.extend_from_slice(b); self.0.push(0xfe); }
            }
            let mk = |k: &str| -> BTreeMap<i32, f64> {
                op[k].as_array().unwrap().iter().map(|e| (e[0].as_i64().unwrap() as i32, f64::from_bits(u64::from_str_radix(e[1].as_str().unwrap().trim_start_matches("0x"), 16).unwrap()))).collect()
            };
            let (a, b, c) = (mk("a"), mk("b"), mk("c"));
            let o = |x: std::cmp::Ordering| x as i8;
            let h = |m: &BTreeMap<i32, f64>| { let mut r = Rec(vec![]); DoubleOps::hash(m, &mut r); r.0 };
            json!({"ab": o(DoubleOps::cmp(&a, &b)), "ba": o(DoubleOps::cmp(&b, &a)), "bc": o(DoubleOps::cmp(&b, &c)), "ac": o(DoubleOps::cmp(&a, &c)), "aa": o(DoubleOps::cmp(&a, &a)),
                   "eq_ab": DoubleOps::eq(&a, &b), "eq_ba": DoubleOps::eq(&b, &a), "eq_aa": DoubleOps::eq(&a, &a), "hash_same": h(&a) == h(&b)})
        }
        "nested_shapes" => {
            // C01/C05: Conjure behaviour re-applied below every container kind, natively (JSON and Smile)
            use std::collections::BTreeMap;
            #[derive(serde::Serialize, serde::Deserialize, PartialEq, Debug, Clone)]
            struct S1 { a: i32 }
            #[derive(serde::Serialize, serde::Deserialize, PartialEq, Debug, Clone)]
            struct W<T> { inner: T }
            fn rt<T: serde::Serialize + serde::de::DeserializeOwned + PartialEq + std::fmt::Debug>(v: &T) -> bool {
                let j = conjure_serde::json::to_vec(v).ok();
                let s = conjure_serde::smile::to_vec(v).ok();
                let a = j.as_ref().map(|b| conjure_serde::json::client_from_slice::<T>(b).ok().as_ref() == Some(v) && conjure_serde::json::server_from_slice::<T>(b).ok().as_ref() == Some(v));
                let b = s.as_ref().map(|b| conjure_serde::smile::client_from_slice::<T>(b).ok().as_ref() == Some(v) && conjure_serde::smile::server_from_slice::<T>(b).ok().as_ref() == Some(v));
                a == Some(true) && b == Some(true)
            }
            fn rejects<T: serde::de::DeserializeOwned>(doc: &str) -> bool {
                let val: Value = serde_json::from_str(doc).unwrap();
                let sm = conjure_serde::smile::to_vec(&val).unwrap();
                conjure_serde::json::server_from_str::<T>(doc).is_err() && conjure_serde::smile::server_from_slice::<T>(&sm).is_err()
                    && conjure_serde::json::client_from_str::<T>(doc).is_ok() && conjure_serde::smile::client_from_slice::<T>(&sm).is_ok()
            }
            let bin = serde_bytes_like(vec![1u8, 2, 250]);
            let mut mb = BTreeMap::new(); mb.insert("k".to_string(), bin.clone());
            let mut mf = BTreeMap::new(); mf.insert("k".to_string(), f64::NAN.to_bits());
            let mut mbool = BTreeMap::new(); mbool.insert(true, 1i32);
            let mut mm = BTreeMap::new(); mm.insert("o".to_string(), mbool.clone());
            let nan_rt = |wrap: &dyn Fn(f64) -> Value| -> bool { let _ = wrap; true };
            let _ = nan_rt;
            fn nan_map() -> bool {
                let mut m = BTreeMap::new(); m.insert("k".to_string(), f64::INFINITY);
                let j = conjure_serde::json::to_string(&m).unwrap();
                j == "{\"k\":\"Infinity\"}" && conjure_serde::json::server_from_str::<BTreeMap<String, f64>>(&j).ok() == Some(m.clone())
                    && conjure_serde::json::client_from_str::<BTreeMap<String, f64>>(&j).ok() == Some(m)
            }
            let _ = mf;
            json!({
                "map_value_binary": rt(&mb), "list_binary": rt(&vec![bin.clone()]), "option_binary": rt(&Some(bin.clone())), "struct_binary": rt(&W { inner: bin.clone() }),
                "map_value_nonfinite": nan_map(), "nested_map_bool_key": rt(&mm), "map_bool_key": rt(&mbool),
                "unknown_in_map_value": rejects::<BTreeMap<String, S1>>("{\"k\":{\"a\":1,\"bogus\":null}}"),
                "unknown_in_list": rejects::<Vec<S1>>("[{\"a\":1,\"bogus\":[1]}]"),
                "unknown_in_option": rejects::<Option<S1>>("{\"a\":1,\"bogus\":{}}"),
                "unknown_in_struct_field": rejects::<W<S1>>("{\"inner\":{\"a\":1,\"bogus\":1}}"),
                "unknown_in_map_in_list": rejects::<Vec<BTreeMap<String, S1>>>("[{\"k\":{\"bogus\":1,\"a\":1}}]"),
            })
        }
        "smile_nested" => {
            // C01: values whose serde impls consult is_human_readable(), nested below a container, through Smile and JSON
            use conjure_object::{ResourceIdentifier, Uuid};
            use std::collections::BTreeMap;
            let u = Uuid::from_bytes(<[u8; 16]>::try_from(&hex(op["uuid"].as_str().unwrap_or("00112233445566778899aabbccddeeff"))[..]).unwrap());
            fn rt<T: serde::Serialize + serde::de::DeserializeOwned + PartialEq + std::fmt::Debug>(v: &T) -> Value {
                let sm = conjure_serde::smile::to_vec(v);
                let sm_server = sm.as_ref().ok().map(|b| conjure_serde::smile::server_from_slice::<T>(b));
                let sm_client = sm.as_ref().ok().map(|b| conjure_serde::smile::client_from_slice::<T>(b));
                let js = conjure_serde::json::to_vec(v);
                let js_server = js.as_ref().ok().map(|b| conjure_serde::json::server_from_slice::<T>(b));
                let show = |r: Option<Result<T, String>>| match r { Some(Ok(x)) => if &x == v { "equal".to_string() } else { format!("different: {:?}", x) }, Some(Err(e)) => format!("error: {}", e), None => "not serialized".to_string() };
                json!({"smile_server": show(sm_server.map(|r| r.map_err(|e| e.to_string()))), "smile_client": show(sm_client.map(|r| r.map_err(|e| e.to_string()))),
                       "json_server": show(js_server.map(|r| r.map_err(|e| e.to_string())))})
            }
            let mut m = BTreeMap::new();
            m.insert(u, 1i32);
            let rid = ResourceIdentifier::new("ri.a.b.c.d").unwrap();
            json!({"top_uuid": rt(&u), "vec_uuid": rt(&vec![u]), "option_uuid": rt(&Some(u)), "map_uuid_key": rt(&m), "vec_rid": rt(&vec![rid])})
        }
        "gen_objd" => {
            // C02 objects: the generated ObjD (required double d, optional double od, list<double> ld) in the three configurations,
            // read by the client deserializer (unknown keys are the server wrappers' business: C05)
            let doc = op["doc"].as_str().unwrap();
            macro_rules! show {
                ($m:ident) => {{
                    match conjure_serde::json::client_from_str::<verif_types::$m::p::ObjD>(doc) {
                        Ok(v) => format!("ok:d=set,od={},ld={}", if v.od().is_some() { "set" } else { "empty" }, if v.ld().is_empty() { "empty" } else { "set" }),
                        Err(_) => "err".to_string(),
                    }
                }};
            }
            json!({"default": show!(types), "exhaustive": show!(exhaustive_types), "empty": show!(empty_types)})
        }
        "gen_objd_ser" => {
            let (opt, coll) = (op["opt"].as_bool().unwrap(), op["coll"].as_bool().unwrap());
            macro_rules! keys {
                ($m:ident) => {{
                    let b = verif_types::$m::p::ObjD::builder().d(1.5).od(if opt { Some(2.5) } else { None });
                    let v = if coll { b.push_ld(3.5).build() } else { b.build() };
                    let text = conjure_serde::json::to_string(&v).unwrap();
                    let val: Value = serde_json::from_str(&text).unwrap();
                    // key order as written
                    let mut ks: Vec<(usize, String)> = val.as_object().unwrap().keys().map(|k| (text.find(&format!("\"{}\":", k)).unwrap_or(0), k.clone())).collect();
                    ks.sort();
                    ks.into_iter().map(|(_, k)| k).collect::<Vec<_>>()
                }};
            }
            json!({"default": keys!(types), "exhaustive": keys!(exhaustive_types), "empty": keys!(empty_types)})
        }
        "unknown_fields" => {
            #[derive(serde::Deserialize, Debug)]
            #[allow(dead_code)]
            struct S0 {}
            #[derive(serde::Deserialize, Debug)]
            #[allow(dead_code)]
            struct S1 { a: i32 }
            #[derive(serde::Deserialize, Debug)]
            #[allow(dead_code)]
            struct S2 { a: i32, b: i32 }
            let doc = op["doc"].as_str().unwrap();
            let val: Value = serde_json::from_str(doc).unwrap();
            let smile = conjure_serde::smile::to_vec(&val).unwrap();
            fn show<T: std::fmt::Debug, E: std::fmt::Display>(r: Result<T, E>) -> String {
                match r {
                    Ok(_) => "ok".to_string(),
                    Err(e) => {
                        let m = e.to_string();
                        match m.find("unknown field `") {
                            Some(i) => { let rest = &m[i + 15..]; format!("err:{}", &rest[..rest.find('`').unwrap_or(rest.len())]) }
                            None => format!("err?{}", m),
                        }
                    }
                }
            }
            macro_rules! go {
                ($t:ty) => {
                    json!({"json": {"server": show(conjure_serde::json::server_from_str::<$t>(doc)), "client": show(conjure_serde::json::client_from_str::<$t>(doc))},
                           "smile": {"server": show(conjure_serde::smile::server_from_slice::<$t>(&smile)), "client": show(conjure_serde::smile::client_from_slice::<$t>(&smile))}})
                };
            }
            match op["fields"].as_u64().unwrap() { 0 => go!(S0), 1 => go!(S1), _ => go!(S2) }
        }
        "any_newtype" => {
            // C13: a serde-derived (non-transparent) newtype struct carried by Any, alone and inside a struct / list; JSON is the reference
            use conjure_object::Any;
            #[derive(serde::Serialize, serde::Deserialize, Debug, PartialEq, Clone)]
            struct N(i32);
            #[derive(serde::Serialize, serde::Deserialize, Debug, PartialEq, Clone)]
            struct W { n: N, v: Vec<N>, o: Option<N> }
            let x = op["n"].as_i64().unwrap_or(0) as i32;
            let a = Any::new(N(x)).map_err(|e| e.to_string()).and_then(|a| a.deserialize_into::<N>().map_err(|e| e.to_string()));
            let w = W { n: N(x), v: vec![N(x), N(0)], o: Some(N(x)) };
            let b = Any::new(&w).map_err(|e| e.to_string()).and_then(|a| a.deserialize_into::<W>().map_err(|e| e.to_string()));
            let j = serde_json::to_string(&w).ok().and_then(|t| serde_json::from_str::<W>(&t).ok());
            json!({"same": a.as_ref().ok() == Some(&N(x)) && b.as_ref().ok() == Some(&w), "alone": format!("{:?}", a), "nested": format!("{:?}", b), "json_reference_ok": j == Some(w)})
        }
        "any_key" => {
            // C13: a JSON object whose key is the decimal text of an integer, carried by Any, read back as a map keyed by that integer type
            use conjure_object::Any;
            let ty = op["ty"].as_str().unwrap();
            let n = op["n"].as_str().unwrap();
            let doc = format!("{{\"{}\":1}}", n);
            macro_rules! k {
                ($t:ty) => {{
                    let want: $t = n.parse().unwrap();
                    let direct = conjure_serde::json::client_from_str::<std::collections::BTreeMap<$t, i32>>(&doc).map(|m| m.keys().next().cloned()).ok().flatten();
                    match conjure_serde::json::client_from_str::<Any>(&doc).map_err(|e| e.to_string()).and_then(|a| a.deserialize_into::<std::collections::BTreeMap<$t, i32>>().map_err(|e| e.to_string())) {
                        Ok(m) => json!({"same": m.len() == 1 && m.keys().next() == Some(&want) && direct == Some(want), "keys": format!("{:?}", m.keys().collect::<Vec<_>>())}),
                        Err(e) => json!({"same": false, "err": e, "direct_ok": direct == Some(want)}),
                    }
                }};
            }
            if ty == "bytes" {
                // binary map key: the key text is Base64; read back as bytes it must be the decoded bytes, as through plain JSON
                let raw = hex(n);
                let text = base64_std(&raw);
                let doc = format!("{{\"{}\":1}}", text);
                let direct = conjure_serde::json::client_from_str::<std::collections::BTreeMap<bytes::Bytes, i32>>(&doc).ok().and_then(|m| m.keys().next().cloned());
                return match conjure_serde::json::client_from_str::<Any>(&doc).map_err(|e| e.to_string()).and_then(|a| a.deserialize_into::<std::collections::BTreeMap<bytes::Bytes, i32>>().map_err(|e| e.to_string())) {
                    Ok(m) => json!({"same": m.len() == 1 && m.keys().next().map(|k| k.as_ref() == &raw[..]).unwrap_or(false) && direct.as_ref().map(|k| k.as_ref() == &raw[..]).unwrap_or(false), "key_hex": m.keys().next().map(|k| tohex(k.as_ref()))}),
                    Err(e) => json!({"same": false, "err": e}),
                };
            }
            match ty {
                "i8" => k!(i8), "i16" => k!(i16), "i32" => k!(i32), "i64" => k!(i64), "i128" => k!(i128),
                "u8" => k!(u8), "u16" => k!(u16), "u32" => k!(u32), "u64" => k!(u64), "u128" => k!(u128),
                _ => json!({"error": "ty"}),
            }
        }
        "any_nested" => {
            // C13: an Any nested inside a static type survives a trip through the outer Any unchanged (kind included), for every width
            use conjure_object::Any;
            use std::collections::BTreeMap;
            let leaves: Vec<(&str, Any)> = vec![("i8", Any::new(-5i8).unwrap()), ("i16", Any::new(-300i16).unwrap()), ("i32", Any::new(-70000i32).unwrap()), ("i64", Any::new(i64::MIN).unwrap()),
                ("u8", Any::new(200u8).unwrap()), ("u16", Any::new(60000u16).unwrap()), ("u32", Any::new(4000000000u32).unwrap()), ("u64", Any::new(u64::MAX).unwrap()),
                ("f32", Any::new(0.1f32).unwrap()), ("f64", Any::new(0.1f64).unwrap()), ("i128", Any::new(i128::MIN).unwrap()), ("u128", Any::new(u128::MAX).unwrap()),
                ("bool", Any::new(true).unwrap()), ("str", Any::new("x").unwrap()), ("unit", Any::new(()).unwrap())];
            let mut bad: Vec<String> = vec![];
            for (k, leaf) in &leaves {
                let list = vec![leaf.clone()];
                let back = Any::new(&list).and_then(|a| a.deserialize_into::<Vec<Any>>());
                if back.as_ref().ok() != Some(&list) { bad.push(format!("list<any> of {}: {:?}", k, back.map(|b| format!("{:?}", b)).map_err(|e| e.to_string()))); }
                let mut m = BTreeMap::new(); m.insert("k".to_string(), leaf.clone());
                let back = Any::new(&m).and_then(|a| a.deserialize_into::<BTreeMap<String, Any>>());
                if back.as_ref().ok() != Some(&m) { bad.push(format!("map<string, any> of {}", k)); }
                let o = Some(leaf.clone());
                let back = Any::new(&o).and_then(|a| a.deserialize_into::<Option<Any>>());
                if *k != "unit" && back.as_ref().ok() != Some(&o) { bad.push(format!("optional<any> of {}", k)); }   // Some(unit) is null, which an optional reads as absent
                let back = Any::new(leaf).and_then(|a| a.deserialize_into::<Any>());
                if back.as_ref().ok() != Some(leaf) { bad.push(format!("any of {}", k)); }
                let direct = serde_json::to_string(&list).ok();
                let via = Any::new(&list).ok().and_then(|a| a.deserialize_into::<Vec<Any>>().ok()).and_then(|b| serde_json::to_string(&b).ok());
                if direct != via { bad.push(format!("document of list<any> of {}: {:?} vs {:?}", k, direct, via)); }
            }
            json!({"ok": bad.is_empty(), "bad": bad})
        }
        "any_prim" => {
            use conjure_object::Any;
            let ty = op["ty"].as_str().unwrap();
            let n = op["n"].as_str().unwrap();
            macro_rules! rt {
                ($t:ty, $v:expr) => {{
                    let v: $t = $v;
                    match Any::new(v) {
                        Err(e) => json!({"same": false, "new_err": e.to_string()}),
                        Ok(a) => {
                            let direct = serde_json::to_string(&v).ok();
                            let via = serde_json::to_string(&a).ok();
                            match a.deserialize_into::<$t>() {
                                Ok(b) => json!({"same": format!("{:?}", b) == format!("{:?}", v) && direct == via, "back": format!("{:?}", b), "json_direct": direct, "json_via_any": via}),
                                Err(e) => json!({"same": false, "into_err": e.to_string()}),
                            }
                        }
                    }
                }};
            }
            match ty {
                "i8" => rt!(i8, n.parse().unwrap()), "i16" => rt!(i16, n.parse().unwrap()), "i32" => rt!(i32, n.parse().unwrap()),
                "i64" => rt!(i64, n.parse().unwrap()), "i128" => rt!(i128, n.parse().unwrap()),
                "u8" => rt!(u8, n.parse().unwrap()), "u16" => rt!(u16, n.parse().unwrap()), "u32" => rt!(u32, n.parse().unwrap()),
                "u64" => rt!(u64, n.parse().unwrap()), "u128" => rt!(u128, n.parse().unwrap()),
                "bool" => rt!(bool, n == "1"),
                "char" => rt!(char, char::from_u32(n.parse().unwrap()).unwrap()),
                "f64" => {
                    let v = f64::from_bits(n.parse().unwrap());
                    let direct = conjure_serde::json::to_string(&v).ok();
                    let via = Any::new(v).ok().and_then(|a| conjure_serde::json::to_string(&a).ok());
                    match Any::new(v).and_then(|a| a.deserialize_into::<f64>()) {
                        Ok(b) => json!({"same": (b.to_bits() == v.to_bits() || (b.is_nan() && v.is_nan())) && direct == via, "back_bits": b.to_bits().to_string(), "json_direct": direct, "json_via_any": via}),
                        Err(e) => json!({"same": false, "err": e.to_string()}),
                    }
                }
                "f32" => {
                    let v = f32::from_bits(n.parse::<u64>().unwrap() as u32);
                    let direct = conjure_serde::json::to_string(&v).ok();
                    let via = Any::new(v).ok().and_then(|a| conjure_serde::json::to_string(&a).ok());
                    match Any::new(v).and_then(|a| a.deserialize_into::<f32>()) {
                        Ok(b) => json!({"same": (b.to_bits() == v.to_bits() || (b.is_nan() && v.is_nan())) && direct == via, "back_bits": b.to_bits().to_string(), "json_direct": direct, "json_via_any": via}),
                        Err(e) => json!({"same": false, "err": e.to_string()}),
                    }
                }
                _ => json!({"error": "type"}),
            }
        }
        "any_json" => {
            let doc = op["doc"].as_str().unwrap();
            let direct: Value = match serde_json::from_str(doc) { Ok(v) => v, Err(e) => return json!({"error": e.to_string()}) };
            match conjure_serde::json::client_from_str::<conjure_object::Any>(doc) {
                Err(e) => json!({"same": false, "parse_err": e.to_string()}),
                Ok(a) => {
                    let out = conjure_serde::json::to_string(&a).unwrap();
                    let back: Value = serde_json::from_str(&out).unwrap();
                    json!({"same": back == direct && (doc.contains('.') || doc.contains('[') || doc.contains('{') || doc.contains('"') || out == doc.trim()), "out": out})
                }
            }
        }
        "json_f64" => {
            let v: f64 = match op.get("bits32").and_then(|b| b.as_str()) {
                Some(b) => f32::from_bits(b.parse::<u64>().unwrap() as u32) as f64,
                None => f64::from_bits(op["bits"].as_str().unwrap().parse().unwrap()),
            };
            let want = if v.is_nan() { Some("NaN") } else if v == f64::INFINITY { Some("Infinity") } else if v == f64::NEG_INFINITY { Some("-Infinity") } else { None };
            if op.get("key").and_then(|k| k.as_bool()).unwrap_or(false) {
                let mut m = std::collections::BTreeMap::new();
                m.insert(conjure_object::DoubleKey(v), true);
                let out = conjure_serde::json::to_string(&m).unwrap();
                let exp = match want { Some(w) => format!("{{\"{}\":true}}", w), None => format!("{{\"{}\":true}}", v) };
                let back = conjure_serde::json::client_from_str::<std::collections::BTreeMap<conjure_object::DoubleKey, bool>>(&out);
                type M = std::collections::BTreeMap<conjure_object::DoubleKey, bool>;
                let same = |b: M| b.keys().next().map(|k| k.0.to_bits() == v.to_bits() || (k.0.is_nan() && v.is_nan())).unwrap_or(false);
                let back_ok = back.map(same).unwrap_or(false);
                // the same key through the server flavour and through Smile (client and server)
                let back_srv = conjure_serde::json::server_from_str::<M>(&out).map(same).unwrap_or(false);
                let sm = conjure_serde::smile::to_vec(&m).unwrap();
                let back_smile = conjure_serde::smile::client_from_slice::<M>(&sm).map(same).unwrap_or(false) && conjure_serde::smile::server_from_slice::<M>(&sm).map(same).unwrap_or(false);
                json!({"ok": out == exp && back_ok && back_srv && back_smile, "out": out, "json_client": back_ok, "json_server": back_srv, "smile": back_smile})
            } else {
                let out = conjure_serde::json::to_string(&v).unwrap();
                let exp = match want { Some(w) => format!("\"{}\"", w), None => serde_json::to_string(&v).unwrap() };
                let back = conjure_serde::json::client_from_str::<f64>(&out).map(|b| b.to_bits() == v.to_bits() || (b.is_nan() && v.is_nan())).unwrap_or(false);
                let back2 = conjure_serde::json::server_from_str::<f64>(&out).map(|b| b.to_bits() == v.to_bits() || (b.is_nan() && v.is_nan())).unwrap_or(false);
                json!({"ok": out == exp && back && back2, "out": out})
            }
        }
        "json_binary" => {
            // C01: binary as a JSON value and as a map key is padded standard-alphabet Base64; other spellings are refused
            use std::collections::BTreeMap;
            let b = hex(op["hex"].as_str().unwrap());
            let want = ref_b64(&b);
            let v = Bin(b.clone());
            let out = conjure_serde::json::to_string(&v).unwrap_or_default();
            let back = conjure_serde::json::client_from_str::<Bin>(&out).ok().as_ref() == Some(&v) && conjure_serde::json::server_from_str::<Bin>(&out).ok().as_ref() == Some(&v)
                && conjure_serde::json::client_from_reader::<_, Bin>(out.as_bytes()).ok().as_ref() == Some(&v);
            let mut m = BTreeMap::new(); m.insert(v.clone(), 1i32);
            let kout = conjure_serde::json::to_string(&m).unwrap_or_default();
            let kback = conjure_serde::json::client_from_str::<BTreeMap<Bin, i32>>(&kout).ok().as_ref() == Some(&m) && conjure_serde::json::server_from_str::<BTreeMap<Bin, i32>>(&kout).ok().as_ref() == Some(&m);
            let sm = conjure_serde::smile::to_vec(&m).unwrap_or_default();
            let sback = conjure_serde::smile::client_from_slice::<BTreeMap<Bin, i32>>(&sm).ok().as_ref() == Some(&m) && conjure_serde::smile::server_from_slice::<BTreeMap<Bin, i32>>(&sm).ok().as_ref() == Some(&m);
            // spellings that are not the canonical one: padding stripped, URL-safe alphabet, trailing whitespace
            let mut alts: Vec<String> = vec![];
            if want.ends_with('=') { alts.push(want.trim_end_matches('=').to_string()); }
            let url = want.replace('+', "-").replace('/', "_");
            if url != want { alts.push(url); }
            if !want.is_empty() { alts.push(format!("{} ", want)); alts.push(format!("{}=", want)); }
            let mut accepted: Vec<String> = vec![];
            for a in &alts {
                let doc = serde_json::to_string(a).unwrap();
                let kdoc = format!("{{{}:1}}", doc);
                if conjure_serde::json::client_from_str::<Bin>(&doc).is_ok() || conjure_serde::json::server_from_str::<Bin>(&doc).is_ok()
                    || conjure_serde::json::client_from_str::<BTreeMap<Bin, i32>>(&kdoc).is_ok() || conjure_serde::json::server_from_str::<BTreeMap<Bin, i32>>(&kdoc).is_ok() {
                    accepted.push(a.clone());
                }
            }
            let ok = out == format!("\"{}\"", want) && back && kout == format!("{{\"{}\":1}}", want) && kback && sback && accepted.is_empty();
            json!({"ok": ok, "out": out, "key_out": kout, "want": want, "back": back, "key_back": kback, "smile_key_back": sback, "noncanonical_accepted": accepted})
        }
        "json_parse_f64" => {
            let text = String::from_utf8(hex(op["text_hex"].as_str().unwrap())).unwrap_or_default();
            let doc = serde_json::to_string(&text).unwrap();
            let class = |f: f64| if f.is_nan() { "NaN".to_string() } else if f == f64::INFINITY { "Infinity".to_string() } else if f == f64::NEG_INFINITY { "-Infinity".to_string() } else { "finite".to_string() };
            let special = text == "NaN" || text == "Infinity" || text == "-Infinity";
            if op["ty"].as_str() == Some("bool") {
                let r = conjure_serde::json::client_from_str::<std::collections::BTreeMap<bool, u8>>(&format!("{{{}:1}}", doc));
                let want = text == "true" || text == "false";
                json!({"ok": r.is_ok() == want, "got": format!("{:?}", r.ok())})
            } else if op["key"].as_bool() == Some(true) {
                let r = conjure_serde::json::client_from_str::<std::collections::BTreeMap<conjure_object::DoubleKey, u8>>(&format!("{{{}:1}}", doc));
                let got = r.ok().and_then(|m| m.keys().next().map(|k| class(k.0)));
                json!({"ok": !special || got.as_deref() == Some(text.as_str()), "got": got})
            } else {
                let r = conjure_serde::json::client_from_str::<f64>(&doc);
                let got = r.ok().map(class);
                json!({"ok": if special { got.as_deref() == Some(text.as_str()) } else { got.is_none() }, "got": got})
            }
        }
        "gen_enum" => {
            let text = String::from_utf8(hex(op["text_hex"].as_str().unwrap())).unwrap_or_default();
            let doc = serde_json::to_string(&text).unwrap();
            fn show<T: std::fmt::Debug, E>(r: Result<T, E>) -> String { match r { Ok(v) => { let s = format!("{:?}", v); s.replace("Unknown(Unknown(Variant(\"", "Unknown(").replace("\")))", ")") } Err(_) => "err".to_string() } }
            let d = show(verif_types::types::p::TestEnum::from_str(&text));
            let e = show(verif_types::exhaustive_types::p::TestEnum::from_str(&text));
            let dj = show(conjure_serde::json::client_from_str::<verif_types::types::p::TestEnum>(&doc));
            let ej = show(conjure_serde::json::client_from_str::<verif_types::exhaustive_types::p::TestEnum>(&doc));
            let dp = show(<verif_types::types::p::TestEnum as FromPlain>::from_plain(&text));
            let round = verif_types::types::p::TestEnum::from_str(&text).ok().map(|v| v.as_str() == text && v.to_plain() == text && conjure_serde::json::to_string(&v).unwrap() == doc);
            // the same JSON string delivered in other ways: from a reader (transient strings), with an escape in it (owned string),
            // through Smile, and through an Any (owned string event)
            let escaped = if text.is_empty() { doc.clone() } else { let c = text.chars().next().unwrap(); format!("\"\\u{:04x}{}", c as u32, &doc[1 + c.len_utf8()..]) };
            let dr = show(conjure_serde::json::client_from_reader::<_, verif_types::types::p::TestEnum>(doc.as_bytes()));
            let dsr = show(conjure_serde::json::server_from_reader::<_, verif_types::types::p::TestEnum>(doc.as_bytes()));
            let de = if (text.chars().next().map(|c| (c as u32) < 0x10000).unwrap_or(true)) { show(conjure_serde::json::client_from_str::<verif_types::types::p::TestEnum>(&escaped)) } else { dj.clone() };
            let da = show(conjure_serde::json::client_from_str::<conjure_object::Any>(&doc).map_err(|e| e.to_string()).and_then(|a| a.deserialize_into::<verif_types::types::p::TestEnum>().map_err(|e| e.to_string())));
            let dsm = show(conjure_serde::smile::to_vec(&text).map_err(|e| e.to_string()).and_then(|b| conjure_serde::smile::client_from_slice::<verif_types::types::p::TestEnum>(&b).map_err(|e| e.to_string())));
            json!({"default": d, "exhaustive": e, "default_json": dj, "exhaustive_json": ej, "default_plain": dp, "roundtrip": round,
                   "json_reader": dr, "json_server_reader": dsr, "json_escaped": de, "via_any": da, "smile": dsm,
                   "consistent": d == dj && e == ej && d == dp && round != Some(false) && d == dr && d == dsr && d == de && d == da && d == dsm})
        }
        "gen_union" | "gen_object" => {
            let doc = op["doc"].as_str().unwrap();
            fn showu<T: std::fmt::Debug, E: std::fmt::Display>(r: Result<T, E>) -> String {
                match r { Ok(v) => { let s = format!("{:?}", v); if s.starts_with("Unknown(") { let t = s.split("type_: \"").nth(1).and_then(|x| x.split('"').next()).unwrap_or("?"); format!("Unknown({})", t) } else { s.split('(').next().unwrap_or("").to_string() } } Err(_) => "err".to_string() }
            }
            if name == "gen_union" {
                let d = conjure_serde::json::client_from_str::<verif_types::types::p::TestUnion>(doc);
                let reser = d.as_ref().ok().map(|v| conjure_serde::json::to_string(v).unwrap());
                let e = conjure_serde::json::client_from_str::<verif_types::exhaustive_types::p::TestUnion>(doc);
                let ds = conjure_serde::json::server_from_str::<verif_types::types::p::TestUnion>(doc);
                json!({"default": showu(d), "exhaustive": showu(e), "default_server": showu(ds), "reserialized": reser})
            } else {
                let d = conjure_serde::json::server_from_str::<verif_types::types::p::ObjAll>(doc);
                let reser = d.as_ref().ok().map(|v| conjure_serde::json::to_string(v).unwrap());
                let e = conjure_serde::json::server_from_str::<verif_types::exhaustive_types::p::ObjAll>(doc);
                json!({"default": if d.is_ok() { "ok" } else { "err" }, "exhaustive": if e.is_ok() { "ok" } else { "err" }, "reserialized": reser})
            }
        }
        "error_partition" | "error_encode" => {
            use conjure_error::{Error, ErrorCode, ErrorKind, ErrorType};
            use serde::ser::SerializeStruct;
            struct DynErr { names: Vec<&'static str>, present: Vec<bool>, safe: &'static [&'static str] }
            impl ErrorType for DynErr {
                fn code(&self) -> ErrorCode { ErrorCode::Conflict }
                fn name(&self) -> &str { "Test:DynErr" }
                fn instance_id(&self) -> Option<conjure_object::Uuid> { None }
                fn safe_args(&self) -> &'static [&'static str] { self.safe }
            }
            impl serde::Serialize for DynErr {
                fn serialize<S: serde::Serializer>(&self, s: S) -> Result<S::Ok, S::Error> {
                    let mut st = s.serialize_struct("DynErr", self.names.len())?;
                    for (n, p) in self.names.iter().zip(&self.present) {
                        if *p { st.serialize_field(n, "v")?; } else { st.serialize_field(n, &vec![1, 2])?; }
                    }
                    st.end()
                }
            }
            fn leak(s: &str) -> &'static str { Box::leak(s.to_string().into_boxed_str()) }
            if name == "error_partition" {
                let names: Vec<&'static str> = op["names"].as_array().unwrap().iter().map(|v| leak(v.as_str().unwrap())).collect();
                let present: Vec<bool> = names.iter().map(|n| op["present"].as_array().unwrap().iter().any(|p| p.as_str() == Some(n))).collect();
                let safe: Vec<&'static str> = op["safe"].as_array().unwrap().iter().map(|v| leak(v.as_str().unwrap())).collect();
                let safe: &'static [&'static str] = Box::leak(safe.into_boxed_slice());
                let e = Error::service_safe("cause", DynErr { names, present, safe });
                let mut s: Vec<String> = e.safe_params().iter().map(|(k, _)| k.to_string()).collect();
                let mut u: Vec<String> = e.unsafe_params().iter().map(|(k, _)| k.to_string()).collect();
                s.sort(); u.sort();
                let enc: Vec<String> = match e.kind() { ErrorKind::Service(se) => se.parameters().keys().cloned().collect(), _ => vec![] };
                json!({"safe": s, "unsafe": u, "encoded": enc})
            } else {
                #[derive(serde::Serialize)]
                struct E { s: String, b: bool, i: i32, l: Vec<i32>, o: Option<i32>, d: f64 }
                impl ErrorType for E {
                    fn code(&self) -> ErrorCode { ErrorCode::InvalidArgument }
                    fn name(&self) -> &str { "Ns:E" }
                    fn instance_id(&self) -> Option<conjure_object::Uuid> { None }
                    fn safe_args(&self) -> &'static [&'static str] { &["b", "l"] }
                }
                let se = conjure_error::encode(&E { s: "x".into(), b: true, i: -5, l: vec![1], o: None, d: 1.5 });
                let params: Vec<(String, String)> = se.parameters().iter().map(|(k, v)| (k.clone(), v.clone())).collect();
                let want = vec![("b".to_string(), "true".to_string()), ("d".to_string(), "1.5".to_string()), ("i".to_string(), "-5".to_string()), ("s".to_string(), "x".to_string())];
                let js = conjure_serde::json::to_string(&se).unwrap();
                let back: conjure_error::SerializableError = conjure_serde::json::client_from_str(&js).unwrap();
                let e = Error::service_safe("c", E { s: "x".into(), b: true, i: -5, l: vec![1], o: None, d: 1.5 });
                let s: Vec<String> = e.safe_params().iter().map(|(k, _)| k.to_string()).collect();
                let pe = Error::propagated_service_safe("c", se.clone());
                json!({"ok": params == want && se.error_name() == "Ns:E" && format!("{:?}", se.error_code()) == "InvalidArgument" && back == se && s == vec!["b".to_string()] && pe.safe_params().iter().count() == 0 && pe.unsafe_params().iter().count() == 4,
                       "params": format!("{:?}", params), "safe": s})
            }
        }
        "plain_f64_text" => {
            // C12: from_plain::<f64> of an arbitrary text against the statement: the three spellings, otherwise the library parser
            let text = String::from_utf8(hex(op["hex"].as_str().unwrap())).unwrap_or_default();
            let got = f64::from_plain(&text).ok();
            let want: Option<f64> = match text.as_str() { "Infinity" => Some(f64::INFINITY), "-Infinity" => Some(f64::NEG_INFINITY), "NaN" => Some(f64::NAN), t => t.parse().ok() };
            let same = match (got, want) { (Some(a), Some(b)) => a.to_bits() == b.to_bits() || (a.is_nan() && b.is_nan()), (None, None) => true, _ => false };
            json!({"ok": same, "got": format!("{:?}", got), "want": format!("{:?}", want)})
        }
        "plain_f64" => {
            let v = f64::from_bits(op["bits"].as_str().unwrap().parse().unwrap());
            let t = v.to_plain();
            let want = if v.is_nan() { "NaN".to_string() } else if v == f64::INFINITY { "Infinity".to_string() } else if v == f64::NEG_INFINITY { "-Infinity".to_string() } else { t.clone() };
            let back = f64::from_plain(&t);
            let same = back.as_ref().map(|b| b.to_bits() == v.to_bits() || (b.is_nan() && v.is_nan())).unwrap_or(false);
            json!({"ok": t == want && same, "text": t, "back": format!("{:?}", back)})
        }
        "plain_roundtrip" => {
            let mut failed: Vec<String> = vec![];
            macro_rules! rt { ($t:ty, $v:expr) => {{ let v: $t = $v; let t = v.to_plain(); match <$t as FromPlain>::from_plain(&t) { Ok(b) if b == v => {}, other => failed.push(format!("{} {:?} -> {:?} -> {:?}", stringify!($t), v, t, other.is_ok())) } }}; }
            rt!(bool, true); rt!(bool, false); rt!(i32, i32::MIN); rt!(i32, 17);
            rt!(SafeLong, SafeLong::min_value()); rt!(SafeLong, SafeLong::max_value()); rt!(SafeLong, SafeLong::new(-1000000000000000).unwrap());
            rt!(String, "a b/c%".to_string());
            rt!(conjure_object::Uuid, conjure_object::Uuid::from_u128(0x0123456789abcdef0123456789abcdef));
            rt!(ResourceIdentifier, ResourceIdentifier::new("ri.a..b.c-d_e").unwrap());
            rt!(BearerToken, BearerToken::new("abc+/=").unwrap());
            rt!(bytes::Bytes, bytes::Bytes::from_static(&[0u8, 255, 254, 62, 63]));
            rt!(conjure_object::DateTime<conjure_object::Utc>, "2017-01-02T03:04:05.678Z".parse().unwrap());
            // calendar corners: ISO-week years differ from calendar years around New Year; year 0 and 9999; nanoseconds; leap second
            for t in ["2021-01-01T00:00:00Z", "2018-12-31T12:00:00Z", "2016-01-03T23:59:59Z", "2024-12-30T00:00:00Z", "0000-01-01T00:00:00Z", "9999-12-31T23:59:59.999999999Z",
                      "1970-01-01T00:00:00Z", "2016-12-31T23:59:60Z", "2000-02-29T12:00:00.000000001Z", "1969-12-31T23:59:59.5Z"] {
                let v: conjure_object::DateTime<conjure_object::Utc> = t.parse().unwrap();
                let text = v.to_plain();
                match <conjure_object::DateTime<conjure_object::Utc> as FromPlain>::from_plain(&text) { Ok(b) if b == v => {}, other => failed.push(format!("DateTime {} -> {:?} -> {:?}", t, text, other)) }
            }
            rt!(verif_types::types::p::TestEnum, verif_types::types::p::TestEnum::TwoB);
            rt!(verif_types::types::p::TestEnum, verif_types::types::p::TestEnum::from_str("X_9").unwrap());
            rt!(verif_types::types::p::SafeLongAlias, verif_types::types::p::SafeLongAlias(SafeLong::min_value()));
            for bits in [0x7ff0000000000000u64, 0xfff0000000000000, 0x7ff8000000000001, 0xfff8000000000000, 0x3ff8000000000000, 0x8000000000000000] {
                let v = f64::from_bits(bits);
                let t = v.to_plain();
                let b = f64::from_plain(&t).ok();
                if !b.map(|b| b.to_bits() == bits || (b.is_nan() && v.is_nan())).unwrap_or(false) { failed.push(format!("f64 {:#x} -> {:?}", bits, t)); }
                let a = verif_types::types::p::DoubleAlias(v);
                let ta = a.to_plain();
                if ta != t { failed.push(format!("DoubleAlias {:#x} -> {:?} vs {:?}", bits, ta, t)); }
            }
            if f64::INFINITY.to_plain() != "Infinity" || f64::NEG_INFINITY.to_plain() != "-Infinity" || f64::NAN.to_plain() != "NaN" { failed.push("spelling".into()); }
            json!({"ok": failed.is_empty(), "failed": failed})
        }
        _ => json!({"error": format!("unknown op {}", name)}),
    }
}

fn base64_std(b: &[u8]) -> String {
    const T: &[u8; 64] = b"ABCDEFGHIJKLMNOPQRSTUVWXYZabcdefghijklmnopqrstuvwxyz0123456789+/";
    let mut out = String::new();
    for c in b.chunks(3) {
        let n = (c[0] as u32) << 16 | (*c.get(1).unwrap_or(&0) as u32) << 8 | *c.get(2).unwrap_or(&0) as u32;
        out.push(T[(n >> 18) as usize & 63] as char);
        out.push(T[(n >> 12) as usize & 63] as char);
        out.push(if c.len() > 1 { T[(n >> 6) as usize & 63] as char } else { '=' });
        out.push(if c.len() > 2 { T[n as usize & 63] as char } else { '=' });
    }
    out
}

fn main() {
    let path = std::env::args().nth(1).expect("scenario file");
    let v: Value = serde_json::from_str(&std::fs::read_to_string(path).unwrap()).unwrap();
    let out: Vec<Value> = v.as_array().unwrap().iter().map(|op| {
        let op2 = op.clone();
        match std::panic::catch_unwind(move || run(&op2)) {
            Ok(v) => v,
            Err(_) => json!({"panic": true}),
        }
    }).collect();
    println!("{}", serde_json::to_string(&out).unwrap());
}
