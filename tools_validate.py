#!/usr/bin/env python3-vt
"""validate MANIFEST.json and every evidence file against the schemas"""
import json, jsonschema, glob, sys
ok = True
try:
    jsonschema.validate(json.load(open('/verif/MANIFEST.json')), json.load(open('/root/.vp/MANIFEST.schema.json'))); print('MANIFEST ok')
except Exception as e:
    ok = False; print('MANIFEST INVALID', str(e)[:500])
es = json.load(open('/root/.vp/EVIDENCE.schema.json'))
for f in sorted(glob.glob('/verif/evidence/*.json')):
    try:
        jsonschema.validate(json.load(open(f)), es); print(f, 'ok')
    except Exception as e:
        ok = False; print(f, 'INVALID', str(e)[:500])
sys.exit(0 if ok else 1)
