#!/bin/bash
# usage: tools_intake.sh <pid-lower> <round>   -- take a sub-agent's SEED dir from /tmp/r<round>-<pid>, confirm it, run the property's check on it
set -u
p=$1; r=$2; sid=$p-r$r; src=/tmp/r$r-$p/SEED; dst=/verif/seeded/$sid
[ -f $src/patch.diff ] || { echo "no patch in $src"; exit 9; }
mkdir -p $dst; cp $src/patch.diff $src/demo.rs $dst/; cp $src/notes.md $dst/notes.md 2>/dev/null
[ -f $dst/meta.json ] || cat > $dst/meta.json <<M
{"property": "$(echo $p | tr a-z A-Z)", "round": $r, "demo": "demo.rs",
 "demo_cmd": "mkdir -p conjure-test/tests && cp demo.rs conjure-test/tests/demo.rs && CARGO_NET_OFFLINE=true cargo test -p conjure-test --offline --test demo"}
M
VS_TAG=-$sid python3 /verif/tools_verify_seeds.py /verif/seeded $sid
rm -rf /tmp/vs-target-$sid
/verif/tools_mutant.sh $dst/patch.diff $(echo $p | tr a-z A-Z) quick
