#!/bin/bash
# Run once after a fresh restore, offline: prepares build directories; every check rebuilds what it needs from /repo.
set -e
cd "$(dirname "$0")"
export CARGO_NET_OFFLINE=true
mkdir -p .build evidence
cp /repo/Cargo.lock kani/Cargo.lock
python3-vt -c "import z3; print('z3', z3.get_version_string())"
# warm the Kani build of the harness crate (compiles /repo's crates for CBMC); failures here are reported by the checks
(cd kani && timeout 900 cargo kani --target-dir /verif/.build/kani-c15 --harness c15_min_max --output-format terse >/verif/.build/setup-kani.log 2>&1 || true)
echo setup done
