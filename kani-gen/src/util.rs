use std::hash::Hasher;

/// A `Hasher` that records the stream it is fed as a bounded list of (width, word) items, so that
/// "equal values hash equally" can be asserted as "identical streams", which implies equal hashes for *every* hasher.
/// The integer `write_*` methods are overridden so that no byte loop is needed for the fixed-width writes.
pub struct Rec {
    pub words: [u64; 6],
    pub widths: [u8; 6],
    pub n: usize,
}

impl Rec {
    pub fn new() -> Rec {
        Rec { words: [0; 6], widths: [0; 6], n: 0 }
    }
    fn push(&mut self, width: u8, w: u64) {
        if self.n < 6 {
            self.words[self.n] = w;
            self.widths[self.n] = width;
        }
        self.n += 1;
    }
    pub fn same(&self, o: &Rec) -> bool {
        self.n == o.n
            && self.n <= 6
            && (self.n < 1 || (self.words[0] == o.words[0] && self.widths[0] == o.widths[0]))
            && (self.n < 2 || (self.words[1] == o.words[1] && self.widths[1] == o.widths[1]))
            && (self.n < 3 || (self.words[2] == o.words[2] && self.widths[2] == o.widths[2]))
            && (self.n < 4 || (self.words[3] == o.words[3] && self.widths[3] == o.widths[3]))
            && (self.n < 5 || (self.words[4] == o.words[4] && self.widths[4] == o.widths[4]))
            && (self.n < 6 || (self.words[5] == o.words[5] && self.widths[5] == o.widths[5]))
    }
}

impl Hasher for Rec {
    fn finish(&self) -> u64 {
        0
    }
    fn write(&mut self, bytes: &[u8]) {
        // generic fallback (<= 8 bytes per call in the code under test)
        let mut w: u64 = 0;
        let mut i = 0;
        while i < bytes.len() && i < 8 {
            w = (w << 8) | bytes[i] as u64;
            i += 1;
        }
        self.push(100 + bytes.len() as u8, w);
    }
    fn write_u8(&mut self, i: u8) {
        self.push(1, i as u64);
    }
    fn write_u32(&mut self, i: u32) {
        self.push(4, i as u64);
    }
    fn write_u64(&mut self, i: u64) {
        self.push(8, i);
    }
    fn write_usize(&mut self, i: usize) {
        self.push(9, i as u64);
    }
    fn write_i64(&mut self, i: i64) {
        self.push(10, i as u64);
    }
    fn write_isize(&mut self, i: isize) {
        self.push(11, i as u64);
    }
}
