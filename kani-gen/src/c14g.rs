//! C14 — lawful total order / equality / hash of generated objects, unions and aliases containing doubles.
use crate::util::Rec;
use std::cmp::Ordering;
use std::hash::Hash;
use verif_types::types::p::{DoubleAlias, ObjD, ObjNest, UnionD};

fn laws<T: Ord + Hash>(a: &T, b: &T, c: &T) {
    assert!(a == a);
    assert!(a.cmp(a) == Ordering::Equal);
    assert!((a == b) == (a.cmp(b) == Ordering::Equal));
    assert!((a == b) == (b == a));
    assert!(a.cmp(b) == b.cmp(a).reverse());
    assert!(a.partial_cmp(b) == Some(a.cmp(b)));
    if a.cmp(b) != Ordering::Greater && b.cmp(c) != Ordering::Greater {
        assert!(a.cmp(c) != Ordering::Greater);
    }
    if a == b && b == c {
        assert!(a == c);
    }
    if a == b {
        let mut ha = Rec::new();
        let mut hb = Rec::new();
        a.hash(&mut ha);
        b.hash(&mut hb);
        assert!(ha.same(&hb));
    }
}

fn any_objd(with_list: bool) -> ObjD {
    let d: f64 = kani::any();
    let od: Option<f64> = kani::any();
    let b = ObjD::builder().d(d).od(od);
    if with_list && kani::any() {
        let x: f64 = kani::any();
        b.push_ld(x).build()
    } else {
        b.build()
    }
}

#[kani::proof]
#[kani::unwind(10)]
fn c14g_double_alias_laws() {
    let (a, b, c) = (DoubleAlias(kani::any()), DoubleAlias(kani::any()), DoubleAlias(kani::any()));
    kani::cover!(a.0.is_nan() && b.0.is_nan() && a.0.to_bits() != b.0.to_bits());
    laws(&a, &b, &c);
    if a.0.is_nan() {
        assert!(a == a && a.cmp(&b) != Ordering::Less);
    }
}

fn pair_laws<T: Ord + Hash>(a: &T, b: &T) {
    assert!(a == a);
    assert!(a.cmp(a) == Ordering::Equal);
    assert!((a == b) == (a.cmp(b) == Ordering::Equal));
    assert!((a == b) == (b == a));
    assert!(a.cmp(b) == b.cmp(a).reverse());
    assert!(a.partial_cmp(b) == Some(a.cmp(b)));
    if a == b {
        let mut ha = Rec::new();
        let mut hb = Rec::new();
        a.hash(&mut ha);
        b.hash(&mut hb);
        assert!(ha.same(&hb));
    }
}

#[kani::proof]
#[kani::unwind(10)]
fn c14g_union_pair_laws() {
    // pairs with concrete variants (a symbolic discriminant drags the Unknown variant's Any comparison into the encoding);
    // values are forgotten, not dropped
    let (x, y): (f64, f64) = (kani::any(), kani::any());
    let (i, j): (i32, i32) = (kani::any(), kani::any());
    kani::cover!(x.is_nan() && y.is_nan() && x.to_bits() != y.to_bits());
    let (a, b) = (UnionD::D(x), UnionD::D(y));
    pair_laws(&a, &b);
    let (c, d) = (UnionD::I(i), UnionD::I(j));
    pair_laws(&c, &d);
    pair_laws(&a, &c);
    pair_laws(&c, &a);
    std::mem::forget((a, b, c, d));
}

#[kani::proof]
#[kani::unwind(10)]
fn c14g_union_double_transitivity() {
    // transitivity on the double variant (the only one whose order the generator chooses through an attribute)
    let (x, y, z): (f64, f64, f64) = (kani::any(), kani::any(), kani::any());
    let (a, b, c) = (UnionD::D(x), UnionD::D(y), UnionD::D(z));
    if a.cmp(&b) != Ordering::Greater && b.cmp(&c) != Ordering::Greater {
        assert!(a.cmp(&c) != Ordering::Greater);
    }
    if x.is_nan() && !y.is_nan() {
        assert!(a.cmp(&b) == Ordering::Greater);
    }
    std::mem::forget(a);
    std::mem::forget(b);
    std::mem::forget(c);
}

#[kani::proof]
#[kani::unwind(10)]
fn c14g_object_scalar_and_optional_laws() {
    let (a, b, c) = (any_objd(false), any_objd(false), any_objd(false));
    kani::cover!(a.d().is_nan() && b.d().is_nan() && a == b);
    kani::cover!(a.od().is_none() && b.od().is_some());
    laws(&a, &b, &c);
}

#[kani::proof]
#[kani::unwind(10)]
fn c14g_object_with_list_eq_cmp_hash() {
    // pairs only (the triple with lists is beyond the solver budget): reflexivity, Eq <=> cmp, antisymmetry, hash agreement
    let (a, b) = (any_objd(true), any_objd(true));
    kani::cover!(a.ld().len() == 1 && b.ld().len() == 1 && a.ld()[0].is_nan() && a == b);
    assert!(a == a);
    assert!((a == b) == (a.cmp(&b) == Ordering::Equal));
    assert!(a.cmp(&b) == b.cmp(&a).reverse());
    if a == b {
        let mut ha = Rec::new();
        let mut hb = Rec::new();
        a.hash(&mut ha);
        b.hash(&mut hb);
        assert!(ha.same(&hb));
    }
}

#[kani::proof]
#[kani::unwind(10)]
fn c14g_nested_object_laws() {
    let mk = || ObjNest::new(any_objd(false), kani::any());
    let (a, b) = (mk(), mk());
    kani::cover!(a.inner().d().is_nan() && a == b);
    assert!(a == a);
    assert!((a == b) == (a.cmp(&b) == Ordering::Equal));
    assert!(a.cmp(&b) == b.cmp(&a).reverse());
    if a == b {
        let mut ha = Rec::new();
        let mut hb = Rec::new();
        a.hash(&mut ha);
        b.hash(&mut hb);
        assert!(ha.same(&hb));
    }
}
