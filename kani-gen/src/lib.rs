//! Kani harnesses over the *generated* types of /verif/gen-crates/types (emitted by the real conjure-codegen of /repo at build time):
//! the educe attributes the generator attaches per field decide whether Eq/Ord/Hash of a generated type are lawful (C14).
#![allow(dead_code)]
pub mod util;
#[cfg(kani)]
mod c14g;
