//! C01 (serializer side, K cross-check): non-finite doubles through the real conjure-serde wrappers and the real serde_json writer.
use serde::ser::{Serialize, SerializeMap, SerializeStruct, Serializer};

fn expect_nonfinite(x: f64) -> &'static [u8] {
    if x.is_nan() {
        b"NaN"
    } else if x > 0.0 {
        b"Infinity"
    } else {
        b"-Infinity"
    }
}

fn same(got: &[u8], pre: &[u8], mid: &[u8], post: &[u8]) -> bool {
    if got.len() != pre.len() + mid.len() + post.len() {
        return false;
    }
    let mut i = 0;
    while i < got.len() {
        let w = if i < pre.len() {
            pre[i]
        } else if i < pre.len() + mid.len() {
            mid[i - pre.len()]
        } else {
            post[i - pre.len() - mid.len()]
        };
        if got[i] != w {
            return false;
        }
        i += 1;
    }
    true
}

#[kani::proof]
#[kani::unwind(24)]
fn c01_json_f64_value() {
    let x: f64 = kani::any();
    kani::assume(!x.is_finite());
    kani::cover!(x.is_nan() && x.is_sign_negative());
    let v = conjure_serde::json::to_vec(&x).unwrap();
    assert!(same(&v, b"\"", expect_nonfinite(x), b"\""));
    std::mem::forget(v);
}

#[kani::proof]
#[kani::unwind(24)]
fn c01_json_f32_value() {
    let x: f32 = kani::any();
    kani::assume(!x.is_finite());
    let v = conjure_serde::json::to_vec(&x).unwrap();
    assert!(same(&v, b"\"", expect_nonfinite(x as f64), b"\""));
    std::mem::forget(v);
}

#[kani::proof]
#[kani::unwind(24)]
fn c01_json_some_f64() {
    let x: f64 = kani::any();
    kani::assume(!x.is_finite());
    let v = conjure_serde::json::to_vec(&Some(x)).unwrap();
    assert!(same(&v, b"\"", expect_nonfinite(x), b"\""));
    std::mem::forget(v);
}

struct KeyMap(f64);
impl Serialize for KeyMap {
    fn serialize<S: Serializer>(&self, s: S) -> Result<S::Ok, S::Error> {
        let mut m = s.serialize_map(Some(1))?;
        m.serialize_entry(&self.0, &true)?;
        m.end()
    }
}

#[kani::proof]
#[kani::unwind(32)]
fn c01_json_f64_key() {
    let x: f64 = kani::any();
    kani::assume(!x.is_finite());
    kani::cover!(x.is_nan() && x.is_sign_negative());
    let v = conjure_serde::json::to_vec(&KeyMap(x)).unwrap();
    assert!(same(&v, b"{\"", expect_nonfinite(x), b"\":true}"));
    std::mem::forget(v);
}

struct Field(f64);
impl Serialize for Field {
    fn serialize<S: Serializer>(&self, s: S) -> Result<S::Ok, S::Error> {
        let mut m = s.serialize_struct("Field", 1)?;
        m.serialize_field("a", &self.0)?;
        m.end()
    }
}

#[kani::proof]
#[kani::unwind(32)]
fn c01_json_f64_struct_field() {
    let x: f64 = kani::any();
    kani::assume(!x.is_finite());
    let v = conjure_serde::json::to_vec(&Field(x)).unwrap();
    assert!(same(&v, b"{\"a\":\"", expect_nonfinite(x), b"\"}"));
    std::mem::forget(v);
}

struct BoolKey(bool);
impl Serialize for BoolKey {
    fn serialize<S: Serializer>(&self, s: S) -> Result<S::Ok, S::Error> {
        let mut m = s.serialize_map(Some(1))?;
        m.serialize_entry(&self.0, &1u8)?;
        m.end()
    }
}

#[kani::proof]
#[kani::unwind(32)]
fn c01_json_bool_key() {
    let b: bool = kani::any();
    let v = conjure_serde::json::to_vec(&BoolKey(b)).unwrap();
    assert!(same(&v, b"{\"", if b { b"true" } else { b"false" }, b"\":1}"));
    std::mem::forget(v);
}
