//! Kani proof harnesses over the compiled real code of /repo (engine K, DESIGN.md §3.2).
//! Public API only. One module per property.
#![allow(dead_code)]

#[cfg(kani)]
mod util;
#[cfg(kani)]
mod c01;
#[cfg(kani)]
mod c14;
#[cfg(kani)]
mod c15;
#[cfg(kani)]
mod c17;
