//! C17 (K): each Conjure error code maps to its specified HTTP status.
use conjure_error::ErrorCode;

#[kani::proof]
fn c17_status_codes() {
    let k: u8 = kani::any();
    kani::assume(k < 10);
    let (code, want) = match k {
        0 => (ErrorCode::PermissionDenied, 403),
        1 => (ErrorCode::InvalidArgument, 400),
        2 => (ErrorCode::NotFound, 404),
        3 => (ErrorCode::Conflict, 409),
        4 => (ErrorCode::RequestEntityTooLarge, 413),
        5 => (ErrorCode::FailedPrecondition, 500),
        6 => (ErrorCode::Internal, 500),
        7 => (ErrorCode::Timeout, 500),
        8 => (ErrorCode::CustomClient, 400),
        _ => (ErrorCode::CustomServer, 500),
    };
    kani::cover!(k == 9);
    assert!(code.status_code() == want);
}
