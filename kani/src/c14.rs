//! C14 — lawful total order / equality / hash in the presence of doubles (runtime part).
use crate::util::Rec;
use conjure_object::private::DoubleOps;
use conjure_object::DoubleKey;
use std::cmp::Ordering;
use std::hash::Hash;

fn laws<T: DoubleOps>(a: &T, b: &T, c: &T) {
    // reflexive
    assert!(a.eq(a));
    assert!(a.cmp(a) == Ordering::Equal);
    // eq <=> cmp == Equal
    assert!(a.eq(b) == (a.cmp(b) == Ordering::Equal));
    // symmetric eq
    assert!(a.eq(b) == b.eq(a));
    // antisymmetric
    assert!(a.cmp(b) == b.cmp(a).reverse());
    // transitive
    if a.cmp(b) != Ordering::Greater && b.cmp(c) != Ordering::Greater {
        assert!(a.cmp(c) != Ordering::Greater);
    }
    if a.eq(b) && b.eq(c) {
        assert!(a.eq(c));
    }
    // equal => identical hash stream
    if a.eq(b) {
        let mut ha = Rec::new();
        let mut hb = Rec::new();
        a.hash(&mut ha);
        b.hash(&mut hb);
        assert!(ha.same(&hb));
    }
}

#[kani::proof]
#[kani::unwind(10)]
fn c14_f64_laws() {
    let a: f64 = kani::any();
    let b: f64 = kani::any();
    let c: f64 = kani::any();
    kani::cover!(a.is_nan() && b.is_nan() && a.to_bits() != b.to_bits());
    kani::cover!(a == 0.0 && b == 0.0 && a.to_bits() != b.to_bits());
    laws(&a, &b, &c);
    // NaN is greatest
    if a.is_nan() && !b.is_nan() {
        assert!(DoubleOps::cmp(&a, &b) == Ordering::Greater);
    }
    // agrees with the numeric order on ordinary numbers
    if !a.is_nan() && !b.is_nan() {
        if a < b {
            assert!(DoubleOps::cmp(&a, &b) == Ordering::Less);
        }
        if a == b {
            assert!(DoubleOps::cmp(&a, &b) == Ordering::Equal);
        }
    }
}

#[kani::proof]
#[kani::unwind(10)]
fn c14_double_key_laws() {
    let a = DoubleKey(kani::any());
    let b = DoubleKey(kani::any());
    let c = DoubleKey(kani::any());
    kani::cover!(a.0.is_nan() && b.0.is_nan() && a.0.to_bits() != b.0.to_bits());
    assert!(a == a);
    assert!(a.cmp(&a) == Ordering::Equal);
    assert!((a == b) == (a.cmp(&b) == Ordering::Equal));
    assert!((a == b) == (b == a));
    assert!(a.cmp(&b) == b.cmp(&a).reverse());
    assert!(a.partial_cmp(&b) == Some(a.cmp(&b)));
    if a.cmp(&b) != Ordering::Greater && b.cmp(&c) != Ordering::Greater {
        assert!(a.cmp(&c) != Ordering::Greater);
    }
    if a.0.is_nan() && !b.0.is_nan() {
        assert!(a.cmp(&b) == Ordering::Greater);
    }
    if a == b {
        let mut ha = Rec::new();
        let mut hb = Rec::new();
        a.hash(&mut ha);
        b.hash(&mut hb);
        assert!(ha.same(&hb));
    }
}

#[kani::proof]
#[kani::unwind(10)]
fn c14_option_f64_laws() {
    let a: Option<f64> = kani::any();
    let b: Option<f64> = kani::any();
    let c: Option<f64> = kani::any();
    kani::cover!(a.is_none() && b.is_some());
    laws(&a, &b, &c);
}

fn any_vec(max: usize) -> Vec<f64> {
    let n: usize = kani::any();
    kani::assume(n <= max);
    let mut v = Vec::with_capacity(max);
    let mut i = 0;
    while i < max {
        if i < n {
            v.push(kani::any());
        }
        i += 1;
    }
    v
}

#[kani::proof]
#[kani::unwind(10)]
fn c14_vec_f64_laws_len2() {
    let a = any_vec(2);
    let b = any_vec(2);
    let c = any_vec(2);
    kani::cover!(a.len() == 2 && b.len() == 1);
    laws(&a, &b, &c);
    std::mem::forget(a);
    std::mem::forget(b);
    std::mem::forget(c);
}

#[kani::proof]
#[kani::unwind(10)]
fn c14_option_vec_f64_laws_len1() {
    let mk = || -> Option<Vec<f64>> {
        if kani::any() {
            Some(any_vec(1))
        } else {
            None
        }
    };
    let a = mk();
    let b = mk();
    let c = mk();
    laws(&a, &b, &c);
    std::mem::forget(a);
    std::mem::forget(b);
    std::mem::forget(c);
}
