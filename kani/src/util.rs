use std::hash::Hasher;

/// A `Hasher` that records the byte stream it is fed (bounded), so that
/// "equal values hash equally" can be asserted as "identical streams" for *every* hasher.
pub struct Rec {
    pub buf: [u8; 64],
    pub len: usize,
}

impl Rec {
    pub fn new() -> Rec {
        Rec { buf: [0; 64], len: 0 }
    }
    pub fn same(&self, o: &Rec) -> bool {
        if self.len != o.len {
            return false;
        }
        let mut i = 0;
        while i < 64 {
            if i < self.len && self.buf[i] != o.buf[i] {
                return false;
            }
            i += 1;
        }
        true
    }
}

impl Hasher for Rec {
    fn finish(&self) -> u64 {
        0
    }
    fn write(&mut self, bytes: &[u8]) {
        for b in bytes {
            if self.len < 64 {
                self.buf[self.len] = *b;
            }
            self.len += 1;
        }
    }
}
