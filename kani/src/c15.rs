//! C15 — no path ever produces a safelong outside the 53-bit safe range (numeric routes, full width).
use conjure_object::SafeLong;
use serde::de::{self, Deserialize, Deserializer, Visitor};
use std::convert::TryFrom;
use std::fmt;

const MAX: i64 = (1i64 << 53) - 1;
const MIN: i64 = -MAX;

fn in_range_i128(n: i128) -> bool {
    n >= MIN as i128 && n <= MAX as i128
}

#[kani::proof]
fn c15_new() {
    let n: i64 = kani::any();
    let r = SafeLong::new(n);
    kani::cover!(r.is_ok());
    kani::cover!(r.is_err());
    match r {
        Ok(s) => assert!(*s == n && n >= MIN && n <= MAX),
        Err(_) => assert!(n < MIN || n > MAX),
    }
}

#[kani::proof]
fn c15_min_max() {
    assert!(*SafeLong::min_value() == MIN);
    assert!(*SafeLong::max_value() == MAX);
    assert!(*SafeLong::default() == 0);
}

macro_rules! try_from_harness {
    ($name:ident, $t:ty) => {
        #[kani::proof]
        fn $name() {
            let n: $t = kani::any();
            let r = SafeLong::try_from(n);
            kani::cover!(r.is_ok());
            kani::cover!(r.is_err());
            // widen losslessly for the comparison: every source type fits in i128 except u128
            let fits = n <= (i128::MAX as $t) || (<$t>::MAX as u128) <= (i128::MAX as u128);
            match r {
                Ok(s) => {
                    assert!(fits);
                    assert!(*s as i128 == n as i128);
                    assert!(in_range_i128(n as i128));
                }
                Err(_) => assert!(!fits || !in_range_i128(n as i128)),
            }
        }
    };
}

try_from_harness!(c15_try_from_i64, i64);
try_from_harness!(c15_try_from_isize, isize);
try_from_harness!(c15_try_from_i128, i128);

macro_rules! try_from_unsigned_harness {
    ($name:ident, $t:ty) => {
        #[kani::proof]
        fn $name() {
            let n: $t = kani::any();
            let r = SafeLong::try_from(n);
            kani::cover!(r.is_ok());
            kani::cover!(r.is_err());
            let ok = (n as u128) <= (MAX as u128);
            match r {
                Ok(s) => {
                    assert!(ok);
                    assert!(*s >= 0 && (*s as u128) == (n as u128));
                }
                Err(_) => assert!(!ok),
            }
        }
    };
}

try_from_unsigned_harness!(c15_try_from_u64, u64);
try_from_unsigned_harness!(c15_try_from_usize, usize);
try_from_unsigned_harness!(c15_try_from_u128, u128);

macro_rules! from_harness {
    ($name:ident, $t:ty) => {
        #[kani::proof]
        fn $name() {
            let n: $t = kani::any();
            let s = SafeLong::from(n);
            assert!(*s as i128 == n as i128);
            assert!(in_range_i128(*s as i128));
        }
    };
}

from_harness!(c15_from_u8, u8);
from_harness!(c15_from_i8, i8);
from_harness!(c15_from_u16, u16);
from_harness!(c15_from_i16, i16);
from_harness!(c15_from_u32, u32);
from_harness!(c15_from_i32, i32);

// ---- Deserialize: serde's real integer visitor + the repository's bound check, driven by a
// harness deserializer that delivers one symbolic number event of a symbolic kind.
#[derive(Debug)]
struct E;
impl fmt::Display for E {
    fn fmt(&self, _: &mut fmt::Formatter<'_>) -> fmt::Result {
        Ok(())
    }
}
impl std::error::Error for E {}
impl de::Error for E {
    fn custom<T: fmt::Display>(_: T) -> E {
        E
    }
    fn invalid_value(_: de::Unexpected<'_>, _: &dyn de::Expected) -> E {
        E
    }
    fn invalid_type(_: de::Unexpected<'_>, _: &dyn de::Expected) -> E {
        E
    }
}

#[derive(Clone, Copy)]
enum Ev {
    I64(i64),
    U64(u64),
    I128(i128),
    U128(u128),
}

impl Ev {
    fn as_i128(self) -> Option<i128> {
        match self {
            Ev::I64(n) => Some(n as i128),
            Ev::U64(n) => Some(n as i128),
            Ev::I128(n) => Some(n),
            Ev::U128(n) => {
                if n <= i128::MAX as u128 {
                    Some(n as i128)
                } else {
                    None
                }
            }
        }
    }
}

struct NumDe(Ev);

impl<'de> Deserializer<'de> for NumDe {
    type Error = E;
    fn deserialize_any<V: Visitor<'de>>(self, v: V) -> Result<V::Value, E> {
        match self.0 {
            Ev::I64(n) => v.visit_i64(n),
            Ev::U64(n) => v.visit_u64(n),
            Ev::I128(n) => v.visit_i128(n),
            Ev::U128(n) => v.visit_u128(n),
        }
    }
    serde::forward_to_deserialize_any! {
        bool i8 i16 i32 i64 i128 u8 u16 u32 u64 u128 f32 f64 char str string bytes byte_buf option
        unit unit_struct newtype_struct seq tuple tuple_struct map struct enum identifier ignored_any
    }
}

fn deser_check(ev: Ev) {
    let r = SafeLong::deserialize(NumDe(ev));
    kani::cover!(r.is_ok());
    kani::cover!(r.is_err());
    let n = ev.as_i128();
    match r {
        Ok(s) => {
            assert!(n.is_some());
            assert!(*s as i128 == n.unwrap());
            assert!(in_range_i128(*s as i128));
        }
        Err(_) => assert!(n.is_none() || !in_range_i128(n.unwrap())),
    }
}

#[kani::proof]
fn c15_deserialize_i64() {
    deser_check(Ev::I64(kani::any()));
}
#[kani::proof]
fn c15_deserialize_u64() {
    deser_check(Ev::U64(kani::any()));
}
// visit_i128 / visit_u128 are not overridden by serde's i64 visitor: the default builds an error
// message with `fmt` (not finishing under CBMC, >15 min); that route is decided by engine M.

// ---- the reverse conversions must give back the stored value (a safelong keeps its value)
#[kani::proof]
fn c15_into_i64_i128() {
    let n: i64 = kani::any();
    if let Ok(s) = SafeLong::new(n) {
        assert!(i64::from(s) == n);
        assert!(i128::from(s) == n as i128);
        assert!(u64::try_from(s).is_ok() == (n >= 0));
        assert!(i32::try_from(s).is_ok() == (n >= i32::MIN as i64 && n <= i32::MAX as i64));
    }
}
