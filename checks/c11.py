"""C11 — response encoding honours Accept; request decoding honours Content-Type (real ConjureRuntime MIR with all its
closures, mime_* helpers and the Json/Smile encodings; parsed media ranges are symbolic)."""
import json, itertools
import z3
from mirsym.dump import program
from mirsym.interp import Interp, St
from mirsym import models_std, models_http
from mirsym.models_std import box
from mirsym.models_http import (header_value, header_map, mt_name, name_code, media_type)
from mirsym.values import Agg, Enum, Ptr, Seq, BStr, UNIT, Panic, Unwind, bv, bstr, concrete, is_abnormal
from mirsym.harness import Decider, finish_engine, replay, find_fn, sym_str, model_bytes
from vlib.par import run_parallel

ENC = 'conjure_http::server::encoding::'
TYPES = ['application', 'text', '*']
SUBS = ['json', 'x-jackson-smile', 'plain', '*']
SUFFIXES = ['xml', 'json']
ENC_TYPES = {'JsonEncoding': ('application', 'json'), 'SmileEncoding': ('application', 'x-jackson-smile')}
MERGE = (r'::server::runtime::(mime_quality|mime_quality_inner|mime_specificity|accepts|mime_matches)',)


def q1000_ref(s):
    """RFC 9110 qvalue -> thousandths, for strings of the qvalue grammar; (valid: Bool, value: BV32)"""
    K = len(s.bytes)
    b = lambda i: s.bytes[i] if i < K else z3.BitVecVal(0, 8)
    dig = lambda x: z3.And(z3.UGE(x, 48), z3.ULE(x, 57))
    d = lambda i: z3.ZeroExt(24, b(i) - 48)
    n = s.len
    frac_ok = z3.And(*[z3.Or(z3.UGE(bv(i), n), dig(b(i))) for i in range(2, K)])
    v0 = z3.And(b(0) == ord('0'), z3.Or(n == 1, z3.And(n >= 2, n <= 5, b(1) == ord('.'), frac_ok)))
    zero_frac = z3.And(*[z3.Or(z3.UGE(bv(i), n), b(i) == ord('0')) for i in range(2, K)])
    v1 = z3.And(b(0) == ord('1'), z3.Or(n == 1, z3.And(n >= 2, n <= 5, b(1) == ord('.'), zero_frac)))
    frac = z3.If(z3.UGT(n, 2), d(2) * 100, z3.BitVecVal(0, 32)) + z3.If(z3.UGT(n, 3), d(3) * 10, z3.BitVecVal(0, 32)) + \
        z3.If(z3.UGT(n, 4), d(4), z3.BitVecVal(0, 32))
    return z3.Or(v0, v1), z3.If(b(0) == ord('1'), z3.BitVecVal(1000, 32), frac)


class Ranges:
    """R symbolic parsed media ranges (presence, ty, subty, optional suffix, one optional non-q parameter, optional q)"""

    def __init__(self, it, st, R, qk, with_suffix=True, tag='r'):
        self.it, self.R = it, R
        self.items = []
        self.n = z3.BitVec(tag + '_n', 8)
        st.pc.append(z3.ULE(self.n, R))
        self.rs = []
        for i in range(R):
            ty, sub = z3.BitVec(f'{tag}{i}_ty', 8), z3.BitVec(f'{tag}{i}_sub', 8)
            hassuf, suf = z3.Bool(f'{tag}{i}_hassuf'), z3.BitVec(f'{tag}{i}_suf', 8)
            hasq, hasp = z3.Bool(f'{tag}{i}_hasq'), z3.Bool(f'{tag}{i}_hasp')
            parse_ok = z3.Bool(f'{tag}{i}_parses')
            st.pc += [z3.Or(*[ty == name_code(t) for t in TYPES]), z3.Or(*[sub == name_code(s) for s in SUBS]),
                      z3.Or(*[suf == name_code(s) for s in SUFFIXES]),
                      z3.Implies(ty == name_code('*'), sub == name_code('*')), z3.Implies(sub == name_code('*'), z3.Not(hassuf))]
            if not with_suffix:
                st.pc.append(z3.Not(hassuf))
            qp, qs = sym_str(st, f'{tag}{i}_q', qk, utf8=False)
            st.pc.append(z3.And(*[z3.ULT(b, 128) for b in qs.bytes]))
            qvalid, qval = q1000_ref(qs)
            self.rs.append(dict(ty=ty, sub=sub, hassuf=hassuf, suf=suf, hasq=hasq, hasp=hasp, ok=parse_ok, qs=qs, qvalid=qvalid,
                                q=qval, present=z3.UGT(self.n, i)))
            # parameter list alternatives (order matters for get_param only through "last q wins": a single q here)
            variants = []
            charset = (mt_name(name_code('charset')), Agg('mediatype::Value', (bstr('utf-8'),)))
            qparam = (mt_name(name_code('q')), Agg('mediatype::Value', (qs,)))
            self.items.append((i, ty, sub, hassuf, suf, hasq, hasp, parse_ok, charset, qparam))

    def values(self, st):
        """-> list of (present, parse ok, MediaType value) with the parameter shape forked concretely by the caller"""
        raise NotImplementedError


def build_media(it, r, shape, charset, qparam):
    hasq, hasp = shape
    params = []
    if hasp:
        params.append(charset)
    if hasq:
        params.append(qparam)
    suffix = it.opt(r['hassuf'], mt_name(r['suf']))
    return media_type(it, mt_name(r['ty']), mt_name(r['sub']), suffix, params)


def spec_response(rs, encs):
    """the statement as z3 terms.  rs: list of range dicts (with concrete hasq/hasp shapes folded into q / nparams terms);
    encs: list of (ty code, sub code) in registration order.  -> (silent: Bool, expect_err: Bool, [chosen_is_e: Bool])"""
    STAR = name_code('*')
    E = len(encs)
    match = [[None] * E for _ in rs]
    spec = []
    for i, r in enumerate(rs):
        usable = z3.And(r['present'], r['ok'])
        spec.append((z3.If(r['ty'] != STAR, 1, 0), z3.If(r['sub'] != STAR, 1, 0), r['np']))
        for e, (ety, esub) in enumerate(encs):
            exact = z3.And(r['ty'] == ety, r['sub'] == esub, z3.Not(r['hassuf']))
            match[i][e] = z3.And(usable, z3.Or(z3.And(r['ty'] == STAR, r['sub'] == STAR), z3.And(r['ty'] == ety, r['sub'] == STAR), exact))

    def spec_gt(i, j):
        a, b = spec[i], spec[j]
        return z3.Or(a[0] > b[0], z3.And(a[0] == b[0], z3.Or(a[1] > b[1], z3.And(a[1] == b[1], a[2] > b[2]))))

    def spec_eq(i, j):
        a, b = spec[i], spec[j]
        return z3.And(a[0] == b[0], a[1] == b[1], a[2] == b[2])
    any_range = z3.Or(*[z3.And(r['present'], r['ok']) for r in rs]) if rs else z3.BoolVal(False)
    permitted, quality, index, silent = [], [], [], []
    for e in range(E):
        tops = []
        for i in range(len(rs)):
            # i is a most specific matching range for e
            tops.append(z3.And(match[i][e], *[z3.Or(z3.Not(match[j][e]), z3.Not(spec_gt(j, i))) for j in range(len(rs)) if j != i]))
        # among the most specific ones: mixed zero / non-zero quality -> the statement is silent
        silent.append(z3.Or(*[z3.And(tops[i], tops[j], (rs[i]['q'] == 0) != (rs[j]['q'] == 0)) for i in range(len(rs)) for j in range(i + 1, len(rs))])
                      if len(rs) > 1 else z3.BoolVal(False))
        # representative top range: highest quality, then first listed
        rep = []
        for i in range(len(rs)):
            rep.append(z3.And(tops[i], *[z3.Or(z3.Not(tops[j]), z3.UGT(rs[i]['q'], rs[j]['q']), z3.And(rs[i]['q'] == rs[j]['q'], i < j))
                                         for j in range(len(rs)) if j != i]))
        q = z3.BitVecVal(0, 32)
        idx = z3.BitVecVal(0, 32)
        for i in range(len(rs)):
            q = z3.If(rep[i], rs[i]['q'], q)
            idx = z3.If(rep[i], z3.BitVecVal(i, 32), idx)
        has = z3.Or(*tops) if tops else z3.BoolVal(False)
        # no Accept header (no usable range at all): */* with q=1
        permitted.append(z3.If(any_range, z3.And(has, q != 0), z3.BoolVal(True)))
        quality.append(z3.If(any_range, q, z3.BitVecVal(1000, 32)))
        index.append(z3.If(any_range, idx, z3.BitVecVal(0, 32)))
    chosen = []
    for e in range(E):
        wins = [z3.Or(z3.Not(permitted[f]), z3.UGT(quality[e], quality[f]),
                      z3.And(quality[e] == quality[f], z3.Or(z3.ULT(index[e], index[f]), z3.And(index[e] == index[f], e < f))))
                for f in range(E) if f != e]
        chosen.append(z3.And(permitted[e], *wins))
    return z3.Or(*silent), z3.Not(z3.Or(*permitted)), chosen


def runtime_value(st, order):
    encs = Seq(tuple(box(st, Agg(ENC + n, ())) for n in order))
    return st.ref(Agg('conjure_http::server::runtime::ConjureRuntime', (encs,)))


def run(rep, tier):
    prog = program(['conjure_http'])
    R = 2
    QK = 5 if tier == 'quick' else 6
    rep.bounds['response'] = (f'one Accept header value with <= {R} parsed media ranges (unparsable entries included): type in {TYPES}, subtype in {SUBS}, '
                              f'optional +suffix in {SUFFIXES}, optional charset parameter, optional q whose text is any ASCII string of <= {QK} bytes; '
                              'both registration orders of the JSON and Smile encodings')
    rep.bounds['request'] = 'Content-Type absent / not text / unparsable / parsed (same alphabet, with suffix and parameter), both registration orders'
    run_quality_kernel(rep, prog)
    run_response(rep, prog, R, QK)
    if tier != 'quick':
        # three ranges without q parameters (specificity / order / registration interplay); with q texts one three-range
        # configuration alone runs for more than an hour, which is outside what this check can afford
        run_response(rep, prog, 3, QK, shapes=[(False, False), (False, True)], tag='R3')
    run_request(rep, prog)
    rep.assumptions += ['mediatype: MediaType/MediaTypeList parsing is outside (ranges arrive parsed); Name equality is ASCII case-insensitive string equality; essence() keeps type, subtype and suffix; get_param returns the last match',
                        'std: stable sort_by, max_by returns the last maximum, iterator adaptors lazy; http: HeaderMap::get/get_all, HeaderValue::to_str',
                        'q strings outside the RFC 9110 qvalue grammar: only "no panic" is required (the statement is silent)']
    rep.outside += ['text -> media range parsing (mediatype crate)', f'more than {R} ranges with q parameters (thorough: three ranges without q), several Accept header lines, custom encodings']


def run_quality_kernel(rep, prog):
    """mime_quality_inner on every ASCII q string of <= 6 bytes: no panic; RFC-valid qvalues give exactly 1000*q"""
    it = Interp(prog, models_std.MODELS + models_http.MODELS, {}, unwind=8)
    it.ext_consts.update(models_http.CONSTS)
    dec = Decider(rep, it)
    st = St()
    qp, qs = sym_str(st, 'q', 6, utf8=False)
    st.pc.append(z3.And(*[z3.ULT(b, 128) for b in qs.bytes]))
    mt = media_type(it, mt_name(name_code('text')), mt_name(name_code('plain')), None,
                    [(mt_name(name_code('q')), Agg('mediatype::Value', (qs,)))])
    # the kernel is entered at `mime_quality` (u32, 1000 when q is absent or not a qvalue); `mime_quality_inner` is an
    # implementation detail that a refactoring may remove
    from mirsym.harness import find_fns
    fn = find_fn(prog, 'mime_quality', inpath='::server::runtime::')
    valid, val = q1000_ref(qs)
    for s2, rv0 in it.run(fn, [st.ref(mt)], st):
        rv = rv0 if is_abnormal(rv0) else it.some(rv0)
        rep.states += 1
        if isinstance(rv, Unwind):
            rep.inconc(f'C11 quality kernel: unwind {rv.where}')
            continue
        if isinstance(rv, Panic):
            m = dec.decide('quality:panic-reachable', s2, z3.BoolVal(True))
            if m is not None:
                report_quality(rep, model_bytes(m, qs), f'panic: {rv.msg}')
            continue
        got_some = it.variant_of(rv, 'Some')
        p = it.payload(rv, 'Some')
        bad = z3.And(valid, z3.Or(z3.Not(got_some), p.fields[0] != val)) if p is not None else valid
        m = dec.decide('quality:rfc-valid-qvalue=>1000*q', s2, bad, bytes=6)
        if m is not None:
            report_quality(rep, model_bytes(m, qs), 'quality of an RFC-valid qvalue is not 1000*q')
    finish_engine(rep, it)


def report_quality(rep, qb, what):
    txt = 'application/json;q=' + qb.decode('latin1')
    op = {'op': 'negotiate', 'accept': [txt], 'order': ['json', 'smile']}
    r, r2 = replay([op])[0], replay([op], 'release')[0]
    rep.replayed += 1
    import re
    valid = re.fullmatch(r'0(\.\d{0,3})?|1(\.0{0,3})?', qb.decode('latin1')) is not None
    want_err = valid and float(qb.decode()) == 0.0 if valid else None
    if r.get('panic') and r2.get('panic'):
        rep.violation('C11:quality:panic', f'Accept "{txt}": {what}; the native run panics', {'op': op, 'native': r})
    elif valid and want_err is not None and ((r.get('chosen') is None) != want_err) and r == r2:
        rep.violation('C11:quality:value', f'Accept "{txt}": {what}; native {r}', {'op': op, 'native': r})
    else:
        # differential probe: the quality of q must lie strictly between those of its neighbours (q - 0.001, q + 0.001); the range
        # listed second has to win whenever its weight is higher
        if valid:
            v = round(float(qb.decode()) * 1000)
            fmt = lambda n: '1' if n >= 1000 else '0.%03d' % n
            probes = []
            if v >= 1:
                probes.append(['application/x-jackson-smile;q=' + fmt(v - 1), 'application/json;q=' + qb.decode()])
            if 1 <= v < 1000:
                probes.append(['application/x-jackson-smile;q=' + qb.decode(), 'application/json;q=' + fmt(v + 1)])
            ops = [{'op': 'negotiate', 'accept': a, 'order': ['json', 'smile']} for a in probes]
            if ops:
                rs, rs2 = replay(ops), replay(ops, 'release')
                rep.replayed += len(ops)
                for o, a, b in zip(ops, rs, rs2):
                    if a.get('chosen') != 'application/json' and b.get('chosen') != 'application/json':
                        rep.violation('C11:quality:order', f'Accept {o["accept"]}: the range with the higher weight is listed second and must win, native {a}; {what}', {'op': o, 'native': a})
                        return
        rep.inconc(f'model mismatch C11 quality: q={qb!r} {what} does not reproduce natively: {r}')


def run_response(rep, prog, R, QK, shapes=None, tag=''):
    fn = find_fn(prog, 'response_body_encoding', inpath='::server::runtime::')
    shapes = shapes or list(itertools.product([False, True], repeat=2))            # (has q, has charset) per range: concrete list shapes
    from mirsym.harness import replay_binary
    replay_binary()          # built once before the configurations fan out over processes
    jobs = [(order, shp) for order in (['JsonEncoding', 'SmileEncoding'], ['SmileEncoding', 'JsonEncoding']) for shp in itertools.product(shapes, repeat=R)]

    tag0 = tag

    def worker(rep, job):
        order, shp = job
        total = 0
        if True:
            it = Interp(prog, models_std.MODELS + models_http.MODELS, {}, unwind=R + 8, merge=MERGE)
            it.ext_consts.update(models_http.CONSTS)
            dec = Decider(rep, it)
            st = St()
            rg = Ranges(it, st, R, QK)
            items = []
            rs = []
            for i, r in enumerate(rg.rs):
                _, ty, sub, hassuf, suf, hasq, hasp, pok, charset, qparam = rg.items[i]
                hq, hp = shp[i]
                mt = build_media(it, r, (hq, hp), charset, qparam)
                items.append((r['present'], r['ok'], mt))
                r2 = dict(r)
                r2['np'] = z3.BitVecVal(1 if hp else 0, 8)
                r2['q'] = r['q'] if hq else z3.BitVecVal(1000, 32)
                if hq:
                    st.pc.append(r['qvalid'])          # RFC-valid q strings (others: kernel query above)
                rs.append(r2)
            accept = header_value(None, tuple(items))
            n_hdr = z3.BitVec('n_accept', 64)
            st.pc.append(z3.ULE(n_hdr, 1))
            headers = st.ref(header_map([('accept', Agg('GetAll', (n_hdr, (accept,))))]))
            for r2 in rs:
                r2['present'] = z3.And(r2['present'], n_hdr == 1)
            encs = [tuple(name_code(x) for x in ENC_TYPES[n]) for n in order]
            silent, expect_err, chosen = spec_response(rs, encs)
            rt = runtime_value(st, order)
            np_ = 0
            for s2, rv in it.run(fn, [rt, headers], st):
                np_ += 1
                total += 1
                rep.states += 1
                tag = f'response{tag0}:{"".join(n[0] for n in order)}:{"".join(str(int(a)) + str(int(b)) for a, b in shp)}:path{np_}'
                if isinstance(rv, Unwind):
                    rep.inconc(f'C11 {tag}: unwind {rv.where}')
                    continue
                if isinstance(rv, Panic):
                    m = dec.decide(tag + ':panic', s2, z3.BoolVal(True))
                    if m is not None:
                        report_response(rep, m, rg, shp, order, n_hdr, f'panic: {rv.msg}')
                    continue
                is_ok = it.variant_of(rv, 'Ok')
                okp = it.payload(rv, 'Ok')
                conds = [z3.And(z3.Not(is_ok), z3.Not(expect_err))]
                if okp is not None:
                    enc = s2.deref_all(okp.fields[0])
                    e = order.index(enc.name.split('::')[-1])
                    conds.append(z3.And(is_ok, z3.Not(chosen[e])))
                bad = z3.And(z3.Not(silent), z3.Or(*conds))
                m = dec.decide(tag + ':choice==statement', s2, bad, ranges=R)
                if m is not None:
                    report_response(rep, m, rg, shp, order, n_hdr, 'chosen encoding differs from the one the statement prescribes')
            finish_engine(rep, it)
        rep.extra['response_paths'] = total
    run_parallel(rep, jobs, worker)
    # reachability twin, replayed natively
    r = replay([{'op': 'negotiate', 'accept': ['application/json;q=0.5, application/x-jackson-smile;q=0.9, */*;q=0.1'], 'order': ['json', 'smile']},
                {'op': 'negotiate', 'accept': ['application/json;q=0'], 'order': ['json']},
                {'op': 'negotiate', 'accept': [], 'order': ['smile', 'json']}])
    rep.replayed += 3
    if [x.get('chosen') for x in r] != ['application/x-jackson-smile', None, 'application/x-jackson-smile']:
        rep.inconc(f'model mismatch: native negotiation sanity cases give {r}')


def range_text(m, r, shape):
    inv = {v: k for k, v in models_http.NAMES.items()}
    ty, sub = inv[m.eval(r['ty'], True).as_long()], inv[m.eval(r['sub'], True).as_long()]
    t = f'{ty}/{sub}'
    if z3.is_true(m.eval(r['hassuf'], True)):
        t += '+' + inv[m.eval(r['suf'], True).as_long()]
    hq, hp = shape
    if hp:
        t += ';charset=utf-8'
    if hq:
        t += ';q=' + model_bytes(m, r['qs']).decode('latin1')
    return t


def report_response(rep, m, rg, shp, order, n_hdr, what):
    n = m.eval(rg.n, True).as_long() if m.eval(n_hdr, True).as_long() == 1 else 0
    parts = []
    for i in range(n):
        parts.append(range_text(m, rg.rs[i], shp[i]) if z3.is_true(m.eval(rg.rs[i]['ok'], True)) else '@@not/a/range')
    accept = [', '.join(parts)] if m.eval(n_hdr, True).as_long() == 1 else []
    op = {'op': 'negotiate', 'accept': accept, 'order': ['json' if o == 'JsonEncoding' else 'smile' for o in order]}
    r, r2 = replay([op])[0], replay([op], 'release')[0]
    rep.replayed += 1
    want = py_reference(accept, op['order'])
    if want == 'silent':
        rep.inconc(f'C11: solver counterexample {accept} falls where the statement is silent (harness bug)')
        return
    got = r.get('chosen') if not r.get('panic') else 'PANIC'
    if got != want and r == r2:
        rep.violation('C11:response', f'Accept {accept} with encodings registered {op["order"]}: {what}; native choice {got!r}, statement prescribes {want!r}',
                      {'op': op, 'native': r, 'expected': want})
    else:
        rep.inconc(f'model mismatch C11: Accept {accept} order {op["order"]} ({what}) does not reproduce: native {got!r}, reference {want!r}')


def py_reference(accept, order):
    """independent python statement of C11 on concrete header text (simple splitter for the texts this check emits)"""
    CT = {'json': ('application', 'json', None), 'smile': ('application', 'x-jackson-smile', None)}
    ranges = []
    for line in accept:
        for part in [p.strip() for p in line.split(',') if p.strip()]:
            fs = [x.strip() for x in part.split(';')]
            if '/' not in fs[0] or fs[0].count('/') != 1 or '@' in fs[0]:
                continue
            ty, sub = fs[0].split('/')
            suf = None
            if '+' in sub:
                sub, suf = sub.rsplit('+', 1)
            q, np_ = 1000, 0
            for p in fs[1:]:
                k, v = p.split('=', 1)
                if k.lower() == 'q':
                    q = int(round(float(v) * 1000))
                else:
                    np_ += 1
            ranges.append((ty.lower(), sub.lower(), suf, q, np_))
    if not ranges:
        return 'application/' + CT[order[0]][1]
    best = None
    for ei, name in enumerate(order):
        ety, esub, _ = CT[name]
        ms = [(i, r) for i, r in enumerate(ranges) if (r[0] == '*' and r[1] == '*') or (r[0] == ety and r[1] == '*') or (r[0] == ety and r[1] == esub and r[2] is None)]
        if not ms:
            continue
        sp = lambda r: (r[0] != '*', r[1] != '*', r[4])
        top = max(sp(r) for _, r in ms)
        tops = [(i, r) for i, r in ms if sp(r) == top]
        if len({r[3] == 0 for _, r in tops}) > 1:
            return 'silent'
        q = max(r[3] for _, r in tops)
        if q == 0:
            continue
        idx = min(i for i, r in tops if r[3] == q)
        key = (q, -idx, -ei)
        if best is None or key > best[0]:
            best = (key, 'application/' + esub)
    return best[1] if best else None


def run_request(rep, prog):
    fn = find_fn(prog, 'request_body_encoding', inpath='::server::runtime::')
    for order in (['JsonEncoding', 'SmileEncoding'], ['SmileEncoding', 'JsonEncoding']):
        for hp in (False, True):
            it = Interp(prog, models_std.MODELS + models_http.MODELS, {}, unwind=8, merge=MERGE)
            it.ext_consts.update(models_http.CONSTS)
            dec = Decider(rep, it)
            st = St()
            rg = Ranges(it, st, 1, 1, tag='ct')
            r = rg.rs[0]
            _, ty, sub, hassuf, suf, hasq, hasp_, pok, charset, qparam = rg.items[0]
            mt = build_media(it, r, (False, hp), charset, qparam)
            present = z3.Bool('ct_present')
            textual = z3.Bool('ct_is_text')
            hv_abs = header_value(None, ((r['ok'], mt),))
            hv_bin = header_value(BStr((z3.BitVecVal(0xff, 8),), bv(1)), None)
            headers_a = st.ref(header_map([('content-type', Agg('GetAll', (z3.If(present, bv(1), bv(0)), (hv_abs,))))]))
            headers_b = st.ref(header_map([('content-type', Agg('GetAll', (bv(1), (hv_bin,))))]))
            rt = runtime_value(st, order)
            for which, headers in (('parsed', headers_a), ('not-text', headers_b)):
                np_ = 0
                for s2, rv in it.run(fn, [rt, headers], st.fork()):
                    np_ += 1
                    rep.states += 1
                    tag = f'request:{"".join(n[0] for n in order)}:{which}:param{int(hp)}:path{np_}'
                    if is_abnormal(rv):
                        if isinstance(rv, Unwind):
                            rep.inconc(f'C11 {tag}: unwind {rv.where}')
                        else:
                            m = dec.decide(tag + ':panic', s2, z3.BoolVal(True))
                            if m is not None:
                                report_request(rep, m, r, hp, order, present, which, f'panic: {rv.msg}')
                        continue
                    is_ok = it.variant_of(rv, 'Ok')
                    okp = it.payload(rv, 'Ok')
                    if which == 'not-text':
                        bad = is_ok
                    else:
                        exp = []
                        for n in order:
                            ety, esub = (name_code(x) for x in ENC_TYPES[n])
                            exp.append(z3.And(present, r['ok'], r['ty'] == ety, r['sub'] == esub, z3.Not(r['hassuf'])))
                        conds = [z3.And(z3.Not(is_ok), z3.Or(*exp))]
                        if okp is not None:
                            enc = s2.deref_all(okp.fields[0])
                            conds.append(z3.And(is_ok, z3.Not(exp[order.index(enc.name.split('::')[-1])])))
                        bad = z3.Or(*conds)
                    m = dec.decide(tag + ':decoder==essence-match', s2, bad)
                    if m is not None:
                        report_request(rep, m, r, hp, order, present, which, 'request encoding differs from type/subtype equality')
                    # errors are INVALID_ARGUMENT
                    errp = it.payload(rv, 'Err')
                    if errp is not None and it.feasible(s2, z3.Not(is_ok)):
                        e = errp.fields[0]
                        if not (isinstance(e, Agg) and e.fields[3] is not None and e.fields[3].name.endswith('InvalidArgument')):
                            def bat():
                                ops = [{'op': 'request_encoding', 'order': ['json', 'smile'], 'content_type_hex': b'text/plain'.hex()}, {'op': 'request_encoding', 'order': ['json', 'smile']}]
                                return [f'{o}: {r}' for o, r in zip(ops, replay(ops)) if r.get('chosen') is not None or 'InvalidArgument' not in str(r.get('code'))]
                            rep.structural('C11:request:error-code', f'request_body_encoding rejects with {e.fields[3]!r} instead of INVALID_ARGUMENT', {'error': repr(e)[:300]}, bat)
            finish_engine(rep, it)


def report_request(rep, m, r, hp, order, present, which, what):
    if which == 'not-text':
        ct = None
        op = {'op': 'request_encoding', 'content_type_hex': 'ff', 'order': ['json' if o == 'JsonEncoding' else 'smile' for o in order]}
        want = None
    else:
        if not z3.is_true(m.eval(present, True)):
            op = {'op': 'request_encoding', 'order': ['json' if o == 'JsonEncoding' else 'smile' for o in order]}
            want = None
        else:
            txt = range_text(m, r, (False, hp)) if z3.is_true(m.eval(r['ok'], True)) else '@@not/a/type/'
            op = {'op': 'request_encoding', 'content_type_hex': txt.encode().hex(), 'order': ['json' if o == 'JsonEncoding' else 'smile' for o in order]}
            base = txt.split(';')[0]
            want = base if base in ('application/json', 'application/x-jackson-smile') else None
    res, res2 = replay([op])[0], replay([op], 'release')[0]
    rep.replayed += 1
    got = res.get('chosen') if not res.get('panic') else 'PANIC'
    if got != want and res == res2:
        rep.violation('C11:request', f'Content-Type {bytes.fromhex(op.get("content_type_hex", "")) !r}: {what}; native {got!r}, statement {want!r}', {'op': op, 'native': res})
    else:
        rep.inconc(f'model mismatch C11 request: {op} ({what}) does not reproduce natively: {got!r} vs {want!r}')


def replay_cmd(path):
    w = json.load(open(path))
    print(json.dumps(replay([w['witness']['op']])[0], indent=1))
    return 0
