"""Shared harness for C19 / C09 / C04: the real expansion of #[conjure_endpoints] on the traits of /verif/gen-crates/endpoints,
driven through Endpoint::handle with a symbolic request."""
import os, re, subprocess, glob, shutil
import z3
from mirsym.dump import program, dump, crate_dir, MIRDIR, FLAGS
from mirsym.interp import Interp, St, Program
from mirsym import models_std, models_http, models_serde
from mirsym.models_std import fork_bool, It, sval, box
from mirsym.models_http import header_value, header_map, error_record
from mirsym.values import Agg, Enum, Ptr, Seq, BStr, UNIT, Panic, Unwind, bv, bstr, bstr_py, bstr_eq, bstr_concat, bstr_byte, bstr_slice, concrete, is_abnormal
from mirsym.parse import Unsupported
from vlib.common import REPO, BUILD, VERIF, env_offline, sha_tree, Inconclusive, harness_crate

CRATE = 'verif_endpoints'


def endpoints_program(extra=()):
    """Program with conjure_http, conjure_object and the harness crate (its MIR regenerated when /repo or the crate changes)"""
    prog = program(['conjure_http', 'conjure_object'] + list(extra))
    cdir = harness_crate('gen-crates/endpoints')
    h = sha_tree([cdir, os.path.join(REPO, 'conjure-http'), os.path.join(REPO, 'conjure-macros'), os.path.join(REPO, 'conjure-object'),
                  os.path.join(REPO, 'conjure-error'), os.path.join(REPO, 'conjure-serde')])[:16]
    out = os.path.join(MIRDIR, f'{CRATE}-{h}.mir')
    if not (os.path.exists(out) and os.path.getsize(out) > 1000):
        for old in glob.glob(os.path.join(MIRDIR, f'{CRATE}-*.mir')):
            os.remove(old)
        shutil.copyfile(os.path.join(REPO, 'Cargo.lock'), os.path.join(cdir, 'Cargo.lock'))
        tdir = os.path.join(BUILD, 'target-endpoints')
        for fp in glob.glob(os.path.join(tdir, 'debug', '.fingerprint', 'verif-endpoints-*')):
            shutil.rmtree(fp, ignore_errors=True)
        p = subprocess.run(['cargo', '+nightly', 'rustc', '--offline', '--lib', '--'] + FLAGS, cwd=cdir,
                           env=env_offline({'CARGO_TARGET_DIR': tdir}), capture_output=True, text=True, timeout=1800)
        if p.returncode != 0 or len(p.stdout) < 1000:
            raise Inconclusive('the endpoints harness crate does not compile against the current tree: ' + p.stderr[-800:])
        open(out, 'w').write(p.stdout)
    prog.load(CRATE, out, cdir)
    return prog


def harness_program(crate_dir, crate_name, extra=()):
    """Program with conjure_http, conjure_object (+ extra) and the MIR of a harness crate of /verif/gen-crates (regenerated when /repo
    or the crate changes)"""
    prog = program(['conjure_http', 'conjure_object'] + list(extra))
    cdir = harness_crate(crate_dir)
    h = sha_tree([cdir] + [os.path.join(REPO, d) for d in ('conjure-http', 'conjure-macros', 'conjure-object', 'conjure-error', 'conjure-serde', 'conjure-codegen')])[:16]
    out = os.path.join(MIRDIR, f'{crate_name}-{h}.mir')
    tdir = os.path.join(BUILD, 'target-' + crate_name)
    if not (os.path.exists(out) and os.path.getsize(out) > 1000):
        for old in glob.glob(os.path.join(MIRDIR, f'{crate_name}-*.mir')):
            os.remove(old)
        shutil.copyfile(os.path.join(REPO, 'Cargo.lock'), os.path.join(cdir, 'Cargo.lock'))
        for fp in glob.glob(os.path.join(tdir, 'debug', '.fingerprint', crate_name.replace('_', '-') + '-*')):
            shutil.rmtree(fp, ignore_errors=True)
        p = subprocess.run(['cargo', '+nightly', 'rustc', '--offline', '--lib', '--'] + FLAGS, cwd=cdir,
                           env=env_offline({'CARGO_TARGET_DIR': tdir}), capture_output=True, text=True, timeout=1800)
        if p.returncode != 0 or len(p.stdout) < 1000:
            raise Inconclusive(f'the harness crate {crate_dir} does not generate / compile against the current tree: ' + p.stderr[-800:])
        open(out, 'w').write(p.stdout)
    # generated sources (build.rs output) are indexed before the MIR is loaded
    outs = sorted(glob.glob(os.path.join(tdir, 'debug', 'build', crate_name.replace('_', '-') + '-*', 'out')), key=os.path.getmtime)
    if outs:
        base = os.path.join(outs[-1], 'conjure')
        for d, _, fs in os.walk(base):
            for f in fs:
                if f.endswith('.rs'):
                    p_ = os.path.join(d, f)
                    rel = os.path.relpath(p_, base)[:-3].split(os.sep)
                    if rel[-1] == 'mod':
                        rel = rel[:-1]
                    prog.src.add_file(p_, '::'.join([crate_name, 'gen'] + rel))
    prog.load(crate_name, out, cdir)
    return prog


# ------------------------------------------------------------------ percent-decoding of bounded symbolic strings
def hexval(b):
    """(is hex digit, value) of a byte"""
    isd = z3.And(z3.UGE(b, 48), z3.ULE(b, 57))
    isu = z3.And(z3.UGE(b, 65), z3.ULE(b, 70))
    isl = z3.And(z3.UGE(b, 97), z3.ULE(b, 102))
    v = z3.If(isd, b - 48, z3.If(isu, b - 55, b - 87))
    return z3.Or(isd, isu, isl), v


def percent_decode(s):
    """percent_encoding::percent_decode: %XX with two hex digits -> byte, everything else verbatim"""
    out = bstr(b'')
    skip = z3.BitVecVal(0, 8)
    K = len(s.bytes)
    for i, b in enumerate(s.bytes):
        live = z3.ULT(bv(i), s.len)
        b1 = s.bytes[i + 1] if i + 1 < K else z3.BitVecVal(0, 8)
        b2 = s.bytes[i + 2] if i + 2 < K else z3.BitVecVal(0, 8)
        h1, v1 = hexval(b1)
        h2, v2 = hexval(b2)
        esc = z3.And(b == ord('%'), z3.ULT(bv(i + 2), s.len), h1, h2)
        emit = z3.And(live, skip == 0)
        val = z3.If(esc, (v1 << 4) | v2, b)
        out = bstr_concat(out, BStr((val,), z3.If(emit, bv(1), bv(0))))
        skip = z3.If(emit, z3.If(esc, z3.BitVecVal(2, 8), z3.BitVecVal(0, 8)), skip - 1)
    return out


def M_percent_decode_str(it, ctx, args, st):
    yield st, Agg('percent_encoding::PercentDecode', (sval(st, args[0]),))


def encoded_input(st, s):
    """if s is the very output of a recorded utf8_percent_encode call whose set escapes '%' and '/': the input of that call
    (library contract percent_decode(utf8_percent_encode(x, set)) = x when '%' is in the set)"""
    for inp, mask, enc in st.aux.get('pctenc', ()):
        if enc is s:
            cm = concrete(mask)
            if cm is not None and (cm >> ord('%')) & 1 and (cm >> ord('/')) & 1:
                return inp
    return None


def M_decode_utf8_lossy(it, ctx, args, st):
    pd = st.deref_all(args[0]) if isinstance(args[0], Ptr) else args[0]
    known = encoded_input(st, pd.fields[0])
    if known is not None:
        yield st, known
        return
    yield st, percent_decode(pd.fields[0])           # Cow<str> as an owned bounded string (inputs are ASCII: stated)


def M_decode_utf8(it, ctx, args, st):
    """PercentDecode::decode_utf8 (strict): Ok(decoded text) iff the decoded bytes are valid UTF-8, else Err(Utf8Error)"""
    from mirsym.harness import utf8_valid
    pd = st.deref_all(args[0]) if isinstance(args[0], Ptr) else args[0]
    known = encoded_input(st, pd.fields[0])
    if known is not None:
        yield st, it.ok(known)
        return
    dec = percent_decode(pd.fields[0])
    for s2, good in fork_bool(it, st, utf8_valid(dec)):
        yield s2, (it.ok(dec) if good else it.err(Agg('std::str::Utf8Error', ())))


def M_cow_as_ref(it, ctx, args, st):
    p = args[0]
    v = st.deref(p)
    if isinstance(v, Ptr):
        p = v
    yield st, p


def M_str_split_char(it, ctx, args, st):
    """str::split(char): path parameter inputs are constrained not to contain '/' (transport contract, stated on the inputs); when
    that is provable the split is the single segment, otherwise it is executed for real"""
    s = sval(st, args[0])
    ch = concrete(args[1])
    if ch != ord('/'):
        # only path parameters (split on '/') are single-segment by the harness convention; any other split is executed for real
        yield from models_std.M_str_split_char_real(it, ctx, args, st)
        return
    if ch == ord('/') and encoded_input(st, s) is not None:
        yield st, It('list', (args[0],))
        return
    if it.feasible(st, z3.Or(*[z3.And(z3.ULT(bv(i), s.len), b == ch) for i, b in enumerate(s.bytes)])):
        # the value may contain the separator: no assumption, the split is executed for real
        yield from models_std.M_str_split_char_real(it, ctx, args, st)
        return
    yield st, It('list', (args[0],))


def M_strip_prefix(it, ctx, args, st):
    s = sval(st, args[0])
    pre = bstr_py(sval(st, args[1]))
    if pre is None:
        raise Unsupported('strip_prefix with a symbolic prefix')
    n = len(pre)
    has = z3.And(z3.UGE(s.len, n), *[s.bytes[i] == pre[i] if i < len(s.bytes) else z3.BoolVal(False) for i in range(n)])
    for s2, hit in fork_bool(it, st, has):
        yield s2, (it.some(s2.ref(bstr_slice(s, bv(n), s.len))) if hit else it.none)


# ------------------------------------------------------------------ request plumbing
def M_into_parts(it, ctx, args, st):
    r = args[0]
    yield st, Agg('tuple', (r.fields[0], r.fields[1]))


def M_parse_query_params(it, ctx, args, st):
    parts = st.deref_all(args[0])
    yield st, parts.fields[1].fields[0]              # the uri slot of the harness Parts carries the parsed query map


def M_query_get(it, ctx, args, st):
    qm = st.deref_all(args[0])
    key = bstr_py(sval(st, args[1]))
    for k, (n, items) in qm.fields[0]:
        if k == key.decode():
            yield st, it.opt(z3.UGT(n, bv(0)), st.ref(Agg('QVals', (n, items))))
            return
    yield st, it.none


def M_opt_into_iter(it, ctx, args, st):
    yield st, Agg('It', ('optq', args[0], None, 0, None))


def M_flatten(it, ctx, args, st):
    src = args[0]
    if src.fields[0] != 'optq':
        raise Unsupported('flatten of ' + src.fields[0])
    o = src.fields[1]
    p = it.payload(o, 'Some')
    if p is None:
        yield st, Agg('It', ('qvals', (bv(0), ()), None, 0, None))
        return
    qv = st.deref_all(p.fields[0])
    n, items = qv.fields
    yield st, Agg('It', ('qvals', (z3.If(o.discr == 1, n, bv(0)), items), None, 0, None))


def M_qvals_into_iter(it, ctx, args, st):
    qv = st.deref_all(args[0])
    yield st, Agg('It', ('qvals', (qv.fields[0], qv.fields[1]), None, 0, None))


def it_next_q(it, st, itv, fr):
    kind, src, f, pos, cur = itv.fields
    n, items = src
    if pos >= len(items):
        yield st, itv, None
        return
    for s2, more in fork_bool(it, st, z3.UGT(n, bv(pos))):
        if more:
            yield s2, Agg('It', ('qvals', src, None, pos + 1, None)), s2.ref(items[pos])
        else:
            yield s2, itv, None


models_std.EXTRA_ITER_KINDS['qvals'] = it_next_q


def M_ext_get_pathparams(it, ctx, args, st):
    ext = st.deref_all(args[0])
    yield st, it.some(st.ref(ext.fields[0]))


def M_pathparams_index(it, ctx, args, st):
    pp = st.deref_all(args[0])
    key = bstr_py(sval(st, args[1])).decode()
    for k, v in pp.fields[0]:
        if k == key:
            yield st, st.ref(v)
            return
    yield st, Panic('path parameter missing from PathParams (key not found)', ctx.fr.fn.name)


def M_ext_insert_safeparams(it, ctx, args, st):
    ext = args[0]
    cell = st.deref(ext)
    st.write(ext, Agg('ResponseExtensions', (args[1],)))
    yield st, it.none


def M_ext_get_mut_safeparams(it, ctx, args, st):
    ext = args[0]
    yield st, it.some(Ptr(ext.addr, ext.proj + (('f', 0),)))


def M_safeparams_new(it, ctx, args, st):
    yield st, Agg('conjure_http::SafeParams', ((),))


def M_safeparams_insert(it, ctx, args, st):
    sp = args[0]
    cur = st.deref(sp)
    key = bstr_py(sval(st, args[1])).decode()
    val = st.deref_all(args[2])
    st.write(sp, Agg('conjure_http::SafeParams', (cur.fields[0] + ((key, val),),)))
    yield st, UNIT


def M_response(it, ctx, args, st):
    yield st, it.ok(Agg('http::Response', ()))


def T_handler(it, ctx, args, st):
    h = st.deref_all(args[0])
    logp = h.fields[0]
    st.write(logp, st.deref(logp) + ((ctx.callee.method, tuple(args[1:])),))
    yield st, it.ok(UNIT)


MODELS = [
    (r'percent_encoding::percent_decode_str', M_percent_decode_str),
    (r'percent_encoding::PercentDecode::<?.*>?::decode_utf8_lossy|percent_encoding::PercentDecode::decode_utf8_lossy', M_decode_utf8_lossy),
    (r'percent_encoding::PercentDecode::<?.*>?::decode_utf8|percent_encoding::PercentDecode::decode_utf8', M_decode_utf8),
    (r'<.* as std::convert::AsRef<str>>::as_ref', M_cow_as_ref, lambda it, ctx, args, st: isinstance(args[0], Ptr) and isinstance(st.deref_all(args[0]), BStr)),
    (r'(?:core|std)::str::<impl str>::split::<char>', M_str_split_char),
    (r'(?:core|std)::str::<impl str>::strip_prefix::<&str>', M_strip_prefix),
    (r'conjure_http::private::Request::<.*>::into_parts|http::Request::<.*>::into_parts', M_into_parts),
    (r'conjure_http::private::parse_query_params', M_parse_query_params),
    (r'std::collections::HashMap::<std::borrow::Cow<str>, std::vec::Vec<std::borrow::Cow<str>>>::get::<str>', M_query_get),
    (r'<std::option::Option<&std::vec::Vec<std::borrow::Cow<str>>> as std::iter::IntoIterator>::into_iter', M_opt_into_iter),
    (r'<std::option::IntoIter<&std::vec::Vec<std::borrow::Cow<str>>> as std::iter::Iterator>::flatten', M_flatten),
    (r'<.* as std::iter::IntoIterator>::into_iter', M_qvals_into_iter,
     lambda it, ctx, args, st: isinstance(args[0], Ptr) and isinstance(st.deref_all(args[0]), Agg) and st.deref_all(args[0]).name == 'QVals'),
    (r'(?:conjure_http::private|http)::Extensions::get::<(?:conjure_http::)?(?:path_params::)?PathParams>', M_ext_get_pathparams),
    (r'<(?:conjure_http::)?(?:path_params::)?PathParams as std::ops::Index<&str>>::index', M_pathparams_index),
    (r'(?:conjure_http::private|http)::Extensions::insert::<conjure_http::SafeParams>', M_ext_insert_safeparams),
    (r'(?:conjure_http::private|http)::Extensions::get_mut::<conjure_http::SafeParams>', M_ext_get_mut_safeparams),
    (r'conjure_http::SafeParams::new', M_safeparams_new), (r'conjure_http::SafeParams::insert::<.*>', M_safeparams_insert),
    (r'conjure_http::private::response::<.*>', M_response),
]
TMODELS = {('Handler', 'Svc', 'e1'): T_handler, ('Handler', 'Svc', 'e2'): T_handler}


class Param:
    """one request source with symbolic multiplicity (0..2 values) and symbolic bytes (<= L per value)"""

    def __init__(self, st, name, L, maxn=2, ascii_only=True, allow_nontext=False, forbid=()):
        self.name, self.L = name, L
        self.n = z3.BitVec(f'{name}_n', 64)
        st.pc.append(z3.ULE(self.n, maxn))
        self.vals = []
        for i in range(maxn):
            bs = [z3.BitVec(f'{name}{i}_{j}', 8) for j in range(L)]
            ln = z3.BitVec(f'{name}{i}_len', 64)
            st.pc.append(z3.ULE(ln, L))
            if ascii_only and not allow_nontext:
                st.pc.append(z3.And(*[z3.ULT(b, 128) for b in bs]))
            if allow_nontext:
                # http::HeaderValue invariant: no control bytes except tab, no DEL (bytes >= 0x80 are allowed: opaque, not text)
                st.pc.append(z3.And(*[z3.Or(z3.And(z3.UGE(b, 32), b != 127), b == 9) for b in bs]))
            for fb in forbid:
                # transport contract: e.g. a raw path segment never contains '/' (the router splits the path on it)
                st.pc.append(z3.And(*[b != fb for b in bs]))
            self.vals.append(BStr(tuple(bs), ln))

    def vars(self):
        out = [self.n]
        for v in self.vals:
            out += list(v.bytes) + [v.len]
        return out


def build_request(it, st, spec, L):
    """spec: {'path': {wire: Param}, 'query': {wire: Param}, 'header': {lower name: Param}} -> (request value, response extensions ptr, handler, call log ptr)"""
    headers = []
    for name, p in spec.get('header', {}).items():
        headers.append((name, Agg('GetAll', (p.n, tuple(header_value(v) for v in p.vals)))))
    hm = header_map(headers)
    qm = Agg('QueryMap', (tuple((k, (p.n, tuple(p.vals))) for k, p in spec.get('query', {}).items()),))
    pp = Agg('PathParams', (tuple((k, p.vals[0]) for k, p in spec.get('path', {}).items()),))
    parts = Agg('http::request::Parts', (UNIT, Agg('UriWithQuery', (qm,)), UNIT, hm, Agg('http::Extensions', (pp,)), UNIT))
    req = Agg('http::Request', (parts, Agg('Body', ())))
    ext = st.ref(Agg('ResponseExtensions', (None,)))
    log = st.ref(())
    handler = Agg('Arc', (st.ref(Agg('Handler', (log,))),))
    runtime = Agg('Arc', (st.ref(Agg('conjure_http::server::runtime::ConjureRuntime', (Seq(()),))),))
    endpoint = st.ref(Agg('Endpoint', (handler, runtime)))
    return endpoint, req, ext, log


def make_interp(prog, unwind=8):
    it = Interp(prog, MODELS + models_http.MODELS + models_serde.MODELS + models_std.MODELS, {**TMODELS, **models_serde.TMODELS}, unwind=unwind)
    it.ext_consts.update(models_http.CONSTS)
    return it


def handle_fn(prog, endpoint_struct):
    c = [k for k in prog.fns if k.startswith(CRATE + '::') and re.search(r'::handle(#\d+)?$', k) and endpoint_struct in prog.fns[k].header]
    if len(c) != 1:
        raise Inconclusive(f'endpoints harness: handle of {endpoint_struct} not found uniquely: {c}')
    return c[0]


TENV = {'__T': ('path', 'Handler', ()), '__I': ('path', 'Body', ()), '__O': ('path', 'Out', ())}
