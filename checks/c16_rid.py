"""C16, resource-identifier half: real FromStr/new/from_components/accessors MIR, `regex` modelled from the pattern in the dump."""
import z3, re
from mirsym.dump import program
from mirsym.interp import Interp, St
from mirsym import models_std, models_serde, models_regex
from mirsym.values import BStr, Ptr, Agg, Enum, Panic, Unwind, bv, bstr_eq, bstr_concat, bstr, is_abnormal
from mirsym.harness import find_fn, sym_str, in_class, model_bytes, Decider, finish_engine, replay

LAZY = [(r'<(?:\w+::)*[A-Z][A-Z0-9_]+ as std::ops::Deref>::deref', models_regex.M_lazy_deref)]


def seg_ok(s, i, j, first, rest, allow_empty=False):
    """bytes i..j (concrete positions) form  first rest*  (or empty if allowed)"""
    if i == j:
        return z3.BoolVal(allow_empty)
    return z3.And(in_class(s.bytes[i], first), *[in_class(s.bytes[p], rest) for p in range(i + 1, j)])


def rid_grammar(s):
    """the specification grammar, written as split points, independent of the regex: -> (accepts, [(cond, (a, b, c))])
    a/b/c = positions of the 2nd/3rd/4th '.'"""
    K = len(s.bytes)
    alts = []
    LOW, LOWDIG, LDD, LOC = 'a-z', 'a-z0-9', 'a-z0-9-', 'a-zA-Z0-9_.-'
    for L in range(9, K + 1):
        for a in range(4, L):
            for b in range(a + 1, L):
                for c in range(b + 2, L - 1):
                    alts.append((z3.And(s.len == bv(L), s.bytes[0] == ord('r'), s.bytes[1] == ord('i'), s.bytes[2] == ord('.'),
                                        seg_ok(s, 3, a, LOW, LDD), s.bytes[a] == ord('.'),
                                        seg_ok(s, a + 1, b, LOWDIG, LDD, True), s.bytes[b] == ord('.'),
                                        seg_ok(s, b + 1, c, LOW, LDD), s.bytes[c] == ord('.'),
                                        *[in_class(s.bytes[p], LOC) for p in range(c + 1, L)]), (a, b, c)))
    return z3.Or(*[x for x, _ in alts]) if alts else z3.BoolVal(False), alts


def component_ok(s, first, rest, allow_empty=False, plus=False):
    """whole symbolic string s matches  first rest*  (or `rest+` when plus)"""
    K = len(s.bytes)
    conds = []
    for i, b in enumerate(s.bytes):
        cls = rest if (i > 0 or plus) else first
        conds.append(z3.Or(z3.UGE(bv(i), s.len), in_class(b, cls)))
    nonempty = z3.BoolVal(True) if allow_empty else s.len != 0
    return z3.And(nonempty, *conds)


def run_rid(rep, tier):
    from checks.c16 import report
    K = 13 if tier == 'quick' else 18
    rep.bounds['rid'] = f'all valid-UTF-8 byte strings of <= {K} bytes (shortest rid is 9 bytes); from_components: components of <= 3 bytes each'
    prog = program(['conjure_object'])
    it = Interp(prog, models_std.MODELS + models_serde.MODELS + models_regex.MODELS + LAZY, models_serde.TMODELS, unwind=K + 4)
    dec = Decider(rep, it)
    fn = lambda suffix: [k for k in prog.fns if k.endswith(suffix) and '::resource_identifier::' in k]
    # ---- the pattern in the dump against the specification grammar (pure solver query, the spike of DESIGN §2)
    st = St()
    ptr, s = sym_str(st, 's', K)
    rex = None
    from mirsym.parse import Unsupported as _Unsup
    try:
        for s2, v in models_regex.M_lazy_deref(it, type('C', (), {'self_ty': ('path', 'conjure_object::resource_identifier::PARSE_REGEX', ())})(), [], st.fork()):
            rex = s2.deref(v)
    except _Unsup:
        rex = None          # the implementation no longer parses with a regex: the entry paths below are compared with the grammar directly
    gram, alts = rid_grammar(s)
    if rex is not None:
        nodes = models_regex.compile_pattern(rex.fields[0])
        accepts, groups = models_regex.analyse(nodes, s)
        m = dec.decide('rid:pattern-literal==spec-grammar', st, accepts != gram, bound=K)
        if m is not None:
            report(rep, 'rid', 'pattern', model_bytes(m, s), 'the PARSE_REGEX literal and the specification grammar disagree')
        m = dec.decide('rid:pattern-groups-unambiguous', st, models_regex.ambiguity(nodes, s), bound=K)
        if m is not None:
            rep.inconc(f'regex model: capture groups ambiguous for {model_bytes(m, s)!r}; leftmost-first semantics would be needed')
    else:
        rep.extra['rid_regex'] = 'absent: hand-written parser executed from MIR'
    # ---- entry paths on real MIR
    entries = {
        'from_str': (fn('::from_str')[0], 'direct'),
        'new': (fn('::new')[0], 'direct'),
        'from_plain': (find_fn(prog, 'from_plain', ret='ResourceIdentifier'), 'direct'),
        'deserialize': (fn('::deserialize')[0], 'de'),
    }
    acc = {a: fn('::' + a)[0] for a in ('service', 'instance', 'type_', 'locator', 'as_str')}
    for ename, (fname, kind) in entries.items():
        st = St()
        ptr, s = sym_str(st, 's', K)
        gram, alts = rid_grammar(s)
        args, tenv = [ptr], {}
        if kind == 'de':
            args, tenv = [Agg('StrEventDe', (s,))], {'D': ('path', 'StrEventDe', ())}
        seen = {'acc': 0, 'rej': 0}
        npaths = 0
        for s2, rv in it.run(fname, args, st, tenv):
            npaths += 1
            rep.states += 1
            if isinstance(rv, Unwind):
                rep.inconc(f'rid {ename}: unwinding assertion failed at {rv.where}')
                continue
            if isinstance(rv, Panic):
                m = dec.decide(f'rid:{ename}:panic', s2, z3.BoolVal(True))
                report(rep, 'rid', ename, model_bytes(m, s), f'panic: {rv.msg}')
                continue
            accepted = it.variant_of(rv, 'Ok')
            m = dec.decide(f'rid:{ename}:path{npaths}:accept<=>grammar', s2, accepted != gram, bound=K)
            if m is not None:
                report(rep, 'rid', ename, model_bytes(m, s), 'acceptance differs from the specification grammar')
                continue
            okp = it.payload(rv, 'Ok')
            if okp is not None and it.feasible(s2, accepted):
                seen['acc'] += 1
                if ename in ('from_str', 'deserialize'):
                    s3 = s2.fork()
                    s3.pc.append(accepted)
                    check_components(rep, it, dec, ename, s3, okp.fields[0], s, alts, acc, report)
            if it.feasible(s2, z3.Not(accepted)):
                seen['rej'] += 1
        if not seen['acc'] or not seen['rej']:
            rep.inconc(f'vacuity: rid {ename} reached accept={seen["acc"]} reject={seen["rej"]}')
    # ---- from_components: succeeds exactly when each component is individually valid
    KC = 3 if tier == 'quick' else 4
    st = St()
    comps = [sym_str(st, n, KC) for n in ('svc', 'ins', 'typ', 'loc')]
    LOW, LOWDIG, LDD, LOC = 'a-z', 'a-z0-9', 'a-z0-9-', 'a-zA-Z0-9_.-'
    want = z3.And(component_ok(comps[0][1], LOW, LDD), component_ok(comps[1][1], LOWDIG, LDD, allow_empty=True),
                  component_ok(comps[2][1], LOW, LDD), component_ok(comps[3][1], LOC, LOC, plus=True))
    it2 = Interp(prog, models_std.MODELS + models_serde.MODELS + models_regex.MODELS + LAZY, models_serde.TMODELS, unwind=4 * KC + 12)
    dec2 = Decider(rep, it2)
    np_ = 0
    seen = {'acc': 0, 'rej': 0}
    for s2, rv in it2.run(fn('::from_components')[0], [p for p, _ in comps], st):
        np_ += 1
        rep.states += 1
        if is_abnormal(rv):
            m = dec2.decide('rid:from_components:abnormal', s2, z3.BoolVal(True))
            wit = [model_bytes(m, c) for _, c in comps]
            if isinstance(rv, Unwind):
                rep.inconc(f'rid from_components: unwinding assertion at {rv.where}')
            else:
                report_components(rep, wit, f'panic: {rv.msg}')
            continue
        accepted = it2.variant_of(rv, 'Ok')
        m = dec2.decide(f'rid:from_components:path{np_}:ok<=>each-component-valid', s2, accepted != want, bound=KC)
        if m is not None:
            report_components(rep, [model_bytes(m, c) for _, c in comps], 'from_components success differs from per-component validity')
            continue
        okp = it2.payload(rv, 'Ok')
        if okp is not None and it2.feasible(s2, accepted):
            seen['acc'] += 1
            joined = bstr(b'ri.')
            for i, (_, c) in enumerate(comps):
                joined = bstr_concat(joined, c)
                if i < 3:
                    joined = bstr_concat(joined, bstr(b'.'))
            stored = okp.fields[0].fields[0]
            m = dec2.decide(f'rid:from_components:path{np_}:string==joined', s2, z3.And(accepted, z3.Not(bstr_eq(stored, joined))))
            if m is not None:
                report_components(rep, [model_bytes(m, c) for _, c in comps], 'from_components stores a different string')
        if it2.feasible(s2, z3.Not(accepted)):
            seen['rej'] += 1
    if not seen['acc'] or not seen['rej']:
        rep.inconc(f'vacuity: from_components reached accept={seen["acc"]} reject={seen["rej"]}')
    # ---- reachability twins replayed natively
    st = St()
    ptr, s = sym_str(st, 's', K)
    gram, _ = rid_grammar(s)
    for tag, cond, want_ok in (('accepted-empty-instance', z3.And(gram, s.len >= 10, s.bytes[5] == ord('.'), s.bytes[4] == ord('.')), True),
                               ('rejected-uppercase-service', z3.And(z3.Not(gram), s.len >= 9, s.bytes[0] == ord('r'), s.bytes[1] == ord('i'),
                                                                     s.bytes[2] == ord('.'), s.bytes[3] == ord('A')), False)):
        m = dec.witness('rid:' + tag, st, cond)
        b = model_bytes(m, s)
        r = replay([{'op': 'rid', 'hex': b.hex()}])[0]
        rep.replayed += 1
        if any(r[k]['ok'] != want_ok for k in ('from_str', 'new', 'from_plain', 'deserialize')):
            rep.inconc(f'model mismatch: twin {tag} input {b!r} behaves differently natively: {r}')
    finish_engine(rep, it)
    finish_engine(rep, it2)
    rep.assumptions += ['regex crate: Regex::captures on the anchored pattern read from the dump == bounded matcher over the same pattern (subset: literals, classes, groups, greedy repeats); group boundaries unique (checked by a query)',
                        'String/str Index<Range*> panics exactly when out of range or off a char boundary; format!("{}") of &str is the string itself']
    rep.outside.append(f'resource identifiers longer than {K} bytes; the regex engine itself (validated by native replay of every witness)')


def check_components(rep, it, dec, ename, st, rid, s, alts, acc, report):
    """accessors on the accepted value: exactly the grammar's groups, and they re-join to the input"""
    ridp = st.ref(rid)
    vals = {}
    for name, f in acc.items():
        outs = list(it.run(f, [ridp], st.fork()))
        for s2, rv in outs:
            rep.states += 1
            if isinstance(rv, Panic):
                m = dec.decide(f'rid:{ename}:{name}:panic', s2, z3.BoolVal(True))
                if m is not None:
                    report(rep, 'rid', name, model_bytes(m, s), f'accessor panics: {rv.msg}')
                continue
            if isinstance(rv, Unwind):
                rep.inconc(f'rid accessor {name}: unwind {rv.where}')
                continue
            got = s2.deref_all(rv)
            # expected slice under each split of the grammar
            bad = []
            for cond, (a, b, c) in alts:
                lo, hi = {'service': (3, a), 'instance': (a + 1, b), 'type_': (b + 1, c), 'locator': (c + 1, None), 'as_str': (0, None)}[name]
                exp_len = (s.len - bv(lo)) if hi is None else bv(hi - lo)
                eqs = [got.len == exp_len]
                for k in range(len(got.bytes)):
                    if lo + k < len(s.bytes):
                        eqs.append(z3.Or(z3.UGE(bv(k), got.len), got.bytes[k] == s.bytes[lo + k]))
                bad.append(z3.And(cond, z3.Not(z3.And(*eqs))))
            m = dec.decide(f'rid:{ename}:{name}==grammar-group', s2, z3.Or(*bad))
            if m is not None:
                report(rep, 'rid', name, model_bytes(m, s), f'component {name} is not the grammar\'s group')


def report_components(rep, wit, what):
    op = {'op': 'rid_components', 'service': wit[0].hex(), 'instance': wit[1].hex(), 'type': wit[2].hex(), 'locator': wit[3].hex()}
    r = replay([op])[0]
    r2 = replay([op], 'release')[0]
    rep.replayed += 1
    pat = [rb'[a-z][a-z0-9\-]*', rb'(?:[a-z0-9][a-z0-9\-]*)?', rb'[a-z][a-z0-9\-]*', rb'[a-zA-Z0-9_\-\.]+']
    want = all(re.fullmatch(p, w) for p, w in zip(pat, wit))
    joined = b'ri.' + b'.'.join(wit)
    bad = ('panic' in r) or r.get('ok') != want or (want and r.get('as_str', '').encode() != joined)
    if bad and r == r2:
        rep.violation('C16:rid:from_components', f'from_components{tuple(wit)!r}: {what}; native {r}, per-component validity {want}', {'components_hex': [w.hex() for w in wit], 'native': r})
    else:
        rep.inconc(f'model mismatch (rid from_components): {wit!r} ({what}) does not reproduce natively: {r}')
