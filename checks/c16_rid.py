def run_rid(rep, tier):
    pass
