"""C06 — servers accept a request body only if it is exactly one complete valid document (real StdRequestDeserializer /
OptionalRequestDeserializer / BinaryRequestDeserializer MIR, blocking and async, with request_body_encoding, the encodings'
deserializer plumbing and read_body executed for real)."""
import json
import z3
from mirsym.dump import program
from mirsym.interp import Interp, St
from mirsym import models_std, models_http
from mirsym.models_std import box
from mirsym.models_http import header_value, header_map, mt_name, name_code, media_type
from mirsym.values import Agg, Enum, Ptr, Seq, BStr, UNIT, Panic, Unwind, Coro, bv, bstr, bstr_eq, is_abnormal
from mirsym.harness import Decider, finish_engine, replay, find_fn, find_fns
from checks import bodyio, c11, c18
from vlib.common import Inconclusive

ENC_TYPES = c11.ENC_TYPES
N_NATIVE = [0, 1, 2, 3, 4, 5, 6, 8, 16]          # const-generic limits the replay binary instantiates


def M_erase(it, ctx, args, st):
    yield st, Agg('erased_serde::Deserializer', (args[0],))


MODELS = [
    (r'<dyn erased_serde::Deserializer<.*>>::erase::<.*>|erased_serde::de::<impl dyn erased_serde::Deserializer<.*>>::erase::<.*>|.*erased_serde::Deserializer.*::erase::<.*>', M_erase),
]


def content_type_header(it, st, tag='ct'):
    """Content-Type: absent / not text / unparsable / parsed media type (type, subtype, optional suffix, optional parameter)"""
    rg = c11.Ranges(it, st, 1, 1, tag=tag)
    r = rg.rs[0]
    _, ty, sub, hassuf, suf, hasq, hasp, pok, charset, qparam = rg.items[0]
    present = z3.Bool(tag + '_present')
    text = z3.Bool(tag + '_is_text')
    return r, present, text, charset, qparam


def expected_encoding(r, present, order):
    """index (in registration order) of the encoding whose type/subtype equals the Content-Type's, as Bools"""
    out = []
    for n in order:
        ety, esub = (name_code(x) for x in ENC_TYPES[n])
        out.append(z3.And(present, r['ok'], r['ty'] == ety, r['sub'] == esub, z3.Not(r['hassuf'])))
    return out


TWIN_OPS = [({'op': 'server_body', 'N': 8, 'content_type': 'application/json', 'chunks': ['31', '', '32'], 'order': ['json', 'smile']}, {'ok': '12'}),
            ({'op': 'server_body', 'N': 2, 'content_type': 'application/json', 'chunks': ['31', '20', '20'], 'order': ['json', 'smile']}, 'err'),
            ({'op': 'server_body', 'N': 8, 'content_type': 'text/plain', 'chunks': ['31'], 'order': ['json', 'smile']}, 'err'),
            ({'op': 'server_body', 'N': 8, 'content_type': None, 'chunks': ['31'], 'order': ['json', 'smile']}, 'err'),
            ({'op': 'server_body', 'N': 8, 'content_type': 'application/json; charset=utf-8', 'chunks': ['31'], 'order': ['smile', 'json']}, {'ok': '1'}),
            ({'op': 'server_body', 'N': 8, 'content_type': 'application/json', 'chunks': ['31', '20', '78'], 'order': ['json', 'smile']}, 'err')]


OPT_BIN_OPS = [({'op': 'server_body_opt_bin', 'content_type': None, 'chunk': ''}, ('none', 'err')), ({'op': 'server_body_opt_bin', 'content_type': 'application/json', 'chunk': '37'}, ('some:7', 'err')),
               ({'op': 'server_body_opt_bin', 'content_type': 'application/octet-stream', 'chunk': '37'}, ('err', 'ok')), ({'op': 'server_body_opt_bin', 'content_type': 'text/plain', 'chunk': '37'}, ('err', 'err')),
               ({'op': 'server_body_opt_bin', 'content_type': 'application/json', 'chunk': '3778'}, ('err', 'err')),
               # a Content-Type announces a body: no stream item at all, or only empty chunks, is a truncated document
               ({'op': 'server_body_opt_bin', 'content_type': 'application/json', 'chunks': []}, ('err', 'err')),
               ({'op': 'server_body_opt_bin', 'content_type': 'application/json', 'chunks': ['']}, ('err', 'err')),
               ({'op': 'server_body_opt_bin', 'content_type': 'application/x-jackson-smile', 'chunks': []}, ('err', 'err')),
               ({'op': 'server_body_opt_bin', 'content_type': 'application/json', 'chunks': ['', '37', '']}, ('some:7', 'err')),
               ({'op': 'server_body_opt_bin', 'content_type': None, 'chunks': ['37']}, ('none', 'err'))]


def battery_opt_bin():
    out = []
    for (o, w), r in zip(OPT_BIN_OPS, replay([o for o, _ in OPT_BIN_OPS])):
        if (r.get('optional'), r.get('binary')) != w or r.get('optional_async') != w[0]:
            out.append(f'{o}: native (optional, optional async, binary) = ({r.get("optional")}, {r.get("optional_async")}, {r.get("binary")}), expected {(w[0], w[0], w[1])}')
    return out


def battery():
    out = []
    for (o, w), r_ in zip(TWIN_OPS, replay([o for o, _ in TWIN_OPS])):
        for fl in ('blocking', 'async'):
            got = r_.get(fl, {})
            good = (got.get('ok') == w['ok']) if isinstance(w, dict) else ('err' in got)
            if not good:
                out.append(f'{fl} {o}: {got} (expected {w})')
    return out


def run(rep, tier):
    NCH, L = (3, 2) if tier == 'quick' else (4, 2)
    rep.bounds['history'] = f'<= {NCH} stream items (Ok chunk of <= {L} symbolic bytes incl. empty, or Err); size limit N symbolic over 64 bits; Content-Type absent / not text / unparsable / parsed; both registration orders of JSON and Smile'
    prog = program(['conjure_http', 'conjure_serde'])
    doc = bodyio.Doc()
    cmods, ctmods = bodyio.cursor_models(doc, {})
    tm = dict(bodyio.TMODELS)
    tm.update(ctmods)

    def mk():
        it = Interp(prog, MODELS + c18.MODELS + cmods + bodyio.ASYNC_MODELS + models_http.MODELS + models_std.MODELS, tm, unwind=NCH + 6, merge=c11.MERGE)
        it.ext_consts.update(models_http.CONSTS)
        it.ext_consts.update(c18.CONSTS)
        it.const_generic_defaults['N'] = bv(50 * 1024 * 1024)      # SERIALIZABLE_REQUEST_SIZE_LIMIT, the declared default of StdRequestDeserializer<N>
        return it
    std_impls = [k for k in find_fns(prog, 'deserialize', inpath='conjure_http::server::<impl at conjure-http/src/server/mod.rs') if 'StdRequestDeserializer' in impl_text(prog, k)]
    blocking = [k for k in std_impls if '{closure' not in k and 'async fn body' not in prog.fns[k].ret]
    asyncs = [k + '::{closure#0}' for k in std_impls if 'async fn body' in prog.fns[k].ret and (k + '::{closure#0}') in prog.fns]
    if len(blocking) != 1 or len(asyncs) != 1:
        raise Inconclusive(f'C06 harness: StdRequestDeserializer impls not found uniquely: {blocking} {asyncs}')
    for order in (['JsonEncoding', 'SmileEncoding'], ['SmileEncoding', 'JsonEncoding']):
        for hp in (False, True):
            for flavour, fname in (('blocking', blocking[0]), ('async', asyncs[0])):
                it = mk()
                dec = Decider(rep, it)
                st = St()
                h = bodyio.History(it, st, NCH, L)
                N = z3.BitVec('N', 64)
                r, present, text, charset, qparam = content_type_header(it, st)
                mt = c11.build_media(it, r, (False, hp), charset, qparam)
                hv_abs = header_value(None, ((r['ok'], mt),))
                headers = st.ref(header_map([('content-type', Agg('GetAll', (z3.If(present, bv(1), bv(0)), (hv_abs,))))]))
                rt = c11.runtime_value(st, order)
                tenv = {'R': ('path', 'ChunkIter', ()), 'T': ('path', 'DocT', ()), '#const:N': N}
                kind, which, total, body = h.oracle(z3.BoolVal(True), N)
                if flavour == 'blocking':
                    gen = it.run(fname, [rt, headers, h.iterator()], st, tenv)
                else:
                    gen = bodyio.poll_once(it, st, fname, Coro('std-async', bv(0, 32), (rt, headers, h.iterator()), ()), tenv)
                exp = expected_encoding(r, present, order)
                np_, seen_ok = 0, 0
                for s2, rv in gen:
                    np_ += 1
                    rep.states += 1
                    tag = f'std:{"".join(n[0] for n in order)}:param{int(hp)}:{flavour}:path{np_}'
                    if isinstance(rv, Unwind):
                        rep.inconc(f'C06 {tag}: unwind {rv.where}')
                        continue
                    if isinstance(rv, Panic):
                        m = dec.decide(tag + ':panic', s2, z3.BoolVal(True))
                        if m is not None:
                            report(rep, flavour, h, m, N, r, present, hp, order, doc, f'panic: {rv.msg}')
                        continue
                    is_ok = it.variant_of(rv, 'Ok')
                    seen = s2.aux.get('doc_body')
                    body_ok = bstr_eq(seen, body) if seen is not None else z3.BoolVal(False)
                    full = z3.And(z3.Or(*exp), kind == 0, body_ok, doc.doc_valid, doc.rest_is_ws)
                    bad = z3.Or(z3.And(is_ok, z3.Not(full)),
                                z3.And(z3.Not(is_ok), z3.Or(*exp), kind == 0, doc.doc_valid, doc.rest_is_ws))
                    m = dec.decide(tag + ':accepted<=>exactly-one-complete-valid-document', s2, bad, chunks=NCH)
                    if m is not None:
                        report(rep, flavour, h, m, N, r, present, hp, order, doc, 'a body is accepted (refused) although it is not (is) exactly one complete valid document within the limit')
                        continue
                    seen_ok += int(it.feasible(s2, is_ok))
                    # every refusal is INVALID_ARGUMENT or the stream's own error
                    errp = it.payload(rv, 'Err')
                    if errp is not None and it.feasible(s2, z3.Not(is_ok)):
                        e = errp.fields[0]
                        good = e.fields[0] == 'stream' or (e.fields[0] == 'service' and e.fields[3] is not None and e.fields[3].name.endswith('InvalidArgument'))
                        if not good:
                            rep.structural('C06:error-kind', f'{flavour} StdRequestDeserializer refuses with {e.fields[0]} / {e.fields[3]!r} instead of INVALID_ARGUMENT or the stream error', {'error': repr(e)[:300]}, battery)
                if not seen_ok:
                    rep.inconc(f'vacuity: StdRequestDeserializer {flavour} never accepts')
                finish_engine(rep, it)
    with rep.part('optional and binary deserializers'):
        run_optional_and_binary(rep, prog, mk, NCH, L, doc)
    # reachability twins replayed natively
    for fail in battery() + battery_opt_bin():
        rep.violation('C06:native-twin', f'native twin: {fail}', {'native': fail})
    rep.replayed += len(TWIN_OPS) + len(OPT_BIN_OPS)
    rep.assumptions += ['serde_json / serde_smile: T::deserialize consumes one document (valid or not); Deserializer::end succeeds iff only whitespace follows; erased_serde::erase is transparent',
                        'the futures of the body stream are always Ready; mediatype parsing is outside (Content-Type arrives parsed)']
    rep.outside += ['what a well-formed document is (serde_json / serde_smile)', f'more than {NCH} stream items']


def impl_text(prog, fname):
    for info in prog.impls:
        for ms in info.methods.values():
            if fname in ms:
                return info.text
    return ''


def run_optional_and_binary(rep, prog, mk, NCH, L, doc):
    """OptionalRequestDeserializer: no Content-Type -> None, otherwise StdRequestDeserializer; Binary: octet-stream gate"""
    it = mk()
    dec = Decider(rep, it)
    opt = [k for k in find_fns(prog, 'deserialize', inpath='conjure_http::server::conjure::<impl at') if 'OptionalRequestDeserializer' in impl_text(prog, k)
           and 'async fn body' not in prog.fns[k].ret and '{closure' not in k]
    if len(opt) != 1:
        raise Inconclusive(f'C06 harness: OptionalRequestDeserializer impl not found uniquely: {opt}')
    st = St()
    h = bodyio.History(it, st, 1, 1)
    r, present, text, charset, qparam = content_type_header(it, st)
    mt = c11.build_media(it, r, (False, False), charset, qparam)
    headers = st.ref(header_map([('content-type', Agg('GetAll', (z3.If(present, bv(1), bv(0)), (header_value(None, ((r['ok'], mt),)),))))]))
    order = ['JsonEncoding', 'SmileEncoding']
    rt = c11.runtime_value(st, order)
    # StdRequestDeserializer with its default limit constant: the const generic default is a named const in the dump
    tenv = {'R': ('path', 'ChunkIter', ()), 'T': ('path', 'DocT', ()), '#const:N': bv(50 * 1024 * 1024)}
    exp = expected_encoding(r, present, order)
    kind, which, total, body = h.oracle(z3.BoolVal(False), bv(0))
    np_ = 0
    for s2, rv in it.run(opt[0], [rt, headers, h.iterator()], st, tenv):
        np_ += 1
        rep.states += 1
        if is_abnormal(rv):
            rep.inconc(f'C06 optional: abnormal outcome {rv!r}')
            continue
        is_ok = it.variant_of(rv, 'Ok')
        okp = it.payload(rv, 'Ok')
        conds = []
        if okp is not None:
            v = okp.fields[0]
            none = v.discr == 0 if isinstance(v, Enum) else z3.BoolVal(False)
            conds.append(z3.And(is_ok, none, present))
            conds.append(z3.And(is_ok, z3.Not(none), z3.Not(z3.And(z3.Or(*exp), kind == 0, doc.doc_valid, doc.rest_is_ws))))
        conds.append(z3.And(z3.Not(is_ok), z3.Not(present)))
        m = dec.decide(f'optional:path{np_}:absent<=>no-Content-Type', s2, z3.Or(*conds))
        if m is not None:
            rep.structural('C06:optional', f'OptionalRequestDeserializer: Content-Type present={z3.is_true(m.eval(present, True))} gives ok={z3.is_true(m.eval(is_ok, True))}', {'model': str(m)[:400]}, battery_opt_bin)
    finish_engine(rep, it)
    it = mk()
    dec = Decider(rep, it)
    # entered at the stable trait impl (the private helper behind it may be renamed or inlined by a refactoring)
    binfs = [k for k in find_fns(prog, 'deserialize', inpath='conjure_http::server::conjure::<impl at') if 'BinaryRequestDeserializer' in impl_text(prog, k)
             and 'async fn body' not in prog.fns[k].ret and '{closure' not in k and 'AsyncDeserializeRequest' not in impl_text(prog, k)]
    if len(binfs) != 1:
        raise Inconclusive(f'C06 harness: BinaryRequestDeserializer impl not found uniquely: {binfs}')
    binf = binfs[0]
    st = St()
    ct = z3.BitVec('ct_sel', 8)
    st.pc.append(z3.ULT(ct, len(c18.CT_CHOICES)))
    resp = c18.response_value(st, z3.BitVecVal(200, 16), ct, Agg('BodyToken', ()))
    headers = st.ref(resp.fields[1])
    rt_b = c11.runtime_value(st, ['JsonEncoding', 'SmileEncoding'])
    for s2, rv in it.run(binf, [rt_b, headers, Agg('BodyToken', ())], st, {'R': ('path', 'BodyToken', ())}):
        rep.states += 1
        if is_abnormal(rv):
            rep.inconc(f'C06 binary: abnormal {rv!r}')
            continue
        is_ok = it.variant_of(rv, 'Ok')
        m = dec.decide('binary:Ok<=>application/octet-stream', s2, is_ok != (ct == 3))
        if m is not None:
            rep.structural('C06:binary', f'BinaryRequestDeserializer: Content-Type {c18.CT_CHOICES[m.eval(ct, True).as_long()]!r} accepted={z3.is_true(m.eval(is_ok, True))}', {}, battery_opt_bin)
    finish_engine(rep, it)


def report(rep, flavour, h, m, N, r, present, hp, order, doc, what):
    chunks = h.concrete(m)
    n = m.eval(N, True).as_long()
    dv, rw = z3.is_true(m.eval(doc.doc_valid, True)), z3.is_true(m.eval(doc.rest_is_ws, True))
    # re-materialise a body with the abstract shape, keeping chunk boundaries and the total length class relative to N
    text = (b'1' if dv else b'x') + (b' ' if rw else b' y')
    # empty chunks of the model stay empty (an implementation may treat them specially); the text goes to the non-empty ones
    live = [i for i, x in enumerate(chunks) if x] or [i for i, x in enumerate(chunks) if x is not None]
    parts, k = [], 0
    for i, x in enumerate(chunks):
        if x is None:
            parts.append(None)
        elif x == '' and i not in live:
            parts.append('')
        elif live and i == live[-1]:
            parts.append(text[k:].hex())
        else:
            parts.append(text[k:k + 1].hex())
            k += 1
    total = sum(len(bytes.fromhex(x)) for x in parts if x is not None)
    stream_err = any(x is None for x in parts)
    # pick a native limit with the same relation to the total as in the model (the model's own total may differ after re-materialisation)
    orig_total = 0
    over = False
    for x in chunks:
        if x is None:
            break
        orig_total += len(bytes.fromhex(x))
        if orig_total > n:
            over = True
            break
    cand = [v for v in N_NATIVE if (v < total) == over] if not stream_err else N_NATIVE
    nn = (max(cand) if not over else min(cand)) if cand else 16
    if z3.is_true(m.eval(present, True)):
        ct = c11.range_text(m, r, (False, hp)) if z3.is_true(m.eval(r['ok'], True)) else '@@not/a/type/'
    else:
        ct = None
    op = {'op': 'server_body', 'N': nn, 'content_type': ct, 'chunks': parts, 'order': ['json' if o == 'JsonEncoding' else 'smile' for o in order]}
    res, res2 = replay([op])[0], replay([op], 'release')[0]
    rep.replayed += 1
    got = res.get(flavour, {})
    base = ct.split(';')[0] if ct else None
    enc_ok = base in ('application/json',)         # the native document is JSON text; Smile-typed bodies are replayed as refusals only
    too_large = (not stream_err) and total > nn
    want_ok = enc_ok and not stream_err and not too_large and dv and rw and len(parts) > 0
    if base == 'application/x-jackson-smile':
        rep.inconc(f'C06: counterexample uses the Smile encoding, which the replay binary does not materialise: {op}')
        return
    if ('ok' in got) != want_ok and res == res2:
        key = 'C06:trailing-data-accepted' if ('ok' in got and dv and not rw and enc_ok and not stream_err and not too_large) else 'C06:std'
        rep.violation(key, f'{flavour} StdRequestDeserializer<{nn}>: Content-Type {ct!r}, body chunks {parts}: {what}; native {got}', {'op': op, 'native': res})
    else:
        rep.inconc(f'model mismatch C06 {flavour}: {op} ({what}) does not reproduce natively: {got} (expected ok={want_ok})')


def replay_cmd(path):
    w = json.load(open(path))
    print(json.dumps(replay([w['witness']['op']])[0], indent=1))
    return 0
