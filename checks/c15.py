"""C15 — no path ever produces a safelong outside the 53-bit safe range."""
from vlib import kani
from vlib.common import Inconclusive

K_FAST = ['c15_new', 'c15_min_max', 'c15_try_from_i64', 'c15_try_from_isize', 'c15_try_from_i128',
          'c15_try_from_u64', 'c15_try_from_usize', 'c15_try_from_u128',
          'c15_from_u8', 'c15_from_i8', 'c15_from_u16', 'c15_from_i16', 'c15_from_u32', 'c15_from_i32',
          'c15_deserialize_i64', 'c15_deserialize_u64', 'c15_into_i64_i128']


def run(rep, tier):
    rep.bounds['K'] = 'full-width symbolic integers (i64/u64/i128/u128/usize/isize and the six narrow widths); loop-free, no unwinding needed'
    rep.assumptions += ['Kani/CBMC model of the compiled code (dev profile, overflow checks on)',
                        'serde::de::Error of the harness deserializer discards messages (formatting is not the subject)']
    res = kani.run_parallel({'c15': K_FAST}, timeout_s=900)
    failed = kani.record(rep, res)
    rep.functions_encoded += ['SafeLong::{new,min_value,max_value,deref,default}', 'TryFrom<{u64,i64,u128,i128,usize,isize}> for SafeLong',
                              'From<{u8,i8,u16,i16,u32,i32}> for SafeLong', 'Deserialize for SafeLong (serde i64 visitor real)',
                              'From<SafeLong> for {i64,i128}', 'TryFrom<SafeLong> for {u64,i32}']
    kani.handle_failures(rep, failed, 'C15')
