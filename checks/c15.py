"""C15 — no path ever produces a safelong outside the 53-bit safe range."""
from vlib import kani
from vlib.common import Inconclusive

K_FAST = ['c15_new', 'c15_min_max', 'c15_try_from_i64', 'c15_try_from_isize', 'c15_try_from_i128',
          'c15_try_from_u64', 'c15_try_from_usize', 'c15_try_from_u128',
          'c15_from_u8', 'c15_from_i8', 'c15_from_u16', 'c15_from_i16', 'c15_from_u32', 'c15_from_i32',
          'c15_deserialize_i64', 'c15_deserialize_u64', 'c15_into_i64_i128']


def run(rep, tier):
    rep.bounds['K'] = 'full-width symbolic integers (i64/u64/i128/u128/usize/isize and the six narrow widths); loop-free, no unwinding needed'
    rep.assumptions += ['Kani/CBMC model of the compiled code (dev profile, overflow checks on)',
                        'serde::de::Error of the harness deserializer discards messages (formatting is not the subject)']
    res = kani.run_parallel({'c15': K_FAST}, timeout_s=900)
    failed = kani.record(rep, res)
    rep.functions_encoded += ['SafeLong::{new,min_value,max_value,deref,default}', 'TryFrom<{u64,i64,u128,i128,usize,isize}> for SafeLong',
                              'From<{u8,i8,u16,i16,u32,i32}> for SafeLong', 'Deserialize for SafeLong (serde i64 visitor real)',
                              'From<SafeLong> for {i64,i128}', 'TryFrom<SafeLong> for {u64,i32}']
    kani.handle_failures(rep, failed, 'C15')
    run_m(rep, tier)
    # twins: the corner values through every text / document route (plain text, JSON value, JSON key, Any, key inside Any)
    from mirsym.harness import replay
    MAXS = 2 ** 53 - 1
    inr, outr = [0, 1, -1, MAXS, -MAXS], [MAXS + 1, -MAXS - 1, 2 ** 63 - 1, -2 ** 63]
    ops = [{'op': 'safelong_text', 'hex': str(n).encode().hex()} for n in inr + outr]
    for n, r in zip(inr + outr, replay(ops)):
        for route, got in r.items():
            good = (got.get('ok') and got.get('value') == str(n)) if n in inr else not got.get('ok')
            if not good:
                rep.violation('C15:native-twin', f'safelong {n} through {route}: {got} (must be {"accepted unchanged" if n in inr else "rejected"})', {'n': str(n), 'native': r})
    rep.replayed += len(ops)


# ---------------------------------------------------------------- engine M: text routes (FromStr / FromPlain) on real MIR
def run_m(rep, tier):
    import z3
    from mirsym.dump import program
    from mirsym.interp import Interp, St
    from mirsym import models_std, models_serde
    from mirsym.models_std import parse_int_model
    from mirsym.values import Panic, Unwind, bv
    from mirsym.harness import sym_str, model_bytes, Decider, finish_engine, replay, find_fn
    K = 20 if tier == 'quick' else 24
    rep.bounds['M'] = f'all valid-UTF-8 strings of <= {K} bytes (covers every decimal spelling of +-2^63 with sign and leading zeros up to that length)'
    prog = program(['conjure_object'])
    it = Interp(prog, models_std.MODELS + models_serde.MODELS, models_serde.TMODELS, unwind=8)
    dec = Decider(rep, it)
    MAXV = (1 << 53) - 1
    entries = {'from_str': find_fn(prog, 'from_str', inpath='::safe_long::'), 'from_plain': find_fn(prog, 'from_plain', ret='SafeLong'),
               'new': find_fn(prog, 'new', inpath='::safe_long::')}
    for ename, fname in entries.items():
        st = St()
        if ename == 'new':
            n = z3.BitVec('n', 64)
            args = [n]
            pok, v = z3.BoolVal(True), n
            s = None
        else:
            ptr, s = sym_str(st, 's', K)
            args = [ptr]
            pok, v = parse_int_model(s, 64, True)
        want_ok = z3.And(pok, v >= -MAXV, v <= MAXV)
        npaths, seen = 0, {'acc': 0, 'rej': 0}
        for s2, rv in it.run(fname, args, st):
            npaths += 1
            rep.states += 1
            if isinstance(rv, Unwind):
                rep.inconc(f'C15 {ename}: unwinding assertion at {rv.where}')
                continue
            if isinstance(rv, Panic):
                m = dec.decide(f'{ename}:panic', s2, z3.BoolVal(True))
                report(rep, ename, m, s, args, f'panic: {rv.msg}')
                continue
            accepted = it.variant_of(rv, 'Ok')
            okp = it.payload(rv, 'Ok')
            stored = okp.fields[0].fields[0] if okp is not None else None
            bad = accepted != want_ok
            if stored is not None:
                bad = z3.Or(bad, z3.And(accepted, z3.Or(stored != v, stored > MAXV, stored < -MAXV)))
            m = dec.decide(f'{ename}:path{npaths}:Ok<=>|n|<=2^53-1-and-value-kept', s2, bad, bound=K if s is not None else 'full width')
            if m is not None:
                report(rep, ename, m, s, args, 'acceptance or stored value differs from the 53-bit range contract')
                continue
            seen['acc'] += int(it.feasible(s2, accepted))
            seen['rej'] += int(it.feasible(s2, z3.Not(accepted)))
        if not seen['acc'] or not seen['rej']:
            rep.inconc(f'vacuity: C15 {ename} accept={seen["acc"]} reject={seen["rej"]}')
    # reachability twins through the text routes, replayed on the real build (all text/document routes at once)
    st = St()
    ptr, s = sym_str(st, 's', K)
    pok, v = parse_int_model(s, 64, True)
    for tag, cond, want in (('max', z3.And(pok, v == MAXV), True), ('max+1', z3.And(pok, v == MAXV + 1), False),
                            ('min', z3.And(pok, v == -MAXV, s.len == 17), True), ('min-1', z3.And(pok, v == -MAXV - 1), False)):
        m = dec.witness('text:' + tag, st, cond)
        b = model_bytes(m, s)
        r = replay([{'op': 'safelong_text', 'hex': b.hex()}])[0]
        rep.replayed += 1
        for route in ('from_str', 'from_plain'):
            if r[route]['ok'] != want:
                rep.inconc(f'model mismatch: twin {tag} text {b!r}: native {route} -> {r[route]}')
        # the document routes (JSON value, JSON map key, any) on the canonical spelling: these go through serde_json's number
        # parser (third party) into the code decided by K (Deserialize) and M (any): a native cross-check, not a claim
        canon = str(int(b.decode()))
        r2 = replay([{'op': 'safelong_text', 'hex': canon.encode().hex()}])[0]
        for route in ('json_client', 'json_server', 'json_key', 'any'):
            if r2[route]['ok'] != want:
                rep.violation(f'C15:{route}:boundary', f'{route} of {canon}: native {r2[route]}, contract says ok={want}', {'text': canon, 'native': r2})
    finish_engine(rep, it)
    rep.assumptions.append('std: <i64 as FromStr>::from_str == decimal parser with optional sign, >=1 digits, overflow -> Err (exact bit-vector model)')
    rep.outside.append(f'decimal strings longer than {K} bytes (more leading zeros); the digit loop of i64::from_str (std)')


def report(rep, ename, m, s, args, what):
    from mirsym.harness import model_bytes, replay
    MAXV = (1 << 53) - 1
    if s is None:
        n = m.eval(args[0], True).as_signed_long()
        op = {'op': 'safelong_new', 'n': str(n)}
        r, r2 = replay([op])[0], replay([op], 'release')[0]
        rep.replayed += 1
        want = -MAXV <= n <= MAXV
        if (r.get('ok') != want or (want and r.get('value') != str(n))) and r == r2:
            rep.violation(f'C15:{ename}', f'SafeLong::new({n}): {what}; native {r}', {'n': str(n), 'native': r})
        else:
            rep.inconc(f'model mismatch C15 {ename}: n={n} {what} does not reproduce natively: {r}')
        return
    b = model_bytes(m, s)
    op = {'op': 'safelong_text', 'hex': b.hex()}
    r, r2 = replay([op])[0], replay([op], 'release')[0]
    rep.replayed += 1
    try:
        n = int(b.decode()) if __import__('re').fullmatch(rb'[+-]?[0-9]+', b) else None
    except Exception:
        n = None
    want = n is not None and -MAXV <= n <= MAXV
    g = r.get(ename, {})
    if (g.get('ok') != want or (want and g.get('value') != str(n))) and r == r2:
        rep.violation(f'C15:{ename}', f'{ename}({b!r}): {what}; native {g}', {'input_hex': b.hex(), 'native': r})
    else:
        rep.inconc(f'model mismatch C15 {ename}: {b!r} {what} does not reproduce natively: {g}')
