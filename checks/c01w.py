"""C01 (wrapper discipline) — every serde entry point of conjure-serde's `ser::Override` and `de::Override` re-applies the Conjure
behaviour to what it hands on: nested values / visitors / seeds / accesses are wrapped again with the same behaviour, map keys with
the key behaviour, scalars are forwarded unchanged, and `is_human_readable` is the inner format's at every depth.

One step per entry point, executed from MIR between harness types (an inner format that records what it is given, a probe value
that records which serializer it is handed); composition over arbitrary nesting follows by induction over the value's structure,
because each step hands the *same* wrapper type on.  The behaviour parameter is a harness type HB whose key behaviour is HK."""
import re, json
import z3
from mirsym.dump import program
from mirsym.interp import Interp, St
from mirsym import models_std, models_serde
from mirsym.models_std import fork_bool, sval
from mirsym.values import Agg, Enum, Ptr, Seq, BStr, UNIT, Panic, Unwind, bv, bstr, bstr_py, val_eq, is_abnormal
from mirsym.harness import Decider, finish_engine, replay
from mirsym.types import ty_str, last_seg, strip_refs
from mirsym.parse import Unsupported
from vlib.common import Inconclusive

P = lambda name, *a: ('path', name, tuple(a))
SO = 'conjure_serde::ser::Override'
DO = 'conjure_serde::de::Override'


def ev(st, *e):
    st.aux['w'] = st.aux.get('w', ()) + (e,)


NORM = [None]          # the interpreter whose associated-type table normalises <HB as Behavior>::KeyBehavior


def norm(t):
    if t is None or not isinstance(t, tuple):
        return t
    if t[0] == 'proj':
        try:
            return norm(NORM[0].normalize_proj(t))
        except Unsupported:
            return t
    if t[0] == 'ref':
        return ('ref', t[1], norm(t[2]))
    if t[0] in ('path', 'tuple', 'slice', 'array') and len(t) > 2 and isinstance(t[2], tuple):
        return (t[0], t[1], tuple(norm(a) for a in t[2]))
    return t


def tys(t):
    return re.sub(r"'\w+ ?", '', ty_str(norm(t))).replace('&mut ', '&')


# ------------------------------------------------------------------ serializer side
def ser_models(h_inner, h_probe):
    """RS / RSC: the inner format (records, and serializes nested values with a fresh inner serializer RS2);
    Probe: a value that records which serializer type it is handed and what that serializer says about is_human_readable"""
    tm = {}

    def drive(it, ctx, T, value, st, k):
        """the inner format serializes a nested value of type T with its own serializer RS2"""
        for s2, r in it.call_trait(ctx.fr, T, 'serde::Serialize', 'serialize', [P('RS2')], [value, Agg('RS2', (h_probe,))], st):
            if is_abnormal(r):
                yield s2, r
            else:
                yield from k(s2)

    def nested(m, vi):
        def t(it, ctx, args, st):
            T = ctx.gargs[0]
            ev(st, 'inner', m, tys(T))
            yield from drive(it, ctx, T, args[vi], st, lambda s: iter([(s, it.ok(UNIT))]))
        return t

    def leaf(m):
        def t(it, ctx, args, st):
            v = args[1] if len(args) > 1 else None
            if isinstance(v, Ptr):
                v = st.deref_all(v)
            ev(st, 'inner', m, v)
            yield st, it.ok(UNIT)
        return t

    def compound(m):
        def t(it, ctx, args, st):
            ev(st, 'inner', m, tuple(a for a in args[1:] if not isinstance(a, Ptr)))
            yield st, it.ok(Agg('RSC', (m,)))
        return t

    def entry(it, ctx, args, st):
        K, V = ctx.gargs[0], ctx.gargs[1]
        ev(st, 'inner', 'serialize_entry', tys(K), tys(V))
        yield from drive(it, ctx, K, args[1], st, lambda s: drive(it, ctx, V, args[2], s, lambda s2: iter([(s2, it.ok(UNIT))])))

    for m in ['bool', 'i8', 'i16', 'i32', 'i64', 'i128', 'u8', 'u16', 'u32', 'u64', 'u128', 'f32', 'f64', 'char', 'str', 'bytes', 'none', 'unit', 'unit_struct', 'unit_variant']:
        tm[('RS', 'Serializer', 'serialize_' + m)] = leaf('serialize_' + m)
    tm[('RS', 'Serializer', 'serialize_some')] = nested('serialize_some', 1)
    tm[('RS', 'Serializer', 'serialize_newtype_struct')] = nested('serialize_newtype_struct', 2)
    tm[('RS', 'Serializer', 'serialize_newtype_variant')] = nested('serialize_newtype_variant', 4)
    for m in ['seq', 'tuple', 'tuple_struct', 'tuple_variant', 'map', 'struct', 'struct_variant']:
        tm[('RS', 'Serializer', 'serialize_' + m)] = compound('serialize_' + m)
    tm[('RS', 'Serializer', 'is_human_readable')] = lambda it, ctx, args, st: iter([(st, st.deref_all(args[0]).fields[0])])
    tm[('RS2', 'Serializer', 'is_human_readable')] = tm[('RS', 'Serializer', 'is_human_readable')]
    for tr in ['SerializeSeq', 'SerializeTuple']:
        tm[('RSC', tr, 'serialize_element')] = nested('serialize_element', 1)
    for tr in ['SerializeTupleStruct', 'SerializeTupleVariant']:
        tm[('RSC', tr, 'serialize_field')] = nested('serialize_field', 1)
    for tr in ['SerializeStruct', 'SerializeStructVariant']:
        tm[('RSC', tr, 'serialize_field')] = nested('serialize_field', 2)
        tm[('RSC', tr, 'skip_field')] = leaf('skip_field')
    tm[('RSC', 'SerializeMap', 'serialize_key')] = nested('serialize_key', 1)
    tm[('RSC', 'SerializeMap', 'serialize_value')] = nested('serialize_value', 1)
    tm[('RSC', 'SerializeMap', 'serialize_entry')] = entry
    for tr in ['SerializeSeq', 'SerializeTuple', 'SerializeTupleStruct', 'SerializeTupleVariant', 'SerializeMap', 'SerializeStruct', 'SerializeStructVariant']:
        tm[('RSC', tr, 'end')] = leaf('end')

    def probe(it, ctx, args, st):
        S = ctx.gargs[0]
        ser = args[1]
        sp = st.ref(ser)
        for s2, r in it.call_trait(ctx.fr, ('ref', False, S), 'serde::Serializer', 'is_human_readable', [], [sp], st):
            if is_abnormal(r):
                yield s2, r
                continue
            ev(s2, 'probe', tys(S), r)
            yield s2, it.ok(UNIT)
    tm[('Probe', 'Serialize', 'serialize')] = probe

    def beh(who):
        def t(it, ctx, args, st):
            m = ctx.callee.method
            ev(st, 'behavior', who, m, tys(ctx.gargs[0]))
            yield from it.call_trait(ctx.fr, ctx.gargs[0], 'serde::Serializer', m, [], list(args), st)
        return t
    for who in ('HB', 'HK'):
        for m in ['serialize_bool', 'serialize_f32', 'serialize_f64', 'serialize_bytes']:
            tm[(who, 'Behavior', m)] = beh(who)
    return tm


def M_ref_serialize(it, ctx, args, st):
    """serde: impl Serialize for &T forwards to T"""
    T = ctx.self_ty
    while T[0] == 'ref':
        T = T[2]
    v = args[0]
    while isinstance(v, Ptr) and isinstance(st.deref(v), Ptr):
        v = st.deref(v)
    yield from it.call_trait(ctx.fr, T, 'serde::Serialize', 'serialize', list(ctx.gargs), [v, args[1]], st)


def M_serde_default_hr(it, ctx, args, st):
    yield st, z3.BoolVal(True)


BASE_MODELS = [(r'<&+(?:mut )?.* as (?:[\w:]+::)?Serialize>::serialize::<.*>', M_ref_serialize)]


def mk(prog, tm):
    it = Interp(prog, BASE_MODELS + models_serde.MODELS + models_std.MODELS, {**models_serde.TMODELS, **tm}, unwind=8)
    for who in ('HB', 'HK'):
        it.assoc_types[(who, 'Behavior', 'KeyBehavior')] = P('HK')
    for a in ('Ok', 'Error'):
        for t in ('RS', 'RS2'):
            it.assoc_types[(t, 'Serializer', a)] = P('ROk' if a == 'Ok' else 'RErr')
    for a in ('SerializeSeq', 'SerializeTuple', 'SerializeTupleStruct', 'SerializeTupleVariant', 'SerializeMap', 'SerializeStruct', 'SerializeStructVariant'):
        it.assoc_types[('RS', 'Serializer', a)] = P('RSC')
        it.assoc_types[('RS2', 'Serializer', a)] = P('RSC')
        for b in ('Ok', 'Error'):
            it.assoc_types[('RSC', a, b)] = P('ROk' if b == 'Ok' else 'RErr')
    # serde's provided Serializer::is_human_readable / Deserializer::is_human_readable return true (documented default)
    it.serde_defaults = True
    NORM[0] = it
    return it


def override_methods(prog, src_suffix, trait):
    out = {}
    for info in prog.impls:
        if info.trait is None or last_seg(info.trait) != trait or not info.src.endswith(src_suffix):
            continue
        if 'Override' not in ty_str(info.self_ty):
            continue
        for m, names in info.methods.items():
            out[m] = names[0]
    return out


def wrapper(it, st, kind, inner):
    """Override::new(inner) executed from MIR"""
    name = [k for k in it.p.fns if re.search(r'conjure_serde::' + kind + r'::<impl at [^>]*>::new$', k) and 'Override' in it.p.fns[k].header]
    if len(name) != 1:
        raise Inconclusive(f'C01w harness: {kind}::Override::new not unique: {name}')
    outs = list(it.run(name[0], [inner], st, {'S': P('RS'), 'T': P('RS'), 'B': P('HB')}))
    return outs[0][1]


SER_VALUE_BEH = {'serialize_key': 'HK'}


def run_ser(rep, prog):
    h, h2 = z3.Bool('inner_is_human_readable'), z3.Bool('nested_is_human_readable')
    tm = ser_models(h, h2)
    # ---- Serializer for Override<RS, HB>
    plan = []      # (label, trait, method, S-binding, args builder, expected behaviour)
    ser_m = override_methods(prog, '/ser.rs', 'Serializer')
    scal = {'serialize_bool': z3.Bool('v'), 'serialize_f32': z3.FP('v', z3.Float32()), 'serialize_f64': z3.FP('v', z3.Float64()), 'serialize_char': z3.BitVec('v', 32),
            'serialize_i8': z3.BitVec('v', 8), 'serialize_i16': z3.BitVec('v', 16), 'serialize_i32': z3.BitVec('v', 32), 'serialize_i64': z3.BitVec('v', 64), 'serialize_i128': z3.BitVec('v', 128),
            'serialize_u8': z3.BitVec('v', 8), 'serialize_u16': z3.BitVec('v', 16), 'serialize_u32': z3.BitVec('v', 32), 'serialize_u64': z3.BitVec('v', 64), 'serialize_u128': z3.BitVec('v', 128)}
    n_entry = 0
    for m, fname in sorted(ser_m.items()):
        it = mk(prog, tm)
        dec = Decider(rep, it)
        st = St()
        me = wrapper(it, st, 'ser', Agg('RS', (h,)))
        probe = st.ref(Agg('Probe', ()))
        name = st.ref(bstr(b'N'))
        tenv = {'S': P('RS'), 'B': P('HB'), 'T': P('Probe')}
        behaviour_leaf = m in ('serialize_bool', 'serialize_f32', 'serialize_f64', 'serialize_bytes')
        if m in scal:
            args, want = [me, scal[m]], [('inner', m, scal[m])]
        elif m == 'serialize_str' or m == 'serialize_bytes':
            sp = st.ref(bstr(b'xy'))
            args, want = [me, sp], [('inner', m, bstr(b'xy'))]
        elif m in ('serialize_none', 'serialize_unit'):
            args, want = [me], [('inner', m, None)]
        elif m == 'serialize_unit_struct':
            args, want = [me, name], [('inner', m, None)]
        elif m == 'serialize_unit_variant':
            args, want = [me, name, z3.BitVecVal(1, 32), name], [('inner', m, None)]
        elif m == 'serialize_some':
            args, want = [me, probe], 'nested'
        elif m == 'serialize_newtype_struct':
            args, want = [me, name, probe], 'nested'
        elif m == 'serialize_newtype_variant':
            args, want = [me, name, z3.BitVecVal(1, 32), name, probe], 'nested'
        elif m in ('serialize_seq', 'serialize_map'):
            args, want = [me, it.some(bv(2))], 'compound'
        elif m == 'serialize_tuple':
            args, want = [me, bv(2)], 'compound'
        elif m in ('serialize_tuple_struct', 'serialize_struct'):
            args, want = [me, name, bv(2)], 'compound'
        elif m in ('serialize_tuple_variant', 'serialize_struct_variant'):
            args, want = [me, name, z3.BitVecVal(1, 32), name, bv(2)], 'compound'
        elif m == 'is_human_readable':
            args, want = [st.ref(me)], 'hr'
        elif m == 'collect_str':
            continue
        else:
            rep.inconc(f'C01w: Serializer for ser::Override has a method the harness does not know: {m}')
            continue
        n_entry += 1
        check_entry(rep, it, dec, f'ser:Serializer::{m}', fname, args, st, tenv, want, 'HB', behaviour_leaf, h, h2, 'ser')
        finish_engine(rep, it)
    if 'is_human_readable' not in ser_m:
        # the impl relies on serde's provided method: evaluate it the way a nested value would
        it = mk(prog, tm)
        dec = Decider(rep, it)
        st = St()
        me = wrapper(it, st, 'ser', Agg('RS', (h,)))
        outs = list(it.call_trait(first_frame(it, prog), ('ref', False, P(SO, P('RS'), P('HB'))), 'serde::Serializer', 'is_human_readable', [], [st.ref(me)], st))
        for s2, r in outs:
            rep.states += 1
            m = dec.decide('ser:Serializer::is_human_readable==inner-format', s2, r != h) if not is_abnormal(r) else None
            if is_abnormal(r) or m is not None:
                report_hr(rep, 'ser', 'Serializer for ser::Override does not forward is_human_readable: a value nested below any container sees the default (true) whatever the format says')
        finish_engine(rep, it)
    # ---- compound impls
    for trait in ['SerializeSeq', 'SerializeTuple', 'SerializeTupleStruct', 'SerializeTupleVariant', 'SerializeMap', 'SerializeStruct', 'SerializeStructVariant']:
        for m, fname in sorted(override_methods(prog, '/ser.rs', trait).items()):
            it = mk(prog, tm)
            dec = Decider(rep, it)
            st = St()
            me = st.ref(wrapper(it, st, 'ser', Agg('RSC', ('x',))))
            probe, probe2 = st.ref(Agg('Probe', ())), st.ref(Agg('Probe', ()))
            key = st.ref(bstr(b'k'))
            tenv = {'S': P('RSC'), 'B': P('HB'), 'T': P('Probe'), 'K': P('Probe'), 'V': P('Probe')}
            if m == 'end':
                args, want = [st.deref(me)], [('inner', 'end', None)]
            elif m in ('serialize_element', 'serialize_value', 'serialize_key') or (m == 'serialize_field' and 'Tuple' in trait):
                args, want = [me, probe], 'nested'
            elif m == 'serialize_field':
                args, want = [me, key, probe], 'nested'
            elif m == 'skip_field':
                args, want = [me, key], [('inner', 'skip_field', bstr(b'k'))]
            elif m == 'serialize_entry':
                args, want = [me, probe, probe2], 'entry'
            else:
                rep.inconc(f'C01w: {trait} for ser::Override has a method the harness does not know: {m}')
                continue
            n_entry += 1
            check_entry(rep, it, dec, f'ser:{trait}::{m}', fname, args, st, tenv, want, SER_VALUE_BEH.get(m, 'HB'), False, h, h2, 'ser')
            finish_engine(rep, it)
    if n_entry < 30:
        rep.inconc(f'vacuity: only {n_entry} serializer entry points of ser::Override were exercised')


def first_frame(it, prog):
    from mirsym.interp import Frame
    fr = Frame()
    fr.fn = next(iter(prog.fns.values()))
    fr.locals, fr.tenv, fr.visits, fr.depth = {}, {}, {}, 0
    return fr


def check_entry(rep, it, dec, tag, fname, args, st, tenv, want, beh, behaviour_leaf, h, h2, side):
    outs = list(it.run(fname, args, st, tenv))
    if len(outs) != 1:
        rep.inconc(f'C01w {tag}: {len(outs)} paths')
        return
    s2, rv = outs[0]
    rep.states += 1
    if is_abnormal(rv):
        rep.structural(rep.pid + ':wrapper:' + tag, f'{tag}: {rv!r}', {}, battery)
        return
    events = list(s2.aux.get('w', ()))
    O = SO if side == 'ser' else DO
    good, same = True, z3.BoolVal(True)
    if want == 'nested':
        exp_inner_T = f'{O}<&Probe, {beh}>'
        ok1 = len(events) == 2 and events[0][0] == 'inner' and events[0][2] == exp_inner_T
        ok2 = ok1 and events[1][0] == 'probe' and events[1][1] == f'{O}<RS2, {beh}>'
        good = ok2
        if ok2:
            same = events[1][2] == h2
    elif want == 'entry':
        good = (len(events) == 3 and events[0][:2] == ('inner', 'serialize_entry') and events[0][2] == f'{O}<&Probe, HK>' and events[0][3] == f'{O}<&Probe, HB>'
                and events[1][:2] == ('probe', f'{O}<RS2, HK>') and events[2][:2] == ('probe', f'{O}<RS2, HB>'))
    elif want == 'compound':
        v = rv if not isinstance(rv, Enum) else it.payload(rv, 'Ok').fields[0]
        good = len(events) == 1 and events[0][0] == 'inner' and isinstance(v, Agg) and v.name == O and isinstance(v.fields[0], Agg) and v.fields[0].name == 'RSC'
    elif want == 'hr':
        good = z3.is_expr(rv)
        same = (rv == h) if good else same
    else:
        exp = list(want)
        if behaviour_leaf:
            good = len(events) == 2 and events[0][:3] == ('behavior', 'HB', exp[0][1]) and events[1][:2] == exp[0][:2]
            got_v = events[1][2] if good else None
        else:
            good = len(events) == 1 and events[0][:2] == exp[0][:2]
            got_v = events[0][2] if good else None
        if good and exp[0][2] is not None:
            same = val_eq(got_v, exp[0][2])
    rep.query(tag + ':hands-on-the-same-wrapper', 'unsat' if good else 'sat', 0.0, events=[str(e)[:90] for e in events])
    if not good:
        report_struct(rep, tag, f'{tag}: handed on {[str(e)[:120] for e in events]} (result {rv!r:.80})', [str(e) for e in events])
        return
    m = dec.decide(tag + ':values-and-format-flag-unchanged', s2, z3.Not(same))
    if m is not None:
        if want in ('nested', 'hr'):
            report_hr(rep, side, f'{tag}: the nested value is handed a serializer whose is_human_readable differs from the inner format\'s')
        else:
            rep.structural(rep.pid + ':wrapper:' + tag, f'{tag}: the scalar is not forwarded unchanged', {}, battery)


def battery():
    r, r3 = replay([{'op': 'nested_shapes'}])[0], replay([{'op': 'smile_nested'}])[0]
    return sorted(k for k, v in r.items() if v is not True) + sorted(k for k, v in r3.items() if any(x != 'equal' for x in v.values()))


def report_struct(rep, tag, what, detail):
    """a wrapper that does not hand on the same wrapper: confirm with the native nested-shape round trips / rejections"""
    r = replay([{'op': 'nested_shapes'}])[0]
    r2 = replay([{'op': 'nested_shapes'}], 'release')[0]
    r3 = replay([{'op': 'smile_nested'}])[0]
    rep.replayed += 1
    bad = sorted(k for k, v in r.items() if v is not True) + sorted(k for k, v in r3.items() if any(x != 'equal' for x in v.values()))
    if bad and r == r2:
        rep.violation(rep.pid + ':wrapper:' + tag, f'{what}; natively these nested shapes no longer round-trip / are no longer rejected: {bad}', {'op': {'op': 'nested_shapes'}, 'native': r, 'events': detail})
    else:
        rep.inconc(f'C01w {tag}: {what} -- the wrapper discipline is broken in the MIR, but none of the native nested shapes misbehaves ({r}); the induction argument of this check no longer applies')


def report_hr(rep, side, what):
    r = replay([{'op': 'smile_nested'}])[0]
    r2 = replay([{'op': 'smile_nested'}], 'release')[0]
    rep.replayed += 1
    bad = {k: v for k, v in r.items() if any(x != 'equal' for x in v.values())}
    if bad and r == r2:
        rep.violation(rep.pid + ':wrapper:is_human_readable', f'{what}; natively, values whose encoding depends on it do not round-trip through Smile once nested: {bad}', {'op': {'op': 'smile_nested'}, 'native': r})
    else:
        rep.inconc(f'model mismatch C01w: {what}, but the native nested round trips are fine: {r}')


# ------------------------------------------------------------------ deserializer side
def de_models(h):
    """PD: inner deserializer; PV: visitor; PS: seed; PA: seq/map/enum access; PVar: variant access.  Each records what it is handed."""
    tm = {}

    def rec_generic(kind):
        def t(it, ctx, args, st):
            m = ctx.callee.method
            vals = tuple(a for a in args[1:] if not isinstance(a, (Ptr, Agg, Enum)) or isinstance(a, Agg) and a.name in (DO,))
            wrapped = [a for a in args[1:] if isinstance(a, Agg) and a.name == DO]
            ev(st, kind, m, tuple(tys(g) for g in ctx.gargs), tuple(w.fields[0].name if isinstance(w.fields[0], Agg) else '?' for w in wrapped),
               tuple(a for a in args[1:] if z3.is_expr(a)), tuple(bstr_py(sval(st, a)) for a in args[1:] if isinstance(a, Ptr) and isinstance(st.deref_all(a), BStr)))
            yield st, it.ok(Agg('PValue', (m,)))
        return t
    de_methods = ['any', 'bool', 'i8', 'i16', 'i32', 'i64', 'i128', 'u8', 'u16', 'u32', 'u64', 'u128', 'f32', 'f64', 'char', 'str', 'string', 'bytes', 'byte_buf', 'option',
                  'unit', 'unit_struct', 'newtype_struct', 'seq', 'tuple', 'tuple_struct', 'map', 'struct', 'enum', 'identifier', 'ignored_any']
    for m in de_methods:
        tm[('PD', 'Deserializer', 'deserialize_' + m)] = rec_generic('inner')
    tm[('PD', 'Deserializer', 'is_human_readable')] = lambda it, ctx, args, st: iter([(st, st.deref_all(args[0]).fields[0])])
    for m in ['bool', 'i8', 'i16', 'i32', 'i64', 'i128', 'u8', 'u16', 'u32', 'u64', 'u128', 'f32', 'f64', 'char', 'str', 'borrowed_str', 'string', 'bytes', 'borrowed_bytes', 'byte_buf',
              'none', 'some', 'unit', 'newtype_struct', 'seq', 'map', 'enum']:
        tm[('PV', 'Visitor', 'visit_' + m)] = rec_generic('visitor')
    tm[('PS', 'DeserializeSeed', 'deserialize')] = rec_generic('seed')
    tm[('PA', 'SeqAccess', 'next_element_seed')] = rec_generic('access')
    for m in ['next_key_seed', 'next_value_seed', 'next_entry_seed']:
        tm[('PA', 'MapAccess', m)] = rec_generic('access')
    tm[('PA', 'SeqAccess', 'size_hint')] = lambda it, ctx, args, st: iter([(st, it.some(z3.BitVec('hint', 64)))])
    tm[('PA', 'MapAccess', 'size_hint')] = tm[('PA', 'SeqAccess', 'size_hint')]

    def variant_seed(it, ctx, args, st):
        ev(st, 'access', 'variant_seed', tuple(tys(g) for g in ctx.gargs), (), (), ())
        yield st, it.ok(Agg('tuple', (Agg('PValue', ('variant_seed',)), Agg('PVar', ()))))
    tm[('PA', 'EnumAccess', 'variant_seed')] = variant_seed
    for m in ['unit_variant', 'newtype_variant_seed', 'tuple_variant', 'struct_variant']:
        tm[('PVar', 'VariantAccess', m)] = rec_generic('variant')

    def beh(who):
        def t(it, ctx, args, st):
            m = ctx.callee.method
            ev(st, 'behavior', who, m, tuple(tys(g) for g in ctx.gargs))
            yield from it.call_trait(ctx.fr, ctx.gargs[0], 'serde::Deserializer', m, list(ctx.gargs[1:]), list(args), st)
        return t
    for who in ('HB', 'HK'):
        for m in ['deserialize_bool', 'deserialize_f32', 'deserialize_f64', 'deserialize_bytes', 'deserialize_byte_buf', 'deserialize_struct']:
            tm[(who, 'Behavior', m)] = beh(who)
    return tm


def mk_de(prog, tm):
    it = mk(prog, tm)
    for t, tr in (('PD', 'Deserializer'), ('PA', 'SeqAccess'), ('PA', 'MapAccess'), ('PA', 'EnumAccess'), ('PVar', 'VariantAccess')):
        it.assoc_types[(t, tr, 'Error')] = P('DeError')
    it.assoc_types[('PA', 'EnumAccess', 'Variant')] = P('PVar')
    it.assoc_types[('PV', 'Visitor', 'Value')] = P('PValue')
    it.assoc_types[('PS', 'DeserializeSeed', 'Value')] = P('PValue')
    return it


def de_wrap(it, st, inner):
    name = [k for k in it.p.fns if re.search(r'conjure_serde::de::<impl at [^>]*>::new$', k) and 'Override' in it.p.fns[k].header]
    if len(name) != 1:
        raise Inconclusive(f'C01w harness: de::Override::new not unique: {name}')
    return list(it.run(name[0], [inner], st, {'T': P('PD'), 'B': P('HB')}))[0][1]


DE_SCALAR = {'bool': z3.Bool('v'), 'i8': z3.BitVec('v', 8), 'i16': z3.BitVec('v', 16), 'i32': z3.BitVec('v', 32), 'i64': z3.BitVec('v', 64), 'i128': z3.BitVec('v', 128),
             'u8': z3.BitVec('v', 8), 'u16': z3.BitVec('v', 16), 'u32': z3.BitVec('v', 32), 'u64': z3.BitVec('v', 64), 'u128': z3.BitVec('v', 128),
             'f32': z3.FP('v', z3.Float32()), 'f64': z3.FP('v', z3.Float64()), 'char': z3.BitVec('v', 32)}
BEHAVIOUR_DE = ('deserialize_bool', 'deserialize_f32', 'deserialize_f64', 'deserialize_bytes', 'deserialize_byte_buf', 'deserialize_struct')


def run_de(rep, prog):
    h = z3.Bool('inner_is_human_readable')
    tm = de_models(h)
    n_entry = 0

    def one(tag, fname, args_fn, tenv, expect):
        """expect(events, result, state) -> (structurally good: bool, z3 Bool that must hold)"""
        nonlocal n_entry
        it = mk_de(prog, tm)
        dec = Decider(rep, it)
        st = St()
        args = args_fn(it, st)
        outs = list(it.run(fname, args, st, tenv))
        n_entry += 1
        if len(outs) != 1:
            rep.inconc(f'C01w {tag}: {len(outs)} paths')
            return
        s2, rv = outs[0]
        rep.states += 1
        if is_abnormal(rv):
            rep.structural(rep.pid + ':wrapper:' + tag, f'{tag}: {rv!r}', {}, battery)
            return
        events = list(s2.aux.get('w', ()))
        good, same = expect(events, rv, s2, it)
        rep.query(tag + ':hands-on-the-same-wrapper', 'unsat' if good else 'sat', 0.0, events=[str(e)[:110] for e in events])
        if not good:
            report_struct(rep, tag, f'{tag}: handed on {[str(e)[:160] for e in events]} (result {rv!r:.80})', [str(e) for e in events])
            return
        m = dec.decide(tag + ':values-and-format-flag-unchanged', s2, z3.Not(same))
        if m is not None:
            rep.structural(rep.pid + ':wrapper:' + tag, f'{tag}: a scalar / flag is not forwarded unchanged', {}, battery)
        finish_engine(rep, it)

    name_b, flds = b'N', (b'a', b'b')
    # ---- Deserializer for Override<PD, HB>
    for m, fname in sorted(override_methods(prog, 'de/mod.rs', 'Deserializer').items()):
        tag = f'de:Deserializer::{m}'
        if m == 'is_human_readable':
            one(tag, fname, lambda it, st: [st.ref(de_wrap(it, st, Agg('PD', (h,))))], {'T': P('PD'), 'B': P('HB')},
                lambda evs, rv, s, it: (z3.is_expr(rv), rv == h if z3.is_expr(rv) else z3.BoolVal(True)))
            continue
        extra_ints, extra_strs = (), ()

        def args_fn(it, st, m=m):
            me = de_wrap(it, st, Agg('PD', (h,)))
            vis = Agg('PV', ())
            nm = st.ref(bstr(name_b))
            if m in ('deserialize_unit_struct', 'deserialize_newtype_struct'):
                return [me, nm, vis]
            if m == 'deserialize_tuple':
                return [me, bv(3), vis]
            if m == 'deserialize_tuple_struct':
                return [me, nm, bv(3), vis]
            if m in ('deserialize_struct', 'deserialize_enum'):
                return [me, nm, st.ref(Seq(tuple(st.ref(bstr(f)) for f in flds))), vis]
            return [me, vis]

        def expect(evs, rv, s, it, m=m):
            want_v = f'{DO}<PV, HB>'
            if m in BEHAVIOUR_DE:
                ok = len(evs) == 2 and evs[0][:3] == ('behavior', 'HB', m) and evs[0][3] == ('PD', want_v) and evs[1][:2] == ('inner', m) and evs[1][2] == (want_v,) and evs[1][3] == ('PV',)
                e = evs[1] if ok else None
            else:
                ok = len(evs) == 1 and evs[0][:2] == ('inner', m) and evs[0][2] == (want_v,) and evs[0][3] == ('PV',)
                e = evs[0] if ok else None
            same = z3.BoolVal(True)
            if ok:
                if m in ('deserialize_tuple', 'deserialize_tuple_struct'):
                    ok = len(e[4]) == 1
                    same = e[4][0] == bv(3) if ok else same
                if m in ('deserialize_unit_struct', 'deserialize_newtype_struct', 'deserialize_tuple_struct', 'deserialize_struct', 'deserialize_enum'):
                    ok = ok and name_b in e[5]
            return ok, same
        one(tag, fname, args_fn, {'T': P('PD'), 'B': P('HB'), 'V': P('PV')}, expect)
    # ---- Visitor for Override<PV, HB>
    for m, fname in sorted(override_methods(prog, 'de/mod.rs', 'Visitor').items()):
        if m == 'expecting':
            continue
        tag = f'de:Visitor::{m}'
        kind = m[len('visit_'):]

        def args_fn(it, st, kind=kind):
            me = de_wrap(it, st, Agg('PV', ()))
            if kind in DE_SCALAR:
                return [me, DE_SCALAR[kind]]
            if kind in ('str', 'borrowed_str', 'bytes', 'borrowed_bytes'):
                return [me, st.ref(bstr(b'xy'))]
            if kind in ('string', 'byte_buf'):
                return [me, bstr(b'xy')]
            if kind in ('none', 'unit'):
                return [me]
            if kind in ('some', 'newtype_struct'):
                return [me, Agg('PD', (h,))]
            return [me, Agg('PA', ())]

        def expect(evs, rv, s, it, kind=kind, m=m):
            ok = len(evs) == 1 and evs[0][:2] == ('visitor', m)
            same = z3.BoolVal(True)
            if not ok:
                return ok, same
            e = evs[0]
            if kind in DE_SCALAR:
                ok = len(e[4]) == 1
                same = val_eq(e[4][0], DE_SCALAR[kind]) if ok else same
            elif kind in ('some', 'newtype_struct'):
                ok = e[2][:1] == (f'{DO}<PD, HB>',) and e[3] == ('PD',)
            elif kind in ('seq', 'map', 'enum'):
                ok = e[2][:1] == (f'{DO}<PA, HB>',) and e[3] == ('PA',)
            elif kind in ('str', 'borrowed_str', 'bytes', 'borrowed_bytes'):
                ok = e[5] == (b'xy',)
            return ok, same
        one(tag, fname, args_fn, {'V': P('PV'), 'B': P('HB'), 'D': P('PD'), 'A': P('PA'), 'E': P('DeError')}, expect)
    # ---- accesses and seeds
    specs = [('SeqAccess', 'next_element_seed', 'PA', ['PS'], 'T', (f'{DO}<PS, HB>',)), ('MapAccess', 'next_key_seed', 'PA', ['PS'], 'K', (f'{DO}<PS, HK>',)),
             ('MapAccess', 'next_value_seed', 'PA', ['PS'], 'V', (f'{DO}<PS, HB>',)), ('MapAccess', 'next_entry_seed', 'PA', ['PS', 'PS'], 'KV', (f'{DO}<PS, HK>', f'{DO}<PS, HB>')),
             ('EnumAccess', 'variant_seed', 'PA', ['PS'], 'V', (f'{DO}<PS, HB>',)), ('VariantAccess', 'newtype_variant_seed', 'PVar', ['PS'], 'T', (f'{DO}<PS, HB>',)),
             ('VariantAccess', 'tuple_variant', 'PVar', [bv(2), 'PV'], 'V', (f'{DO}<PV, HB>',)), ('VariantAccess', 'struct_variant', 'PVar', ['FIELDS', 'PV'], 'V', (f'{DO}<PV, HB>',)),
             ('VariantAccess', 'unit_variant', 'PVar', [], None, ()), ('DeserializeSeed', 'deserialize', 'PS', ['PD'], 'D', (f'{DO}<PD, HB>',))]
    for trait, m, inner_t, extra, gname, want_types in specs:
        ms = override_methods(prog, 'de/mod.rs', trait)
        if m not in ms:
            if m in ('next_entry_seed',):
                continue           # serde's provided method: next_key_seed then next_value_seed (both checked)
            rep.inconc(f'C01w: {trait}::{m} missing from de::Override')
            continue
        by_ref = trait in ('SeqAccess', 'MapAccess')

        def args_fn(it, st, inner_t=inner_t, extra=extra, by_ref=by_ref):
            me = de_wrap(it, st, Agg(inner_t, (h,) if inner_t == 'PD' else ()))
            out = [st.ref(me) if by_ref else me]
            for x in extra:
                if isinstance(x, str) and x == 'FIELDS':
                    out.append(st.ref(Seq(tuple(st.ref(bstr(f)) for f in flds))))
                elif isinstance(x, str):
                    out.append(Agg(x, (h,) if x == 'PD' else ()))
                else:
                    out.append(x)
            return out

        def expect(evs, rv, s, it, m=m, want_types=want_types, trait=trait):
            kind = {'SeqAccess': 'access', 'MapAccess': 'access', 'EnumAccess': 'access', 'VariantAccess': 'variant', 'DeserializeSeed': 'seed'}[trait]
            ok = len(evs) == 1 and evs[0][:2] == (kind, m) and tuple(evs[0][2][:len(want_types)]) == tuple(want_types)
            same = z3.BoolVal(True)
            if ok and m == 'tuple_variant':
                ok = len(evs[0][4]) == 1
                same = evs[0][4][0] == bv(2) if ok else same
            if ok and m == 'variant_seed':
                # the returned variant access is wrapped again
                okp = it.payload(rv, 'Ok')
                tup = okp.fields[0] if okp is not None else None
                ok = isinstance(tup, Agg) and len(tup.fields) == 2 and isinstance(tup.fields[1], Agg) and tup.fields[1].name == DO and tup.fields[1].fields[0].name == 'PVar'
            return ok, same
        tenv = {'A': P(inner_t), 'T': P(inner_t) if trait == 'DeserializeSeed' else P('PS'), 'B': P('HB'), 'K': P('PS'), 'V': P('PV') if m in ('tuple_variant', 'struct_variant') else P('PS'), 'D': P('PD')}
        one(f'de:{trait}::{m}', ms[m], args_fn, tenv, expect)
    # size_hint forwards
    for trait in ('SeqAccess', 'MapAccess'):
        ms = override_methods(prog, 'de/mod.rs', trait)
        if 'size_hint' in ms:
            one(f'de:{trait}::size_hint', ms['size_hint'], lambda it, st: [st.ref(de_wrap(it, st, Agg('PA', ())))], {'A': P('PA'), 'B': P('HB')},
                lambda evs, rv, s, it: (isinstance(rv, Enum), z3.BoolVal(True)))
    if n_entry < 60:
        rep.inconc(f'vacuity: only {n_entry} deserializer entry points of de::Override were exercised')


def run(rep, tier):
    prog = program(['conjure_serde'])
    rep.bounds['wrapper'] = 'every method of every serde trait impl of ser::Override (one step each, harness inner format and behaviour); scalars symbolic at full width'
    run_ser(rep, prog)
    run_de(rep, prog)
    twins(rep)


def twins(rep):
    r, r3 = replay([{'op': 'nested_shapes'}])[0], replay([{'op': 'smile_nested'}])[0]
    rep.replayed += 2
    bad = sorted(k for k, v in r.items() if v is not True) + sorted(k for k, v in r3.items() if any(x != 'equal' for x in v.values()))
    if bad:
        rep.violation(rep.pid + ':wrapper:native-twin', f'nested shapes that do not round-trip / are not rejected natively: {bad}', {'op': {'op': 'nested_shapes'}, 'native': [r, r3]})
