"""C01 (wrapper discipline) — every serde entry point of conjure-serde's `ser::Override` and `de::Override` re-applies the Conjure
behaviour to what it hands on: nested values / visitors / seeds / accesses are wrapped again with the same behaviour, map keys with
the key behaviour, scalars are forwarded unchanged, and `is_human_readable` is the inner format's at every depth.

One step per entry point, executed from MIR between harness types (an inner format that records what it is given, a probe value
that records which serializer it is handed); composition over arbitrary nesting follows by induction over the value's structure,
because each step hands the *same* wrapper type on.  The behaviour parameter is a harness type HB whose key behaviour is HK."""
import re, json
import z3
from mirsym.dump import program
from mirsym.interp import Interp, St
from mirsym import models_std, models_serde
from mirsym.models_std import fork_bool, sval
from mirsym.values import Agg, Enum, Ptr, Seq, BStr, UNIT, Panic, Unwind, bv, bstr, bstr_py, val_eq, is_abnormal
from mirsym.harness import Decider, finish_engine, replay
from mirsym.types import ty_str, last_seg, strip_refs
from mirsym.parse import Unsupported
from vlib.common import Inconclusive

P = lambda name, *a: ('path', name, tuple(a))
SO = 'conjure_serde::ser::Override'
DO = 'conjure_serde::de::Override'


def ev(st, *e):
    st.aux['w'] = st.aux.get('w', ()) + (e,)


NORM = [None]          # the interpreter whose associated-type table normalises <HB as Behavior>::KeyBehavior


def norm(t):
    if t is None or not isinstance(t, tuple):
        return t
    if t[0] == 'proj':
        try:
            return norm(NORM[0].normalize_proj(t))
        except Unsupported:
            return t
    if t[0] == 'ref':
        return ('ref', t[1], norm(t[2]))
    if t[0] in ('path', 'tuple', 'slice', 'array') and len(t) > 2 and isinstance(t[2], tuple):
        return (t[0], t[1], tuple(norm(a) for a in t[2]))
    return t


def tys(t):
    return re.sub(r"'\w+ ?", '', ty_str(norm(t))).replace('&mut ', '&')


# ------------------------------------------------------------------ serializer side
def ser_models(h_inner, h_probe):
    """RS / RSC: the inner format (records, and serializes nested values with a fresh inner serializer RS2);
    Probe: a value that records which serializer type it is handed and what that serializer says about is_human_readable"""
    tm = {}

    def drive(it, ctx, T, value, st, k):
        """the inner format serializes a nested value of type T with its own serializer RS2"""
        for s2, r in it.call_trait(ctx.fr, T, 'serde::Serialize', 'serialize', [P('RS2')], [value, Agg('RS2', (h_probe,))], st):
            if is_abnormal(r):
                yield s2, r
            else:
                yield from k(s2)

    def nested(m, vi):
        def t(it, ctx, args, st):
            T = ctx.gargs[0]
            ev(st, 'inner', m, tys(T))
            yield from drive(it, ctx, T, args[vi], st, lambda s: iter([(s, it.ok(UNIT))]))
        return t

    def leaf(m):
        def t(it, ctx, args, st):
            v = args[1] if len(args) > 1 else None
            if isinstance(v, Ptr):
                v = st.deref_all(v)
            ev(st, 'inner', m, v)
            yield st, it.ok(UNIT)
        return t

    def compound(m):
        def t(it, ctx, args, st):
            ev(st, 'inner', m, tuple(a for a in args[1:] if not isinstance(a, Ptr)))
            yield st, it.ok(Agg('RSC', (m,)))
        return t

    def entry(it, ctx, args, st):
        K, V = ctx.gargs[0], ctx.gargs[1]
        ev(st, 'inner', 'serialize_entry', tys(K), tys(V))
        yield from drive(it, ctx, K, args[1], st, lambda s: drive(it, ctx, V, args[2], s, lambda s2: iter([(s2, it.ok(UNIT))])))

    for m in ['bool', 'i8', 'i16', 'i32', 'i64', 'i128', 'u8', 'u16', 'u32', 'u64', 'u128', 'f32', 'f64', 'char', 'str', 'bytes', 'none', 'unit', 'unit_struct', 'unit_variant']:
        tm[('RS', 'Serializer', 'serialize_' + m)] = leaf('serialize_' + m)
    tm[('RS', 'Serializer', 'serialize_some')] = nested('serialize_some', 1)
    tm[('RS', 'Serializer', 'serialize_newtype_struct')] = nested('serialize_newtype_struct', 2)
    tm[('RS', 'Serializer', 'serialize_newtype_variant')] = nested('serialize_newtype_variant', 4)
    for m in ['seq', 'tuple', 'tuple_struct', 'tuple_variant', 'map', 'struct', 'struct_variant']:
        tm[('RS', 'Serializer', 'serialize_' + m)] = compound('serialize_' + m)
    tm[('RS', 'Serializer', 'is_human_readable')] = lambda it, ctx, args, st: iter([(st, st.deref_all(args[0]).fields[0])])
    tm[('RS2', 'Serializer', 'is_human_readable')] = tm[('RS', 'Serializer', 'is_human_readable')]
    for tr in ['SerializeSeq', 'SerializeTuple']:
        tm[('RSC', tr, 'serialize_element')] = nested('serialize_element', 1)
    for tr in ['SerializeTupleStruct', 'SerializeTupleVariant']:
        tm[('RSC', tr, 'serialize_field')] = nested('serialize_field', 1)
    for tr in ['SerializeStruct', 'SerializeStructVariant']:
        tm[('RSC', tr, 'serialize_field')] = nested('serialize_field', 2)
        tm[('RSC', tr, 'skip_field')] = leaf('skip_field')
    tm[('RSC', 'SerializeMap', 'serialize_key')] = nested('serialize_key', 1)
    tm[('RSC', 'SerializeMap', 'serialize_value')] = nested('serialize_value', 1)
    tm[('RSC', 'SerializeMap', 'serialize_entry')] = entry
    for tr in ['SerializeSeq', 'SerializeTuple', 'SerializeTupleStruct', 'SerializeTupleVariant', 'SerializeMap', 'SerializeStruct', 'SerializeStructVariant']:
        tm[('RSC', tr, 'end')] = leaf('end')

    def probe(it, ctx, args, st):
        S = ctx.gargs[0]
        ser = args[1]
        sp = st.ref(ser)
        for s2, r in it.call_trait(ctx.fr, ('ref', False, S), 'serde::Serializer', 'is_human_readable', [], [sp], st):
            if is_abnormal(r):
                yield s2, r
                continue
            ev(s2, 'probe', tys(S), r)
            yield s2, it.ok(UNIT)
    tm[('Probe', 'Serialize', 'serialize')] = probe

    def beh(who):
        def t(it, ctx, args, st):
            m = ctx.callee.method
            ev(st, 'behavior', who, m, tys(ctx.gargs[0]))
            yield from it.call_trait(ctx.fr, ctx.gargs[0], 'serde::Serializer', m, [], list(args), st)
        return t
    for who in ('HB', 'HK'):
        for m in ['serialize_bool', 'serialize_f32', 'serialize_f64', 'serialize_bytes']:
            tm[(who, 'Behavior', m)] = beh(who)
    return tm


def M_ref_serialize(it, ctx, args, st):
    """serde: impl Serialize for &T forwards to T"""
    T = ctx.self_ty
    while T[0] == 'ref':
        T = T[2]
    v = args[0]
    while isinstance(v, Ptr) and isinstance(st.deref(v), Ptr):
        v = st.deref(v)
    yield from it.call_trait(ctx.fr, T, 'serde::Serialize', 'serialize', list(ctx.gargs), [v, args[1]], st)


def M_serde_default_hr(it, ctx, args, st):
    yield st, z3.BoolVal(True)


BASE_MODELS = [(r'<&+(?:mut )?.* as (?:[\w:]+::)?Serialize>::serialize::<.*>', M_ref_serialize)]


def mk(prog, tm):
    it = Interp(prog, BASE_MODELS + models_serde.MODELS + models_std.MODELS, {**models_serde.TMODELS, **tm}, unwind=8)
    for who in ('HB', 'HK'):
        it.assoc_types[(who, 'Behavior', 'KeyBehavior')] = P('HK')
    for a in ('Ok', 'Error'):
        for t in ('RS', 'RS2'):
            it.assoc_types[(t, 'Serializer', a)] = P('ROk' if a == 'Ok' else 'RErr')
    for a in ('SerializeSeq', 'SerializeTuple', 'SerializeTupleStruct', 'SerializeTupleVariant', 'SerializeMap', 'SerializeStruct', 'SerializeStructVariant'):
        it.assoc_types[('RS', 'Serializer', a)] = P('RSC')
        it.assoc_types[('RS2', 'Serializer', a)] = P('RSC')
        for b in ('Ok', 'Error'):
            it.assoc_types[('RSC', a, b)] = P('ROk' if b == 'Ok' else 'RErr')
    # serde's provided Serializer::is_human_readable / Deserializer::is_human_readable return true (documented default)
    it.serde_defaults = True
    NORM[0] = it
    return it


def override_methods(prog, src_suffix, trait):
    out = {}
    for info in prog.impls:
        if info.trait is None or last_seg(info.trait) != trait or not info.src.endswith(src_suffix):
            continue
        if 'Override' not in ty_str(info.self_ty):
            continue
        for m, names in info.methods.items():
            out[m] = names[0]
    return out


def wrapper(it, st, kind, inner):
    """Override::new(inner) executed from MIR"""
    name = [k for k in it.p.fns if re.search(r'conjure_serde::' + kind + r'::<impl at [^>]*>::new$', k) and 'Override' in it.p.fns[k].header]
    if len(name) != 1:
        raise Inconclusive(f'C01w harness: {kind}::Override::new not unique: {name}')
    outs = list(it.run(name[0], [inner], st, {'S': P('RS'), 'T': P('RS'), 'B': P('HB')}))
    return outs[0][1]


SER_VALUE_BEH = {'serialize_key': 'HK'}


def run_ser(rep, prog):
    h, h2 = z3.Bool('inner_is_human_readable'), z3.Bool('nested_is_human_readable')
    tm = ser_models(h, h2)
    # ---- Serializer for Override<RS, HB>
    plan = []      # (label, trait, method, S-binding, args builder, expected behaviour)
    ser_m = override_methods(prog, '/ser.rs', 'Serializer')
    scal = {'serialize_bool': z3.Bool('v'), 'serialize_f32': z3.FP('v', z3.Float32()), 'serialize_f64': z3.FP('v', z3.Float64()), 'serialize_char': z3.BitVec('v', 32),
            'serialize_i8': z3.BitVec('v', 8), 'serialize_i16': z3.BitVec('v', 16), 'serialize_i32': z3.BitVec('v', 32), 'serialize_i64': z3.BitVec('v', 64), 'serialize_i128': z3.BitVec('v', 128),
            'serialize_u8': z3.BitVec('v', 8), 'serialize_u16': z3.BitVec('v', 16), 'serialize_u32': z3.BitVec('v', 32), 'serialize_u64': z3.BitVec('v', 64), 'serialize_u128': z3.BitVec('v', 128)}
    n_entry = 0
    for m, fname in sorted(ser_m.items()):
        it = mk(prog, tm)
        dec = Decider(rep, it)
        st = St()
        me = wrapper(it, st, 'ser', Agg('RS', (h,)))
        probe = st.ref(Agg('Probe', ()))
        name = st.ref(bstr(b'N'))
        tenv = {'S': P('RS'), 'B': P('HB'), 'T': P('Probe')}
        behaviour_leaf = m in ('serialize_bool', 'serialize_f32', 'serialize_f64', 'serialize_bytes')
        if m in scal:
            args, want = [me, scal[m]], [('inner', m, scal[m])]
        elif m == 'serialize_str' or m == 'serialize_bytes':
            sp = st.ref(bstr(b'xy'))
            args, want = [me, sp], [('inner', m, bstr(b'xy'))]
        elif m in ('serialize_none', 'serialize_unit'):
            args, want = [me], [('inner', m, None)]
        elif m == 'serialize_unit_struct':
            args, want = [me, name], [('inner', m, None)]
        elif m == 'serialize_unit_variant':
            args, want = [me, name, z3.BitVecVal(1, 32), name], [('inner', m, None)]
        elif m == 'serialize_some':
            args, want = [me, probe], 'nested'
        elif m == 'serialize_newtype_struct':
            args, want = [me, name, probe], 'nested'
        elif m == 'serialize_newtype_variant':
            args, want = [me, name, z3.BitVecVal(1, 32), name, probe], 'nested'
        elif m in ('serialize_seq', 'serialize_map'):
            args, want = [me, it.some(bv(2))], 'compound'
        elif m == 'serialize_tuple':
            args, want = [me, bv(2)], 'compound'
        elif m in ('serialize_tuple_struct', 'serialize_struct'):
            args, want = [me, name, bv(2)], 'compound'
        elif m in ('serialize_tuple_variant', 'serialize_struct_variant'):
            args, want = [me, name, z3.BitVecVal(1, 32), name, bv(2)], 'compound'
        elif m == 'is_human_readable':
            args, want = [st.ref(me)], 'hr'
        elif m == 'collect_str':
            continue
        else:
            rep.inconc(f'C01w: Serializer for ser::Override has a method the harness does not know: {m}')
            continue
        n_entry += 1
        check_entry(rep, it, dec, f'ser:Serializer::{m}', fname, args, st, tenv, want, 'HB', behaviour_leaf, h, h2, 'ser')
        finish_engine(rep, it)
    if 'is_human_readable' not in ser_m:
        # the impl relies on serde's provided method: evaluate it the way a nested value would
        it = mk(prog, tm)
        dec = Decider(rep, it)
        st = St()
        me = wrapper(it, st, 'ser', Agg('RS', (h,)))
        outs = list(it.call_trait(first_frame(it, prog), ('ref', False, P(SO, P('RS'), P('HB'))), 'serde::Serializer', 'is_human_readable', [], [st.ref(me)], st))
        for s2, r in outs:
            rep.states += 1
            m = dec.decide('ser:Serializer::is_human_readable==inner-format', s2, r != h) if not is_abnormal(r) else None
            if is_abnormal(r) or m is not None:
                report_hr(rep, 'ser', 'Serializer for ser::Override does not forward is_human_readable: a value nested below any container sees the default (true) whatever the format says')
        finish_engine(rep, it)
    # ---- compound impls
    for trait in ['SerializeSeq', 'SerializeTuple', 'SerializeTupleStruct', 'SerializeTupleVariant', 'SerializeMap', 'SerializeStruct', 'SerializeStructVariant']:
        for m, fname in sorted(override_methods(prog, '/ser.rs', trait).items()):
            it = mk(prog, tm)
            dec = Decider(rep, it)
            st = St()
            me = st.ref(wrapper(it, st, 'ser', Agg('RSC', ('x',))))
            probe, probe2 = st.ref(Agg('Probe', ())), st.ref(Agg('Probe', ()))
            key = st.ref(bstr(b'k'))
            tenv = {'S': P('RSC'), 'B': P('HB'), 'T': P('Probe'), 'K': P('Probe'), 'V': P('Probe')}
            if m == 'end':
                args, want = [st.deref(me)], [('inner', 'end', None)]
            elif m in ('serialize_element', 'serialize_value', 'serialize_key') or (m == 'serialize_field' and 'Tuple' in trait):
                args, want = [me, probe], 'nested'
            elif m == 'serialize_field':
                args, want = [me, key, probe], 'nested'
            elif m == 'skip_field':
                args, want = [me, key], [('inner', 'skip_field', bstr(b'k'))]
            elif m == 'serialize_entry':
                args, want = [me, probe, probe2], 'entry'
            else:
                rep.inconc(f'C01w: {trait} for ser::Override has a method the harness does not know: {m}')
                continue
            n_entry += 1
            check_entry(rep, it, dec, f'ser:{trait}::{m}', fname, args, st, tenv, want, SER_VALUE_BEH.get(m, 'HB'), False, h, h2, 'ser')
            finish_engine(rep, it)
    if n_entry < 30:
        rep.inconc(f'vacuity: only {n_entry} serializer entry points of ser::Override were exercised')


def first_frame(it, prog):
    from mirsym.interp import Frame
    fr = Frame()
    fr.fn = next(iter(prog.fns.values()))
    fr.locals, fr.tenv, fr.visits, fr.depth = {}, {}, {}, 0
    return fr


def check_entry(rep, it, dec, tag, fname, args, st, tenv, want, beh, behaviour_leaf, h, h2, side):
    outs = list(it.run(fname, args, st, tenv))
    if len(outs) != 1:
        rep.inconc(f'C01w {tag}: {len(outs)} paths')
        return
    s2, rv = outs[0]
    rep.states += 1
    if is_abnormal(rv):
        rep.violation('C01:wrapper:' + tag, f'{tag}: {rv!r}', {})
        return
    events = list(s2.aux.get('w', ()))
    O = SO if side == 'ser' else DO
    good, same = True, z3.BoolVal(True)
    if want == 'nested':
        exp_inner_T = f'{O}<&Probe, {beh}>'
        ok1 = len(events) == 2 and events[0][0] == 'inner' and events[0][2] == exp_inner_T
        ok2 = ok1 and events[1][0] == 'probe' and events[1][1] == f'{O}<RS2, {beh}>'
        good = ok2
        if ok2:
            same = events[1][2] == h2
    elif want == 'entry':
        good = (len(events) == 3 and events[0][:2] == ('inner', 'serialize_entry') and events[0][2] == f'{O}<&Probe, HK>' and events[0][3] == f'{O}<&Probe, HB>'
                and events[1][:2] == ('probe', f'{O}<RS2, HK>') and events[2][:2] == ('probe', f'{O}<RS2, HB>'))
    elif want == 'compound':
        v = rv if not isinstance(rv, Enum) else it.payload(rv, 'Ok').fields[0]
        good = len(events) == 1 and events[0][0] == 'inner' and isinstance(v, Agg) and v.name == O and isinstance(v.fields[0], Agg) and v.fields[0].name == 'RSC'
    elif want == 'hr':
        good = z3.is_expr(rv)
        same = (rv == h) if good else same
    else:
        exp = list(want)
        if behaviour_leaf:
            good = len(events) == 2 and events[0][:3] == ('behavior', 'HB', exp[0][1]) and events[1][:2] == exp[0][:2]
            got_v = events[1][2] if good else None
        else:
            good = len(events) == 1 and events[0][:2] == exp[0][:2]
            got_v = events[0][2] if good else None
        if good and exp[0][2] is not None:
            same = val_eq(got_v, exp[0][2])
    rep.query(tag + ':hands-on-the-same-wrapper', 'unsat' if good else 'sat', 0.0, events=[str(e)[:90] for e in events])
    if not good:
        rep.violation('C01:wrapper:' + tag, f'{tag}: handed on {[str(e)[:120] for e in events]} (result {rv!r:.80})', {'events': [str(e) for e in events]})
        return
    m = dec.decide(tag + ':values-and-format-flag-unchanged', s2, z3.Not(same))
    if m is not None:
        if want in ('nested', 'hr'):
            report_hr(rep, side, f'{tag}: the nested value is handed a serializer whose is_human_readable differs from the inner format\'s')
        else:
            rep.violation('C01:wrapper:' + tag, f'{tag}: the scalar is not forwarded unchanged', {})


def report_hr(rep, side, what):
    r = replay([{'op': 'smile_nested'}])[0]
    r2 = replay([{'op': 'smile_nested'}], 'release')[0]
    rep.replayed += 1
    bad = {k: v for k, v in r.items() if any(x != 'equal' for x in v.values())}
    if bad and r == r2:
        rep.violation('C01:wrapper:is_human_readable', f'{what}; natively, values whose encoding depends on it do not round-trip through Smile once nested: {bad}', {'op': {'op': 'smile_nested'}, 'native': r})
    else:
        rep.inconc(f'model mismatch C01w: {what}, but the native nested round trips are fine: {r}')


def run(rep, tier):
    prog = program(['conjure_serde'])
    rep.bounds['wrapper'] = 'every method of every serde trait impl of ser::Override (one step each, harness inner format and behaviour); scalars symbolic at full width'
    run_ser(rep, prog)
