"""C10 — unknown enum values and union variants survive a round trip unless exhaustive.
Real generator output (enum FromStr/FromPlain/as_str, union Visitor_/Variant_/Serialize) + conjure_object::private
(valid_enum_variant, Variant, UnionField_, UnionTypeField_) from MIR; both configurations."""
import json, re
import z3
from mirsym.interp import Interp, St
from mirsym import models_std, models_serde
from mirsym.models_std import fork_bool, sval, chain_ok
from mirsym.models_serde import de_err, rec_event
from mirsym.values import Agg, Enum, Ptr, Seq, BStr, UNIT, Panic, Unwind, bv, bstr, bstr_py, bstr_eq, is_abnormal
from mirsym.harness import Decider, finish_engine, replay, find_fn, find_fns, sym_str, model_bytes, in_class
from mirsym.parse import Unsupported
from checks import gentypes
from vlib.common import Inconclusive

P = lambda name, *a: ('path', name, tuple(a))
LISTED_ENUM = [b'ONE', b'TWO_B', b'HTTP_2', b'SHA3_512']          # TestEnum of the IR family, in declaration order
LISTED_IDENT = {b'ONE': 'One', b'TWO_B': 'TwoB', b'HTTP_2': 'Http2', b'SHA3_512': 'Sha3512'}


def enum_grammar(s):
    """well-formed enum name: [A-Z0-9_]+ (the Conjure spec's value pattern as implemented: upper-case letters, digits, underscore)"""
    return z3.And(s.len != 0, *[z3.Or(z3.UGE(bv(i), s.len), in_class(b, 'A-Z0-9_')) for i, b in enumerate(s.bytes)])


def M_str_into_box(it, ctx, args, st):
    yield st, models_std.box(st, sval(st, args[0]))


def M_box_str_deref(it, ctx, args, st):
    b = st.deref(args[0])
    yield st, b.fields[0].fields[0]


def boxstr(st, v):
    v = st.deref_all(v) if isinstance(v, Ptr) else v
    if isinstance(v, Agg) and v.name == 'Box':
        v = st.deref_all(v.fields[0].fields[0])
    return v


def M_box_str_eq(it, ctx, args, st):
    r = bstr_eq(boxstr(st, args[0]), boxstr(st, args[1]))
    yield st, (z3.Not(r) if ctx.callee.method == 'ne' else r)


def M_box_str_clone(it, ctx, args, st):
    yield st, models_std.box(st, boxstr(st, args[0]))


MODELS = [
    (r'<&*std::boxed::Box<str> as std::cmp::PartialEq(<.*>)?>::(eq|ne)', M_box_str_eq),
    (r'<std::boxed::Box<str> as std::clone::Clone>::clone', M_box_str_clone),
    (r'<std::boxed::Box<str> as std::convert::From<&str>>::from|<&str as std::convert::Into<std::boxed::Box<str>>>::into|std::string::String::into_boxed_str', M_str_into_box),
    (r'<std::boxed::Box<str> as std::ops::Deref>::deref', M_box_str_deref),
]


def run(rep, tier):
    prog = gentypes.types_program()
    K = 8 if tier == 'quick' else 12
    rep.bounds['enum'] = f'all valid-UTF-8 names of <= {K} bytes; listed values ONE, TWO_B, HTTP_2, SHA3_512 (digit-led segments included); default and exhaustive configuration'
    with rep.part('enum from_str'):
        run_enum(rep, prog, K)
    with rep.part('enum serialize'):
        run_enum_serialize(rep, prog)
    with rep.part('enum value delivery'):
        run_variant_delivery(rep, prog, K)
        for fail in battery_enum_deliveries():
            rep.violation('C10:native-twin:delivery', f'native twin: {fail}', {'native': fail})
    from checks import c02
    with rep.part('union unknown variants'):
        c02.run_union(rep, prog, 'C10')
    for fail in battery_union_payloads():
        rep.violation('C10:native-twin:payload', f'native twin: {fail}', {'native': fail})
    rep.replayed += 2 * len(PAYLOADS)
    # native twins: every listed value and some unlisted ones through from_str, from_plain and the serde-derived JSON path
    # (the derive expansion is not executed symbolically); all paths must agree and round-trip the spelling
    texts = list(LISTED_ENUM) + [b'X9', b'one', b'HTTP2', b'SHA3512', b'TWO__B', b'TWOB']
    ops = [{'op': 'gen_enum', 'text_hex': t.hex()} for t in texts]
    res = replay(ops)
    rep.replayed += len(ops)
    for t, o, r in zip(texts, ops, res):
        wf = re.fullmatch(rb'[A-Z0-9_]+', t) is not None
        w = (LISTED_IDENT.get(t) or (f'Unknown({t.decode()})' if wf else 'err'), LISTED_IDENT.get(t, 'err'))
        if (r.get('default'), r.get('exhaustive')) != w or not r.get('consistent'):
            rep.violation('C10:native-twin', f'enum text {t!r}: native {r}, expected (default, exhaustive) = {w} on every entry path with an exact round trip', {'op': o, 'native': r})
    rep.assumptions += ['serde-derive expansions of the generated enum (untagged Unknown arm, Content buffering) are not executed: the enum is entered through its generated FromStr/FromPlain (which the derive-free paths share with deserialization via Variant)',
                        'union documents arrive as key/value events; payloads are abstract tokens (their losslessness is C13)']
    rep.outside += [f'names longer than {K} bytes', 'definitions outside the IR family']


# payloads of an unlisted union variant: every JSON kind, integers at the 64-bit edges, texts that look like Conjure spellings
PAYLOADS = ['18446744073709551615', '9223372036854775808', '-9223372036854775808', '9223372036854775807', '0', '-1', '1.5', '1e300', '-2.5e-7', 'null', 'true',
            '"NaN"', '"Infinity"', '""', '[]', '{}', '[1,[2,{"a":null}],"x"]', '{"k":{"type":"t","t":[18446744073709551615,-9223372036854775808]},"l":[true,false]}',
            '{"type":"inner","inner":1}', '[0.1,1E2,-0.0]']


def battery_union_payloads():
    """an unlisted variant with any JSON payload re-serializes to a document equivalent to the input (numbers compared exactly:
    integers as integers, non-integers as doubles), in both member orders"""
    import json as _json
    norm = lambda t: _json.loads(t, parse_int=lambda x: ('int', int(x)), parse_float=lambda x: ('float', float(x)))
    docs = []
    for pl in PAYLOADS:
        docs.append(('{"type":"zzz","zzz":%s}' % pl, pl))
        docs.append(('{"zzz":%s,"type":"zzz"}' % pl, pl))
    out = []
    for (d, pl), r in zip(docs, replay([{'op': 'gen_union', 'doc': d} for d, _ in docs])):
        want = norm('{"type":"zzz","zzz":%s}' % pl)
        got = r.get('reserialized')
        try:
            same = got is not None and norm(got) == want and r.get('default') == 'Unknown(zzz)' and r.get('exhaustive') == 'err'
        except ValueError:
            same = False
        if not same:
            out.append(f'unlisted variant document {d} -> {r}')
    return out


def run_variant_delivery(rep, prog, K):
    """the string behind `Unknown` (conjure_object::private::Variant) deserializes the same way however the format hands the string
    over: borrowed from the input (from_str on escape-free text), transient (readers, escapes) or owned (Any, buffered content)"""
    from mirsym.harness import find_fns
    fns = [k for k in find_fns(prog, 'deserialize', inpath='conjure_object::private::<impl at') if 'Variant' in impl_text_of(prog, k) and 'Deserialize' in impl_text_of(prog, k)
           and '{closure' not in k and '::deserialize::' not in k.split('>::deserialize')[-1]]
    fns = [k for k in fns if k.endswith('::deserialize')]
    if len(fns) != 1:
        raise Inconclusive(f'C10 harness: <Variant as Deserialize>::deserialize not found uniquely: {fns}')
    outcomes = {}
    it = Interp(prog, MODELS + models_serde.MODELS + models_std.MODELS, models_serde.TMODELS, unwind=K + 6)
    dec = Decider(rep, it)
    st0 = St()
    ptr, s = sym_str(st0, 's', K)
    wellformed = enum_grammar(s)
    for mode in ('borrowed', 'transient', 'owned'):
        np_ = 0
        for s2, rv in it.run(fns[0], [Agg('StrDeliver', (s, mode))], st0.fork(), {'D': ('path', 'StrDeliver', ())}):
            np_ += 1
            rep.states += 1
            if is_abnormal(rv):
                rep.structural(f'C10:variant-delivery:{mode}', f'<Variant as Deserialize> on a {mode} string: {rv!r:.100}', {'mode': mode}, battery_enum_deliveries)
                continue
            is_ok = it.variant_of(rv, 'Ok')
            m = dec.decide(f'variant:{mode}:path{np_}:accepted<=>well-formed-name', s2, is_ok != wellformed, bytes=K)
            if m is not None:
                txt = model_bytes(m, s)
                fails = battery_enum_deliveries([txt])
                rep.replayed += 1
                if fails:
                    rep.violation(f'C10:variant-delivery:{mode}', f'an unlisted enum value {txt!r} handed over as a {mode} string is '
                                  f'{"accepted" if z3.is_true(m.eval(is_ok, True)) else "rejected"} although the name is {"" if z3.is_true(m.eval(wellformed, True)) else "not "}well formed; native: {fails[0]}',
                                  {'op': {'op': 'gen_enum', 'text_hex': txt.hex()}, 'mode': mode})
                else:
                    rep.inconc(f'model mismatch C10 variant delivery {mode} {txt!r}: the native entry paths agree')
        if not np_:
            rep.inconc(f'vacuity: Variant deserialize ({mode}) has no outcome')
    finish_engine(rep, it)


def impl_text_of(prog, fname):
    for info in prog.impls:
        for ms in info.methods.values():
            if fname in ms:
                return info.text
    return ''


def battery_enum_deliveries(texts=None):
    texts = texts or [b'X9', b'ONE', b'HTTP_2', b'A_B_C', b'Q']
    ops = [{'op': 'gen_enum', 'text_hex': t.hex()} for t in texts]
    return [f'{t!r}: {r}' for t, r in zip(texts, replay(ops)) if not r.get('consistent')]


def run_enum(rep, prog, K):
    for cfg in ('types', 'exhaustive_types'):
        for entry in ('from_str', 'from_plain'):
            fns = gentypes.gen_fn(prog, cfg, 'p::test_enum', entry, ret='TestEnum')
            if len(fns) != 1:
                raise Inconclusive(f'C10 harness: {cfg} TestEnum::{entry} not unique: {fns}')
            as_str = gentypes.gen_fn(prog, cfg, 'p::test_enum', 'as_str', arg0='TestEnum')
            it = Interp(prog, MODELS + models_serde.MODELS + models_std.MODELS, models_serde.TMODELS, unwind=K + 6)
            dec = Decider(rep, it)
            st = St()
            ptr, s = sym_str(st, 's', K)
            listed = z3.Or(*[bstr_eq(s, bstr(x)) for x in LISTED_ENUM])
            wellformed = enum_grammar(s)
            seen = {'listed': 0, 'unknown': 0, 'rej': 0}
            np_ = 0
            for s2, rv in it.run(fns[0], [ptr], st):
                np_ += 1
                rep.states += 1
                tag = f'enum:{cfg}:{entry}:path{np_}'
                if isinstance(rv, Unwind):
                    rep.inconc(f'C10 {tag}: unwind {rv.where}')
                    continue
                if isinstance(rv, Panic):
                    m = dec.decide(tag + ':panic', s2, z3.BoolVal(True))
                    if m is not None:
                        report_enum(rep, cfg, model_bytes(m, s), f'panic: {rv.msg}')
                    continue
                is_ok = it.variant_of(rv, 'Ok')
                okp = it.payload(rv, 'Ok')
                accept = z3.Or(listed, wellformed) if cfg == 'types' else listed
                conds = [is_ok != accept]
                if okp is not None:
                    v = okp.fields[0]
                    unk_idx = v.decl.index.get('Unknown')
                    is_unknown = v.discr == unk_idx if unk_idx is not None else z3.BoolVal(False)
                    conds.append(z3.And(is_ok, is_unknown == listed))        # listed values are never classified as unknown
                    for i, name in enumerate(LISTED_ENUM):
                        conds.append(z3.And(is_ok, bstr_eq(s, bstr(name)), v.discr != i))
                    # the name is exposed unchanged
                    if as_str and it.feasible(s2, is_ok):
                        s3 = s2.fork()
                        s3.pc.append(is_ok)
                        for s4, r4 in it.run(as_str[0], [s3.ref(v)], s3):
                            if is_abnormal(r4):
                                continue
                            got = s4.deref_all(r4)
                            m = dec.decide(tag + ':as_str==input', s4, z3.Not(bstr_eq(got, s)))
                            if m is not None:
                                report_enum(rep, cfg, model_bytes(m, s), 'as_str differs from the parsed name')
                m = dec.decide(tag + ':classification', s2, z3.Or(*conds), bytes=K)
                if m is not None:
                    report_enum(rep, cfg, model_bytes(m, s), 'acceptance / classification differs from the statement')
                    continue
                seen['listed'] += int(it.feasible(s2, z3.And(is_ok, listed)))
                seen['unknown'] += int(it.feasible(s2, z3.And(is_ok, z3.Not(listed))))
                seen['rej'] += int(it.feasible(s2, z3.Not(is_ok)))
            if not seen['listed'] or not seen['rej'] or (cfg == 'types' and not seen['unknown']):
                rep.inconc(f'vacuity: C10 enum {cfg} {entry}: {seen}')
            finish_engine(rep, it)


def run_enum_serialize(rep, prog):
    """the serde-derived Serialize of the generated enum (executed from MIR against a recorder): every listed variant is written as
    a unit variant whose wire name is exactly its declared value"""
    def T_rec_unit_variant(it, ctx, args, st):
        rec_event(st, 'unit_variant', bstr_py(sval(st, args[3])))
        yield st, it.ok(UNIT)
    for cfg in ('types', 'exhaustive_types'):
        fns = gentypes.gen_fn(prog, cfg, 'p::test_enum', 'serialize', arg0='TestEnum')
        if len(fns) != 1:
            raise Inconclusive(f'C10 harness: {cfg} <TestEnum as Serialize>::serialize not unique: {fns}')
        tm = dict(models_serde.TMODELS)
        tm[('Rec', 'Serializer', 'serialize_unit_variant')] = T_rec_unit_variant
        it = Interp(prog, MODELS + models_serde.MODELS + models_std.MODELS, tm, unwind=8)
        decl = prog.src.enum(f'{gentypes.CRATE}::{cfg}::p::test_enum::TestEnum')
        for name in LISTED_ENUM:
            ident = LISTED_IDENT[name]
            if ident not in decl.index:
                def bat(name=name):
                    r = replay([{'op': 'gen_enum', 'text_hex': name.hex()}])[0]
                    return [] if r.get('consistent') and r.get('default') not in (None, 'err') else [f'{name!r}: {r}']
                rep.structural('C10:enum:serialize', f'{cfg}: the generated enum has no variant {ident} for the listed value {name.decode()}', {}, bat)
                continue
            i = decl.index[ident]
            st = St()
            v = Enum(decl, bv(decl.variants[i][1]), ((i, Agg(ident, ())),))
            outs = list(it.run(fns[0], [st.ref(v), Agg('Rec', ())], st, {'__S': ('path', 'Rec', ()), 'S': ('path', 'Rec', ())}))
            rep.states += len(outs)
            ev = outs[0][0].aux.get('rec', ()) if len(outs) == 1 and not is_abnormal(outs[0][1]) else None
            good = ev == (('unit_variant', name),)
            rep.query(f'enum:{cfg}:serialize:{name.decode()}:wire-name==declared-value', 'unsat' if good else 'sat', 0.0, events=repr(ev)[:80])
            if not good:
                op = {'op': 'gen_enum', 'text_hex': name.hex()}
                r, r2 = replay([op])[0], replay([op], 'release')[0]
                rep.replayed += 1
                if not r.get('consistent') and not r2.get('consistent'):
                    rep.violation('C10:enum:serialize', f'{cfg}: listed value {name.decode()} is serialized as {ev!r}; native {r}', {'op': op, 'native': r})
                else:
                    rep.inconc(f'model mismatch C10 enum serialize {cfg} {name!r}: events {ev!r}, native consistent')
        finish_engine(rep, it)


def report_enum(rep, cfg, b, what):
    op = {'op': 'gen_enum', 'text_hex': b.hex()}
    r, r2 = replay([op])[0], replay([op], 'release')[0]
    rep.replayed += 1
    listed = LISTED_IDENT
    wf = re.fullmatch(rb'[A-Z0-9_]+', b) is not None
    want_default = listed.get(b) or (f'Unknown({b.decode()})' if wf else 'err')
    want_exh = listed.get(b, 'err')
    if (r.get('default'), r.get('exhaustive')) != (want_default, want_exh) and r == r2:
        rep.violation('C10:enum', f'enum name {b!r}: {what}; native (default, exhaustive) = ({r.get("default")}, {r.get("exhaustive")}), statement ({want_default}, {want_exh})', {'op': op, 'native': r})
    else:
        rep.inconc(f'model mismatch C10 enum {cfg}: {b!r} ({what}) does not reproduce natively: {r}')


def replay_cmd(path):
    w = json.load(open(path))
    print(json.dumps(replay([w['witness']['op']])[0], indent=1))
    return 0
