"""C14 (maps) — DoubleOps for BTreeMap<K, V> (and through it for map fields of generated types): cmp / eq / hash executed from MIR
on symbolic maps BTreeMap<i32, f64> of <= 2 entries each (keys strictly increasing, values full-width doubles, lengths symbolic).
ordered_float::OrderedFloat is the library contract (total order with NaN greatest and equal to itself, -0 == +0, hash of the
canonical bits) -- the compiled OrderedFloat is what the Kani half of C14 runs."""
import itertools
import z3
from mirsym.dump import program
from mirsym.interp import Interp, St
from mirsym import models_std, models_serde
from mirsym.models_std import fork_bool, It, it_next, as_iter, itval, ordering, cmp_terms
from mirsym.values import Agg, Enum, Ptr, Seq, BStr, UNIT, Panic, Unwind, bv, val_eq, is_abnormal
from mirsym.harness import Decider, finish_engine, find_fns
from mirsym.types import ty_str, last_seg, strip_refs
from mirsym.parse import Unsupported
from vlib.common import Inconclusive
from vlib.par import run_parallel

P = lambda name, *a: ('path', name, tuple(a))
F64 = z3.Float64()
NMAX = 2


class SymMap:
    def __init__(self, st, tag, n):
        self.n = n                                  # concrete length for this configuration
        self.keys = [z3.BitVec(f'{tag}_k{i}', 32) for i in range(n)]
        self.vals = [z3.FP(f'{tag}_v{i}', F64) for i in range(n)]
        for i in range(n - 1):
            st.pc.append(self.keys[i] < self.keys[i + 1])
        self.value = Agg('std::collections::BTreeMap', (tuple((self.keys[i], self.vals[i]) for i in range(n)),))

    def concrete(self, m):
        return [(m.eval(k, True).as_signed_long(), hex(m.eval(z3.fpToIEEEBV(v), True).as_long())) for k, v in zip(self.keys, self.vals)]


def of_eq(a, b):
    return z3.Or(z3.And(z3.fpIsNaN(a), z3.fpIsNaN(b)), z3.fpEQ(a, b))


def of_cmp(a, b):
    """OrderedFloat order as -1/0/1 (BV64): NaN greatest and equal to itself, otherwise the numeric order (-0 == +0)"""
    return z3.If(of_eq(a, b), bv(0), z3.If(z3.fpIsNaN(a), bv(1), z3.If(z3.fpIsNaN(b), bv(-1 & 0xffffffffffffffff), z3.If(z3.fpLT(a, b), bv(-1 & 0xffffffffffffffff), bv(1)))))


def of_hash_bits(a):
    """canonical bits hashed by OrderedFloat: one NaN, one zero"""
    bits = z3.fpToIEEEBV(a)
    return z3.If(z3.fpIsNaN(a), z3.BitVecVal(0x7ff8000000000000, 64), z3.If(z3.fpIsZero(a), z3.BitVecVal(0, 64), bits))


def map_items(st, mp):
    m = st.deref_all(mp) if isinstance(mp, Ptr) else mp
    return [Agg('tuple', (st.ref(k), st.ref(v))) for k, v in m.fields[0]]


def M_map_iter(it, ctx, args, st):
    yield st, It('list', tuple(map_items(st, args[0])))


def M_map_len(it, ctx, args, st):
    m = st.deref_all(args[0])
    yield st, bv(len(m.fields[0]))


def M_zip(it, ctx, args, st):
    a, b = as_iter2(it, st, args[0]), as_iter2(it, st, args[1])
    yield st, It('zip', (a, b))


def as_iter2(it, st, v):
    x = st.deref_all(v) if isinstance(v, Ptr) else v
    if isinstance(x, Agg) and x.name == 'std::collections::BTreeMap':
        return It('list', tuple(map_items(st, x)))
    return as_iter(it, st, x)


def it_next_zip(it, st, itv, fr):
    kind, src, f, pos, cur = itv.fields
    a, b = src
    for s2, a2, x in it_next(it, st, a, fr):
        if x is None:
            yield s2, It('zip', (a2, b)), None
            continue
        for s3, b2, y in it_next(it, s2, b, fr):
            if y is None:
                yield s3, It('zip', (a2, b2)), None
            else:
                yield s3, It('zip', (a2, b2)), Agg('tuple', (x, y))


models_std.EXTRA_ITER_KINDS['zip'] = it_next_zip


def type_of_value(st, v):
    """type tree of an item value of this harness (keys are i32, wrapped values are f64)"""
    if isinstance(v, Ptr):
        return ('ref', False, type_of_value(st, st.deref(v)))
    if z3.is_expr(v):
        if z3.is_fp(v):
            return P('f64')
        return P('i32') if v.size() == 32 else P('usize')
    if isinstance(v, Agg) and v.name == 'tuple':
        return ('tuple', '', tuple(type_of_value(st, f) for f in v.fields))
    if isinstance(v, Agg):
        return P(v.name, P('f64')) if v.fields else P(v.name)
    raise Unsupported(f'item value {v!r:.60}')


def item_cmp(it, ctx, T, x, y, st):
    """<Item as Ord>::cmp on two items (the item type is read off the values: the adaptor's closure type does not name it)"""
    yield from it.call_trait(ctx.fr, type_of_value(st, x), 'std::cmp::Ord', 'cmp', [], [st.ref(x), st.ref(y)], st)


def M_iter_cmp(it, ctx, args, st):
    """Iterator::cmp: lexicographic; the shorter sequence is Less when it is a prefix"""
    I = ctx.self_ty
    a, b = as_iter2(it, st, args[0]), as_iter2(it, st, args[1])
    T = None

    def go(st, a, b):
        for s2, a2, x in it_next(it, st, a, ctx.fr):
            for s3, b2, y in it_next(it, s2, b, ctx.fr):
                if x is None and y is None:
                    yield s3, ordering(bv(0))
                elif x is None:
                    yield s3, ordering(bv(-1 & 0xffffffffffffffff))
                elif y is None:
                    yield s3, ordering(bv(1))
                else:
                    for s4, o in item_cmp(it, ctx, T, x, y, s3):
                        if is_abnormal(o):
                            yield s4, o
                            continue
                        for s5, eq in fork_bool(it, s4, o.discr == 0):
                            if eq:
                                yield from go(s5, a2, b2)
                            else:
                                yield s5, o
    yield from go(st, a, b)


def M_iter_eq(it, ctx, args, st):
    I = ctx.self_ty
    a, b = as_iter2(it, st, args[0]), as_iter2(it, st, args[1])
    T = None

    def go(st, a, b):
        for s2, a2, x in it_next(it, st, a, ctx.fr):
            for s3, b2, y in it_next(it, s2, b, ctx.fr):
                if x is None and y is None:
                    yield s3, z3.BoolVal(True)
                elif x is None or y is None:
                    yield s3, z3.BoolVal(False)
                else:
                    for s4, e in it.call_trait(ctx.fr, type_of_value(s3, x), 'std::cmp::PartialEq', 'eq', [], [s3.ref(x), s3.ref(y)], s3):
                        if is_abnormal(e):
                            yield s4, e
                            continue
                        for s5, same in fork_bool(it, s4, e):
                            if same:
                                yield from go(s5, a2, b2)
                            else:
                                yield s5, z3.BoolVal(False)
    yield from go(st, a, b)


def M_tuple_cmp(it, ctx, args, st):
    """<(A, B) as Ord>::cmp: lexicographic over the components' Ord"""
    T = strip_refs(ctx.self_ty)
    a, b = st.deref_all(args[0]), st.deref_all(args[1])

    def go(st, k):
        if k == len(T[2]):
            yield st, ordering(bv(0))
            return
        for s2, o in it.call_trait(ctx.fr, T[2][k], 'std::cmp::Ord', 'cmp', [], [st.ref(a.fields[k]), st.ref(b.fields[k])], st):
            if is_abnormal(o):
                yield s2, o
                continue
            for s3, eq in fork_bool(it, s2, o.discr == 0):
                if eq:
                    yield from go(s3, k + 1)
                else:
                    yield s3, o
    yield from go(st, 0)


def M_tuple_eq(it, ctx, args, st):
    T = strip_refs(ctx.self_ty)
    a, b = st.deref_all(args[0]), st.deref_all(args[1])

    def go(st, k):
        if k == len(T[2]):
            yield st, z3.BoolVal(True)
            return
        for s2, e in it.call_trait(ctx.fr, T[2][k], 'std::cmp::PartialEq', 'eq', [], [st.ref(a.fields[k]), st.ref(b.fields[k])], st):
            if is_abnormal(e):
                yield s2, e
                continue
            for s3, same in fork_bool(it, s2, e):
                if same:
                    yield from go(s3, k + 1)
                else:
                    yield s3, z3.BoolVal(False)
    yield from go(st, 0)


def M_tuple_hash(it, ctx, args, st):
    T = strip_refs(ctx.self_ty)
    a = st.deref_all(args[0])

    def go(st, k):
        if k == len(T[2]):
            yield st, UNIT
            return
        for s2, r in it.call_trait(ctx.fr, T[2][k], 'std::hash::Hash', 'hash', list(ctx.gargs), [st.ref(a.fields[k]), args[1]], st):
            if is_abnormal(r):
                yield s2, r
            else:
                yield from go(s2, k + 1)
    yield from go(st, 0)


def hrec(st, hasher, item):
    h = hasher
    while isinstance(st.deref(h), Ptr):
        h = st.deref(h)
    st.write(h, Agg('RecHasher', (st.deref(h).fields[0] + (item,),)))


def M_int_hash(it, ctx, args, st):
    v = st.deref_all(args[0])
    hrec(st, args[1], (ty_str(strip_refs(ctx.self_ty)), v))
    yield st, UNIT


def M_of_new(it, ctx, args, st):
    yield st, Agg('ordered_float::OrderedFloat', (args[0],))


def M_of_cmp(it, ctx, args, st):
    a, b = st.deref_all(args[0]).fields[0], st.deref_all(args[1]).fields[0]
    yield st, ordering(of_cmp(a, b))


def M_of_eq(it, ctx, args, st):
    a, b = st.deref_all(args[0]).fields[0], st.deref_all(args[1]).fields[0]
    yield st, of_eq(a, b)


def M_of_hash(it, ctx, args, st):
    a = st.deref_all(args[0]).fields[0]
    hrec(st, args[1], ('f64-canonical-bits', of_hash_bits(a)))
    yield st, UNIT


def M_ord_is(it, ctx, args, st):
    m = ctx.callee.segs[-1][0]
    d = args[0].discr
    yield st, {'is_ne': d != 0, 'is_eq': d == 0, 'is_lt': d == bv(-1 & 0xffffffffffffffff), 'is_gt': d == 1, 'is_le': d != 1, 'is_ge': d != bv(-1 & 0xffffffffffffffff)}[m]


def M_ref_forward(trait, method):
    def f(it, ctx, args, st):
        """impl Trait for &T forwards to T"""
        T = ctx.self_ty
        while T[0] == 'ref':
            T = T[2]
        a = [st.deref(x) if isinstance(x, Ptr) and isinstance(st.deref(x), Ptr) else x for x in args[:2]] + list(args[2:])
        if method == 'hash':
            a = [st.deref(args[0]) if isinstance(st.deref(args[0]), Ptr) else args[0], args[1]]
        yield from it.call_trait(ctx.fr, T, trait, method, list(ctx.gargs), a, st)
    return f


PS = models_std.P
MODELS = [
    (PS + r'collections::BTreeMap::<.*>::iter|' + PS + r'collections::btree_map::BTreeMap::<.*>::iter', M_map_iter),
    (r'<&' + PS + r'collections::BTreeMap<.*> as ' + PS + r'iter::IntoIterator>::into_iter', M_map_iter),
    (PS + r'collections::BTreeMap::<.*>::len', M_map_len),
    (models_std.ITER + r'zip::<.*>', M_zip), (models_std.ITER + r'cmp::<.*>', M_iter_cmp), (models_std.ITER + r'eq::<.*>', M_iter_eq),
    (r'<\(.*\) as ' + PS + r'cmp::Ord>::cmp', M_tuple_cmp), (r'<\(.*\) as ' + PS + r'cmp::PartialEq>::eq', M_tuple_eq), (r'<\(.*\) as ' + PS + r'hash::Hash>::hash(?:::<.*>)?', M_tuple_hash),
    (r'<&+(?!\().* as ' + PS + r'cmp::Ord>::cmp', M_ref_forward('std::cmp::Ord', 'cmp'), lambda it, ctx, args, st: strip_refs(ctx.self_ty)[0] == 'path' and strip_refs(ctx.self_ty)[1] not in models_std.INT_BITS),
    (r'<&+.* as ' + PS + r'hash::Hash>::hash(?:::<.*>)?', M_ref_forward('std::hash::Hash', 'hash')),
    (r'<(?:[iu](?:8|16|32|64|size)) as ' + PS + r'hash::Hash>::hash(?:::<.*>)?', M_int_hash),
    (r'<ordered_float::OrderedFloat<f64> as ' + PS + r'cmp::Ord>::cmp', M_of_cmp), (r'<ordered_float::OrderedFloat<f64> as ' + PS + r'cmp::PartialEq>::eq', M_of_eq),
    (r'<ordered_float::OrderedFloat<f64> as ' + PS + r'hash::Hash>::hash(?:::<.*>)?', M_of_hash),
    (PS + r'cmp::Ordering::(is_ne|is_eq|is_lt|is_gt|is_le|is_ge)', M_ord_is),
]


def law_violations(r):
    """python reference on the native results"""
    bad = []
    if r['aa'] != 0 or not r['eq_aa']:
        bad.append('reflexivity')
    if r['ab'] != -r['ba']:
        bad.append('antisymmetry')
    if r['eq_ab'] != (r['ab'] == 0) or r['eq_ab'] != r['eq_ba']:
        bad.append('eq <=> cmp == Equal')
    if r['ab'] <= 0 and r['bc'] <= 0 and r['ac'] > 0:
        bad.append('transitivity')
    if r['ab'] == 0 and r['bc'] != r['ac']:
        bad.append('cmp == Equal is not a congruence')
    if r['eq_ab'] and not r['hash_same']:
        bad.append('equal values hash differently')
    return bad


def run_maps(rep, tier):
    prog = program(['conjure_object'])
    fns = {}
    for m in ('cmp', 'eq', 'hash'):
        c = [k for k in find_fns(prog, m, inpath='conjure_object::private::<impl at') if 'BTreeMap<K, V>' in prog.fns[k].header]
        if len(c) != 1:
            raise Inconclusive(f'C14 harness: DoubleOps for BTreeMap::{m} not unique: {c}')
        fns[m] = c[0]
    rep.bounds['M-maps'] = f'BTreeMap<i32, f64> with 0..{NMAX} entries each (every combination of lengths), keys strictly increasing over the full i32 range, values full-width doubles; triples for transitivity'
    tenv = {'K': P('i32'), 'V': P('f64'), 'H': P('RecHasher')}
    jobs = list(itertools.product(range(NMAX + 1), repeat=3))

    def worker(sub, lens):
        it = Interp(prog, MODELS + models_serde.MODELS + models_std.MODELS, dict(models_serde.TMODELS), unwind=NMAX + 4)
        it.assoc_types[('std::iter::Map', 'Iterator', 'Item')] = None
        dec = Decider(sub, it)
        st = St()
        a, b, c = (SymMap(st, t, n) for t, n in zip('abc', lens))
        tag = 'maps:len=' + ''.join(map(str, lens))

        def call(m, x, y, s):
            for s2, r in it.run(fns[m], [s.ref(x.value), s.ref(y.value)], s, tenv):
                sub.states += 1
                if is_abnormal(r):
                    sub.inconc(f'C14 {tag}: {m}: {r!r}')
                    continue
                yield s2, r

        def hashed(x, s):
            hp = s.ref(Agg('RecHasher', ((),)))
            for s2, r in it.run(fns['hash'], [s.ref(x.value), hp], s, tenv):
                sub.states += 1
                if is_abnormal(r):
                    sub.inconc(f'C14 {tag}: hash: {r!r}')
                    continue
                yield s2, s2.deref(hp).fields[0]

        def report(m, what):
            from mirsym.harness import replay
            op = {'op': 'double_map_laws', 'a': a.concrete(m), 'b': b.concrete(m), 'c': c.concrete(m)}
            r, r2 = replay([op])[0], replay([op], 'release')[0]
            sub.replayed += 1
            bad = law_violations(r)
            if bad and r == r2:
                sub.violation(f'C14:maps:{bad[0]}', f'DoubleOps for BTreeMap<i32, f64>: {bad} for a={op["a"]} b={op["b"]} c={op["c"]} (f64 bit patterns); native {r}', {'op': op, 'native': r})
            else:
                sub.inconc(f'model mismatch C14 maps: {what} for {op} does not reproduce natively: {r}')
        # pair laws on (a, b): evaluated once per length pair (c empty)
        if lens[2] == 0:
            for s1, ab in call('cmp', a, b, st.fork()):
                for s2, ba in call('cmp', b, a, s1):
                    for s3, eab in call('eq', a, b, s2):
                        for s4, eba in call('eq', b, a, s3):
                            bad = z3.Or(ab.discr != -ba.discr, eab != (ab.discr == 0), eab != eba)
                            m = dec.decide(f'{tag}:antisymmetric & eq<=>cmp==Equal & eq symmetric', s4, bad)
                            if m is not None:
                                report(m, 'Eq/Ord consistency')
                            for s5, ha in hashed(a, s4):
                                for s6, hb in hashed(b, s5):
                                    same = z3.BoolVal(len(ha) == len(hb))
                                    if len(ha) == len(hb):
                                        same = z3.And(*[z3.And(z3.BoolVal(x[0] == y[0]), val_eq(x[1], y[1])) for x, y in zip(ha, hb)]) if ha else z3.BoolVal(True)
                                    m = dec.decide(f'{tag}:equal=>same-hash-stream', s6, z3.And(eab, z3.Not(same)))
                                    if m is not None:
                                        report(m, 'equal values hash differently')
            if lens[1] == 0:
                for s1, aa in call('cmp', a, a, st.fork()):
                    for s2, ea in call('eq', a, a, s1):
                        m = dec.decide(f'{tag}:reflexive', s2, z3.Or(aa.discr != 0, z3.Not(ea)))
                        if m is not None:
                            report(m, 'reflexivity')
        # transitivity on (a, b, c)
        for s1, ab in call('cmp', a, b, st.fork()):
            for s2, bc in call('cmp', b, c, s1):
                for s3, ac in call('cmp', a, c, s2):
                    le = lambda o: o.discr != 1
                    m = dec.decide(f'{tag}:transitive', s3, z3.And(le(ab), le(bc), z3.Not(le(ac))))
                    if m is not None:
                        report(m, 'transitivity')
                    m = dec.decide(f'{tag}:equal-is-transitive-and-a-congruence', s3, z3.And(ab.discr == 0, z3.Not(bc.discr == ac.discr)))
                    if m is not None:
                        report(m, 'cmp == Equal is not a congruence')
        finish_engine(sub, it)
    run_parallel(rep, jobs, worker)
    rep.assumptions += ['ordered_float::OrderedFloat<f64>: Eq/Ord/Hash by its documented contract (NaN == NaN and greatest, -0 == +0, canonical hash bits) in the map half; the compiled type is what the Kani half executes',
                        'std: BTreeMap iterates in key order; Iterator::{cmp, eq, zip, find, all}, tuple Ord/Eq/Hash, Ordering helpers by contract']
