"""C19 — undecodable request parameters yield a client error naming the declared argument (real #[conjure_endpoints]
expansion + real helper / decoder MIR, symbolic multiplicities and bytes of every parameter source)."""
import json
import z3
from mirsym.interp import St
from mirsym.models_std import parse_int_model
from mirsym.values import Agg, Enum, Ptr, BStr, Panic, Unwind, bv, bstr, bstr_eq, is_abnormal
from mirsym.harness import Decider, finish_engine, replay, model_bytes, in_class
from mirsym.models_http import visible_ascii
from checks import endpoints as ep
from checks.c16 import bearer_oracle

L = 3


def text_ok(p):
    return visible_ascii(p.vals[0])


def token_after(p, prefix):
    """Bool: header value 0 of p is `prefix` + a valid bearer token (bounded); also returns the token slice"""
    s = p.vals[0]
    n = len(prefix)
    has = z3.And(z3.UGE(s.len, n), *[s.bytes[i] == prefix[i] for i in range(min(n, len(s.bytes)))])
    if n > len(s.bytes):
        return z3.BoolVal(False), None
    tok = BStr(tuple(s.bytes[n:]), s.len - n)
    return z3.And(has, bearer_oracle(tok)) if tok.bytes else z3.BoolVal(False), tok


ENDPOINTS = {
    'e1': dict(struct='__E1Endpoint', args=[('path', 'pathWire', 'pathLog', 'i32', 'req'), ('query', 'queryWire', 'queryLog', 'String', 'req'),
                                            ('header', 'x-foo', 'headerLog', 'i32', 'req'), ('auth', 'authorization', None, 'Bearer ', None)]),
    'e2': dict(struct='__E2Endpoint', args=[('path', 'p', 'unsafePathLog', 'String', 'req'), ('query', 'optWire', 'optLog', 'i32', 'opt'),
                                            ('header', 'x-bar', 'barLog', 'String', 'opt'), ('auth', 'cookie', None, 'TOKEN=', None)]),
}


def corrupted(kind, ty, mode, p):
    """reference: is this argument undecodable?  (written from the statement; parse = decimal i32 text)"""
    if kind == 'auth':
        ok, _ = token_after(p, ty.encode())
        return z3.Or(p.n == 0, z3.Not(text_ok(p)), z3.Not(ok))
    v = p.vals[0]
    val = ep.percent_decode(v) if kind == 'path' else v        # query values are taken from the parsed (already decoded) query map
    parse_bad = z3.BoolVal(False)
    if ty == 'i32':
        okp, _ = parse_int_model(val, 32, True)
        parse_bad = z3.Not(okp)
    text_bad = z3.Not(text_ok(p)) if kind == 'header' else z3.BoolVal(False)
    if kind == 'path':
        return parse_bad
    if mode == 'req':
        return z3.Or(p.n != 1, text_bad, parse_bad)
    return z3.Or(z3.UGT(p.n, 1), z3.And(p.n == 1, z3.Or(text_bad, parse_bad)))


def run(rep, tier):
    global L
    L = 3 if tier == 'quick' else 5            # thorough: values of <= 5 bytes
    prog = ep.endpoints_program()
    rep.bounds['requests'] = f'per endpoint: every path/query/header/auth source has 0..2 values of <= {L} symbolic bytes (headers: all 256 byte values; path/query: ASCII); two endpoints (required + optional decoders, header and cookie auth); Rust identifiers differ from log_as and wire names'
    for ename, e in ENDPOINTS.items():
        with rep.part('endpoint ' + ename):
            it = ep.make_interp(prog)
            dec = Decider(rep, it)
            st = St()
            spec = {'path': {}, 'query': {}, 'header': {}}
            params = []
            for kind, wire, log, ty, mode in e['args']:
                if kind == 'auth':
                    Lh = len(ty) + 2
                    p = ep.Param(st, ename + '_' + wire.replace('-', ''), Lh, maxn=1, allow_nontext=True)
                    spec['header'][wire] = p
                elif kind == 'header':
                    p = ep.Param(st, ename + '_' + wire.replace('-', ''), L, allow_nontext=True)
                    spec['header'][wire] = p
                elif kind == 'path':
                    p = ep.Param(st, ename + '_' + wire, L, maxn=1, forbid=(0x2f,))
                    st.pc.append(p.n == 1)
                    spec['path'][wire] = p
                else:
                    p = ep.Param(st, ename + '_' + wire, L)
                    spec['query'][wire] = p
                params.append(p)
            endpoint, req, ext, log = ep.build_request(it, st, spec, L)
            fn = ep.handle_fn(prog, e['struct'])
            bad_of = [corrupted(kind, ty, mode, p) for (kind, wire, lg, ty, mode), p in zip(e['args'], params)]
            np_, seen = 0, {'ok': 0, 'err': 0}
            for s2, rv in it.run(fn, [endpoint, req, ext], st, ep.TENV):
                np_ += 1
                rep.states += 1
                tag = f'{ename}:path{np_}'
                if isinstance(rv, Unwind):
                    rep.inconc(f'C19 {tag}: unwind {rv.where}')
                    continue
                if isinstance(rv, Panic):
                    m = dec.decide(tag + ':panic', s2, z3.BoolVal(True))
                    if m is not None:
                        report(rep, ename, e, params, m, f'panic: {rv.msg}')
                    continue
                calls = s2.deref(log)
                is_ok = it.variant_of(rv, 'Ok')
                errp = it.payload(rv, 'Err')
                any_bad = z3.Or(*bad_of)
                conds = [z3.And(is_ok, any_bad), z3.And(z3.Not(is_ok), z3.Not(any_bad))]
                if errp is not None:
                    err = errp.fields[0]
                    pname = dict(err.fields[4]).get('param')
                    code = err.fields[3].name.split('::')[-1] if err.fields[3] is not None else err.fields[0]
                    if calls:
                        conds.append(z3.Not(is_ok))                     # handler invoked although an error is returned
                    # the first corrupted argument decides code and param
                    first = []
                    for i, ((kind, wire, lg, ty, mode), b) in enumerate(zip(e['args'], bad_of)):
                        first.append(z3.And(b, *[z3.Not(x) for x in bad_of[:i]]))
                    for (kind, wire, lg, ty, mode), f in zip(e['args'], first):
                        if kind == 'auth':
                            wrong = not (code == 'PermissionDenied')
                        else:
                            wrong = not (code == 'InvalidArgument' and isinstance(pname, BStr) and (model_static(pname) == lg))
                        if wrong:
                            conds.append(z3.And(z3.Not(is_ok), f))
                else:
                    if len(calls) != 1:
                        conds.append(is_ok)
                    else:
                        # when every argument decodes the handler receives exactly the decoded values (query values arrive already
                        # decoded from the parsed query map and must not be altered again; path values are percent-decoded once)
                        for ((kind, wire, lg, ty, mode), p, got) in zip(e['args'], params, calls[0][1]):
                            if kind == 'auth':
                                continue
                            raw = p.vals[0]
                            exp_text = ep.percent_decode(raw) if kind == 'path' else raw
                            if ty == 'i32':
                                _, exp_val = parse_int_model(exp_text, 32, True)
                                eq = lambda g: g == exp_val
                            else:
                                eq = lambda g: bstr_eq(s2.deref_all(g) if isinstance(g, Ptr) else g, exp_text)
                            if mode == 'opt':
                                gp = it.payload(got, 'Some')
                                c = z3.And(p.n == 1, z3.Or(got.discr != 1, z3.Not(eq(gp.fields[0])) if gp is not None else z3.BoolVal(True)))
                                c = z3.Or(c, z3.And(p.n == 0, got.discr != 0))
                            else:
                                c = z3.Not(eq(got))
                            conds.append(z3.And(is_ok, c))
                m = dec.decide(tag + ':error-names-first-undecodable-declared-argument', s2, z3.Or(*conds), values_bytes=L)
                if m is not None:
                    report(rep, ename, e, params, m, 'outcome differs: code / `param` / handler invocation')
                    continue
                seen['ok'] += int(it.feasible(s2, is_ok))
                seen['err'] += int(it.feasible(s2, z3.Not(is_ok)))
            if not seen['ok'] or not seen['err']:
                rep.inconc(f'vacuity: C19 {ename} ok={seen["ok"]} err={seen["err"]}')
            finish_engine(rep, it)
    # reachability twins replayed natively
    ops = [{'op': 'endpoint', 'endpoint': 'e1', 'path': {'pathWire': '37'}, 'query': [['queryWire', '61']], 'headers': [['x-foo', '35'], ['authorization', '42656172657220616263']]},
           {'op': 'endpoint', 'endpoint': 'e1', 'path': {'pathWire': '37'}, 'query': [], 'headers': [['x-foo', '35'], ['authorization', '42656172657220616263']]},
           {'op': 'endpoint', 'endpoint': 'e2', 'path': {'p': '61'}, 'query': [['optWire', '78']], 'headers': [['cookie', '544f4b454e3d616263']]}]
    res = replay(ops)
    rep.replayed += 3
    want = [('ok', None), ('InvalidArgument', 'queryLog'), ('InvalidArgument', 'optLog')]
    for o, r, w in zip(ops, res, want):
        got = ('ok', None) if r.get('ok') else (r.get('code'), r.get('param'))
        if got != w:
            rep.violation('C19:native-twin', f'endpoint {o["endpoint"]} native result {r} differs from {w}', {'op': o, 'native': r})
    rep.assumptions += ['http: HeaderMap::get/get_all, HeaderValue::to_str (visible ASCII), Extensions typed map; percent_decode by contract; path parameters are single segments (no "/")',
                        'parse_query_params is replaced by an already-parsed query map (form_urlencoded is third party); conjure_error::Error is a record at the boundary',
                        'i32 text = exact decimal parser model; String parsing is infallible']
    rep.outside += ['body arguments (C06), context arguments; generator-emitted server traits (only the macro expansion is executed here)', f'values longer than {L} bytes, more than 2 repeated values']


def model_static(b):
    from mirsym.values import bstr_py
    x = bstr_py(b)
    return x.decode() if x is not None else None


def concrete_request(e, params, m):
    op = {'path': {}, 'query': [], 'headers': []}
    for (kind, wire, lg, ty, mode), p in zip(e['args'], params):
        n = m.eval(p.n, True).as_long()
        vals = [bytes(m.eval(b, True).as_long() for b in v.bytes[:m.eval(v.len, True).as_long()]) for v in p.vals[:n]]
        if kind == 'path':
            op['path'][wire] = vals[0].hex()
        elif kind == 'query':
            # on the wire every byte is percent-encoded, so that the server's form_urlencoded pass yields exactly these bytes
            op['query'] += [[wire, ''.join('%%%02X' % c for c in v).encode().hex(), v.hex()] for v in vals]
        else:
            op['headers'] += [[wire, v.hex()] for v in vals]
    return op


def py_expect(e, op):
    """python reference of the statement on a concrete request -> ('ok',) | (code, param)"""
    import re
    from urllib.parse import unquote_to_bytes
    def i32ok(b):
        try:
            t = b.decode()
        except Exception:
            return False
        return re.fullmatch(r'[+-]?\d+', t) is not None and -2**31 <= int(t) <= 2**31 - 1
    def text(b):
        return all(32 <= c < 127 or c == 9 for c in b)
    for kind, wire, lg, ty, mode in e['args']:
        if kind == 'path':
            v = unquote_to_bytes(bytes.fromhex(op['path'][wire]))
            if ty == 'i32' and not i32ok(v):
                return ('InvalidArgument', lg)
            continue
        if kind == 'query':
            vals = [bytes.fromhex(q[2]) if len(q) > 2 else unquote_to_bytes(bytes.fromhex(q[1])) for q in op['query'] if q[0] == wire]
        else:
            vals = [bytes.fromhex(v) for k, v in op['headers'] if k == wire]
        if kind == 'auth':
            if len(vals) != 1 or not text(vals[0]) or not vals[0].startswith(ty.encode()) or not re.fullmatch(rb'[A-Za-z0-9\-._~+/]+=*', vals[0][len(ty):]):
                return ('PermissionDenied', None)
            continue
        if mode == 'req' and len(vals) != 1:
            return ('InvalidArgument', lg)
        if len(vals) > 1:
            return ('InvalidArgument', lg)
        for v in vals:
            if kind == 'header' and not text(v):
                return ('InvalidArgument', lg)
            if ty == 'i32' and not i32ok(v):
                return ('InvalidArgument', lg)
    return ('ok', None)


def py_expected_call(e, op, ename):
    """the handler invocation the statement prescribes for a fully decodable request (format of the replay binary)"""
    from urllib.parse import unquote_to_bytes
    out = []
    for kind, wire, lg, ty, mode in e['args']:
        if kind == 'path':
            vals = [unquote_to_bytes(bytes.fromhex(op['path'][wire]))]
        elif kind == 'query':
            vals = [bytes.fromhex(q[2]) if len(q) > 2 else unquote_to_bytes(bytes.fromhex(q[1])) for q in op['query'] if q[0] == wire]
        else:
            vals = [bytes.fromhex(v) for k, v in op['headers'] if k == wire]
        def show(b):
            return str(int(b.decode())) if ty == 'i32' else json.dumps(b.decode('latin1'))
        if kind == 'auth':
            out.append(vals[0][len(ty):].decode())
        elif mode == 'opt':
            out.append('Some(%s)' % show(vals[0]) if vals else 'None')
        else:
            out.append(show(vals[0]))
    return f'{ename}({",".join(out)})'


def report(rep, ename, e, params, m, what):
    op = concrete_request(e, params, m)
    op.update({'op': 'endpoint', 'endpoint': ename})
    r, r2 = replay([op])[0], replay([op], 'release')[0]
    rep.replayed += 1
    want = py_expect(e, op)
    got = ('ok', None) if r.get('ok') else (('PANIC', None) if r.get('panic') else (r.get('code'), r.get('param')))
    if want[0] != 'ok' and r.get('handler_calls', 0) != 0:
        got = ('handler-invoked',) + got
    if want[0] == 'ok' and got[0] == 'ok':
        exp_call = py_expected_call(e, op, ename)
        if r.get('calls') != [exp_call]:
            got, want = ('ok', r.get('calls')), ('ok', [exp_call])
    if got != want and r == r2:
        kind = 'header-param-name' if (want[0] == 'InvalidArgument' and got[0] == 'InvalidArgument' and any(a[0] == 'header' and a[2] == want[1] for a in e['args'])) else 'other'
        rep.violation(f'C19:{kind}', f'endpoint {ename} request {op}: {what}; native {got}, statement {want}', {'op': op, 'native': r, 'expected': list(want)})
    else:
        rep.inconc(f'model mismatch C19 {ename}: {op} ({what}) does not reproduce natively: {got} vs {want}')


def replay_cmd(path):
    w = json.load(open(path))
    print(json.dumps(replay([w['witness']['op']])[0], indent=1))
    return 0
