"""C05 — servers reject and clients ignore unknown object fields at every nesting depth.
The whole wrapper chain of conjure-serde (Override, UnknownFieldsBehavior, StructVisitor, StructMapAccess, KeyDeserializeSeed,
WrappingDeserializer + its fn-local Delegator types, KeyWrapper/KeyVisitor, ValueDeserializeSeed, DelegatingDeserializer,
DelegatingVisitor, ValueDeserializer) is executed from MIR between an event-playing inner deserializer and a derive-like client."""
import json
import z3
from mirsym.dump import program
from mirsym.interp import Interp, St
from mirsym import models_std, models_serde
from mirsym.models_std import fork_bool, chain_ok, sval
from mirsym.models_serde import de_err
from mirsym.values import Agg, Enum, Ptr, Seq, BStr, UNIT, Panic, Unwind, bv, bstr, bstr_py, bstr_eq, is_abnormal
from mirsym.harness import Decider, finish_engine, replay, find_fn, find_fns
from mirsym.parse import Unsupported
from vlib.common import Inconclusive

P = lambda name, *a: ('path', name, tuple(a))


class Doc:
    """an object document: n <= NMAX members; member i has key ksel[i] from KEYS (declared fields + the undeclared 'u'),
    the value under a declared key is an i32, under 'u' anything (ignored)"""

    def __init__(self, st, keys, nmax, tag='d'):
        self.keys, self.nmax = keys, nmax
        self.n = z3.BitVec(tag + '_n', 64)
        st.pc.append(z3.ULE(self.n, nmax))
        self.ksel = [z3.BitVec(f'{tag}_k{i}', 8) for i in range(nmax)]
        st.pc += [z3.ULT(k, len(keys)) for k in self.ksel]
        self.vals = [z3.BitVec(f'{tag}_v{i}', 32) for i in range(nmax)]
        # how the format hands each key over: 0 transient (&str copied from a scratch buffer: escaped JSON keys, readers),
        # 1 borrowed from the input (plain keys of from_str / from_slice), 2 owned String
        self.kmode = [z3.BitVec(f'{tag}_m{i}', 2) for i in range(nmax)]
        st.pc += [z3.ULT(k, 3) for k in self.kmode]

    def concrete(self, m):
        n = m.eval(self.n, True).as_long()
        return [(self.keys[m.eval(self.ksel[i], True).as_long()], m.eval(self.vals[i], True).as_signed_long()) for i in range(n)]

    def modes(self, m):
        n = m.eval(self.n, True).as_long()
        return [m.eval(self.kmode[i], True).as_long() for i in range(n)]


def harness_models(doc, fields):
    """event player for the inner serde_json / serde_smile deserializer + a derive-like visitor for struct S { <fields>: i32 }"""
    def pos_of(st, mp):
        dm = st.deref_all(mp)
        return dm.fields[0]

    def T_doc_deserialize_struct(it, ctx, args, st):
        de, name, flds, visitor = args
        V = ctx.gargs[0]
        cell = st.ref(0)
        yield from it.call_trait(ctx.fr, V, 'serde::de::Visitor', 'visit_map', [P('DocMap')], [visitor, Agg('DocMap', (cell,))], st)

    def T_docmap_next_key_seed(it, ctx, args, st):
        cell = pos_of(st, args[0])
        pos = st.deref(cell)
        S, seed = ctx.gargs[0], args[1]
        if pos >= doc.nmax:
            yield st, it.ok(it.none)
            return
        for s2, more in fork_bool(it, st, z3.UGT(doc.n, bv(pos))):
            if not more:
                yield s2, it.ok(it.none)
                continue
            for s3, ki in it.fork_on(s2, [doc.ksel[pos] == i for i in range(len(doc.keys))]):
                k = doc.keys[ki]
                yield from chain_ok(it, it.call_trait(ctx.fr, S, 'serde::de::DeserializeSeed', 'deserialize', [P('KeyDe')], [seed, Agg('KeyDe', (k, pos))], s3),
                                    lambda s, v: iter([(s, it.ok(it.some(v)))]))

    def T_docmap_next_value_seed(it, ctx, args, st):
        cell = pos_of(st, args[0])
        pos = st.deref(cell)
        st.write(cell, pos + 1)
        S, seed = ctx.gargs[0], args[1]
        yield from it.call_trait(ctx.fr, S, 'serde::de::DeserializeSeed', 'deserialize', [P('ValDe')], [seed, Agg('ValDe', (pos,))], st)

    def T_keyde_identifier(it, ctx, args, st):
        de, visitor = args
        pos = de.fields[1]
        for s2, mode in it.fork_on(st, [doc.kmode[pos] == i for i in range(3)]):
            meth = ('visit_str', 'visit_borrowed_str', 'visit_string')[mode]
            arg = bstr(de.fields[0]) if mode == 2 else s2.ref(bstr(de.fields[0]))
            yield from it.call_trait(ctx.fr, ctx.gargs[0], 'serde::de::Visitor', meth, [P('DeError')], [visitor, arg], s2)

    def T_valde_i32(it, ctx, args, st):
        de, visitor = args
        yield from it.call_trait(ctx.fr, ctx.gargs[0], 'serde::de::Visitor', 'visit_i32', [P('DeError')], [visitor, doc.vals[de.fields[0]]], st)

    def T_valde_ignored(it, ctx, args, st):
        de, visitor = args
        yield from it.call_trait(ctx.fr, ctx.gargs[0], 'serde::de::Visitor', 'visit_unit', [P('DeError')], [visitor], st)

    # ---- the client type: what serde-derive generates for `struct S { a: i32, .. }` without deny_unknown_fields
    def T_cvis_visit_map(it, ctx, args, st):
        A = ctx.gargs[0]
        mp = st.ref(args[1])

        def step(st, acc, depth):
            if depth > doc.nmax:
                yield st, it.ok(Agg('S', tuple(acc)))
                return

            def on_key(s, kopt):
                for s2, i, p in it.enum_cases(kopt, s):
                    if i == 0:
                        yield s2, it.ok(Agg('S', tuple(acc)))
                        continue
                    field = p.fields[0]
                    if field.fields[0] in fields:
                        yield from chain_ok(it, it.call_trait(ctx.fr, A, 'serde::de::MapAccess', 'next_value_seed', [P('CI32Seed')], [mp, Agg('CI32Seed', ())], s2),
                                            lambda s3, v: step(s3, acc + [(field.fields[0], v)], depth + 1))
                    else:
                        yield from chain_ok(it, it.call_trait(ctx.fr, A, 'serde::de::MapAccess', 'next_value_seed', [P('CIgnSeed')], [mp, Agg('CIgnSeed', ())], s2),
                                            lambda s3, v: step(s3, acc, depth + 1))
            yield from chain_ok(it, it.call_trait(ctx.fr, A, 'serde::de::MapAccess', 'next_key_seed', [P('CKeySeed')], [mp, Agg('CKeySeed', ())], st), on_key)
        yield from step(st, [], 0)

    def T_ckeyseed(it, ctx, args, st):
        yield from it.call_trait(ctx.fr, ctx.gargs[0], 'serde::Deserializer', 'deserialize_identifier', [P('CFieldVis')], [args[1], Agg('CFieldVis', ())], st)

    def T_cfieldvis_visit_str(it, ctx, args, st):
        s = bstr_py(sval(st, args[1])).decode()
        yield st, it.ok(Agg('Field', (s if s in fields else '__ignore',)))

    def T_ci32seed(it, ctx, args, st):
        yield from it.call_trait(ctx.fr, ctx.gargs[0], 'serde::Deserializer', 'deserialize_i32', [P('CI32Vis')], [args[1], Agg('CI32Vis', ())], st)

    def T_ci32vis_visit_i32(it, ctx, args, st):
        yield st, it.ok(args[1])

    def T_cignseed(it, ctx, args, st):
        yield from it.call_trait(ctx.fr, ctx.gargs[0], 'serde::Deserializer', 'deserialize_ignored_any', [P('CIgnVis')], [args[1], Agg('CIgnVis', ())], st)

    def T_cignvis_visit_unit(it, ctx, args, st):
        yield st, it.ok(UNIT)

    tm = {
        ('DocMap', 'MapAccess', 'next_key_seed'): T_docmap_next_key_seed,
        ('DocMap', 'MapAccess', 'next_value_seed'): T_docmap_next_value_seed,
        ('KeyDe', 'Deserializer', 'deserialize_identifier'): T_keyde_identifier,
        ('KeyDe', 'Deserializer', 'deserialize_str'): T_keyde_identifier,
        ('KeyDe', 'Deserializer', 'deserialize_string'): T_keyde_identifier,
        ('KeyDe', 'Deserializer', 'deserialize_any'): T_keyde_identifier,
        ('ValDe', 'Deserializer', 'deserialize_i32'): T_valde_i32,
        ('ValDe', 'Deserializer', 'deserialize_ignored_any'): T_valde_ignored,
        ('CVis', 'Visitor', 'visit_map'): T_cvis_visit_map,
        ('CKeySeed', 'DeserializeSeed', 'deserialize'): T_ckeyseed,
        ('CFieldVis', 'Visitor', 'visit_str'): T_cfieldvis_visit_str,
        ('CFieldVis', 'Visitor', 'visit_string'): T_cfieldvis_visit_str,
        ('CFieldVis', 'Visitor', 'visit_borrowed_str'): T_cfieldvis_visit_str,
        ('CI32Seed', 'DeserializeSeed', 'deserialize'): T_ci32seed,
        ('CI32Vis', 'Visitor', 'visit_i32'): T_ci32vis_visit_i32,
        ('CIgnSeed', 'DeserializeSeed', 'deserialize'): T_cignseed,
        ('CIgnVis', 'Visitor', 'visit_unit'): T_cignvis_visit_unit,
    }
    for inner in ('serde_json::Deserializer', 'serde_smile::Deserializer', 'serde_smile::de::Deserializer'):
        tm[(inner, 'Deserializer', 'deserialize_struct')] = T_doc_deserialize_struct
    return tm


def M_unknown_field(it, ctx, args, st):
    yield st, de_err('unknown_field', sval(st, args[0]))


def M_cow_deref(it, ctx, args, st):
    c = st.deref(args[0])
    if isinstance(c, Enum):
        yield st, it.payload(c, c.decl.variants[c.payloads[0][0]][0]).fields[0] if len(c.payloads) == 1 else args[0]
    else:
        yield st, args[0]


def M_cow_variant(it, ctx, args, st):
    yield st, args[0]


MODELS = [
    (r'<.* as (?:[\w:]+::)?de::Error>::unknown_field', M_unknown_field),
    (r'<std::borrow::Cow<str> as std::ops::Deref>::deref', M_cow_deref),
]


def run(rep, tier):
    prog = program(['conjure_serde'])
    NMAX = 2 if tier == 'quick' else 3
    rep.bounds['documents'] = f'object documents of <= {NMAX} members, keys from the declared fields plus one undeclared key in every position and order, each key handed over as a transient, borrowed or owned string (symbolic per member); declared field sets: none, one, two; JSON and Smile server and client entry points'
    # nesting depth: every entry point of de::Override hands the same wrapper on (one inductive step each), so the behaviour decided
    # below for one object level is the behaviour at every depth through optionals, sequences, maps, newtypes and enum variants
    from checks import c01w
    with rep.part('wrapper discipline (de)'):
        c01w.run_de(rep, prog)
    with rep.part('wrapper twins'):
        c01w.twins(rep)
    # generated unions: payloads of listed variants are decoded straight from the (wrapped) map access in both member orders
    from checks import c02, gentypes
    with rep.part('generated union payloads'):
        c02.run_union(rep, gentypes.types_program(), 'C05')
    with rep.part('generated union twins'):
        for fail in c02.battery_union_wrapped():
            rep.violation('C05:native-twin:union', f'native twin: {fail}', {'native': fail})
        rep.replayed += 2
    entries = []
    for fmt in ('json', 'smile'):
        for side in ('server', 'client'):
            c = [k for k in find_fns(prog, 'deserialize_struct', inpath=f'conjure_serde::{fmt}::de::{side}::<impl at') if True]
            if len(c) != 1:
                raise Inconclusive(f'C05 harness: deserialize_struct of {fmt} {side} not unique: {c}')
            entries.append((fmt, side, c[0]))
    for fields in ((), ('a',), ('a', 'b')):
        keys = list(fields) + ['u']
        for fmt, side, fn in entries:
            st = St()
            doc = Doc(st, keys, NMAX)
            tm = dict(models_serde.TMODELS)
            tm.update(harness_models(doc, fields))
            it = Interp(prog, MODELS + models_serde.MODELS + models_std.MODELS, tm, unwind=NMAX + 6)
            dec = Decider(rep, it)
            inner = Agg('serde::Deserializer', (Agg('DocCursor', ()),))
            wrapper = 'ServerDeserializer' if side == 'server' else 'ClientDeserializer'
            de = st.ref(Agg(f'conjure_serde::{fmt}::de::{side}::{wrapper}', (inner,)))
            name = st.ref(bstr('S'))
            flds = st.ref(Seq(tuple(st.ref(bstr(f)) for f in fields)))
            tenv = {'R': P('Rm'), 'V': P('CVis')}
            has_u = z3.Or(*[z3.And(z3.UGT(doc.n, i), doc.ksel[i] == len(keys) - 1) for i in range(NMAX)])
            np_, seen = 0, {'ok': 0, 'err': 0}
            for s2, rv in it.run(fn, [de, name, flds, Agg('CVis', ())], st, tenv):
                np_ += 1
                rep.states += 1
                tag = f'{fmt}:{side}:fields{len(fields)}:path{np_}'
                if isinstance(rv, Unwind):
                    rep.inconc(f'C05 {tag}: unwind {rv.where}')
                    continue
                if isinstance(rv, Panic):
                    m = dec.decide(tag + ':panic', s2, z3.BoolVal(True))
                    if m is not None:
                        report(rep, fmt, side, fields, doc, m, f'panic: {rv.msg}')
                    continue
                is_ok = it.variant_of(rv, 'Ok')
                okp, errp = it.payload(rv, 'Ok'), it.payload(rv, 'Err')
                conds = []
                if side == 'server':
                    conds.append(is_ok == has_u)                       # Ok exactly when no undeclared key occurs
                    if errp is not None:
                        e = errp.fields[0]
                        named = isinstance(e, Agg) and e.name == 'DeError' and e.fields[0] == 'unknown_field' and bstr_py(e.fields[1]) == b'u'
                        if not named:
                            conds.append(z3.And(z3.Not(is_ok), has_u))   # the error must name the injected field
                else:
                    conds.append(z3.Not(is_ok))                       # clients always accept
                if okp is not None:
                    # the value is exactly the declared members, in order, with their values
                    got = okp.fields[0].fields
                    exp_n = sum([z3.If(z3.And(z3.UGT(doc.n, i), doc.ksel[i] != len(keys) - 1), 1, 0) for i in range(NMAX)])
                    conds.append(z3.And(is_ok, exp_n != len(got)))
                    j = 0
                    # members are delivered in document order: compare the k-th delivered member with the k-th declared member of the document
                    for k, (fname, val) in enumerate(got):
                        alts = []
                        for i in range(NMAX):
                            before = sum([z3.If(doc.ksel[x] != len(keys) - 1, 1, 0) for x in range(i)]) if i else 0
                            alts.append(z3.And(z3.UGT(doc.n, i), doc.ksel[i] != len(keys) - 1, before == k, doc.ksel[i] == keys.index(fname), val == doc.vals[i]))
                        conds.append(z3.And(is_ok, z3.Not(z3.Or(*alts))))
                m = dec.decide(tag + (':rejects-iff-undeclared-key-and-names-it' if side == 'server' else ':accepts-and-drops-only-the-undeclared-key'), s2, z3.Or(*conds), members=NMAX)
                if m is not None:
                    report(rep, fmt, side, fields, doc, m, 'outcome differs from the statement')
                    continue
                seen['ok'] += int(it.feasible(s2, is_ok))
                seen['err'] += int(it.feasible(s2, z3.Not(is_ok)))
            if not seen['ok'] or (side == 'server' and not seen['err']):
                rep.inconc(f'vacuity: C05 {fmt} {side} fields={fields}: ok={seen["ok"]} err={seen["err"]}')
            finish_engine(rep, it)
    # reachability twins, natively
    ops = [{'op': 'unknown_fields', 'doc': '{"a":1,"u":{"x":[1,2]}}', 'fields': 1}, {'op': 'unknown_fields', 'doc': '{"u":null}', 'fields': 0},
           {'op': 'unknown_fields', 'doc': '{"a":1}', 'fields': 1}]
    res = replay(ops)
    rep.replayed += 3
    want = [('err:u', 'ok'), ('err:u', 'ok'), ('ok', 'ok')]
    for o, r, w in zip(ops, res, want):
        for fmt in ('json', 'smile'):
            if (r[fmt]['server'], r[fmt]['client']) != w:
                rep.violation(f'C05:native-twin:{fmt}', f'{fmt} {o}: native {r[fmt]}, expected server/client {w}', {'op': o, 'native': r})
    rep.assumptions += ['inner serde_json/serde_smile deserializer = event player for an object document (keys as strings, declared values i32, undeclared value any); '
                        'client type = what serde-derive emits for a struct without deny_unknown_fields (identifier for keys, IgnoredAny for unmatched values)',
                        'nesting: every nested object is deserialized through the same wrappers (Override re-wraps on every level: C01); this check decides one level exhaustively']
    rep.outside += ['the text layers of serde_json / serde_smile', 'struct variants of enums (not produced by Conjure types)']


def report(rep, fmt, side, fields, doc, m, what):
    members = doc.concrete(m)
    # keys the model delivered as transient / owned strings are spelled with an escape (serde_json copies such keys into its scratch
    # buffer); borrowed ones plainly
    modes = doc.modes(m)
    sp = lambda k, md: k if md == 1 else '\\u%04x' % ord(k[0]) + k[1:]
    text = '{' + ','.join(f'"{sp(k, md)}":{v}' if k != 'u' else f'"{sp(k, md)}":{{"x":{v}}}' for (k, v), md in zip(members, modes)) + '}'
    # duplicate keys: serde-derive rejects duplicates of declared fields itself; skip such documents
    ks = [k for k, _ in members if k != 'u']
    if len(ks) != len(set(ks)):
        rep.inconc(f'C05: counterexample has a duplicated declared field (outside the statement): {text}')
        return
    op = {'op': 'unknown_fields', 'doc': text, 'fields': len(fields)}
    r, r2 = replay([op])[0], replay([op], 'release')[0]
    rep.replayed += 1
    has_u = any(k == 'u' for k, _ in members)
    want = ('err:u' if has_u else 'ok') if side == 'server' else 'ok'
    got = r[fmt][side]
    if got != want and r == r2:
        rep.violation(f'C05:{side}:fields{len(fields)}', f'{fmt} {side} deserializer, struct with {len(fields)} declared fields, document {text}: {what}; native {got}, statement {want}', {'op': op, 'native': r})
    else:
        rep.inconc(f'model mismatch C05 {fmt} {side}: {text} fields={fields} ({what}) does not reproduce natively: {got} vs {want}')


def replay_cmd(path):
    w = json.load(open(path))
    print(json.dumps(replay([w['witness']['op']])[0], indent=1))
    return 0
