"""C07 — parameter values cannot alter the request URI structure and decode back exactly."""
import json, re, urllib.parse
import z3
from mirsym.dump import program
from mirsym.interp import Interp, St
from mirsym import models_std, models_http
from mirsym.values import Agg, Enum, Ptr, Seq, BStr, UNIT, Panic, Unwind, bv, bstr, bstr_eq, bstr_concat, concrete, is_abnormal
from mirsym.harness import sym_str, model_bytes, Decider, finish_engine, replay, find_fn
from vlib.common import Inconclusive

P = 'conjure_http::private::client::uri_builder'
PATH_OK = set([0x21] + list(range(0x24, 0x3C)) + [0x3D] + list(range(0x40, 0x60)) + list(range(0x61, 0x7B)) + [0x7C, 0x7E, 0x22, 0x7B, 0x7D])
QUERY_OK = set([0x21] + list(range(0x24, 0x3C)) + [0x3D] + list(range(0x3F, 0x7F)))


def harmless(b, kind):
    """may ASCII byte b stay raw at a value position without changing structure / decoding?"""
    if kind == 'path':
        return b in PATH_OK and b not in (ord('/'), ord('%'))
    return b in QUERY_OK and b not in (ord('&'), ord('+'), ord('%'), ord('#'))


TEMPLATE = [('lit', b'/a'), ('path', 'v1'), ('lit', b'/b'), ('path', 'v2'), ('query', b'k', 'q1'), ('query', b'j', 'q2')]


def semantic_ok(ops, native):
    """python reference: the URI the real builder produced decodes to exactly the inputs with the prescribed structure"""
    if native.get('panic'):
        return False, 'build panicked'
    uri = native['uri']
    exp_segments, exp_pairs = [], []
    for op in ops:
        if op[0] == 'lit':
            exp_segments += [x.encode() for x in op[1].split('/')[1:]]
        elif op[0] == 'path':
            exp_segments.append(bytes.fromhex(op[1]))
        else:
            exp_pairs.append((op[1].encode(), bytes.fromhex(op[2])))
    if native['segments_hex'] != [s.hex() for s in exp_segments]:
        return False, f'path decodes to {native["segments_hex"]}, expected {[s.hex() for s in exp_segments]}'
    if native['pairs_hex'] != [[k.hex(), v.hex()] for k, v in exp_pairs]:
        return False, f'query decodes to {native["pairs_hex"]}, expected {[[k.hex(), v.hex()] for k, v in exp_pairs]}'
    if '#' in uri:
        return False, 'fragment present'
    return True, ''


def native_ops(vals):
    ops = []
    for t in TEMPLATE:
        if t[0] == 'lit':
            ops.append(['lit', t[1].decode()])
        elif t[0] == 'path':
            ops.append(['path', vals[t[1]].hex()])
        else:
            ops.append(['query', t[1].decode(), vals[t[2]].hex()])
    return ops


def run_sequence(it, st, fns, vals):
    """drive the real builder MIR through the template; yields (state, outcome of build | abnormal)"""
    def step(st, b, k):
        if k == len(TEMPLATE):
            yield from it.run(fns['build'], [st.deref(b)], st)
            return
        t = TEMPLATE[k]
        if t[0] == 'lit':
            gen = it.run(fns['push_literal'], [b, st.ref(bstr(t[1]))], st)
        elif t[0] == 'path':
            gen = it.run(fns['push_path_parameter_raw'], [b, vals[t[1]][0]], st)
        else:
            gen = it.run(fns['push_query_parameter_raw'], [b, st.ref(bstr(t[1])), vals[t[2]][0]], st)
        for s2, rv in gen:
            if is_abnormal(rv):
                yield s2, rv
            else:
                yield from step(s2, b, k + 1)
    for s1, ub in it.run(fns['new'], [], st):
        b = s1.ref(ub)
        yield from step(s1, b, 0)


FULL_TEMPLATE = list(TEMPLATE)
SHORT_TEMPLATE = [('lit', b'/a'), ('path', 'v1'), ('query', b'k', 'q1')]


ESCAPING_ENTRY_POINTS = {'new', 'push_literal', 'push_path_parameter', 'push_query_parameter', 'push_optional_query_parameter', 'push_list_query_parameter',
                         'push_set_query_parameter', 'build'}


def battery_generated():
    from checks import c04
    ops = [{'op': 'loopback_gen', 'endpoint': 'g5', 'tok': 'a/b+c=', 'qt': 'x+/=='}, {'op': 'loopback_gen', 'endpoint': 'g5', 'tok': '+', 'qt': '/'},
           {'op': 'loopback_gen', 'endpoint': 'g6', 'lst_arg': [], 'set_arg': [], 'q_arg': b'a b'.hex()}, {'op': 'loopback_gen', 'endpoint': 'g6', 'lst_arg': [], 'set_arg': [b'&'.hex()], 'q_arg': b'='.hex()},
           {'op': 'loopback_gen', 'endpoint': 'g1', 'path_arg': -1, 'query_arg': b'a&b=c#?'.hex(), 'header_arg': 0, 'token': 't'},
           {'op': 'loopback_gen', 'endpoint': 'g2', 'p_arg': b'/%2F?'.hex(), 'opt_arg': None, 'lst_arg': [], 'bar_arg': None, 'token': 't'}]
    out = []
    for o, r in zip(ops, replay(ops)):
        ok, why = c04.native_verdict(o, r)
        if not ok:
            out.append(f'{o}: {why}')
    return out


def run_generated_discipline(rep):
    """the generated clients (real conjure-codegen output for gen-crates/service, every argument position incl. bearer tokens in the
    path and query) assemble their URI only through the UriBuilder entry points decided above (each escapes its value)"""
    import re as _re
    from checks import c04, endpoints as ep
    prog = ep.harness_program('gen-crates/service', c04.GCRATE, ['conjure_serde'])
    n = 0
    for k, f in prog.fns.items():
        if not k.startswith(c04.GCRATE + '::') or 'Client<' not in f.header:
            continue
        called = set()
        for stmts, term in f.blocks.values():
            for mm in _re.finditer(r'UriBuilder::(\w+)', term):
                called.add(mm.group(1))
        if not called:
            continue
        n += 1
        rep.functions_encoded.append(k)
        extra = called - ESCAPING_ENTRY_POINTS
        rep.query(f'generated:{k.split("::")[-1]}:uri-built-through-escaping-entry-points', 'unsat' if not extra else 'sat', 0.0, called=sorted(called))
        if extra:
            rep.structural('C07:generated-entry-points', f'generated client method {k} builds its URI through UriBuilder::{sorted(extra)}, which this check does not know as escaping entry points',
                           {'fn': k, 'called': sorted(called)}, battery_generated)
    if not n:
        rep.inconc('vacuity: no generated client method uses UriBuilder')
    for fail in battery_generated():
        rep.violation('C07:native:generated', f'native twin: {fail}', {'native': fail})
    rep.replayed += 6


def run(rep, tier):
    with rep.part('generated clients use the escaping entry points'):
        run_generated_discipline(rep)
    global TEMPLATE
    prog = program(['conjure_http'])
    fns = {n: find_fn(prog, n, inpath='::uri_builder::') for n in ('new', 'push_literal', 'push_path_parameter_raw', 'push_query_parameter_raw', 'build')}
    rep.bounds['content'] = 'template /a/{v1}/b/{v2}?k={q1}&j={q2}; every value a valid-UTF-8 byte string of <= 2 bytes, all 256 byte values admitted' + (
        '' if tier == 'quick' else '; thorough: template /a/{v1}?k={q1} with values of <= 4 bytes (every UTF-8 sequence length)')
    rep.bounds['length'] = 'length-only abstraction: value lengths over the full 64-bit range, len(encode(s)) in [len s, 3 len s]'
    TEMPLATE = list(FULL_TEMPLATE)
    run_content(rep, prog, fns, 2, 'content')
    if tier != 'quick':
        TEMPLATE = list(SHORT_TEMPLATE)
        try:
            run_content(rep, prog, fns, 4, 'content4')
        finally:
            TEMPLATE = list(FULL_TEMPLATE)
    run_length(rep, prog, fns)
    rep.assumptions += ['percent_encoding::utf8_percent_encode(s, set): bytewise, keeps ASCII bytes outside the set, everything else %XX upper-case hex (crate contract)',
                        'http::Uri::from_maybe_shared: byte tables PATH_MAP/QUERY_MAP of http 1.x, fragment truncation at #, Err when longer than 65534 bytes',
                        'server side decoding = split on "/" + percent_decode (path), form_urlencoded::parse (query): "+" is a space, first "=" splits']
    rep.outside += ['values longer than the stated bytes for the content query (the encoding is a bytewise map)', 'the macro/generator-side literal and key encoding']


def run_content(rep, prog, fns, Lb, ctag):
    it = Interp(prog, models_std.MODELS + models_http.MODELS, {}, unwind=3 * Lb + 8)
    it.ext_consts.update(models_http.CONSTS)
    dec = Decider(rep, it)
    st = St()
    vals = {t[-1]: sym_str(st, t[-1], Lb) for t in TEMPLATE if t[0] != 'lit'}
    npaths = 0
    for s2, rv in run_sequence(it, st, fns, vals):
        npaths += 1
        rep.states += 1
        if isinstance(rv, Unwind):
            rep.inconc(f'C07: unwinding assertion at {rv.where}')
            continue
        if isinstance(rv, Panic):
            m = dec.decide(f'{ctag}:path{npaths}:panic-reachable', s2, z3.BoolVal(True))
            if m is not None:
                report(rep, {k: model_bytes(m, v[1]) for k, v in vals.items()}, f'panic: {rv.msg}')
            continue
        uri = rv
        buf = uri.fields[0]
        recs = s2.aux.get('pctenc', ())
        kinds = [t[0] for t in TEMPLATE if t[0] != 'lit']
        names = [t[-1] for t in TEMPLATE if t[0] != 'lit']
        # (2) every value goes through utf8_percent_encode exactly once, in order, with a set that keeps only harmless bytes raw
        structural = len(recs) == len(kinds)
        if structural:
            for (inp, mask, enc), kind, nm in zip(recs, kinds, names):
                m = dec.decide(f'{ctag}:path{npaths}:{nm}:encoded-input==value', s2, z3.Not(bstr_eq(inp, vals[nm][1])))
                if m is not None:
                    structural = False
                    break
                cm = concrete(mask)
                if cm is None:
                    raise Inconclusive('percent-encode set is not a compile-time constant')
                bad = [b for b in range(128) if not (cm >> b) & 1 and not harmless(b, kind)]
                rep.query(f'{ctag}:path{npaths}:{nm}:raw-bytes-harmless-at-{kind}-position', 'sat' if bad else 'unsat', 0.0,
                          raw_kept=''.join(chr(b) for b in range(33, 127) if not (cm >> b) & 1))
                if bad:
                    wit = {k: b'x' for k in vals}
                    wit[nm] = b'x' + bytes([bad[0]]) if Lb >= 2 else bytes([bad[0]])
                    report(rep, wit, f'byte {bad[0]:#04x} ({chr(bad[0])!r}) is left raw in the {kind} value {nm}')
        # (3) the buffer is the concatenation of the literals, separators and encoded values
        if structural:
            exp = bstr(b'')
            ri = 0
            for t in TEMPLATE:
                if t[0] == 'lit':
                    exp = bstr_concat(exp, bstr(t[1]))
                elif t[0] == 'path':
                    exp = bstr_concat(bstr_concat(exp, bstr(b'/')), recs[ri][2])
                    ri += 1
                else:
                    sep = b'?' if ri == kinds.index('query') else b'&'
                    exp = bstr_concat(bstr_concat(exp, bstr(sep + t[1] + b'=')), recs[ri][2])
                    ri += 1
            m = dec.decide(f'{ctag}:path{npaths}:buffer==literals+separators+encoded-values', s2, z3.Not(bstr_eq(buf, exp)), bytes_per_value=Lb)
            if m is not None:
                report(rep, {k: model_bytes(m, v[1]) for k, v in vals.items()}, 'the built buffer is not the prescribed concatenation')
        else:
            # the implementation no longer funnels every value through one utf8_percent_encode call: decide the semantics directly on
            # the pieces the buffer was assembled from (ghost state of the BytesMut model): literal text must be the prescribed
            # separators, and the text written for each value must decode back to it without any raw structural byte
            sem = semantic_runs(it, s2, buf, vals)
            if sem is None:
                m = dec.decide(f'{ctag}:path{npaths}:structure-fallback', s2, z3.BoolVal(True))
                report(rep, {k: model_bytes(m, v[1]) for k, v in vals.items()}, 'the buffer is not assembled from the prescribed literals and one run of text per value', fallback=True)
                if rep.violations == [] and sum('structural argument of this check does not apply' in w for w in rep.inconclusive) >= 6:
                    # six samples replayed fine natively and nothing more can be decided about this shape of implementation: stop exploring
                    raise Inconclusive('C07: the URI is assembled in a way this check has no structural argument for (6 native samples are fine)')
            else:
                for nm, kind, run in sem:
                    bad = z3.Or(z3.Not(run_ok(run, kind)), z3.Not(bstr_eq(percent_decode(run), vals[nm][1])))
                    m = dec.decide(f'{ctag}:path{npaths}:{nm}:written-text-decodes-to-the-value-without-raw-structural-bytes', s2, bad, bytes_per_value=Lb)
                    if m is not None:
                        report(rep, {k: model_bytes(m, v[1]) for k, v in vals.items()}, f'the text written for the {kind} value {nm} does not decode back to it, or contains a raw structural byte')
                        break
    if npaths == 0:
        rep.inconc('vacuity: no path reached build()')
    # reachability twin replayed natively: values full of separators
    wcond = [vals['v1'][1].len == Lb, vals['v1'][1].bytes[0] == ord('/'), vals['q1'][1].len == Lb, vals['q1'][1].bytes[0] == ord('&')]
    if 'q2' in vals:
        wcond += [vals['q2'][1].len >= 1, vals['q2'][1].bytes[0] == ord('+'), vals['v2'][1].len >= 1, vals['v2'][1].bytes[0] == ord('%')]
    m = dec.witness(ctag + ':values-with-separators', st, z3.And(*wcond))
    wit = {k: model_bytes(m, v[1]) for k, v in vals.items()}
    ops = native_ops(wit)
    nat = replay([{'op': 'uri_build', 'ops': ops}])[0]
    rep.replayed += 1
    ok, why = semantic_ok(ops, nat)
    if not ok:
        report(rep, wit, 'twin witness: ' + why)
    finish_engine(rep, it)


def expected_literals():
    """[(literal text before the slot, slot name, kind)] for TEMPLATE, and the trailing literal"""
    out, pending, first_q = [], b'', True
    for t in TEMPLATE:
        if t[0] == 'lit':
            pending += t[1]
        elif t[0] == 'path':
            out.append((pending + b'/', t[1], 'path'))
            pending = b''
        else:
            out.append((pending + (b'?' if first_q else b'&') + t[1] + b'=', t[2], 'query'))
            first_q = False
            pending = b''
    return out, pending


def semantic_runs(it, st, buf, vals):
    """-> [(value name, kind, text written for it as a bounded string)] or None when the pieces do not have the prescribed shape"""
    from mirsym.values import bstr_py
    pcs = models_http.bm_pieces(st, buf)
    if pcs is None:
        return None
    merged = []          # ('lit', bytes) | ('run', BStr)
    for pc in pcs:
        py = bstr_py(pc)
        if py is not None:
            if merged and merged[-1][0] == 'lit':
                merged[-1] = ('lit', merged[-1][1] + py)
            else:
                merged.append(('lit', py))
        else:
            if merged and merged[-1][0] == 'run':
                merged[-1] = ('run', bstr_concat(merged[-1][1], pc))
            else:
                merged.append(('run', pc))
    slots, trailing = expected_literals()
    out = []
    i = 0
    carry = b''
    for lit, nm, kind in slots:
        if not carry:
            if i >= len(merged) or merged[i][0] != 'lit':
                return None
            carry = merged[i][1]
            i += 1
        if not carry.startswith(lit):
            return None
        carry = carry[len(lit):]
        if carry:
            # more literal text follows at once: the value wrote nothing, which is only right when it is empty on this path
            if it.feasible(st, vals[nm][1].len != 0):
                return None
            out.append((nm, kind, bstr(b'')))
        elif i < len(merged) and merged[i][0] == 'run':
            out.append((nm, kind, merged[i][1]))
            i += 1
        else:
            if it.feasible(st, vals[nm][1].len != 0):
                return None
            out.append((nm, kind, bstr(b'')))
    if carry != trailing or i != len(merged):
        return None
    return out


def percent_decode(s):
    from checks.endpoints import percent_decode as pd
    return pd(s)


def run_ok(s, kind):
    """every byte of the written text is part of a %XX escape or an ASCII byte that is harmless at a `kind` value position"""
    from checks.endpoints import hexval
    K = len(s.bytes)
    ok = z3.BoolVal(True)
    skip = z3.BitVecVal(0, 8)
    allowed = [b for b in range(128) if harmless(b, kind)]
    for i, b in enumerate(s.bytes):
        live = z3.ULT(bv(i), s.len)
        b1 = s.bytes[i + 1] if i + 1 < K else z3.BitVecVal(0, 8)
        b2 = s.bytes[i + 2] if i + 2 < K else z3.BitVecVal(0, 8)
        esc = z3.And(b == ord('%'), z3.ULT(bv(i + 2), s.len), hexval(b1)[0], hexval(b2)[0])
        fresh = z3.And(live, skip == 0)
        ok = z3.And(ok, z3.Implies(z3.And(fresh, z3.Not(esc)), z3.Or(*[b == a for a in allowed])))
        skip = z3.If(fresh, z3.If(esc, z3.BitVecVal(2, 8), z3.BitVecVal(0, 8)), z3.If(live, skip - 1, skip))
    return ok


def run_length(rep, prog, fns):
    """length-only abstraction: is the unwrap in build() reachable?"""
    it = Interp(prog, models_std.MODELS + LEN_MODELS + models_http.MODELS, {}, unwind=8)
    it.ext_consts.update(models_http.CONSTS)
    dec = Decider(rep, it)
    st = St()
    vals = {}
    for n in ('v1', 'v2', 'q1', 'q2'):
        ln = z3.BitVec(n + '_len', 64)
        st.pc.append(z3.ULE(ln, bv(1 << 40)))
        vals[n] = (st.ref(BStr((), ln)), BStr((), ln))
    for s2, rv in run_sequence(it, st, fns, vals):
        rep.states += 1
        if isinstance(rv, Panic):
            m = dec.decide('length:build-unwrap-reachable', s2, z3.BoolVal(True))
            if m is not None:
                lens = {k: m.eval(v[1].len, True).as_long() for k, v in vals.items()}
                # replay with concrete values of (capped) length: a single long path parameter suffices
                big = max(lens, key=lens.get)
                wit = {k: b'x' for k in vals}
                wit[big] = b'x' * 70000
                ops = native_ops(wit)
                nat = replay([{'op': 'uri_build', 'ops': ops}])[0]
                nat2 = replay([{'op': 'uri_build', 'ops': ops}], 'release')[0]
                rep.replayed += 1
                if nat.get('panic') and nat2.get('panic'):
                    rep.violation('C07:build-unwrap:len>65534', f'UriBuilder::build() panics (unwrap of Uri::from_maybe_shared) when the URI exceeds 65534 bytes (solver: lengths {lens}; replayed with a 70000-byte {big})',
                                  {'ops': [[o[0], o[1][:16] + '...'] if len(o[1]) > 64 else o for o in ops], 'native': 'panic'})
                else:
                    rep.inconc(f'model mismatch: over-long URI does not panic natively: {str(nat)[:200]}')
        elif isinstance(rv, Unwind):
            rep.inconc(f'C07 length run: unwind {rv.where}')
    finish_engine(rep, it)


def M_encode_len_only(it, ctx, args, st):
    from mirsym.models_std import sval, It, fresh_bv
    s = sval(st, args[0])
    e = fresh_bv('enclen')
    st.pc.append(z3.And(z3.UGE(e, s.len), z3.ULE(e, s.len * 3)))
    yield st, It('list', (st.ref(BStr((), e)),))


LEN_MODELS = [(r'percent_encoding::utf8_percent_encode', M_encode_len_only)]


def report(rep, wit, what, fallback=False):
    ops = native_ops(wit)
    nat = replay([{'op': 'uri_build', 'ops': ops}])[0]
    nat2 = replay([{'op': 'uri_build', 'ops': ops}], 'release')[0]
    rep.replayed += 1
    ok, why = semantic_ok(ops, nat)
    ok2, _ = semantic_ok(ops, nat2)
    if not ok and not ok2:
        first_query = TEMPLATE[[t[0] for t in TEMPLATE].index('query')][-1]
        rep.violation('C07:content', f'{what}; values { {k: v for k, v in wit.items()} }: native URI {nat.get("uri")!r}: {why}',
                      {'ops': ops, 'native': nat})
    elif fallback:
        rep.inconc('C07: UriBuilder no longer percent-encodes one call per value; the native run of a sample is fine but the structural argument of this check does not apply')
    else:
        rep.inconc(f'model mismatch C07: {what} with {wit} does not reproduce natively ({nat.get("uri")!r})')


def replay_cmd(path):
    w = json.load(open(path))
    print(json.dumps(replay([{'op': 'uri_build', 'ops': w['witness']['ops']}])[0], indent=1))
    return 0
