"""C14 — generated types with doubles have a lawful total order, equality and hash."""
from vlib import kani

K_QUICK = {'c14a': ['c14_f64_laws', 'c14_double_key_laws', 'c14_option_f64_laws'],
           'c14b': ['c14_vec_f64_laws_len2'], 'c14c': ['c14_option_vec_f64_laws_len1']}


def run(rep, tier):
    rep.bounds['K'] = 'symbolic f64 triples at full width (every NaN payload, +-0, +-inf); Vec<f64> of <= 2 elements, Option<Vec<f64>> of <= 1; unwind 66 (64-byte recording hasher)'
    rep.assumptions += ['Kani/CBMC model of the compiled code incl. the real ordered_float::OrderedFloat',
                        'hash equality is asserted as identical byte streams into a recording Hasher (holds for every Hasher)']
    res = kani.run_parallel(K_QUICK, timeout_s=1500, mem_gb=16)
    failed = kani.record(rep, res)
    rep.functions_encoded += ['DoubleOps for f64 / Option<T> / Vec<T> (cmp, eq, hash)', 'DoubleKey: PartialEq, Ord, PartialOrd, Hash']
    kani.handle_failures(rep, failed, 'C14')
    rep.outside += ['containers longer than 2 elements', 'BTreeMap<K, V> DoubleOps (B-tree code does not get through CBMC; engine M)',
                    'educe-derived impls of generated types (separate harness crate generated from the IR family)']
