"""C14 — generated types with doubles have a lawful total order, equality and hash."""
from vlib import kani

K_GEN = {'c14g1': ['c14g_double_alias_laws', 'c14g_union_pair_laws', 'c14g_union_double_transitivity'],
         'c14g2': ['c14g_object_scalar_and_optional_laws'], 'c14g3': ['c14g_nested_object_laws'], 'c14g4': ['c14g_object_with_list_eq_cmp_hash']}
K_QUICK = {'c14a': ['c14_f64_laws', 'c14_double_key_laws', 'c14_option_f64_laws'],
           'c14b': ['c14_vec_f64_laws_len2'], 'c14c': ['c14_option_vec_f64_laws_len1']}


def run(rep, tier):
    rep.bounds['K'] = 'symbolic f64 triples at full width (every NaN payload, +-0, +-inf); Vec<f64> of <= 2 elements, Option<Vec<f64>> of <= 1; unwind 66 (64-byte recording hasher)'
    rep.assumptions += ['Kani/CBMC model of the compiled code incl. the real ordered_float::OrderedFloat',
                        'hash equality is asserted as identical byte streams into a recording Hasher (holds for every Hasher)']
    import concurrent.futures as cf
    with cf.ThreadPoolExecutor(max_workers=2) as ex:          # both harness crates at once (own target dirs)
        fut_rt = ex.submit(kani.run_parallel, K_QUICK, 1500, 16)
        fut_gen = ex.submit(kani.run_parallel, K_GEN, 1500, 16, 8, 'kani-gen')
        res, resg = fut_rt.result(), fut_gen.result()
    failed = kani.record(rep, res)
    rep.functions_encoded += ['DoubleOps for f64 / Option<T> / Vec<T> (cmp, eq, hash)', 'DoubleKey: PartialEq, Ord, PartialOrd, Hash']
    kani.handle_failures(rep, failed, 'C14')
    # generated types: the real generator's output for the IR family (gen-crates/types), educe-derived Eq/Ord/Hash with the
    # per-field attributes the generator chose
    rep.bounds['K-generated'] = ('generated alias<double>, union{double,integer} (concrete variants, Unknown not constructed), object{double, optional<double>, list<double> of <= 1}, '
                                 'object nesting that object; full-width symbolic doubles; triples for alias/scalar object, pairs (+ transitivity on the double variant) elsewhere')
    failedg = kani.record(rep, resg)
    rep.functions_encoded += ['educe-derived PartialEq/Eq/PartialOrd/Ord/Hash of the generated DoubleAlias, UnionD, ObjD, ObjNest (conjure-codegen output at build time)']
    kani.handle_failures(rep, failedg, 'C14', crate='kani-gen')
    from checks import c14m
    c14m.run_maps(rep, tier)
    rep.outside += ['containers longer than 2 elements',
                    'generated types with map/set fields (their derive calls the map DoubleOps decided above), lists longer than 1 inside generated objects, the Unknown union variant']
