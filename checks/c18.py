"""C18 — clients return a value only from a complete, correctly typed response (real decode_* MIR, blocking and async twins,
read_body / async_read_body over symbolic chunk histories, conjure-serde's client_from_slice + end())."""
import json
import z3
from mirsym.dump import program
from mirsym.interp import Interp, St
from mirsym import models_std, models_http
from mirsym.models_http import header_value, header_map
from mirsym.values import Agg, Enum, Ptr, Seq, BStr, UNIT, Panic, Unwind, Coro, bv, bstr, bstr_eq, is_abnormal
from mirsym.harness import Decider, finish_engine, replay, find_fn, find_fns
from checks import bodyio
from vlib.common import Inconclusive

STATUS = {'200': 200, '204': 204, '201': 201}


def M_resp_status(it, ctx, args, st):
    yield st, st.deref_all(args[0]).fields[0]


def M_resp_headers(it, ctx, args, st):
    r = args[0]
    yield st, Ptr(r.addr, r.proj + (('f', 1),))


def M_resp_into_body(it, ctx, args, st):
    yield st, args[0].fields[2]


def M_status_eq(it, ctx, args, st):
    yield st, st.deref_all(args[0]).fields[0] == st.deref_all(args[1]).fields[0]


def M_opt_hv_ne(it, ctx, args, st):
    """<Option<&HeaderValue> as PartialEq>::ne"""
    a, b = st.deref_all(args[0]) if isinstance(args[0], Ptr) else args[0], st.deref_all(args[1]) if isinstance(args[1], Ptr) else args[1]
    pa, pb = it.payload(a, 'Some'), it.payload(b, 'Some')
    both = z3.And(a.discr == 1, b.discr == 1)
    eq_inner = z3.BoolVal(True)
    if pa is not None and pb is not None:
        va, vb = st.deref_all(pa.fields[0]), st.deref_all(pb.fields[0])
        eq_inner = bstr_eq(va.fields[0], vb.fields[0])
    eq = z3.And(a.discr == b.discr, z3.Implies(both, eq_inner))
    yield st, z3.Not(eq) if ctx.callee.method == 'ne' else eq


def T_default(it, ctx, args, st):
    yield st, Agg('DocDefault', ())


MODELS = [
    (r'http::Response::<.*>::status', M_resp_status), (r'http::Response::<.*>::headers', M_resp_headers),
    (r'http::Response::<.*>::into_body', M_resp_into_body),
    (r'<http::StatusCode as std::cmp::PartialEq>::eq', M_status_eq),
    (r'<std::option::Option<&http::HeaderValue> as std::cmp::PartialEq>::(ne|eq)', M_opt_hv_ne),
]
CONSTS = {
    'http::StatusCode::NO_CONTENT': lambda it, st: Agg('http::StatusCode', (z3.BitVecVal(204, 16),)),
    'private::APPLICATION_JSON': lambda it, st: header_value(bstr('application/json')),
    'private::APPLICATION_OCTET_STREAM': lambda it, st: header_value(bstr('application/octet-stream')),
}
CT_CHOICES = [None, b'application/json', b'application/json; charset=utf-8', b'application/octet-stream', b'text/plain', b'Application/JSON']


def response_value(st, status, ct_sel, body):
    """http::Response model: (status, headers, body).  Content-Type: absent or one of CT_CHOICES selected by ct_sel"""
    K = max(len(c) for c in CT_CHOICES if c)
    bs = []
    for k in range(K):
        v = z3.BitVecVal(0, 8)
        for i, c in enumerate(CT_CHOICES):
            if c and k < len(c):
                v = z3.If(ct_sel == i, z3.BitVecVal(c[k], 8), v)
        bs.append(v)
    ln = bv(0)
    for i, c in enumerate(CT_CHOICES):
        if c:
            ln = z3.If(ct_sel == i, bv(len(c)), ln)
    hv = header_value(BStr(tuple(bs), ln))
    hm = header_map([('content-type', Agg('GetAll', (z3.If(ct_sel == 0, bv(0), bv(1)), (hv,))))])
    return Agg('http::Response', (Agg('http::StatusCode', (status,)), hm, body))


BIN_OPS = [({'op': 'client_decode', 'kind': 'binary', 'status': 200, 'content_type': 'application/octet-stream', 'chunks': ['31']}, 'ok'),
           ({'op': 'client_decode', 'kind': 'binary', 'status': 200, 'content_type': 'application/json', 'chunks': ['31']}, 'err'),
           ({'op': 'client_decode', 'kind': 'binary', 'status': 204, 'content_type': None, 'chunks': []}, 'err'),
           ({'op': 'client_decode', 'kind': 'optional_binary', 'status': 204, 'content_type': None, 'chunks': []}, 'ok'),
           ({'op': 'client_decode', 'kind': 'optional_binary', 'status': 200, 'content_type': 'application/octet-stream', 'chunks': ['31']}, 'ok'),
           ({'op': 'client_decode', 'kind': 'optional_binary', 'status': 200, 'content_type': 'text/plain', 'chunks': ['31']}, 'err'),
           ({'op': 'client_decode', 'kind': 'unit', 'status': 204, 'content_type': None, 'chunks': []}, 'ok'),
           ({'op': 'client_decode', 'kind': 'default', 'status': 204, 'content_type': None, 'chunks': []}, 'ok')]


def battery_bin():
    out = []
    for (o, w), r in zip(BIN_OPS, replay([o for o, _ in BIN_OPS])):
        for fl in ('blocking', 'async'):
            got = r.get(fl, {})
            if ('ok' in got) != (w == 'ok'):
                out.append(f'{fl} {o}: {got} (expected {w})')
    return out


GEN_STATUS_OPS = [({'op': 'client_gen_status', 'endpoint': 'g3', 'status': 204}, False), ({'op': 'client_gen_status', 'endpoint': 'g3', 'status': 200, 'content_type': 'application/json', 'body': b'"x"'.hex()}, '78'),
                  ({'op': 'client_gen_status', 'endpoint': 'g3', 'status': 200, 'content_type': 'application/json', 'body': b'"x'.hex()}, False),
                  ({'op': 'client_gen_status', 'endpoint': 'g1', 'status': 204}, None), ({'op': 'client_gen_status', 'endpoint': 'g4', 'status': 204}, None),
                  ({'op': 'client_gen_status', 'endpoint': 'g4', 'status': 200, 'content_type': 'application/json', 'body': b'"y"'.hex()}, '79'),
                  ({'op': 'client_gen_status', 'endpoint': 'g4', 'status': 200, 'content_type': 'text/plain', 'body': b'"y"'.hex()}, False),
                  # g7 returns an ALIAS of list<integer>: an empty list travels as 204
                  ({'op': 'client_gen_status', 'endpoint': 'g7', 'status': 204}, []), ({'op': 'client_gen_status', 'endpoint': 'g7', 'status': 200, 'content_type': 'application/json', 'body': b'[5]'.hex()}, [5])]


def battery_gen():
    out = []
    for (o, w), r in zip(GEN_STATUS_OPS, replay([o for o, _ in GEN_STATUS_OPS])):
        good = (not r.get('ok')) if w is False else (r.get('ok') and r.get('returned') == w)
        if not good:
            out.append(f'{o}: generated client returns {r}, expected {"an error" if w is False else repr(w)}')
    return out


def run_generated_discipline(rep):
    """which decode_* entry point the *generated* client hands the response to, per class of return type (read from the IR):
    nothing -> decode_empty_response; optional / collection -> decode_default_serializable_response (a 204 is their empty value);
    anything else -> decode_serializable_response (a 204 is an error).  Part 2 decides those entry points; this is the link."""
    import json as _json, re as _re, os as _os
    from checks import c04, endpoints as ep
    from vlib.common import VERIF
    prog = ep.harness_program('gen-crates/service', c04.GCRATE, ['conjure_serde'])
    ir = _json.load(open(_os.path.join(VERIF, 'gen-crates/service/ir/service.json')))

    aliases = {td['alias']['typeName']['name']: td['alias']['alias'] for td in ir.get('types', []) if td.get('type') == 'alias'}

    def cls(t):
        if t is None:
            return 'decode_empty_response'
        k = t['type']
        if k == 'reference' and t['reference']['name'] in aliases:
            return cls(aliases[t['reference']['name']])          # the class of an alias is the class of what it stands for
        if k == 'external':
            return cls(t['external']['fallback'])
        if k == 'optional' and t['optional']['itemType'].get('primitive') == 'BINARY':
            return 'decode_optional_binary_response'
        if k == 'primitive' and t['primitive'] == 'BINARY':
            return 'decode_binary_response'
        return 'decode_default_serializable_response' if k in ('optional', 'list', 'set', 'map') else 'decode_serializable_response'
    for svc in ir['services']:
        for e in svc['endpoints']:
            want = cls(e.get('returns'))
            for trait, pre in (('Gsvc', ''), ('GsvcAsync', 'async_')):
                fn = c04.client_fn(prog, trait, e['endpointName'], c04.GCRATE)
                bodies = [fn] + [k for k in prog.fns if k.startswith(fn + '::{closure')]
                called = set()
                for b in bodies:
                    for stmts, term in prog.fns[b].blocks.values():
                        for mm in _re.finditer(r'private::(?:client::)?((?:async_)?decode_\w+_response)', term):
                            called.add(mm.group(1))
                rep.functions_encoded.append(fn)
                ok = called == {pre + want}
                rep.query(f'generated:{trait}.{e["endpointName"]}:decoder=={pre + want}', 'unsat' if ok else 'sat', 0.0, called=sorted(called))
                if not ok:
                    rep.structural(f'C18:generated-decoder:{e["endpointName"]}', f'generated {trait}Client::{e["endpointName"]} (returns {_json.dumps(e.get("returns"))}) decodes its response with {sorted(called)}; '
                                   f'its return type calls for {pre + want}', {'endpoint': e['endpointName'], 'called': sorted(called)}, battery_gen)
    for fail in battery_gen():
        rep.violation('C18:native:generated', f'native twin: {fail}', {'native': fail})
    rep.replayed += len(GEN_STATUS_OPS)


def impl_text(prog, fname):
    for info in prog.impls:
        for ms in info.methods.values():
            if fname in ms:
                return info.text
    return ''


def run(rep, tier):
    with rep.part('generated client decoder selection'):
        run_generated_discipline(rep)
    NCH, L = (3, 2) if tier == 'quick' else (4, 2)
    rep.bounds['history'] = f'<= {NCH} stream items, each Ok(chunk of <= {L} symbolic bytes, empty chunks included) or Err(e_i); status in {list(STATUS)}; Content-Type absent or one of {[c.decode() for c in CT_CHOICES if c]}'
    prog = program(['conjure_http', 'conjure_serde'])
    doc = bodyio.Doc()
    cmods, ctmods = bodyio.cursor_models(doc, {})
    tm = dict(bodyio.TMODELS)
    tm.update(ctmods)
    tm[('DocT', 'Default', 'default')] = T_default

    def mk():
        it = Interp(prog, MODELS + cmods + bodyio.ASYNC_MODELS + models_http.MODELS + models_std.MODELS, tm, unwind=NCH + 6)
        it.ext_consts.update(models_http.CONSTS)
        it.ext_consts.update(CONSTS)
        return it
    tenv = {'I': ('path', 'ChunkIter', ()), 'T': ('path', 'DocT', ())}

    # ---- 1. read_body and its async twin against the sequential oracle
    it = mk()
    dec = Decider(rep, it)
    st = St()
    h = bodyio.History(it, st, NCH, L)
    has_limit, limit = z3.Bool('has_limit'), z3.BitVec('limit', 64)
    lim = it.opt(has_limit, limit)
    kind, which, total, body = h.oracle(has_limit, limit)
    rb = find_fn(prog, 'read_body', inpath='conjure_http::private::read_body')
    arb = [k for k in prog.fns if k.endswith('private::async_read_body::{closure#0}')][0]
    sync_outs = []
    for flavour in ('blocking', 'async'):
        if flavour == 'blocking':
            gen = it.run(rb, [h.iterator(), lim], st.fork(), tenv)
        else:
            coro = Coro('async_read_body', bv(0, 32), (h.iterator(), lim), ())
            gen = bodyio.poll_once(it, st.fork(), arb, coro, tenv)
        np_ = 0
        for s2, rv in gen:
            np_ += 1
            rep.states += 1
            tag = f'read_body:{flavour}:path{np_}'
            if isinstance(rv, Unwind):
                rep.inconc(f'C18 {tag}: unwind {rv.where}')
                continue
            if isinstance(rv, Panic):
                m = dec.decide(tag + ':panic', s2, z3.BoolVal(True))
                if m is not None:
                    report(rep, 'read_body', flavour, h, m, None, f'panic: {rv.msg}')
                continue
            is_ok = it.variant_of(rv, 'Ok')
            okp, errp = it.payload(rv, 'Ok'), it.payload(rv, 'Err')
            conds = []
            if okp is not None:
                conds.append(z3.And(is_ok, z3.Or(kind != 0, z3.Not(bstr_eq(okp.fields[0], body)))))
            if errp is not None:
                e = errp.fields[0]
                if e.fields[0] == 'stream':
                    conds.append(z3.And(z3.Not(is_ok), z3.Or(kind != 1, which != z3.Extract(7, 0, e.fields[1]))))
                else:
                    conds.append(z3.And(z3.Not(is_ok), kind != 2))
            m = dec.decide(tag + ':outcome==sequential-oracle', s2, z3.Or(*conds), chunks=NCH)
            if m is not None:
                report(rep, 'read_body', flavour, h, m, (has_limit, limit), 'result differs from reading the stream item by item')
    # ---- 2. the decode_* entry points
    for entry, cls in (('decode_serializable_response', 'value'), ('decode_default_serializable_response', 'default'), ('decode_empty_response', 'unit'),
                       ('ConjureResponseDeserializer', 'value')):
        for flavour in ('blocking', 'async'):
            with rep.part(f'{entry} {flavour}'):
                it = mk()
                dec = Decider(rep, it)
                st = St()
                h = bodyio.History(it, st, NCH, L)
                status = z3.BitVec('status', 16)
                st.pc.append(z3.Or(*[status == v for v in STATUS.values()]))
                ct = z3.BitVec('ct_sel', 8)
                st.pc.append(z3.ULT(ct, len(CT_CHOICES)))
                kind, which, total, body = h.oracle(z3.BoolVal(False), bv(0))
                resp = response_value(st, status, ct, h.iterator())
                if entry == 'ConjureResponseDeserializer':
                    # the macro clients' deserializer (conjure_http::client): same contract as decode_serializable_response
                    impls = [k for k in find_fns(prog, 'deserialize', inpath='conjure_http::client::<impl at') if 'ConjureResponseDeserializer' in impl_text(prog, k)]
                    blk = [k for k in impls if '{closure' not in k and 'async fn body' not in prog.fns[k].ret]
                    asy = [k + '::{closure#0}' for k in impls if 'async fn body' in prog.fns[k].ret and (k + '::{closure#0}') in prog.fns]
                    if len(blk) != 1 or len(asy) != 1:
                        raise Inconclusive(f'C18 harness: ConjureResponseDeserializer impls not found uniquely: {blk} {asy}')
                    tenv_m = {'R': ('path', 'ChunkIter', ()), 'T': ('path', 'DocT', ())}
                    if flavour == 'blocking':
                        gen = it.run(blk[0], [resp], st, tenv_m)
                    else:
                        gen = bodyio.poll_once(it, st, asy[0], Coro('async-macro-deserialize', bv(0, 32), (resp,), ()), tenv_m)
                elif flavour == 'blocking':
                    fn = find_fn(prog, entry, inpath='conjure_http::private::client::' + entry)
                    gen = it.run(fn, [resp], st, tenv)
                else:
                    cl = [k for k in prog.fns if k.endswith(f'private::client::async_{entry}::{{closure#0}}')][0]
                    gen = bodyio.poll_once(it, st, cl, Coro('async_' + entry, bv(0, 32), (resp,), ()), tenv)
                np_ = 0
                seen_ok = 0
                for s2, rv in gen:
                    np_ += 1
                    rep.states += 1
                    tag = f'{entry}:{flavour}:path{np_}'
                    if isinstance(rv, Unwind):
                        rep.inconc(f'C18 {tag}: unwind {rv.where}')
                        continue
                    if isinstance(rv, Panic):
                        m = dec.decide(tag + ':panic', s2, z3.BoolVal(True))
                        if m is not None:
                            report(rep, entry, flavour, h, m, None, f'panic: {rv.msg}', status, ct, doc)
                        continue
                    is_ok = it.variant_of(rv, 'Ok')
                    okp = it.payload(rv, 'Ok')
                    # Ok  =>  (204 and the class admits it)  or  (Content-Type == application/json, no stream error, body == concatenation, one valid document)
                    no_content_ok = z3.And(status == 204, z3.BoolVal(cls in ('default', 'unit')))
                    seen = s2.aux.get('doc_body')
                    body_ok = bstr_eq(seen, body) if seen is not None else z3.BoolVal(False)
                    full = z3.And(ct == 1, kind == 0, body_ok, doc.doc_valid, doc.rest_is_ws)
                    bad = z3.And(is_ok, z3.Not(z3.Or(no_content_ok, full)))
                    # and a well-formed response must not be refused
                    must = z3.Or(no_content_ok, z3.And(status != 204 if cls != 'value' else z3.BoolVal(True), ct == 1, kind == 0, doc.doc_valid, doc.rest_is_ws))
                    bad = z3.Or(bad, z3.And(z3.Not(is_ok), must))
                    m = dec.decide(tag + ':Ok<=>complete-correctly-typed-response', s2, bad, chunks=NCH)
                    if m is not None:
                        report(rep, entry, flavour, h, m, None, 'a value is returned from (or refused for) a response that is not (is) complete and correctly typed', status, ct, doc)
                    seen_ok += int(it.feasible(s2, is_ok))
                if not seen_ok:
                    rep.inconc(f'vacuity: {entry} {flavour} never returns Ok')
                finish_engine(rep, it)
    # binary responses: Content-Type gate only; the body object is passed through untouched
    for entry in ('decode_binary_response', 'decode_optional_binary_response'):
        it = mk()
        dec = Decider(rep, it)
        st = St()
        status = z3.BitVec('status', 16)
        st.pc.append(z3.Or(*[status == v for v in STATUS.values()]))
        ct = z3.BitVec('ct_sel', 8)
        st.pc.append(z3.ULT(ct, len(CT_CHOICES)))
        token = Agg('BodyToken', ())
        resp = response_value(st, status, ct, token)
        fn = find_fn(prog, entry, inpath='conjure_http::private::client::' + entry)
        np_ = 0
        for s2, rv in it.run(fn, [resp], st, {'I': ('path', 'BodyToken', ())}):
            np_ += 1
            rep.states += 1
            if is_abnormal(rv):
                rep.structural(f'C18:{entry}:abnormal', f'{entry}: {rv!r}', {}, battery_bin)
                continue
            is_ok = it.variant_of(rv, 'Ok')
            want = (ct == 3) if entry == 'decode_binary_response' else z3.Or(status == 204, ct == 3)
            m = dec.decide(f'{entry}:path{np_}:Ok<=>octet-stream(or 204)', s2, is_ok != want)
            if m is not None:
                c = CT_CHOICES[m.eval(ct, True).as_long()]
                rep.structural(f'C18:{entry}', f'{entry}: status {m.eval(status, True)} Content-Type {c!r}: accepted={z3.is_true(m.eval(is_ok, True))}', {'status': str(m.eval(status, True)), 'content_type': str(c)}, battery_bin)
        finish_engine(rep, it)
    # the macro client with a self-describing (`any`) result: nothing but a complete JSON response becomes a value
    mops = [({'op': 'client_macro_status', 'status': 204}, None), ({'op': 'client_macro_status', 'status': 200, 'content_type': 'application/json', 'body': b'{"a":[1]}'.hex()}, '{"a":[1]}'),
            ({'op': 'client_macro_status', 'status': 200, 'content_type': 'text/plain', 'body': b'5'.hex()}, None), ({'op': 'client_macro_status', 'status': 200}, None),
            ({'op': 'client_macro_status', 'status': 204, 'content_type': 'application/json'}, None)]
    for (o, w), r in zip(mops, replay([o for o, _ in mops])):
        for fl in ('blocking', 'async'):
            got = r.get(fl, {})
            good = (not got.get('ok')) if w is None else (got.get('ok') and got.get('returned') == w)
            if not good:
                rep.violation(f'C18:native:macro:{fl}', f'macro client ({fl}) with an `any` result on {o}: {got}, expected {"an error" if w is None else w}', {'op': o, 'native': r})
    rep.replayed += len(mops)
    # reachability twins replayed natively
    ops = [{'op': 'client_decode', 'kind': 'value', 'status': 200, 'content_type': 'application/json', 'chunks': ['31', '', '32']},
           {'op': 'client_decode', 'kind': 'value', 'status': 200, 'content_type': 'application/json', 'chunks': ['31', '32', None]},
           {'op': 'client_decode', 'kind': 'value', 'status': 200, 'content_type': 'application/json; charset=utf-8', 'chunks': ['31']},
           {'op': 'client_decode', 'kind': 'value', 'status': 200, 'content_type': 'application/json', 'chunks': ['3120', '78']}]
    for fail in battery_bin():
        rep.violation('C18:native:binary', f'native twin: {fail}', {'native': fail})
    res = replay(ops)
    rep.replayed += len(ops) + len(BIN_OPS)
    want = [{'ok': '12'}, 'err', 'err', 'err']
    for o, r, w in zip(ops, res, want):
        for fl in ('blocking', 'async'):
            got = r.get(fl, {})
            good = (got.get('ok') == w['ok']) if isinstance(w, dict) else ('err' in got)
            if not good:
                rep.violation(f'C18:native:{fl}', f'client decode of {o}: native {fl} result {got}, expected {w}', {'op': o, 'native': r})
    rep.assumptions += ['the futures of the body stream are always Ready (one poll); serde_json: T::deserialize consumes one document (valid or not), Deserializer::end succeeds iff only whitespace follows',
                        'http: Response::{status, headers, into_body}, HeaderMap::get, HeaderValue equality on bytes']
    rep.outside += ['JSON well-formedness itself (serde_json)', f'more than {NCH} stream items (the loop body is the same from the third item on; the unwinding assertion guards the bound)', 'Pending/wake-up interleavings of the async body']


def report(rep, entry, flavour, h, m, lim, what, status=None, ct=None, doc=None):
    chunks = h.concrete(m)
    if entry == 'read_body':
        limit = None
        if lim is not None and z3.is_true(m.eval(lim[0], True)):
            limit = m.eval(lim[1], True).as_long()
        op = {'op': 'read_body', 'chunks': chunks, 'limit': limit}
        r, r2 = replay([op])[0], replay([op], 'release')[0]
        rep.replayed += 1
        want = py_read_body(chunks, limit)
        got = r.get(flavour)
        if got != want and r == r2:
            rep.violation(f'C18:read_body:{flavour}', f'{flavour} read_body on chunks {chunks} limit {limit}: {what}; native {got}, reference {want}', {'op': op, 'native': r})
        else:
            rep.inconc(f'model mismatch C18 read_body {flavour}: chunks {chunks} limit {limit} ({what}) does not reproduce: native {got} reference {want}')
        return
    # decode entry: choose a concrete document consistent with the model's doc_valid / rest_is_ws
    sc = m.eval(status, True).as_long()
    c = CT_CHOICES[m.eval(ct, True).as_long()]
    dv, rw = z3.is_true(m.eval(doc.doc_valid, True)), z3.is_true(m.eval(doc.rest_is_ws, True))
    n_ok = len([x for x in chunks if x is not None])
    # re-materialise the body so that it has the abstract shape: valid doc "1" / invalid "x", rest " " / "y"
    text = (b'1' if dv else b'x') + (b' ' if rw else b' y')
    parts, k = [], 0
    live = [i for i, x in enumerate(chunks) if x is not None]
    for i, x in enumerate(chunks):
        if x is None:
            parts.append(None)
        elif i == live[-1]:
            parts.append(text[k:].hex())
        else:
            parts.append(text[k:k + 1].hex())
            k += 1
    kind = {'decode_serializable_response': 'value', 'decode_default_serializable_response': 'default', 'decode_empty_response': 'unit'}[entry]
    op = {'op': 'client_decode', 'kind': kind, 'status': sc, 'content_type': c.decode() if c else None, 'chunks': parts}
    r, r2 = replay([op])[0], replay([op], 'release')[0]
    rep.replayed += 1
    got = r.get(flavour, {})
    stream_err = any(x is None for x in parts)
    if sc == 204 and kind in ('default', 'unit'):
        want_ok = True
    else:
        want_ok = (c == b'application/json') and not stream_err and dv and rw and len(parts) > 0
    if ('ok' in got) != want_ok and r == r2:
        rep.violation(f'C18:{entry}:{flavour}', f'{flavour} {entry}: status {sc}, Content-Type {c!r}, body chunks {parts}: {what}; native {got}', {'op': op, 'native': r})
    else:
        rep.inconc(f'model mismatch C18 {entry} {flavour}: {op} ({what}) does not reproduce natively: {got}')


def py_read_body(chunks, limit):
    total = b''
    for c in chunks:
        if c is None:
            return {'err': 'stream'}
        total += bytes.fromhex(c)
        if limit is not None and len(total) > limit:
            return {'err': 'too large'}
    return {'ok': total.hex()}


def replay_cmd(path):
    w = json.load(open(path))
    print(json.dumps(replay([w['witness']['op']])[0], indent=1))
    return 0
