"""C09 — data of arguments not declared safe never reaches a safe-to-log channel.  Non-interference over the real
#[conjure_endpoints] expansion and helper MIR: two requests of the same shape that agree on the declared-safe arguments must give
the same safe observations (SafeParams, error safe params, text of safe causes)."""
import json, itertools
import z3
from mirsym.interp import St
from mirsym.values import Agg, Enum, Ptr, Seq, BStr, Panic, Unwind, bv, bstr, bstr_eq, bstr_py, val_eq, is_abnormal, UNIT
from mirsym.harness import Decider, finish_engine, replay
from mirsym import models_std
from checks import endpoints as ep
from checks.c19 import ENDPOINTS, L, concrete_request

SAFE_ARGS = {'e1': {'pathWire': 'pathLog', 'queryWire': 'queryLog'}, 'e2': {'x-bar': 'barLog'}}


def rename(v, mapping, st=None):
    """structural copy of a value with every z3 variable replaced by its primed twin"""
    if z3.is_expr(v):
        return z3.substitute(v, *mapping) if mapping else v
    if isinstance(v, BStr):
        return BStr(tuple(rename(b, mapping) for b in v.bytes), rename(v.len, mapping))
    if isinstance(v, Agg):
        return Agg(v.name, tuple(rename(x, mapping, st) for x in v.fields))
    if isinstance(v, Enum):
        return Enum(v.decl, rename(v.discr, mapping), tuple((i, rename(p, mapping, st)) for i, p in v.payloads))
    if isinstance(v, Seq):
        return Seq(tuple(rename(x, mapping, st) for x in v.items))
    if type(v) is tuple:
        return tuple(rename(x, mapping, st) for x in v)
    return v


def resolve(st, v, depth=0):
    """replace pointers by what they point to (observations are compared by value)"""
    if depth > 8:
        return v
    if isinstance(v, Ptr):
        return resolve(st, st.deref(v), depth + 1)
    if isinstance(v, Agg):
        return Agg(v.name, tuple(resolve(st, x, depth + 1) for x in v.fields))
    if isinstance(v, Enum):
        return Enum(v.decl, v.discr, tuple((i, resolve(st, p, depth + 1)) for i, p in v.payloads))
    if type(v) is tuple:
        return tuple(resolve(st, x, depth + 1) for x in v)
    return v


def observe(it, st, rv, ext):
    """the safe-to-log view of one outcome: {channel: value}"""
    obs = {}
    cell = st.deref(ext)
    sp = cell.fields[0]
    if sp is not None:
        for k, v in sp.fields[0]:
            obs['safe_params.' + k] = resolve(st, v)
    okp, errp = it.payload(rv, 'Ok'), it.payload(rv, 'Err')
    kind = 'ok' if errp is None else 'err'
    if errp is not None:
        e = errp.fields[0]
        for k, v in e.fields[4]:
            obs['error.safe.' + k] = resolve(st, v)
        if e.fields[2]:
            obs['error.safe_cause'] = resolve(st, e.fields[1])
    return kind, obs


def differs(a, b):
    try:
        return z3.Not(val_eq(a, b))
    except z3.Z3Exception:
        # values of different Rust types under one key (e.g. `actual` = 0i32 on the "absent" path, usize on the "repeated" path):
        # such paths differ in shape, which the pair condition already excludes
        return z3.BoolVal(False)


def run(rep, tier):
    prog = ep.endpoints_program()
    rep.bounds['requests'] = f'pairs of requests of equal shape (same multiplicities 0..2 of every source) per endpoint; values <= {L} symbolic bytes; safe arguments equal in both, all other bytes (incl. the auth header / cookie) arbitrary'
    for ename, e in ENDPOINTS.items():
        with rep.part('endpoint ' + ename):
            it = ep.make_interp(prog)
            it.models.insert(0, (__import__('re').compile(r'(?:core|std)::str::<impl str>::parse::<.*>'), M_parse_tracking, None))
            dec = Decider(rep, it)
            st = St()
            spec = {'path': {}, 'query': {}, 'header': {}}
            params = []
            for kind, wire, log, ty, mode in e['args']:
                if kind == 'auth':
                    p = ep.Param(st, ename + '_' + wire.replace('-', ''), len(ty) + 2, maxn=1, allow_nontext=True)
                    spec['header'][wire] = p
                elif kind == 'header':
                    p = ep.Param(st, ename + '_' + wire.replace('-', ''), L, allow_nontext=True)
                    spec['header'][wire] = p
                elif kind == 'path':
                    p = ep.Param(st, ename + '_' + wire, L, maxn=1, forbid=(0x2f,))
                    st.pc.append(p.n == 1)
                    spec['path'][wire] = p
                else:
                    p = ep.Param(st, ename + '_' + wire, L)
                    spec['query'][wire] = p
                params.append(p)
            base_pc = list(st.pc)
            endpoint, req, ext, log = ep.build_request(it, st, spec, L)
            fn = ep.handle_fn(prog, e['struct'])
            outs = []
            for s2, rv in it.run(fn, [endpoint, req, ext], st, ep.TENV):
                rep.states += 1
                if isinstance(rv, Unwind):
                    rep.inconc(f'C09 {ename}: unwind {rv.where}')
                    continue
                if isinstance(rv, Panic):
                    continue                      # panics are C19's subject
                kind, obs = observe(it, s2, rv, ext)
                outs.append((s2, kind, obs, s2.deref(log)))
            # primed copy of every input variable
            allv, safev, shapev = [], [], []
            for (kind, wire, lg, ty, mode), p in zip(e['args'], params):
                allv += p.vars()
                shapev.append(p.n)
                if wire in SAFE_ARGS[ename]:
                    safev += p.vars()
            mapping = [(v, z3.BitVec(str(v) + "'", v.size())) for v in allv]
            prime = dict((str(a), b) for a, b in mapping)
            agree = z3.And(*[v == prime[str(v)] for v in safev + shapev])
            npairs = 0
            for (s1, k1, o1, c1), (s2, k2, o2, c2) in itertools.combinations_with_replacement(outs, 2):
                # across different paths only argument values in SafeParams are comparable (which error occurred is control flow, not
                # data of an argument); error parameters and safe causes are compared between two runs of the same path
                common = [k for k in o1 if k in o2 and (s1 is s2 or k.startswith('safe_params.'))]
                if not common:
                    continue
                npairs += 1
                pc2 = [rename(c, mapping) for c in s2.pc]
                diffs = []
                for k in common:
                    diffs.append((k, differs(o1[k], rename(o2[k], mapping))))
                cond = z3.And(*pc2, agree, z3.Or(*[d for _, d in diffs]))
                m = dec.decide(f'{ename}:pair{npairs}:safe-observations-independent-of-unsafe-inputs', s1, cond, channels=common)
                if m is not None:
                    leak = [k for k, d in diffs if z3.is_true(m.eval(d, True))]
                    if __import__('os').environ.get('C09_DEBUG'):
                        for k in leak:
                            print('DEBUG', k, repr(o1[k])[:300], '|||', repr(rename(o2[k], mapping))[:300])
                    if report(rep, ename, e, params, m, prime, leak, quiet=True):
                        continue
                    # the model over-approximates what a std parse error reveals (its whole input); natively the message depends on
                    # the *kind* of failure.  Ask for witnesses whose two runs differ in that kind: empty vs non-empty, digits that
                    # overflow vs a non-digit
                    found = False
                    for p_ in params:
                        if found:
                            break
                        for v in p_.vals:
                            l1, l2 = v.len, prime[str(v.len)]
                            b1 = [prime[str(b)] for b in v.bytes]
                            digit = lambda b: z3.And(z3.UGE(b, 48), z3.ULE(b, 57))
                            for extra in (z3.And(l1 == 0, l2 != 0), z3.And(l1 != 0, l2 == 0),
                                          z3.And(l1 == len(v.bytes), l2 == len(v.bytes), *[digit(b) for b in v.bytes], z3.Not(digit(b1[0])))):
                                m2 = dec.decide(f'{ename}:pair{npairs}:witness-with-different-failure-kinds', s1, z3.And(cond, extra), channels=common)
                                if m2 is not None and report(rep, ename, e, params, m2, prime, [k for k, d in diffs if z3.is_true(m2.eval(d, True))], quiet=True):
                                    found = True
                                    break
                            if found:
                                break
                    if not found:
                        report(rep, ename, e, params, m, prime, leak)
            # positive part: decoded safe arguments are logged under their declared names
            for (s1, k1, o1, c1) in outs:
                if k1 == 'ok':
                    want = {'safe_params.' + lg for lg in SAFE_ARGS[ename].values()}
                    got = {k for k in o1 if k.startswith('safe_params.')}
                    if got != want:
                        def names_battery(ename=ename, want=want):
                            a = {'op': 'endpoint', 'endpoint': 'e1', 'path': {'pathWire': '37'}, 'query': [['queryWire', '61']], 'headers': [['x-foo', '37'], ['authorization', '42656172657220616263']]}
                            b = {'op': 'endpoint', 'endpoint': 'e2', 'path': {'p': '78'}, 'query': [['optWire', '35']], 'headers': [['x-bar', '7a'], ['cookie', '544f4b454e3d616263']]}
                            out = []
                            for o, r in zip((a, b), replay([a, b])):
                                keys = sorted('safe_params.' + x.split('=')[0] for x in r.get('safe_params', []))
                                exp = sorted('safe_params.' + lg for lg in SAFE_ARGS[o['endpoint']].values())
                                if not r.get('ok') or keys != exp:
                                    out.append(f'{o["endpoint"]}: native safe params {keys}, declared {exp} ({r.get("ok")})')
                            return out
                        rep.structural('C09:safe-params-names', f'endpoint {ename}: on success the safe-parameter set has keys {sorted(got)}, declared safe arguments are {sorted(want)}', {'got': sorted(got)}, names_battery)
            # positive part on error paths: a safe argument that was decoded before the first undecodable one is still recorded
            # ("once decoded"): arguments are decoded in declaration order, so if argument j is the first undecodable one every
            # declared-safe argument before j must be in the safe-parameter set of the error response
            from checks.c19 import corrupted
            args_ = list(zip(e['args'], params))
            for (s1, k1, o1, c1) in outs:
                if k1 != 'err':
                    continue
                got = {k for k in o1 if k.startswith('safe_params.')}
                for j, ((kind, wire, lg, ty, mode), pj) in enumerate(args_):
                    before_safe = {'safe_params.' + SAFE_ARGS[ename][w] for (kd, w, lg2, t2, m2), _ in args_[:j] if w in SAFE_ARGS[ename]}
                    missing = before_safe - got
                    if not missing:
                        continue
                    first_bad = z3.And(corrupted(kind, ty, mode, pj), *[z3.Not(corrupted(kd, t2, m2, pp)) for (kd, w, lg2, t2, m2), pp in args_[:j]])
                    m = dec.decide(f'{ename}:err-path:safe-arguments-before-{wire}-are-recorded', s1, first_bad, missing=sorted(missing))
                    if m is not None:
                        op = concrete_request(e, params, m)
                        op.update({'op': 'endpoint', 'endpoint': ename})
                        r_, r2_ = replay([op])[0], replay([op], 'release')[0]
                        rep.replayed += 1
                        nat = {'safe_params.' + x.split('=', 1)[0] for x in r_.get('safe_params', [])}
                        nat2 = {'safe_params.' + x.split('=', 1)[0] for x in r2_.get('safe_params', [])}
                        if not r_.get('ok') and (before_safe - nat) and (before_safe - nat2):
                            rep.violation('C09:safe-params-on-error', f'endpoint {ename}: argument {wire} is the first undecodable one, the declared-safe arguments decoded before it '
                                          f'({sorted(before_safe)}) are missing from the safe-parameter set of the error response: native {sorted(nat)}', {'request_a': op, 'request_b': op, 'native_a': r_, 'native_b': r2_})
                        else:
                            rep.inconc(f'model mismatch C09 {ename}: safe params {sorted(missing)} missing on the error path of {wire} in the model, native has {sorted(nat)} ({r_.get("ok")})')
                        break
            rep.extra.setdefault('pairs', {})[ename] = npairs
            if not npairs:
                rep.inconc(f'vacuity: C09 {ename} compared no pair of outcomes')
            finish_engine(rep, it)
    run_token_debug(rep)
    # twins: replay two concrete requests differing only in unsafe data and compare the real safe observations
    a = {'op': 'endpoint', 'endpoint': 'e1', 'path': {'pathWire': '37'}, 'query': [['queryWire', '61']], 'headers': [['x-foo', '7a7a'], ['authorization', '42656172657220616263']]}
    b = {'op': 'endpoint', 'endpoint': 'e1', 'path': {'pathWire': '37'}, 'query': [['queryWire', '61']], 'headers': [['x-foo', '7979'], ['authorization', '4261736963207a7a']]}
    ra, rb = replay([a, b])
    rep.replayed += 2
    if safe_view(ra) != safe_view(rb):
        rep.violation('C09:native-twin', f'native safe observations differ for requests that agree on safe arguments: {safe_view(ra)} vs {safe_view(rb)}', {'a': a, 'b': b})
    rep.assumptions += ['Display text of a std parse error is a function of its input (treated as input-dependent); ToStrError, bearer_token::ParseError and &str causes are constant messages',
                        'implicit flows (which error occurs, which parameters were logged before an error) are not data of an argument: only the values in channels present in both runs are compared',
                        'same models as C19']
    rep.outside += ['body arguments; response serialization; conjure_error internals (C17)']


def M_parse_tracking(it, ctx, args, st):
    """str::parse with an error value that carries its input (the message of a std parse error depends on the input)"""
    for s2, r in models_std.M_str_parse(it, ctx, args, st):
        ep_ = it.payload(r, 'Err') if isinstance(r, Enum) else None
        if ep_ is not None and isinstance(ep_.fields[0], Agg) and ep_.fields[0].name.startswith('std::num::'):
            yield s2, it.err(Agg(ep_.fields[0].name, (models_std.sval(s2, args[0]),)))
        else:
            yield s2, r


def safe_view(r):
    return {'safe_params': sorted(r.get('safe_params', [])), 'error_safe_params': sorted(r.get('error_safe_params', [])),
            'safe_cause': r.get('cause') if r.get('cause_safe') else None}


def run_token_debug(rep):
    """format!("{:?}", token) never contains the token: the Debug impl is executed with a recording Formatter"""
    from mirsym.dump import program
    from mirsym.interp import Interp
    from mirsym.harness import sym_str, find_fn
    prog = program(['conjure_object'])
    rec = {}

    def M_debug_tuple(it, ctx, args, st):
        yield st, Agg('DebugTuple', (st.ref((st.deref_all(args[1]),)),))

    def M_field(it, ctx, args, st):
        dt = st.deref_all(args[0])
        cell = dt.fields[0]
        st.write(cell, st.deref(cell) + (st.deref_all(args[1]),))
        yield st, args[0]

    def M_finish(it, ctx, args, st):
        dt = st.deref_all(args[0])
        st.aux['debug_out'] = st.deref(dt.fields[0])
        yield st, it.ok(UNIT)
    models = [(r'std::fmt::Formatter::<.*>::debug_tuple|std::fmt::Formatter::debug_tuple', M_debug_tuple),
              (r'std::fmt::DebugTuple::<.*>::field|std::fmt::DebugTuple::field', M_field),
              (r'std::fmt::DebugTuple::<.*>::finish|std::fmt::DebugTuple::finish', M_finish)]
    it = Interp(prog, models + models_std.MODELS, {}, unwind=8)
    dec = Decider(rep, it)
    st = St()
    ptr, s = sym_str(st, 'tok', 6)
    tok = st.ref(Agg('conjure_object::bearer_token::BearerToken', (s,)))
    fn = [k for k in prog.fns if '::bearer_token::' in k and k.endswith('::fmt') and 'BearerToken' in prog.fns[k].args[0][1] and 'Formatter' in prog.fns[k].args[1][1]]
    fn = [k for k in fn if any('debug_tuple' in t for _, t in prog.fns[k].blocks.values())]
    if len(fn) != 1:
        rep.inconc(f'C09: Debug impl of BearerToken not found uniquely: {fn}')
        return
    for s2, rv in it.run(fn[0], [tok, st.ref(Agg('std::fmt::Formatter', ()))], st):
        rep.states += 1
        out = s2.aux.get('debug_out', ())
        dep = [o for o in out if isinstance(o, BStr) and bstr_py(o) is None]
        rep.query('token-debug:output-is-constant', 'sat' if dep else 'unsat', 0.0, output=[bstr_py(o).decode() if isinstance(o, BStr) and bstr_py(o) is not None else '<symbolic>' for o in out])
        if dep or not out:
            r = replay([{'op': 'bearer', 'hex': b'secretTok'.hex()}])[0]
            if 'secretTok' in r['from_str'].get('debug', ''):
                rep.violation('C09:token-debug', f'BearerToken Debug output contains the token: {r["from_str"]["debug"]}', {'native': r})
            else:
                rep.inconc('C09: BearerToken Debug output is not a constant in the model but the native rendering is redacted')
    finish_engine(rep, it)


def report(rep, ename, e, params, m, prime, leak, quiet=False):
    op1 = concrete_request(e, params, m)

    class M2:
        def eval(self, t, c=True):
            return m.eval(z3.substitute(t, *[(z3.BitVec(k, v.size()), v) for k, v in prime.items()]), c)
    op2 = concrete_request(e, params, M2())
    for o in (op1, op2):
        o.update({'op': 'endpoint', 'endpoint': ename})
    r = replay([op1, op2])
    r2 = replay([op1, op2], 'release')
    rep.replayed += 2
    if any('error' in x for x in r):
        if not quiet:
            rep.inconc(f'C09 counterexample not replayable: {r}')
        return False
    def chan(x):
        d = {}
        for kv in x.get('safe_params', []):
            d['safe_params.' + kv.split('=', 1)[0]] = kv.split('=', 1)[1]
        for kv in x.get('error_safe_params', []):
            d['error.safe.' + kv.split('=', 1)[0]] = kv.split('=', 1)[1]
        if x.get('cause_safe'):
            d['error.safe_cause'] = x.get('cause')
        return {k: d.get(k) for k in leak}
    v1, v2 = chan(r[0]), chan(r[1])
    same_kind = True
    if v1 != v2 and all(k in v1 and v1[k] is not None and v2[k] is not None for k in leak) and [chan(x) for x in r2] == [v1, v2]:
        rep.violation('C09:leak:' + ','.join(sorted(set(k.split('.')[0] + '.' + k.split('.')[1] if k.count('.') else k for k in leak))),
                      f'endpoint {ename}: two requests that agree on every declared-safe argument and on shape give different safe observations {v1} vs {v2} (channels {leak})',
                      {'request_a': op1, 'request_b': op2, 'native_a': r[0], 'native_b': r[1]})
        return True
    if not quiet:
        rep.inconc(f'model mismatch C09 {ename}: channels {leak} differ in the model but native safe views are {v1} / {v2}')
    return False


def replay_cmd(path):
    w = json.load(open(path))
    print(json.dumps(replay([w['witness']['request_a'], w['witness']['request_b']]), indent=1))
    return 0
