"""C02 (objects) — the serde-derive expansion of generated objects, executed from MIR: which documents are accepted, what an
absent optional / collection field becomes, duplicate and unknown keys, and the field order / omission rules on the way out,
for the default, exhaustive and serialize-empty-collections configurations of the real generator."""
import json, re
import z3
from mirsym.interp import Interp, St
from mirsym import models_std, models_serde
from mirsym.models_std import fork_bool, sval, chain_ok
from mirsym.models_serde import de_err, rec_event
from mirsym.values import Agg, Enum, Ptr, Seq, BStr, UNIT, Panic, Unwind, bv, bstr, bstr_py, bstr_eq, is_abnormal
from mirsym.harness import Decider, finish_engine, replay, find_fns
from mirsym.types import ty_str, last_seg, strip_refs
from mirsym.parse import Unsupported
from checks import gentypes
from vlib.common import Inconclusive

P = lambda name, *a: ('path', name, tuple(a))
CONFIGS = [('types', False), ('exhaustive_types', False), ('empty_types', True)]          # (module, serialize_empty_collections)
# object of the IR family: wire name -> kind, in declaration order
OBJECTS = {'obj_d': ('ObjD', [('d', 'required'), ('od', 'optional'), ('ld', 'collection')])}
NMAX = 4


class ODoc:
    """an object document as key/value events: n <= NMAX members, key i from the declared wire names + the undeclared 'u';
    whether the payload under a key decodes is a free Boolean per member"""

    def __init__(self, st, keys, tag='o'):
        self.keys = keys
        self.n = z3.BitVec(tag + '_n', 64)
        st.pc.append(z3.ULE(self.n, NMAX))
        self.ksel = [z3.BitVec(f'{tag}_k{i}', 8) for i in range(NMAX)]
        st.pc += [z3.ULT(k, len(keys)) for k in self.ksel]
        self.pok = [z3.Bool(f'{tag}_payload_ok{i}') for i in range(NMAX)]

    def concrete(self, m):
        n = m.eval(self.n, True).as_long()
        return [(self.keys[m.eval(self.ksel[i], True).as_long()], z3.is_true(m.eval(self.pok[i], True))) for i in range(n)]


def de_models(doc):
    def T_ode_struct(it, ctx, args, st):
        de, name, flds, visitor = args
        st.aux['struct_name'] = bstr_py(sval(st, name))
        fl = st.deref_all(flds)
        st.aux['struct_fields'] = tuple(bstr_py(sval(st, f)) for f in fl.items) if isinstance(fl, Seq) else None
        cell = st.ref(0)
        yield from it.call_trait(ctx.fr, ctx.gargs[0], 'serde::de::Visitor', 'visit_map', [P('OMap')], [visitor, Agg('OMap', (cell,))], st)

    def T_next_key(it, ctx, args, st):
        cell = st.deref_all(args[0]).fields[0]
        pos = st.deref(cell)
        K = ctx.gargs[0]
        if pos >= NMAX:
            yield st, it.ok(it.none)
            return
        for s2, more in fork_bool(it, st, z3.UGT(doc.n, bv(pos))):
            if not more:
                yield s2, it.ok(it.none)
                continue
            for s3, ki in it.fork_on(s2, [doc.ksel[pos] == i for i in range(len(doc.keys))]):
                yield from chain_ok(it, it.call_trait(ctx.fr, K, 'serde::Deserialize', 'deserialize', [P('KeyDe')], [Agg('KeyDe', (doc.keys[ki],))], s3),
                                    lambda s, v: iter([(s, it.ok(it.some(v)))]))

    def T_next_value(it, ctx, args, st):
        cell = st.deref_all(args[0]).fields[0]
        pos = st.deref(cell)
        st.write(cell, pos + 1)
        T = ctx.gargs[0]
        if last_seg(strip_refs(T)[1]) == 'IgnoredAny':
            yield st, it.ok(Agg('IgnoredAny', ()))          # any JSON value is skipped
            return
        for s2, good in fork_bool(it, st, doc.pok[pos]):
            yield s2, (it.ok(Agg('Val', (pos, ty_str(T)))) if good else it.err(de_err('custom', 'payload does not decode')))

    def T_keyde_identifier(it, ctx, args, st):
        de, visitor = args
        yield from it.call_trait(ctx.fr, ctx.gargs[0], 'serde::de::Visitor', 'visit_str', [P('DeError')], [visitor, st.ref(bstr(de.fields[0]))], st)

    def M_missing_field(it, ctx, args, st):
        """serde::__private::de::missing_field::<T, E>(name): Ok(None) for an Option target, Err(missing_field(name)) otherwise (serde contract)"""
        T = ctx.gargs[0]
        if T[0] == 'path' and last_seg(T[1]) == 'Option':
            yield st, it.ok(it.none)
        else:
            yield st, it.err(de_err('missing_field', bstr_py(sval(st, args[0]))))

    def M_default(it, ctx, args, st):
        yield st, Agg('DefaultValue', (ty_str(ctx.self_ty),))
    tm = dict(models_serde.TMODELS)
    tm.update({('ODe', 'Deserializer', 'deserialize_struct'): T_ode_struct, ('OMap', 'MapAccess', 'next_key'): T_next_key,
               ('OMap', 'MapAccess', 'next_value'): T_next_value, ('KeyDe', 'Deserializer', 'deserialize_identifier'): T_keyde_identifier})
    models = [(r'.*::__private\d*::de::missing_field::<.*>', M_missing_field),
              (r'<(?:std|alloc|core)::(?:vec::Vec|option::Option|collections::BTreeMap|collections::BTreeSet|string::String)(?:<.*>)? as (?:std|core)::default::Default>::default', M_default)]
    return models, tm


def register_field_enum(prog, nfields):
    """serde-derive's fn-local `enum __Field { __field0, .., __ignore }` has no declaration in any source file: declare it (variant
    order as serde_derive emits it; a wrong guess would surface as non-reproducing counterexamples)"""
    from mirsym.decls import EnumDecl
    d = EnumDecl('__Field', [(f'__field{i}', i) for i in range(nfields)] + [('__ignore', nfields)], f'{gentypes.CRATE}::serde_derive_local')
    if not any(x.variants == d.variants for x in prog.src.enums.get('__Field', [])):
        prog.src.enums.setdefault('__Field', []).append(d)


def run_deserialize(rep, prog):
    for mod, (tyname, fields) in OBJECTS.items():
        keys = [f for f, _ in fields] + ['u']
        register_field_enum(prog, len(fields))
        for cfg, _empty in CONFIGS:
            fns = [k for k in find_fns(prog, 'deserialize', inpath=f'{gentypes.CRATE}::{cfg}::p::{mod}::') if re.search(r'>::deserialize$', k) and '::deserialize::<impl' not in k
                   and prog.fns[k].args and prog.fns[k].args[0][1] == '__D']
            if len(fns) != 1:
                raise Inconclusive(f'C02 harness: {cfg} <{tyname} as Deserialize>::deserialize not unique: {fns}')
            it = None
            st = St()
            doc = ODoc(st, keys)
            models, tm = de_models(doc)
            it = Interp(prog, models + models_serde.MODELS + models_std.MODELS, tm, unwind=NMAX + 4)
            it.assoc_types[('OMap', 'MapAccess', 'Error')] = P('DeError')
            it.assoc_types[('ODe', 'Deserializer', 'Error')] = P('DeError')
            it.assoc_types[('KeyDe', 'Deserializer', 'Error')] = P('DeError')
            dec = Decider(rep, it)
            # ---- the statement, as z3 terms over the document
            first = {}
            count = {}
            for f, kind in fields:
                fi = keys.index(f)
                occ = [z3.And(z3.UGT(doc.n, bv(i)), doc.ksel[i] == fi) for i in range(NMAX)]
                count[f] = z3.Sum([z3.If(o, 1, 0) for o in occ])
                first[f] = occ
            payload_bad = z3.Or(*[z3.And(z3.UGT(doc.n, bv(i)), doc.ksel[i] != keys.index('u'), z3.Not(doc.pok[i])) for i in range(NMAX)])
            dup = z3.Or(*[count[f] > 1 for f, _ in fields])
            missing_req = z3.Or(*[count[f] == 0 for f, kind in fields if kind == 'required'])
            accept = z3.And(z3.Not(dup), z3.Not(missing_req), z3.Not(payload_bad))
            np_ = n_ok = 0
            for s2, rv in it.run(fns[0], [Agg('ODe', ())], st, {'__D': P('ODe')}):
                np_ += 1
                rep.states += 1
                tag = f'object:{cfg}:{tyname}:deserialize:path{np_}'
                if isinstance(rv, Unwind):
                    rep.inconc(f'C02 {tag}: unwind {rv.where}')
                    continue
                if isinstance(rv, Panic):
                    m = dec.decide(tag + ':panic', s2, z3.BoolVal(True))
                    if m is not None:
                        report(rep, cfg, tyname, doc, m, fields, f'panic: {rv.msg}')
                    continue
                is_ok = it.variant_of(rv, 'Ok')
                conds = [is_ok != accept]
                okp = it.payload(rv, 'Ok')
                if okp is not None and it.feasible(s2, is_ok):
                    obj = okp.fields[0]
                    for fi, (f, kind) in enumerate(fields):
                        got = obj.fields[fi]
                        got = s2.deref_all(got) if isinstance(got, Ptr) else got
                        if isinstance(got, Agg) and got.name == 'Val':
                            pos = got.fields[0]
                            conds.append(z3.And(is_ok, z3.Not(first[f][pos])))           # the value comes from a member with this key
                        elif isinstance(got, Agg) and got.name == 'DefaultValue' or (isinstance(got, Enum) and got.decl.name.endswith('Option')):
                            # absent optional / collection: the empty value; must not happen while the key is present
                            conds.append(z3.And(is_ok, count[f] != 0))
                            if kind == 'required':
                                conds.append(is_ok)
                        else:
                            conds.append(is_ok)
                if st.aux.get('struct_fields') is not None:
                    pass
                m = dec.decide(tag + ':accepted<=>wire-spec & fields==members-or-empty', s2, z3.Or(*conds), members=NMAX)
                if m is not None:
                    report(rep, cfg, tyname, doc, m, fields, 'acceptance or field values differ from the wire format')
                    continue
                n_ok += int(it.feasible(s2, is_ok))
            if not n_ok:
                rep.inconc(f'vacuity: {cfg} {tyname} never accepted')
            finish_engine(rep, it)


def report(rep, cfg, tyname, doc, m, fields, what):
    members = doc.concrete(m)
    # materialise: declared payloads that decode are 1.5 / [1.5]; those that do not are "x"; the unknown key holds null
    sample = {'d': '1.5', 'od': '2.5', 'ld': '[3.5]'}
    parts = []
    for k, ok in members:
        v = 'null' if k == 'u' else (sample.get(k, '1') if ok else '"x"')
        parts.append(f'"{k}":{v}')
    text = '{' + ','.join(parts) + '}'
    op = {'op': 'gen_objd', 'doc': text}
    r, r2 = replay([op])[0], replay([op], 'release')[0]
    rep.replayed += 1
    key = {'types': 'default', 'exhaustive_types': 'exhaustive', 'empty_types': 'empty'}[cfg]
    want = py_spec(members, fields)
    if r.get(key) != want and r == r2:
        rep.violation('C02:object', f'{cfg} {tyname}: {what}; document {text}: native {r.get(key)!r}, wire format says {want!r}', {'op': op, 'native': r})
    else:
        rep.inconc(f'model mismatch C02 object {cfg} {tyname}: {text} ({what}) does not reproduce natively: {r.get(key)!r} (expected {want!r})')


def py_spec(members, fields):
    seen = {}
    for k, ok in members:
        if k == 'u':
            continue
        if k in seen or not ok:
            return 'err'
        seen[k] = True
    for f, kind in fields:
        if kind == 'required' and f not in seen:
            return 'err'
    return 'ok:' + ','.join(f'{f}={"set" if f in seen else "empty"}' for f, _ in fields)


def run_serialize(rep, prog):
    """the derived Serialize: declared order and wire names; a field is omitted exactly when it is an absent optional, or an
    empty collection and the configuration does not serialize empty collections"""
    def T_struct(it, ctx, args, st):
        rec_event(st, 'struct', (bstr_py(sval(st, args[1])), args[2]))
        yield st, it.ok(Agg('RecStruct', ()))

    def T_field(it, ctx, args, st):
        v = st.deref_all(args[2]) if isinstance(args[2], Ptr) else args[2]
        rec_event(st, 'field', (bstr_py(sval(st, args[1])), v))
        yield st, it.ok(UNIT)

    def T_skip(it, ctx, args, st):
        rec_event(st, 'skip', bstr_py(sval(st, args[1])))
        yield st, it.ok(UNIT)

    def T_end(it, ctx, args, st):
        rec_event(st, 'end', None)
        yield st, it.ok(UNIT)
    tm = dict(models_serde.TMODELS)
    tm.update({('Rec', 'Serializer', 'serialize_struct'): T_struct, ('RecStruct', 'SerializeStruct', 'serialize_field'): T_field,
               ('RecStruct', 'SerializeStruct', 'skip_field'): T_skip, ('RecStruct', 'SerializeStruct', 'end'): T_end})
    for mod, (tyname, fields) in OBJECTS.items():
        for cfg, empty in CONFIGS:
            fns = [k for k in find_fns(prog, 'serialize', inpath=f'{gentypes.CRATE}::{cfg}::p::{mod}::') if prog.fns[k].args and prog.fns[k].args[0][1].endswith(tyname)]
            if len(fns) != 1:
                raise Inconclusive(f'C02 harness: {cfg} <{tyname} as Serialize>::serialize not unique: {fns}')
            for present in ((True, True), (True, False), (False, True), (False, False)):          # optional present?, collection non-empty?
                it = Interp(prog, models_serde.MODELS + models_std.MODELS, tm, unwind=8)
                it.assoc_types[('Rec', 'Serializer', 'SerializeStruct')] = P('RecStruct')
                st = St()
                vals = {}
                obj_fields = []
                for f, kind in fields:
                    tok = Agg('FieldValue', (f,))
                    if kind == 'required':
                        v = tok
                    elif kind == 'optional':
                        v = it.some(tok) if present[0] else it.none
                    else:
                        v = Seq((tok,)) if present[1] else Seq(())
                    vals[f] = v
                    obj_fields.append(v)
                obj = Agg(f'{gentypes.CRATE}::{cfg}::p::{mod}::{tyname}', tuple(obj_fields))
                outs = list(it.run(fns[0], [st.ref(obj), Agg('Rec', ())], st, {'__S': P('Rec')}))
                rep.states += len(outs)
                # with serialize-empty-collections the library documents that absent optionals are written too (as null); the
                # statement only fixes their omission without the flag, so either form is accepted for optionals under the flag
                want = []
                either = set()
                for f, kind in fields:
                    omitted = (kind == 'optional' and not present[0]) or (kind == 'collection' and not present[1] and not empty)
                    if kind == 'optional' and not present[0] and empty:
                        either.add(f.encode())
                    if not omitted:
                        want.append(f.encode())
                good = len(outs) == 1 and not is_abnormal(outs[0][1])
                got = None
                if good:
                    ev = outs[0][0].aux.get('rec', ())
                    got = [e[1][0] for e in ev if e[0] == 'field']
                    good = [g for g in got if g not in either] == [w for w in want if w not in either] and ev and ev[0][0] == 'struct' and ev[-1][0] == 'end'
                rep.query(f'object:{cfg}:{tyname}:serialize:opt={int(present[0])}:coll={int(present[1])}:fields==declared-order-minus-omitted', 'unsat' if good else 'sat', 0.0,
                          fields=[x.decode() for x in (got or [])])
                if not good:
                    op = {'op': 'gen_objd_ser', 'opt': present[0], 'coll': present[1]}
                    r, r2 = replay([op])[0], replay([op], 'release')[0]
                    rep.replayed += 1
                    key = {'types': 'default', 'exhaustive_types': 'exhaustive', 'empty_types': 'empty'}[cfg]
                    wantk = [w.decode() for w in want]
                    eith = {e.decode() for e in either}
                    if [k for k in (r.get(key) or []) if k not in eith] != [k for k in wantk if k not in eith] and r == r2:
                        rep.violation('C02:object-serialize', f'{cfg} {tyname} (optional present={present[0]}, collection non-empty={present[1]}) serializes keys {r.get(key)}, wire format says {wantk}', {'op': op, 'native': r})
                    else:
                        rep.inconc(f'model mismatch C02 object serialize {cfg}: recorded {got}, expected {want}, native {r.get(key)}')
                finish_engine(rep, it)


def run(rep, prog):
    rep.bounds['objects'] = f'generated object ObjD (required, optional, list field) in the default, exhaustive and serialize-empty-collections configurations; documents of <= {NMAX} members over the declared keys and one undeclared key, any order, duplicates, undecodable payloads'
    run_deserialize(rep, prog)
    run_serialize(rep, prog)
    ops = [{'op': 'gen_objd', 'doc': '{"d":1.5}'}, {'op': 'gen_objd', 'doc': '{"ld":[1.0],"u":null,"d":2}'}, {'op': 'gen_objd', 'doc': '{"od":1.0}'}, {'op': 'gen_objd', 'doc': '{"d":1,"d":2}'}]
    res = replay(ops)
    rep.replayed += len(ops)
    want = ['ok:d=set,od=empty,ld=empty', 'ok:d=set,od=empty,ld=set', 'err', 'err']
    for o, r, w in zip(ops, res, want):
        for key in ('default', 'exhaustive', 'empty'):
            if r.get(key) != w:
                rep.violation('C02:object:twin', f'{o}: native {key} {r.get(key)!r}, wire format says {w!r}', {'op': o, 'native': r})
