"""C08 — an argument is generated safe-to-log exactly when all it can hold is safe (real memoised recursion of
conjure-codegen's Context on a symbolic type graph, every evaluation order, against the greatest-fixpoint oracle)."""
import os, json, re, shutil, subprocess, time
import z3
from mirsym.dump import program
from mirsym.interp import Interp, St
from mirsym import models_std
from mirsym.models_std import box
from mirsym.values import Agg, Enum, Ptr, Seq, BStr, UNIT, Panic, Unwind, bv, bstr, is_abnormal
from mirsym.harness import Decider, finish_engine, find_fn
from vlib.par import run_parallel
from vlib.common import BUILD, VERIF, REPO, env_offline, Inconclusive

T = 'conjure_codegen::types::'
KIND_NAMES = ['object', 'union', 'alias', 'enum']
SAF_NAMES = [None, 'SAFE', 'UNSAFE', 'DO_NOT_LOG']
# member type selector
TY_STRING, TY_BEARER, TY_REF, TY_OPT, TY_LIST, TY_MAP, TY_EXT, TY_SET = range(8)


def M_types_index(it, ctx, args, st):
    """HashMap<TypeName, TypeContext>::index: the harness keeps the map as a sequence indexed by the id stored in TypeName.name"""
    mp, name = args
    m = st.deref(mp)
    nm = st.deref_all(name)
    tid = nm.fields[0]
    conds = [tid == bv(k) for k in range(len(m.items))]
    for s2, k in it.fork_on(st, conds):
        yield s2, Ptr(mp.addr, mp.proj + (('i', k),))
    # a miss would panic ("key not found"): every reference in the harness graph is in range (generator input is validated IR)


MODELS = [(r'<std::collections::HashMap<types::type_name::TypeName, context::TypeContext> as std::ops::Index<&types::type_name::TypeName>>::index', M_types_index)]


class Graph:
    def __init__(self, it, st, N, F, alpha, depth=1, inner_tys=None):
        self.it, self.N, self.F = it, N, F
        self.kinds, self.safs, self.tys = alpha
        self.depth = depth                      # nesting depth of container member types (1: containers of references)
        self.inner_tys = inner_tys or (TY_REF,)   # what a container may hold below the root, above the last level
        self.v = {}
        self.cons = []
        self.ctx = self.build(st)

    def V(self, name, w=8):
        if name not in self.v:
            self.v[name] = z3.BitVec(name, w)
        return self.v[name]

    def oneof(self, var, allowed):
        self.cons.append(z3.Or(*[var == a for a in allowed]))

    def type_name(self, idv):
        return Agg(T + 'type_name::TypeName', (idv, bstr('p')))

    def log_safety_opt(self, saf):
        it = self.it
        ls = it.enum_decl(T + 'log_safety::LogSafety')
        inner = Enum(ls, z3.ZeroExt(56, saf) - 1, tuple((i, Agg(n, ())) for i, (n, _) in enumerate(ls.variants)))
        return it.opt(saf != 0, inner)

    def node_vars(self, base, path):
        """selector and target variables of the type-expression node `path` below member `base`"""
        return self.V(f'ty{base}{path}'), self.V(f'tgt{base}{path}', 64)

    def sym_type(self, st, ty, tgt, base=None, path='', level=1):
        """Type value whose shape is selected by ty, referring to named type tgt; below the root (nesting depth > 1) the item
        types of containers are themselves symbolic type expressions"""
        it = self.it
        td = it.enum_decl(T + 'type_::Type')
        pd = it.enum_decl(T + 'primitive_type::PrimitiveType')

        def child(c):
            if base is None or level >= self.depth:
                return it.mk_enum(td, 'Reference', self.type_name(tgt))
            cty, ctgt = self.node_vars(base, path + c)
            allowed = self.inner_tys if level + 1 < self.depth else tuple(t for t in self.inner_tys if t in (TY_STRING, TY_BEARER, TY_REF, TY_EXT))
            self.oneof(cty, allowed)
            self.cons.append(z3.ULT(ctgt, self.N))
            return self.sym_type(st, cty, ctgt, base, path + c, level + 1)
        ref = lambda c='a': child(c)
        prim = Enum(pd, z3.If(ty == TY_BEARER, bv(pd.index['Bearertoken']), bv(pd.index['String'])),
                    ((pd.index['String'], Agg('String', ())), (pd.index['Bearertoken'], Agg('Bearertoken', ()))))
        string = it.mk_enum(td, 'Primitive', it.mk_enum(pd, 'String'))
        pay = {'Primitive': (prim,), 'Reference': (self.type_name(tgt),)}
        disc = z3.If(z3.Or(ty == TY_STRING, ty == TY_BEARER), bv(td.index['Primitive']), bv(td.index['Reference']))
        if TY_OPT in self.tys:
            pay['Optional'] = (Agg(T + 'optional_type::OptionalType', (box(st, ref()),)),)
            disc = z3.If(ty == TY_OPT, bv(td.index['Optional']), disc)
        if TY_LIST in self.tys:
            pay['List'] = (Agg(T + 'list_type::ListType', (box(st, ref()),)),)
            disc = z3.If(ty == TY_LIST, bv(td.index['List']), disc)
        if TY_SET in self.tys:
            pay['Set'] = (Agg(T + 'set_type::SetType', (box(st, ref()),)),)
            disc = z3.If(ty == TY_SET, bv(td.index['Set']), disc)
        if TY_MAP in self.tys:
            pay['Map'] = (Agg(T + 'map_type::MapType', (box(st, ref('k')), box(st, ref('v')))),)
            disc = z3.If(ty == TY_MAP, bv(td.index['Map']), disc)
        if TY_EXT in self.tys:
            pay['External'] = (Agg(T + 'external_reference::ExternalReference', (box(st, self.type_name(bv(0))), box(st, it.mk_enum(td, 'Reference', self.type_name(tgt))))),)     # fallback: the named type tgt (may well be safe)
            disc = z3.If(ty == TY_EXT, bv(td.index['External']), disc)
        return it.sym_enum(td, disc, pay)

    def build(self, st):
        it, N, F = self.it, self.N, self.F
        dd = it.enum_decl(T + 'type_definition::TypeDefinition')
        cl = it.enum_decl('conjure_codegen::context::CachedLogSafety')
        types = []
        for i in range(N):
            kind = self.V(f'kind{i}')
            self.oneof(kind, self.kinds)
            fields = []
            for k in range(F):
                saf, ty, tgt = self.V(f'saf{i}_{k}'), self.V(f'ty{i}_{k}'), self.V(f'tgt{i}_{k}', 64)
                self.oneof(saf, self.safs)
                self.oneof(ty, self.tys)
                self.cons.append(z3.ULT(tgt, N))
                fields.append(Agg(T + 'field_definition::FieldDefinition',
                                  (bstr(f'f{k}'), box(st, self.sym_type(st, ty, tgt, f'{i}_{k}')), it.none, it.none, self.log_safety_opt(saf))))
            tn = lambda: box(st, self.type_name(bv(i)))
            obj = Agg(T + 'object_definition::ObjectDefinition', (tn(), Seq(tuple(fields)), it.none))
            uni = Agg(T + 'union_definition::UnionDefinition', (tn(), Seq(tuple(fields)), it.none))
            f0 = fields[0]
            ali = Agg(T + 'alias_definition::AliasDefinition', (tn(), f0.fields[1], it.none, f0.fields[4]))
            enu = Agg(T + 'enum_definition::EnumDefinition', (tn(), Seq(()), it.none))
            pay = {}
            disc = bv(dd.index['Object'])
            for code, name, val in ((0, 'Object', obj), (1, 'Union', uni), (2, 'Alias', ali), (3, 'Enum', enu)):
                if code in self.kinds:
                    pay[name] = (val,)
                    disc = z3.If(kind == code, bv(dd.index[name]), disc)
            tdef = it.sym_enum(dd, disc, pay)
            cell = Agg('std::cell::RefCell', (it.mk_enum(cl, 'Uncomputed'),))
            types.append(Agg('conjure_codegen::context::TypeContext', (tdef, UNIT, UNIT, cell)))
        ctx = Agg('conjure_codegen::context::Context', (Seq(tuple(types)), z3.BoolVal(False), z3.BoolVal(False), Seq(()), it.none))
        return st.ref(ctx)

    def arg(self, st, tid, saf=None, tag0=None):
        it = self.it
        td = it.enum_decl(T + 'type_::Type')
        ty = it.mk_enum(td, 'Reference', self.type_name(tid))
        safety = self.log_safety_opt(saf) if saf is not None else it.none
        tags = Seq((BStr((tag0, bv(ord('a'), 8), bv(ord('f'), 8), bv(ord('e'), 8)), bv(4)),)) if tag0 is not None else Seq(())
        a = Agg(T + 'argument_definition::ArgumentDefinition', (bstr('x'), box(st, ty), UNIT, safety, it.none, Seq(()), tags))
        return st.ref(a)

    def oracle(self):
        """greatest fixpoint of the statement's rules over the symbolic graph: safe[i] as z3 Bools"""
        N, F = self.N, self.F
        safe = [z3.BoolVal(True)] * N
        for _ in range(N + 1):
            new = []
            for i in range(N):
                mem = []
                for k in range(F):
                    saf, ty, tgt = self.V(f'saf{i}_{k}'), self.V(f'ty{i}_{k}'), self.V(f'tgt{i}_{k}', 64)
                    tsafe = self.expr_safe(safe, f'{i}_{k}', '', 1, ty, tgt)
                    mem.append(z3.Or(saf == 1, z3.And(saf == 0, tsafe)))
                kind = self.V(f'kind{i}')
                new.append(z3.If(kind == 0, z3.And(*mem), z3.If(kind == 2, mem[0], kind == 3)))
            safe = new
        return safe

    def expr_safe(self, safe, base, path, level, ty, tgt):
        """the statement's rule for a type expression: references are as safe as their target, optionals and collections as safe as
        their contents (maps: key and value), undeclared primitives, bearer tokens and external types are not safe"""
        via_ref = z3.Or(*[z3.And(tgt == j, safe[j]) for j in range(self.N)])
        if level >= self.depth:
            return z3.And(z3.Or(ty == TY_REF, ty == TY_OPT, ty == TY_LIST, ty == TY_SET, ty == TY_MAP), via_ref)

        def sub(c):
            cty, ctgt = self.node_vars(base, path + c)
            return self.expr_safe(safe, base, path + c, level + 1, cty, ctgt)
        return z3.Or(z3.And(ty == TY_REF, via_ref), z3.And(z3.Or(ty == TY_OPT, ty == TY_LIST, ty == TY_SET), sub('a')), z3.And(ty == TY_MAP, sub('k'), sub('v')))

    def concrete_expr(self, m, base, path, level, ty, tgt):
        t, g = m.eval(ty, True).as_long(), m.eval(tgt, True).as_long()
        if level >= self.depth or t not in (TY_OPT, TY_LIST, TY_SET, TY_MAP):
            return (t, g)
        kids = ['k', 'v'] if t == TY_MAP else ['a']
        return (t, g, tuple(self.concrete_expr(m, base, path + c, level + 1, *self.node_vars(base, path + c)) for c in kids))

    def concrete(self, m):
        """the graph of a solver model as plain python"""
        g = []
        for i in range(self.N):
            kind = m.eval(self.V(f'kind{i}'), True).as_long()
            fs = []
            for k in range(self.F):
                e = self.concrete_expr(m, f'{i}_{k}', '', 1, self.V(f'ty{i}_{k}'), self.V(f'tgt{i}_{k}', 64))
                fs.append((m.eval(self.V(f'saf{i}_{k}'), True).as_long(), e[0], e[1]) + ((e[2],) if len(e) > 2 else ()))
            g.append((kind, fs))
        return g


# ------------------------------------------------------------------ python reference + IR emission for the native replay
def py_oracle(g):
    N = len(g)
    safe = [True] * N
    for _ in range(N + 1):
        new = []
        for kind, fs in g:
            mem = [f[0] == 1 or (f[0] == 0 and py_expr_safe(safe, f[1:])) for f in fs]
            new.append(all(mem) if kind == 0 else mem[0] if kind == 2 else kind == 3)
        safe = new
    return safe


def py_expr_safe(safe, e):
    ty, tgt = e[0], e[1]
    if len(e) > 2 and ty in (TY_OPT, TY_LIST, TY_SET, TY_MAP):
        return all(py_expr_safe(safe, c) for c in e[2])
    return ty in (TY_REF, TY_OPT, TY_LIST, TY_SET, TY_MAP) and safe[tgt]


def ir_type(ty, tgt, kids=None):
    if kids is not None and ty in (TY_OPT, TY_LIST, TY_SET, TY_MAP):
        sub = [ir_type(*c) for c in kids]
        if ty == TY_OPT:
            return {'type': 'optional', 'optional': {'itemType': sub[0]}}
        if ty == TY_LIST:
            return {'type': 'list', 'list': {'itemType': sub[0]}}
        if ty == TY_SET:
            return {'type': 'set', 'set': {'itemType': sub[0]}}
        return {'type': 'map', 'map': {'keyType': sub[0], 'valueType': sub[1]}}
    return ir_type_flat(ty, tgt)


def ir_type_flat(ty, tgt):
    ref = {'type': 'reference', 'reference': {'name': f'T{tgt}', 'package': 'p'}}
    if ty == TY_STRING:
        return {'type': 'primitive', 'primitive': 'STRING'}
    if ty == TY_BEARER:
        return {'type': 'primitive', 'primitive': 'BEARERTOKEN'}
    if ty == TY_REF:
        return ref
    if ty == TY_OPT:
        return {'type': 'optional', 'optional': {'itemType': ref}}
    if ty == TY_LIST:
        return {'type': 'list', 'list': {'itemType': ref}}
    if ty == TY_SET:
        return {'type': 'set', 'set': {'itemType': ref}}
    if ty == TY_MAP:
        return {'type': 'map', 'map': {'keyType': ref, 'valueType': ref}}
    return {'type': 'external', 'external': {'externalReference': {'name': 'Ext', 'package': 'com.x'}, 'fallback': ref}}


def ir_json(g, calls):
    """calls: list of (type index, arg safety code, tag)"""
    types = []
    for i, (kind, fs) in enumerate(g):
        tn = {'name': f'T{i}', 'package': 'p'}
        def fld(k, f):
            d = {'fieldName': f'f{k}', 'type': ir_type(*f[1:])}
            if f[0]:
                d['safety'] = SAF_NAMES[f[0]]
            return d
        if kind == 0:
            types.append({'type': 'object', 'object': {'typeName': tn, 'fields': [fld(k, f) for k, f in enumerate(fs)]}})
        elif kind == 1:
            types.append({'type': 'union', 'union': {'typeName': tn, 'union': [fld(k, f) for k, f in enumerate(fs)]}})
        elif kind == 2:
            d = {'typeName': tn, 'alias': ir_type(*fs[0][1:])}
            if fs[0][0]:
                d['safety'] = SAF_NAMES[fs[0][0]]
            types.append({'type': 'alias', 'alias': d})
        else:
            types.append({'type': 'enum', 'enum': {'typeName': tn, 'values': [{'value': 'A'}]}})
    eps = []
    for n, (tid, asaf, tag) in enumerate(calls):
        arg = {'argName': 'x', 'type': ir_type(TY_REF, tid), 'paramType': {'type': 'body', 'body': {}}, 'markers': [], 'tags': [tag] if tag else []}
        if asaf:
            arg['safety'] = SAF_NAMES[asaf]
        eps.append({'endpointName': f'e{n}', 'httpMethod': 'POST', 'httpPath': f'/e{n}', 'args': [arg], 'markers': [], 'tags': []})
    return {'version': 1, 'errors': [], 'types': types, 'services': [{'serviceName': {'name': 'Svc', 'package': 'p'}, 'endpoints': eps}], 'extensions': {}}


_gen_built = {}


def gen_binary(profile='dev'):
    if profile in _gen_built:
        return _gen_built[profile]
    from vlib.common import harness_crate
    rdir = harness_crate('replay-gen')
    shutil.copyfile(os.path.join(REPO, 'Cargo.lock'), os.path.join(rdir, 'Cargo.lock'))
    tdir = os.path.join(BUILD, 'replay-gen-target')
    p = subprocess.run(['cargo', 'build', '--offline'] + (['--release'] if profile == 'release' else []), cwd=rdir,
                       env=env_offline({'CARGO_TARGET_DIR': tdir}), capture_output=True, text=True, timeout=1800)
    if p.returncode != 0:
        raise Inconclusive('replay-gen does not build against the current tree: ' + p.stderr[-600:])
    _gen_built[profile] = os.path.join(tdir, 'release' if profile == 'release' else 'debug', 'verif-replay-gen')
    return _gen_built[profile]


def run_generator(ir, profile='dev'):
    """-> {endpoint name: arg marked safe?} from the server trait the real generator emits"""
    work = os.path.join(BUILD, 'gen-work', f'{os.getpid()}-{int(time.time() * 1e6)}')
    os.makedirs(work)
    try:
        irp = os.path.join(work, 'ir.json')
        json.dump(ir, open(irp, 'w'))
        out = os.path.join(work, 'out')
        p = subprocess.run([gen_binary(profile), irp, out], capture_output=True, text=True, timeout=300)
        if p.returncode != 0:
            return None, p.stdout + p.stderr
        src = open(os.path.join(out, 'p', 'svc.rs')).read()
        res = {}
        # the blocking server trait: `fn eN(&self, #[body(deserializer = ..., safe)] x: ...`
        for m in re.finditer(r'#\[endpoint\([^\]]*?name = "?(\w+)"?[^\]]*\)\]\s*fn (\w+)\s*\((.*?)\)\s*->', src, re.S):
            res.setdefault(m.group(2), bool(re.search(r'#\[body\([^\]]*\bsafe\b[^\]]*\)\]', m.group(3))))
        if not res:
            for m in re.finditer(r'\bfn (e\d+)\s*\((.*?)\)\s*->', src, re.S):
                if '#[body' in m.group(2):
                    res.setdefault(m.group(1), bool(re.search(r'#\[body\([^\]]*\bsafe\b[^\]]*\)\]', m.group(2))))
        return res, src
    finally:
        shutil.rmtree(work, ignore_errors=True)


def classify(g, calls):
    """structural key of a counterexample: is a type on a reference cycle involved?"""
    N = len(g)
    reach = [[False] * N for _ in range(N)]
    for i, (kind, fs) in enumerate(g):
        for k, f in enumerate(fs):
            saf = f[0]
            if kind in (0, 1) or (kind == 2 and k == 0):
                def refs(e):
                    if len(e) > 2 and e[0] in (TY_OPT, TY_LIST, TY_SET, TY_MAP):
                        return [r for c in e[2] for r in refs(c)]
                    return [e[1]] if e[0] in (TY_REF, TY_OPT, TY_LIST, TY_SET, TY_MAP) else []
                if saf == 0:
                    for tgt in refs(f[1:]):
                        reach[i][tgt] = True
    for k in range(N):
        for i in range(N):
            for j in range(N):
                reach[i][j] = reach[i][j] or (reach[i][k] and reach[k][j])
    cyc = any(reach[i][i] for i in range(N))
    nested = any(len(f) > 3 for _, fs in g for f in fs)
    return 'recursive-type-memoisation' if cyc else ('nested-expression' if nested else 'acyclic')


def run(rep, tier):
    prog = program(['conjure_codegen'])
    entry = find_fn(prog, 'is_safe_arg', inpath='::context::')
    FULL = ((0, 1, 2, 3), (0, 1, 2, 3), (TY_STRING, TY_BEARER, TY_REF, TY_OPT, TY_LIST, TY_MAP, TY_EXT, TY_SET))
    REDUCED = ((0, 1), (0, 1, 2), (TY_STRING, TY_REF))
    MID = ((0, 1, 2, 3), (0, 1, 3), (TY_STRING, TY_BEARER, TY_REF, TY_OPT))
    # nested type expressions (map<K, map<K2, V>>, list<optional<map<..>>>, ..): one object/enum pair, one member, expression depth 3
    NESTED = ((0, 3), (0, 1), (TY_STRING, TY_REF, TY_OPT, TY_LIST, TY_MAP))
    NEST_INNER = (TY_STRING, TY_REF, TY_OPT, TY_MAP)
    if tier == 'quick':
        plans = [('N2-full', 2, 2, FULL, 1), ('N3-reduced', 3, 2, REDUCED, 1), ('N2-nested3', 2, 1, NESTED, 0, 3, NEST_INNER)]
    else:
        # (three types over the mid alphabet and four types over the reduced one do not finish: feasibility queries time out)
        # (N3-reduced with two prior calls is decidable but sits at the edge of the 60 s feasibility-query budget when other checks run
        #  beside it -- a tier that is sometimes inconclusive on the unchanged tree is worse than a smaller one, so it is left out)
        plans = [('N2-full', 2, 2, FULL, 1), ('N2-full-2prior', 2, 2, FULL, 2), ('N3-reduced', 3, 2, REDUCED, 1),
                 ('N2-nested3', 2, 1, NESTED, 0, 3, NEST_INNER), ('N2-nested3-1prior', 2, 1, NESTED, 1, 3, NEST_INNER)]
    rep.bounds['graphs'] = {p[0]: dict(types=p[1], members=p[2], kinds=[KIND_NAMES[k] for k in p[3][0]], safety=[SAF_NAMES[s] for s in p[3][1]],
                                       member_types=list(p[3][2]), prior_calls=p[4], expression_depth=(p[5] if len(p) > 5 else 1)) for p in plans}
    gen_binary('dev')          # built once before the configurations fan out over processes
    # one job per plan and per type the call under test refers to (the cases partition the plan's query)
    jobs = [(p, last) for p in plans for last in range(p[1])]

    def worker(sub, job):
        plan, last = job
        name, N, F, alpha, prior = plan[:5]
        run_plan(sub, prog, entry, name, N, F, alpha, prior, last, *(plan[5:] if len(plan) > 5 else ()))
    run_parallel(rep, jobs, worker)
    rep.assumptions += ['HashMap<TypeName, TypeContext> indexing = lookup by the referenced type (every reference resolves: validated IR)',
                        'RefCell borrow flags are not modelled (a double borrow would panic; none of the executed paths nests borrows of one cell)',
                        'std: Option::{as_ref, cloned, or_else}, slice::iter, Iterator::{map, try_fold, fold, any} by contract, calling the real closures']
    rep.outside += ['type graphs with more types / members than the listed plans', 'the token emission (quote!) is covered by the native replay only']


def run_plan(rep, prog, entry, name, N, F, alpha, prior, last_target=None, depth=1, inner=None):
    it = Interp(prog, models_std.MODELS + MODELS, {}, unwind=F + 6,
                merge=(r'::context::<impl at [^>]*>::(type_log_safety|combine_safety|is_safe_arg|is_legacy_safe|primitive_log_safety)',))
    dec = Decider(rep, it)
    st = St()
    g = Graph(it, st, N, F, alpha, depth, inner)
    st.pc += g.cons
    order = [z3.BitVec(f'call{k}', 64) for k in range(prior + 1)]
    st.pc += [z3.ULT(o, N) for o in order]
    if last_target is not None:
        st.pc.append(order[-1] == last_target)
        name = f'{name}:last=T{last_target}'
    asaf = z3.BitVec('asaf', 8)
    tag0 = z3.BitVec('tag0', 8)
    st.pc += [z3.ULE(asaf, 3), z3.Or(tag0 == ord('s'), tag0 == ord('t'))]
    safe = g.oracle()

    def calls(st, k):
        """run the k-th call; yields (state) after it; the last call is the one under test"""
        last = k == prior
        a = g.arg(st, order[k], asaf if last else None, tag0 if last else None)
        for s2, rv in it.invoke(entry, [g.ctx, a], st, {}):
            if is_abnormal(rv):
                yield s2, rv
            elif last:
                yield s2, rv
            else:
                yield from calls(s2, k + 1)
    npaths = 0
    found = None
    for s2, rv in calls(st, 0):
        npaths += 1
        rep.states += 1
        if isinstance(rv, Unwind):
            rep.inconc(f'C08 {name}: unwinding assertion at {rv.where}')
            continue
        if isinstance(rv, Panic):
            m = dec.decide(f'{name}:panic', s2, z3.BoolVal(True))
            if m is not None:
                report(rep, g, m, order, asaf, tag0, f'panic in the generator: {rv.msg}')
            continue
        type_safe = z3.Or(*[z3.And(order[-1] == j, safe[j]) for j in range(N)])
        exp = z3.Or(asaf == 1, z3.And(asaf == 0, z3.Or(tag0 == ord('s'), type_safe)))
        m = dec.decide(f'{name}:path{npaths}:is_safe_arg==greatest-fixpoint-oracle-for-every-order', s2, rv != exp,
                       graph=f'{N} types x {F} members', prior_calls=prior)
        if m is not None and found is None:
            found = True
            report(rep, g, m, order, asaf, tag0, 'is_safe_arg differs from the greatest fixpoint of the log-safety rules')
    # reachability twin: some graph where the argument is safe only through its (recursive) type, replayed on the generator
    m = dec.witness(f'{name}:safe-through-type', st, z3.And(asaf == 0, tag0 != ord('s'), z3.Or(*[z3.And(order[-1] == j, safe[j], g.V(f'kind{j}') == 0) for j in range(N)])))
    gg = g.concrete(m)
    tid = m.eval(order[-1], True).as_long()
    res, src = run_generator(ir_json(gg, [(tid, 0, None)]))
    rep.replayed += 1
    if res is None or res.get('e0') is not True:
        rep.inconc(f'model mismatch: twin graph {gg} arg T{tid} should be generated safe; generator says {res}')
    finish_engine(rep, it)
    rep.extra.setdefault('plans', {})[name] = dict(paths=npaths, feasibility_queries=it.nqueries, merges=it.merged, blocks=it.blocks)


def report(rep, g, m, order, asaf, tag0, what):
    gg = g.concrete(m)
    seq = [m.eval(o, True).as_long() for o in order]
    a = m.eval(asaf, True).as_long()
    tag = 'safe' if m.eval(tag0, True).as_long() == ord('s') else None
    calls = [(t, 0, None) for t in seq[:-1]] + [(seq[-1], a, tag)]
    ir = ir_json(gg, calls)
    res, src = run_generator(ir)
    res2, _ = run_generator(ir, 'release')
    rep.replayed += 1
    if res is None:
        rep.inconc(f'C08 counterexample is not accepted by the generator: {src[-300:]}')
        return
    want = []
    ps = py_oracle(gg)
    for (t, sa, tg) in calls:
        want.append(sa == 1 or (sa == 0 and (tg == 'safe' or ps[t])))
    got = [res.get(f'e{k}') for k in range(len(calls))]
    desc = '; '.join(f'T{i}={KIND_NAMES[k]}{[(SAF_NAMES[f[0]],) + tuple(f[1:]) for f in fs]}' for i, (k, fs) in enumerate(gg))
    if got != want and res == res2:
        key = 'C08:' + classify(gg, calls)
        rep.violation(key, f'{what}: graph {desc}; endpoints in order take {["T%d" % c[0] for c in calls]} (last arg safety={SAF_NAMES[a]}, tags={[tag] if tag else []}); '
                      f'generator marks safe={got}, rules say {want}', {'ir': ir, 'generated_safe': got, 'expected_safe': want})
    else:
        rep.inconc(f'model mismatch C08: solver counterexample does not reproduce on the generator: graph {desc} calls {calls} got {got} want {want}')


def replay_cmd(path):
    w = json.load(open(path))
    res, _ = run_generator(w['witness']['ir'])
    print(json.dumps({'generated_safe': res, 'expected_safe': w['witness']['expected_safe']}, indent=1))
    return 0
