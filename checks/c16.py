"""C16 — bearer tokens and resource identifiers are validated exactly on every entry path."""
import time, re
import z3
from mirsym.dump import program
from mirsym.interp import Interp, St
from mirsym import models_std, models_serde
from mirsym.values import BStr, Ptr, Agg, Enum, Panic, Unwind, bv, bstr_eq, is_abnormal
from mirsym.harness import find_fn, sym_str, in_class, model_bytes, Decider, finish_engine, replay
from vlib.common import Inconclusive

TOKEN_CLASS = 'A-Za-z0-9._~+/-'


def bearer_oracle(s):
    """^[A-Za-z0-9\\-._~+/]+=*$ over the first len bytes"""
    K = len(s.bytes)
    alts = []
    for p in range(1, K + 1):
        conds = [z3.UGE(s.len, bv(p))]
        for i, b in enumerate(s.bytes):
            if i < p:
                conds.append(in_class(b, TOKEN_CLASS))
            else:
                conds.append(z3.Or(z3.UGE(bv(i), s.len), b == ord('=')))
        alts.append(z3.And(*conds))
    return z3.Or(*alts)


def run_bearer(rep, tier):
    K = 16 if tier == 'quick' else 24
    rep.bounds['bearer'] = f'all byte strings of <= {K} bytes that are valid UTF-8 (the &str invariant), every byte value admitted'
    prog = program(['conjure_object'])
    it = Interp(prog, models_std.MODELS + models_serde.MODELS, models_serde.TMODELS, unwind=K + 4)
    dec = Decider(rep, it)
    fn = lambda suffix, mod='bearer_token': [k for k in prog.fns if k.endswith(suffix) and '::' + mod + '::' in k]
    entries = {
        'is_valid': ([k for k in prog.fns if k.endswith('bearer_token::is_valid')][0], 'bool'),
        'from_str': (fn('::from_str')[0], 'result'),
        'new': (fn('::new')[0], 'result'),
        'from_plain': (find_fn(prog, 'from_plain', ret='BearerToken'), 'result'),
        'deserialize': (fn('::deserialize')[0], 'de'),
    }
    for ename, (fname, kind) in entries.items():
        st = St()
        ptr, s = sym_str(st, 's', K)
        oracle = bearer_oracle(s)
        tenv = {}
        args = [ptr]
        if kind == 'de':
            # the string arrives through a Deserializer: the event player delivers it as an owned String
            args = [Agg('StrEventDe', (s,))]
            tenv = {'D': ('path', 'StrEventDe', ())}
        npaths = 0
        seen = {'acc': 0, 'rej': 0}
        for s2, rv in it.run(fname, args, st, tenv):
            npaths += 1
            rep.states += 1
            if isinstance(rv, Unwind):
                rep.inconc(f'bearer {ename}: unwinding assertion failed at {rv.where}')
                continue
            if isinstance(rv, Panic):
                m = dec.decide(f'bearer:{ename}:panic', s2, z3.BoolVal(True))
                report(rep, 'bearer', ename, model_bytes(m, s), f'panic: {rv.msg}')
                continue
            if kind == 'bool':
                accepted = rv
                rendered = None
            else:
                accepted = it.variant_of(rv, 'Ok')
                okp = it.payload(rv, 'Ok')
                rendered = okp.fields[0] if okp is not None else None
            m = dec.decide(f'bearer:{ename}:path{npaths}:accept<=>grammar', s2, accepted != oracle, bound=K)
            if m is not None:
                report(rep, 'bearer', ename, model_bytes(m, s), 'acceptance differs from ^[A-Za-z0-9\\-._~+/]+=*$')
                continue
            if rendered is not None and it.feasible(s2, accepted):
                # an accepted token stores exactly the input (as_str / into_string / Serialize / Plain all hand out field 0)
                tok = rendered
                inner = tok.fields[0] if isinstance(tok, Agg) else tok
                inner = s2.deref_all(inner) if isinstance(inner, Ptr) else inner
                m = dec.decide(f'bearer:{ename}:path{npaths}:stored==input', s2, z3.And(accepted, z3.Not(bstr_eq(inner, s))), bound=K)
                if m is not None:
                    report(rep, 'bearer', ename, model_bytes(m, s), 'accepted token does not render back to the input')
            for key, c in (('acc', accepted), ('rej', z3.Not(accepted))):
                if it.feasible(s2, c):
                    seen[key] += 1
        if not seen['acc'] or not seen['rej']:
            rep.inconc(f'vacuity: bearer {ename} reached accept={seen["acc"]} reject={seen["rej"]} paths')
    # reachability twins, replayed natively
    st = St()
    ptr, s = sym_str(st, 's', K)
    for tag, cond in (('accepted-with-padding', z3.And(bearer_oracle(s), s.len >= 3, s.bytes[2] == ord('='))),
                      ('rejected-nonascii', z3.And(z3.Not(bearer_oracle(s)), s.len >= 2, z3.UGE(s.bytes[0], 0x80)))):
        m = dec.witness('bearer:' + tag, st, cond)
        b = model_bytes(m, s)
        r = replay([{'op': 'bearer', 'hex': b.hex()}])[0]
        rep.replayed += 1
        want = tag.startswith('accepted')
        if any(r[k]['ok'] != want for k in ('from_str', 'new', 'from_plain', 'deserialize')):
            rep.inconc(f'model mismatch: twin {tag} input {b!r} behaves differently natively: {r}')
    # renderings are accessors of field 0: decided on the accessor MIR
    st = St()
    ptr, s = sym_str(st, 't', 8)
    tokp = st.ref(Agg('conjure_object::bearer_token::BearerToken', (s,)))
    for acc in ('as_str', 'as_ref', 'borrow'):
        for s2, rv in it.run(fn('::' + acc)[0], [tokp], st.fork()):
            rep.states += 1
            got = s2.deref_all(rv)
            m = dec.decide(f'bearer:{acc}==stored', s2, z3.Not(bstr_eq(got, s)))
            if m is not None:
                report(rep, 'bearer', acc, model_bytes(m, s), 'accessor does not return the stored string')
    finish_engine(rep, it)
    rep.assumptions += ['std: str::trim_end_matches(char), str::is_empty, slice::iter().cloned().all(f), str::to_string, String::deserialize (delivers the string event) by contract',
                        'inputs are valid UTF-8 (type invariant of &str)']
    rep.outside.append(f'bearer tokens longer than {K} bytes (the scan is bytewise; the unwinding assertion guards the bound)')


def report(rep, which, entry, b, what):
    """replay a candidate natively; VIOLATION only if the real build contradicts the grammar too"""
    op = {'op': 'bearer' if which == 'bearer' else 'rid', 'hex': b.hex()}
    res = {}
    for prof in ('dev', 'release'):
        res[prof] = replay([op], prof)[0]
    rep.replayed += 1
    want = bool(re.fullmatch(rb'[A-Za-z0-9\-._~+/]+=*', b)) if which == 'bearer' else rid_ref(b)
    r = res['dev']
    bad = []
    if 'error' in r:
        rep.inconc(f'{which} {entry}: counterexample {b!r} is not replayable: {r}')
        return
    if r.get('panic'):
        bad.append('native run panics')
    for k, v in r.items():
        if not isinstance(v, dict):
            continue
        if v.get('ok') != want:
            bad.append(f'{k} accepts={v.get("ok")} grammar={want}')
        elif want and which == 'bearer' and bytes.fromhex(v['as_str']) != b:
            bad.append(f'{k} renders {bytes.fromhex(v["as_str"])!r}')
        elif want and which == 'rid':
            g = re.fullmatch(rb'ri\.([a-z][a-z0-9\-]*)\.((?:[a-z0-9][a-z0-9\-]*)?)\.([a-z][a-z0-9\-]*)\.([a-zA-Z0-9_\-\.]+)', b)
            comp = tuple(x.decode() for x in g.groups())
            if v['as_str'].encode() != b or (v['service'], v['instance'], v['type'], v['locator']) != comp:
                bad.append(f'{k} components {(v["service"], v["instance"], v["type"], v["locator"])} are not the grammar\'s groups {comp}')
    if bad and res['release'] == r:
        rep.violation(f'C16:{which}:{entry}', f'{which} input {b!r}: {what}; native: {"; ".join(bad)}', {'input_hex': b.hex(), 'native': r})
    else:
        rep.inconc(f'model mismatch ({which} {entry}): solver counterexample {b!r} ({what}) does not reproduce natively: {r}')


def rid_ref(b):
    return bool(re.fullmatch(rb'ri\.[a-z][a-z0-9\-]*\.(?:[a-z0-9][a-z0-9\-]*)?\.[a-z][a-z0-9\-]*\.[a-zA-Z0-9_\-\.]+', b))


def run(rep, tier):
    run_bearer(rep, tier)
    from checks import c16_rid
    c16_rid.run_rid(rep, tier)


def replay_cmd(path):
    import json
    w = json.load(open(path))
    b = bytes.fromhex(w['witness']['input_hex'])
    which = w['key'].split(':')[1]
    r = replay([{'op': which, 'hex': b.hex()}])[0]
    print(json.dumps({'input': repr(b), 'native': r}, indent=1))
    return 0

