"""C12 — PLAIN text of every parameter value parses back to the same value.
Every Plain / FromPlain impl of plain.rs (macro-generated ones included) and the generated alias / enum impls are executed from
MIR against a recording Formatter; std / uuid / chrono / base64 Display<->parse pairs are the assumed library contracts."""
import json
import z3
from mirsym.dump import program
from mirsym.interp import Interp, St
from mirsym import models_std, models_serde
from mirsym.models_std import fork_bool, sval, fresh_bv
from mirsym.values import Agg, Enum, Ptr, Seq, BStr, UNIT, Panic, Unwind, bv, bstr, bstr_py, bstr_eq, is_abnormal
from mirsym.harness import Decider, finish_engine, replay, find_fn, find_fns, sym_str, model_bytes
from mirsym.types import ty_str, strip_refs
from vlib.common import Inconclusive


def out(st, ev):
    st.aux['fmt'] = st.aux.get('fmt', ()) + (ev,)


def M_display_fmt(it, ctx, args, st):
    """<T as Display>::fmt(&v, f) for library types: the text is a token (kind, value); &str is the text itself"""
    t = strip_refs(ctx.self_ty)
    v = st.deref_all(args[0]) if isinstance(args[0], Ptr) else args[0]
    name = t[1] if t[0] == 'path' else t[0]
    if isinstance(v, BStr):
        out(st, ('text', v))
    else:
        out(st, ('display:' + name.split('::')[-1], v))
    yield st, it.ok(UNIT)


def M_base64_display_new(it, ctx, args, st):
    yield st, Agg('base64::display::Base64Display', (st.deref_all(args[0]), st.deref_all(args[1])))


def M_engine_decode(it, ctx, args, st):
    eng = st.deref_all(args[0])
    s = sval(st, args[1])
    st.aux['decode'] = (eng, s)
    ok = z3.Bool('b64_ok')
    for s2, good in fork_bool(it, st, ok):
        yield s2, (it.ok(Agg('DecodedBytes', (s,))) if good else it.err(Agg('base64::DecodeError', ())))


def M_engine_encode(it, ctx, args, st):
    """Engine::encode(bytes) -> String: the Base64 text of those bytes under that engine (opaque token)"""
    yield st, Agg('B64Text', (st.deref_all(args[0]), sval(st, args[1])))


def M_format_with_items(it, ctx, args, st):
    items = args[1]
    yield st, Agg('chrono::format::DelayedFormat', (st.deref_all(args[0]), items))


def M_iter_once(it, ctx, args, st):
    yield st, Agg('Once', (args[0],))


def M_parse_rfc3339(it, ctx, args, st):
    s = sval(st, args[0])
    st.aux['chrono_parse'] = ('rfc3339', s)
    ok = z3.Bool('dt_ok')
    for s2, good in fork_bool(it, st, ok):
        yield s2, (it.ok(Agg('chrono::DateTime<FixedOffset>', (s,))) if good else it.err(Agg('chrono::ParseError', ())))


def M_with_timezone(it, ctx, args, st):
    dt = st.deref_all(args[0])
    yield st, Agg('chrono::DateTime<Utc>', dt.fields)


def M_bytes_from_vec(it, ctx, args, st):
    yield st, args[0]


def M_parse_float(it, ctx, args, st):
    tgt = ctx.gargs[0][1]
    s = sval(st, args[0])
    if tgt not in ('f64', 'f32'):
        yield from models_std.M_str_parse(it, ctx, args, st)
        return
    nan = bstr_eq(s, bstr('NaN'))
    ok = z3.Bool(f'parse_float_ok!{len(st.pc)}')
    val = z3.FP(f'parse_float!{len(st.pc)}', z3.Float64())
    st.aux['parse_f64'] = s
    # std contract used here: "NaN" parses to NaN; the value of any other accepted text is left open
    for s2, i in it.fork_on(st, [nan, z3.And(z3.Not(nan), ok), z3.And(z3.Not(nan), z3.Not(ok))]):
        yield s2, (it.ok(z3.fpNaN(z3.Float64())) if i == 0 else it.ok(val) if i == 1 else it.err(Agg('std::num::ParseFloatError', ())))


MODELS = [
    (r'<.* as std::fmt::Display>::fmt', M_display_fmt, lambda it, ctx, args, st: not ty_str(ctx.self_ty).lstrip('&').startswith(('conjure_object::', 'verif_types::'))),
    (r'base64::display::Base64Display::<.*>::new|base64::display::Base64Display::new', M_base64_display_new),
    (r'<base64::engine::GeneralPurpose as base64::Engine>::decode::<.*>', M_engine_decode),
    (r'<base64::engine::GeneralPurpose as base64::Engine>::encode::<.*>', M_engine_encode),
    (r'<std::string::String as std::ops::Deref>::deref', lambda it, ctx, args, st: iter([(st, args[0])]), lambda it, ctx, args, st: isinstance(st.deref_all(args[0]), Agg) and st.deref_all(args[0]).name == 'B64Text'),
    (r'chrono::DateTime::<.*>::format_with_items::<.*>', M_format_with_items),
    (r'std::iter::once::<.*>', M_iter_once),
    (r'chrono::DateTime::<chrono::FixedOffset>::parse_from_rfc3339', M_parse_rfc3339),
    (r'chrono::DateTime::<.*>::with_timezone::<.*>', M_with_timezone),
    (r'<bytes::Bytes as std::convert::From<std::vec::Vec<u8>>>::from', M_bytes_from_vec),
    (r'<bytes::Bytes as std::ops::Deref>::deref', lambda it, ctx, args, st: iter([(st, args[0])])),
    (r'(?:core|std)::str::<impl str>::parse::<.*>', M_parse_float),
]
CONSTS = {
    'base64::prelude::STANDARD': lambda it, st: st.ref(Agg('base64::GeneralPurpose', ('STANDARD',))),
    'base64::engine::general_purpose::STANDARD': lambda it, st: st.ref(Agg('base64::GeneralPurpose', ('STANDARD',))),
    'base64::engine::general_purpose::STANDARD_NO_PAD': lambda it, st: st.ref(Agg('base64::GeneralPurpose', ('STANDARD_NO_PAD',))),
    'base64::prelude::BASE64_STANDARD_NO_PAD': lambda it, st: st.ref(Agg('base64::GeneralPurpose', ('STANDARD_NO_PAD',))),
    'base64::engine::general_purpose::URL_SAFE': lambda it, st: st.ref(Agg('base64::GeneralPurpose', ('URL_SAFE',))),
    'base64::prelude::BASE64_URL_SAFE': lambda it, st: st.ref(Agg('base64::GeneralPurpose', ('URL_SAFE',))),
    'base64::engine::general_purpose::URL_SAFE_NO_PAD': lambda it, st: st.ref(Agg('base64::GeneralPurpose', ('URL_SAFE_NO_PAD',))),
    'base64::prelude::BASE64_URL_SAFE_NO_PAD': lambda it, st: st.ref(Agg('base64::GeneralPurpose', ('URL_SAFE_NO_PAD',))),
}


def mk(prog):
    it = Interp(prog, MODELS + models_serde.MODELS + models_std.MODELS, models_serde.TMODELS, unwind=14)
    it.ext_consts.update(CONSTS)
    return it


def plain_fns(prog, method, needle):
    return [k for k in find_fns(prog, method, inpath='conjure_object::plain::<impl at') if needle in prog.fns[k].header]


def battery():
    r = replay([{'op': 'plain_roundtrip'}])[0]
    return [] if r.get('ok') else list(r.get('failed') or ['plain_roundtrip failed'])


def run(rep, tier):
    prog = program(['conjure_object'])
    rep.bounds['values'] = 'all f64 (z3 floating point) for the special-casing; all valid-UTF-8 strings <= 9 bytes for FromPlain of f64; one symbolic value per delegating impl'
    with rep.part('f64 plain'):
        run_f64(rep, prog)
    with rep.part('plain delegation'):
        run_delegation(rep, prog)
    with rep.part('generated plain'):
        run_generated(rep)
    # safelong text route (C15's machinery): every in-range value's decimal text is accepted by from_plain with its value
    from checks import c15
    with rep.part('safelong text'):
        c15.run_m(rep, tier)
    ops = [{'op': 'plain_roundtrip'}]
    r = replay(ops)[0]
    rep.replayed += 1
    if not r.get('ok'):
        rep.violation('C12:native-twin', f'native PLAIN round trips fail: {r.get("failed")}', {'native': r})
    rep.assumptions += ['library contracts: Display then parse is the identity for bool, i32, i64, finite f64 ("NaN" for NaN, "inf"/"-inf" for infinities), Uuid; chrono format(RFC3339) then parse_from_rfc3339 for four-digit years; base64 STANDARD encode then decode',
                        'bearer tokens and resource identifiers: C16 decides that accepted values render back identically; enums: C10']
    rep.outside += ['the digits of float / integer / date formatting (std, chrono)']


def run_f64(rep, prog):
    it = mk(prog)
    dec = Decider(rep, it)
    # ---- to text
    fmt = plain_fns(prog, 'fmt', '_1: &f64')
    if len(fmt) != 1:
        raise Inconclusive(f'C12 harness: Plain for f64 not unique: {fmt}')
    st = St()
    v = z3.FP('v', z3.Float64())
    st.aux['fmt'] = ()
    for s2, rv in it.run(fmt[0], [st.ref(v), st.ref(Agg('std::fmt::Formatter', ()))], st):
        rep.states += 1
        if is_abnormal(rv):
            rep.structural('C12:f64:fmt', f'Plain::fmt for f64: {rv!r}', {}, battery)
            continue
        ev = s2.aux.get('fmt', ())
        pinf, ninf = z3.And(z3.fpIsInf(v), z3.fpIsPositive(v)), z3.And(z3.fpIsInf(v), z3.fpIsNegative(v))
        if len(ev) != 1:
            bad = z3.BoolVal(True)
        elif ev[0][0] == 'text':
            t = bstr_py(ev[0][1])
            bad = z3.Not({b'Infinity': pinf, b'-Infinity': ninf}.get(t, z3.BoolVal(False)))
        else:
            bad = z3.Or(pinf, ninf, z3.Not(ev[0][1] == v))          # the library Display is used exactly for NaN and finite values
        m = dec.decide('f64:to_plain:spelling', s2, bad, event=[e[0] for e in ev])
        if m is not None:
            bits = m.eval(z3.fpToIEEEBV(v), True).as_long()
            report_f64(rep, bits, f'PLAIN text is {ev}')
    # ---- from text
    fp = plain_fns(prog, 'from_plain', 'Result<f64')
    if len(fp) != 1:
        raise Inconclusive(f'C12 harness: FromPlain for f64 not unique: {fp}')
    st = St()
    ptr, s = sym_str(st, 's', 9)
    for s2, rv in it.run(fp[0], [ptr], st):
        rep.states += 1
        if is_abnormal(rv):
            rep.structural('C12:f64:from_plain', f'FromPlain for f64: {rv!r}', {}, battery)
            continue
        is_ok = it.variant_of(rv, 'Ok')
        okp = it.payload(rv, 'Ok')
        inf, ninf, nan = bstr_eq(s, bstr('Infinity')), bstr_eq(s, bstr('-Infinity')), bstr_eq(s, bstr('NaN'))
        conds = [z3.And(z3.Or(inf, ninf, nan), z3.Not(is_ok))]
        if okp is not None:
            f = okp.fields[0]
            conds += [z3.And(is_ok, inf, z3.Not(z3.And(z3.fpIsInf(f), z3.fpIsPositive(f)))), z3.And(is_ok, ninf, z3.Not(z3.And(z3.fpIsInf(f), z3.fpIsNegative(f)))),
                      z3.And(is_ok, nan, z3.Not(z3.fpIsNaN(f)))]
            # any other text goes to the library parser with exactly that text
            seen = s2.aux.get('parse_f64')
            if seen is not None:
                conds.append(z3.And(is_ok, z3.Not(z3.Or(inf, ninf)), z3.Not(bstr_eq(seen, s))))
        m = dec.decide('f64:from_plain:spellings', s2, z3.Or(*conds), bytes=9)
        if m is not None:
            txt = model_bytes(m, s)
            op = {'op': 'plain_f64_text', 'hex': txt.hex()}
            r, r2 = replay([op])[0], replay([op], 'release')[0]
            rep.replayed += 1
            if not r.get('ok') and r == r2:
                rep.violation('C12:f64:from_plain', f'from_plain::<f64>({txt!r}) does not give the value the statement prescribes: native {r}', {'op': op, 'native': r})
            else:
                rep.inconc(f'model mismatch C12 from_plain::<f64>({txt!r}): native {r}')
    finish_engine(rep, it)


def report_f64(rep, bits, what):
    op = {'op': 'plain_f64', 'bits': str(bits)}
    r, r2 = replay([op])[0], replay([op], 'release')[0]
    rep.replayed += 1
    if not r.get('ok') and r == r2:
        rep.violation('C12:f64', f'f64 bits {bits:#x}: {what}; native {r}', {'op': op, 'native': r})
    else:
        rep.inconc(f'model mismatch C12 f64 bits {bits:#x} ({what}): native {r}')


def run_delegation(rep, prog):
    """each Plain impl hands the value (or its string form) to Display / Base64 / RFC 3339 unchanged; each FromPlain impl hands the
    text to the matching parser unchanged"""
    it = mk(prog)
    dec = Decider(rep, it)
    fmts = find_fns(prog, 'fmt', inpath='conjure_object::plain::<impl at')
    n = 0
    for k in fmts:
        f = prog.fns[k]
        a0 = f.args[0][1]
        if 'Formatter' not in f.args[1][1] or 'ParseBinaryError' in a0 or 'ParseEnumError' in a0 or 'Adaptor' in a0 or a0 in ('&f64', '&&T'):
            continue
        st = St()
        st.aux['fmt'] = ()
        if a0 in ('&str', '&std::string::String'):
            p, s = sym_str(st, 'x', 4)
            val, arg = s, p
        elif a0 == '&[u8]' or a0 == '&bytes::Bytes':
            p, s = sym_str(st, 'x', 4, utf8=False)
            val, arg = s, p
        elif 'BearerToken' in a0:
            p, s = sym_str(st, 'x', 4)
            val = s
            arg = st.ref(Agg('conjure_object::bearer_token::BearerToken', (s,)))
        elif 'ResourceIdentifier' in a0:
            p, s = sym_str(st, 'x', 4)
            val = s
            arg = st.ref(Agg('conjure_object::resource_identifier::ResourceIdentifier', (s, bv(0), bv(0), bv(0))))
        elif 'SafeLong' in a0:
            val = z3.BitVec('n', 64)
            arg = st.ref(Agg('conjure_object::safe_long::SafeLong', (val,)))
        elif a0 == '&bool':
            val = z3.Bool('b')
            arg = st.ref(val)
        elif a0 == '&i32':
            val = z3.BitVec('n', 32)
            arg = st.ref(val)
        else:
            val = Agg('Opaque:' + a0, (z3.BitVec('tok', 64),))
            arg = st.ref(val)
        for s2, rv in it.run(k, [arg, st.ref(Agg('std::fmt::Formatter', ()))], st):
            rep.states += 1
            n += 1
            if is_abnormal(rv):
                rep.structural('C12:plain:fmt', f'Plain::fmt for {a0}: {rv!r}', {}, battery)
                continue
            ev = s2.aux.get('fmt', ())
            good = len(ev) == 1
            if good:
                kind, got = ev[0]
                if isinstance(got, Agg) and got.name.endswith('Base64Display'):
                    eng = got.fields[1] if len(got.fields) > 1 else None
                    good = isinstance(eng, Agg) and eng.fields[:1] == ('STANDARD',) and isinstance(got.fields[0], BStr)
                    same = bstr_eq(got.fields[0], val) if good else z3.BoolVal(False)
                elif isinstance(got, Agg) and got.name.endswith('DelayedFormat'):
                    item = s2.deref_all(got.fields[1])
                    good = 'RFC3339' in repr(item)
                    same = z3.BoolVal(got.fields[0] == val)
                elif isinstance(got, BStr) and isinstance(val, BStr):
                    same = bstr_eq(got, val)
                elif z3.is_expr(got) and z3.is_expr(val):
                    same = got == val
                elif isinstance(got, Agg) and len(got.fields) and z3.is_expr(got.fields[0]) and z3.is_expr(val):
                    same = got.fields[0] == val
                elif isinstance(got, Agg) and isinstance(val, Agg):
                    same = z3.BoolVal(got == val)
                else:
                    good = False
            rep.query(f'plain:fmt:{a0}:delegates-the-value-unchanged', 'unsat' if good else 'sat', 0.0, events=[e[0] for e in ev])
            if not good:
                rep.structural('C12:plain:fmt', f'Plain::fmt for {a0} writes {[(e[0], repr(e[1])[:80]) for e in ev]}', {}, battery)
                continue
            m = dec.decide(f'plain:fmt:{a0}:same-value', s2, z3.Not(same))
            if m is not None:
                rep.structural('C12:plain:fmt', f'Plain::fmt for {a0} formats a different value than it was given', {}, battery)
    # Bytes <- Base64 STANDARD, DateTime <- RFC 3339
    for needle, key, want in (('Result<bytes::Bytes', 'decode', 'STANDARD'), ('Result<chrono::DateTime', 'chrono_parse', 'rfc3339')):
        fp = plain_fns(prog, 'from_plain', needle)
        if len(fp) != 1:
            raise Inconclusive(f'C12 harness: from_plain {needle} not unique: {fp}')
        st = St()
        ptr, s = sym_str(st, 's', 6)
        for s2, rv in it.run(fp[0], [ptr], st):
            rep.states += 1
            if is_abnormal(rv):
                rep.structural('C12:from_plain', f'from_plain {needle}: {rv!r}', {}, battery)
                continue
            rec = s2.aux.get(key)
            good = rec is not None and ((rec[0].fields[0] == want) if key == 'decode' else rec[0] == want)
            rep.query(f'from_plain:{needle}:uses-{want}', 'unsat' if good else 'sat', 0.0)
            if not good:
                rep.structural('C12:from_plain', f'from_plain {needle} does not parse with {want}: {rec!r:.100}', {}, battery)
                continue
            m = dec.decide(f'from_plain:{needle}:parses-the-whole-text', s2, z3.Not(bstr_eq(rec[1], s)))
            if m is not None:
                rep.structural('C12:from_plain', f'from_plain {needle} hands a different text to the parser', {}, battery)
    finish_engine(rep, it)
    if n < 8:
        rep.inconc(f'vacuity: only {n} Plain impls executed')


def run_generated(rep):
    """generated aliases delegate Plain / FromPlain to the aliased type; generated enums go through as_str / FromStr (C10)"""
    from checks import gentypes
    prog = gentypes.types_program()
    it = mk(prog)
    for alias, inner in (('double_alias', 'f64'), ('safe_long_alias', 'SafeLong'), ('string_alias', 'String'), ('int_alias', 'i32')):
        fmts = [k for k in find_fns(prog, 'fmt', inpath=f'{gentypes.CRATE}::types::p::{alias}::<impl at') if 'Formatter' in prog.fns[k].args[1][1]]
        texts = []
        for k in fmts:
            body = ' '.join(t for stmts, term in prog.fns[k].blocks.values() for t in (list(stmts) + [term]))
            texts.append(body)
        uses_plain = any('Plain>::fmt' in b or 'Plain as' in b or 'plain::Plain' in b for b in texts)
        fps = find_fns(prog, 'from_plain', inpath=f'{gentypes.CRATE}::types::p::{alias}::<impl at')
        fp_body = ' '.join(t for k in fps for stmts, term in prog.fns[k].blocks.values() for t in (list(stmts) + [term]))
        uses_from_plain = 'FromPlain>::from_plain' in fp_body
        ok = uses_plain and uses_from_plain
        rep.query(f'generated-alias:{alias}:Plain-and-FromPlain-delegate-to-{inner}', 'unsat' if ok else 'sat', 0.0)
        if not ok:
            rep.structural('C12:generated-alias', f'generated alias {alias}: Plain delegates={uses_plain}, FromPlain delegates={uses_from_plain} (must forward to the aliased type\'s PLAIN impls, not Display/FromStr)', {}, battery)
    finish_engine(rep, it)


def replay_cmd(path):
    w = json.load(open(path))
    print(json.dumps(w['witness'], indent=1))
    return 0
