"""Shared harness for C06 / C18: symbolic chunk histories for body streams, the sequential oracle, and the boundary models of
serde_json / serde_smile / erased_serde (a document cursor) and of the async stream machinery."""
import z3
from mirsym.values import Agg, Enum, Ptr, Seq, BStr, UNIT, Panic, Unwind, Coro, bv, bstr, bstr_eq, bstr_concat, is_abnormal
from mirsym.values import bv as bv_
from mirsym.parse import Unsupported
from mirsym.models_std import fork_bool
from mirsym.models_http import error_record
from mirsym.decls import BUILTIN_ENUMS

POLL = BUILTIN_ENUMS['std::task::Poll']


class History:
    """<= NCH stream items; item i is Ok(chunk of <= L symbolic bytes, length symbolic, possibly 0) or Err(stream error i)"""

    def __init__(self, it, st, NCH, L, tag='c'):
        self.it, self.NCH, self.L = it, NCH, L
        self.n = z3.BitVec(tag + '_n', 64)
        st.pc.append(z3.ULE(self.n, NCH))
        self.ok, self.lens, self.bytes, self.items = [], [], [], []
        for i in range(NCH):
            isok = z3.Bool(f'{tag}_ok{i}')
            ln = z3.BitVec(f'{tag}_len{i}', 64)
            bs = [z3.BitVec(f'{tag}{i}_{j}', 8) for j in range(L)]
            st.pc.append(z3.ULE(ln, L))
            self.ok.append(isok)
            self.lens.append(ln)
            self.bytes.append(bs)
            err = error_record('stream', bv(i), False, None)
            self.items.append(it.sym_enum('std::result::Result', z3.If(isok, bv(0), bv(1)), {'Ok': (BStr(tuple(bs), ln),), 'Err': (err,)}))

    def iterator(self):
        return Agg('ChunkIter', (0, self.n, tuple(self.items)))

    def oracle(self, has_limit, limit):
        """sequential reference: -> (kind: BV8 0 ok / 1 stream error / 2 too large, which: BV8, total: BV64, body: BStr)"""
        done = z3.BoolVal(False)
        kind, which, total = z3.BitVecVal(0, 8), z3.BitVecVal(0, 8), bv(0)
        body = bstr(b'')
        for i in range(self.NCH):
            active = z3.And(z3.Not(done), z3.UGT(self.n, bv(i)))
            is_err = z3.And(active, z3.Not(self.ok[i]))
            kind = z3.If(is_err, z3.BitVecVal(1, 8), kind)
            which = z3.If(is_err, z3.BitVecVal(i, 8), which)
            done = z3.Or(done, is_err)
            active = z3.And(z3.Not(done), z3.UGT(self.n, bv(i)))
            total = z3.If(active, total + self.lens[i], total)
            piece = BStr(tuple(self.bytes[i]), z3.If(active, self.lens[i], bv(0)))
            body = bstr_concat(body, piece)
            too = z3.And(active, has_limit, z3.UGT(total, limit))
            kind = z3.If(too, z3.BitVecVal(2, 8), kind)
            done = z3.Or(done, too)
        return kind, which, total, body

    def concrete(self, m):
        n = m.eval(self.n, True).as_long()
        out = []
        for i in range(n):
            if z3.is_true(m.eval(self.ok[i], True)):
                ln = m.eval(self.lens[i], True).as_long()
                out.append(bytes(m.eval(b, True).as_long() for b in self.bytes[i][:ln]).hex())
            else:
                out.append(None)
        return out


def chunk_next(it, st, p):
    """advance the ChunkIter behind pointer p; yields (state, Option<Result<Bytes, Error>>)"""
    while isinstance(st.deref(p), Ptr):
        p = st.deref(p)
    ci = st.deref(p)
    if isinstance(ci, Agg) and ci.name in ('Pin', 'std::pin::Pin'):
        yield from chunk_next(it, st, ci.fields[0])
        return
    if isinstance(ci, Agg) and ci.name == 'TakeWhileS':
        # futures_util::StreamExt::take_while(stream, |item| ready(bool)): items until the predicate first answers false
        if ci.fields[2]:
            yield st, it.none
            return
        for s2, o in chunk_next(it, st, Ptr(p.addr, p.proj + (('f', 0),))):
            for s3, some in fork_bool(it, s2, it.variant_of(o, 'Some')):
                if not some:
                    yield s3, it.none
                    continue
                item = it.payload(o, 'Some').fields[0]
                for s4, fut in it.call_closure(ci.fields[1], [s3.ref(item)], s3, None):
                    if is_abnormal(fut):
                        yield s4, fut
                        continue
                    keep = fut.fields[0] if isinstance(fut, Agg) and fut.name == 'ReadyFut' else fut
                    for s5, k in fork_bool(it, s4, keep):
                        if k:
                            yield s5, it.some(item)
                        else:
                            s5.write(Ptr(p.addr, p.proj + (('f', 2),)), True)
                            yield s5, it.none
        return
    pos, n, items = ci.fields
    if pos >= len(items):
        yield st, it.none
        return
    st.write(p, Agg('ChunkIter', (pos + 1, n, items)))
    yield st, it.opt(z3.UGT(n, bv(pos)), items[pos])


def T_chunk_next(it, ctx, args, st):
    yield from chunk_next(it, st, args[0])


def T_identity(it, ctx, args, st):
    yield st, args[0]


# ---- async machinery: futures of the harness stream are always Ready (stated in the evidence)
def M_pin_new(it, ctx, args, st):
    yield st, Agg('Pin', (args[0],))


def M_try_next(it, ctx, args, st):
    yield st, Agg('TryNext', (args[0],))


def M_poll_try_next(it, ctx, args, st):
    tn = st.deref_all(args[0].fields[0])          # Pin(&mut TryNext(&mut Pin(&mut I)))
    for s2, o in chunk_next(it, st, tn.fields[0]):
        # Option<Result<Bytes, E>> -> Poll::Ready(Result<Option<Bytes>, E>)
        for s3, i, p in it.enum_cases(o, s2):
            if i == 0:
                r = it.ok(it.none)
                yield s3, Enum(POLL, bv(0), ((0, Agg('Ready', (r,))),))
            else:
                for s4, j, q in it.enum_cases(p.fields[0], s3):
                    r = it.ok(it.some(q.fields[0])) if j == 0 else it.err(q.fields[0])
                    yield s4, Enum(POLL, bv(0), ((0, Agg('Ready', (r,))),))


def M_stream_take_while(it, ctx, args, st):
    yield st, Agg('TakeWhileS', (args[0], args[1], False))


def M_future_ready(it, ctx, args, st):
    yield st, Agg('ReadyFut', (args[0],))


ASYNC_MODELS = [
    (r'<.* as futures_util::StreamExt>::take_while::<.*>', M_stream_take_while),
    (r'futures_util::future::ready::<.*>', M_future_ready),
    (r'std::pin::Pin::<.*>::new_unchecked|std::pin::Pin::<.*>::new', M_pin_new),
    (r'<std::pin::Pin<&mut .*> as futures_util::TryStreamExt>::try_next', M_try_next),
    (r'<.* as std::future::IntoFuture>::into_future', T_identity),
    (r'<futures_util::stream::TryNext<.*> as futures_core::Future>::poll|<futures_util::stream::TryNext<.*> as std::future::Future>::poll', M_poll_try_next),
]

TMODELS = {
    ('ChunkIter', 'Iterator', 'next'): T_chunk_next,
    ('ChunkIter', 'IntoIterator', 'into_iter'): T_identity,
}


def poll_once(it, st, closure_fn, coro, tenv):
    """poll the state machine `closure_fn` on coroutine value `coro` until Ready (futures are always Ready: one poll)"""
    cp = st.ref(coro)
    pin = Agg('Pin', (cp,))
    cx = st.ref(Agg('std::task::Context', ()))
    for s2, rv in it.run(closure_fn, [pin, cx], st, tenv):
        if is_abnormal(rv):
            yield s2, rv
            continue
        ready = it.payload(rv, 'Ready')
        if ready is None or not it.feasible(s2, it.variant_of(rv, 'Ready')):
            yield s2, Panic('async body returned Pending although every awaited future is Ready', closure_fn)
            continue
        yield s2, ready.fields[0]


# ---- the document cursor behind serde_json / serde_smile deserializers
class Doc:
    """body = doc ++ rest: whether `doc` is a valid document of the target type and whether `rest` is only whitespace are free Booleans"""

    def __init__(self, tag='d'):
        self.doc_valid = z3.Bool(tag + '_doc_valid')
        self.rest_is_ws = z3.Bool(tag + '_rest_is_ws')
        self.unknown_field = z3.Bool(tag + '_unknown_field')


def find_cursor(st, v, depth=0):
    """walk pointers / first fields until the cursor object of the inner serde_json / serde_smile deserializer"""
    if depth > 12:
        return None
    if isinstance(v, Ptr):
        return find_cursor(st, st.deref(v), depth + 1)
    if isinstance(v, Agg):
        if v.name == 'DocCursor':
            return v
        for f in v.fields:
            r = find_cursor(st, f, depth + 1)
            if r is not None:
                return r
    return None


def cursor_models(doc, log):
    """log: dict collecting what the code under test did with the document"""
    def M_from_slice(it, ctx, args, st):
        body = st.deref_all(args[0])
        cell = st.ref(Agg('CursorState', (z3.BoolVal(False), z3.BoolVal(False))))    # (deserialized, ended)
        yield st, Agg('serde::Deserializer', (Agg('DocCursor', (body, cell, ctx.callee.key.split('::')[0])),))

    def M_from_reader(it, ctx, args, st):
        """serde_json / serde_smile Deserializer::from_reader(r): the document is what `r` yields until its first Ok(0) (or error);
        the reader is driven here with a buffer that holds a whole chunk (one admissible schedule of read calls: stated)"""
        T = ctx.targs[0] if ctx.targs else None
        R = T[2][0] if T is not None and T[0] == 'path' and T[2] else T
        reader = args[0]
        rp = reader if isinstance(reader, Ptr) else st.ref(reader)
        CAP = 4
        MAXPULL = 8

        def pull(s, body, k):
            if k >= MAXPULL:
                yield s, Unwind('from_reader: more than %d read calls' % MAXPULL, ctx.fr.fn.name)
                return
            bufp = s.ref(BStr(tuple(z3.BitVecVal(0, 8) for _ in range(CAP)), bv_(CAP)))
            for s2, r in it.call_trait(ctx.fr, R if R[0] != 'ref' else R[2], 'std::io::Read', 'read', [], [rp, bufp], s):
                if is_abnormal(r):
                    yield s2, r
                    continue
                for s3, i, pl in it.enum_cases(r, s2):
                    if r.decl.variants[i][0] == 'Err':
                        yield s3, ('io-error', body, pl.fields[0])
                        continue
                    n = pl.fields[0]
                    for s4, eof in fork_bool(it, s3, n == 0):
                        if eof:
                            yield s4, ('eof', body, None)
                        else:
                            got = s4.deref_all(bufp)
                            yield from pull(s4, bstr_concat(body, BStr(got.bytes, n)), k + 1)
        for s5, res in pull(st, bstr(b''), 0):
            if is_abnormal(res):
                yield s5, res
                continue
            how, body, err = res
            cell = s5.ref(Agg('CursorState', (z3.BoolVal(False), z3.BoolVal(False))))
            cur = Agg('DocCursor', (body, cell, ctx.callee.key.split('::')[0], how == 'io-error'))
            yield s5, Agg('serde::Deserializer', (cur,))

    def T_doc_deserialize(it, ctx, args, st):
        cur = find_cursor(st, args[0])
        if cur is None:
            raise Unsupported('document type deserialized from something that is not the body cursor')
        cell = cur.fields[1]
        st.write(cell, Agg('CursorState', (z3.BoolVal(True), st.deref(cell).fields[1])))
        st.aux['doc_body'] = cur.fields[0]
        st.aux['doc_server'] = 'Server' in repr(args[0])[:0]
        if len(cur.fields) > 3 and cur.fields[3]:
            # the reader failed before end of input: the parser reports the I/O error
            yield st, it.err(Agg('serde::Error', ('io error while reading the document',)))
            return
        for s2, good in fork_bool(it, st, doc.doc_valid):
            yield s2, (it.ok(Agg('DocValue', ())) if good else it.err(Agg('serde::Error', ('invalid document',))))

    def M_end(it, ctx, args, st):
        cur = find_cursor(st, args[0])
        cell = cur.fields[1]
        cs = st.deref(cell)
        st.write(cell, Agg('CursorState', (cs.fields[0], z3.BoolVal(True))))
        for s2, good in fork_bool(it, st, doc.rest_is_ws):
            yield s2, (it.ok(UNIT) if good else it.err(Agg('serde::Error', ('trailing characters',))))

    def T_opt_doc_deserialize(it, ctx, args, st):
        for s2, r in T_doc_deserialize(it, ctx, args, st):
            okp = it.payload(r, 'Ok')
            yield s2, (it.ok(it.some(okp.fields[0])) if okp is not None else r)

    models = [
        (r'serde_json::Deserializer::<.*>::from_reader|serde_smile::Deserializer::<.*>::from_reader|serde_smile::de::Deserializer::<.*>::from_reader', M_from_reader),
        (r'serde_json::Deserializer::<.*>::from_slice|serde_json::Deserializer::from_slice|serde_smile::Deserializer::<.*>::from_slice|serde_smile::Deserializer::from_slice|serde_smile::de::Deserializer::<.*>::from_slice', M_from_slice),
        (r'serde_json::Deserializer::<.*>::end|serde_json::Deserializer::end|serde_smile::Deserializer::<.*>::end|serde_smile::de::Deserializer::<.*>::end', M_end),
    ]
    tmodels = {('DocT', 'Deserialize', 'deserialize'): T_doc_deserialize, ('serde::de::IgnoredAny', 'Deserialize', 'deserialize'): T_doc_deserialize,
               ('IgnoredAny', 'Deserialize', 'deserialize'): T_doc_deserialize,
               ('std::option::Option', 'Deserialize', 'deserialize'): T_opt_doc_deserialize}
    return models, tmodels


def cursor_state(st, v):
    cur = find_cursor(st, v)
    return st.deref(cur.fields[1]) if cur is not None else None
