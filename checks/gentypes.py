"""Program with the types the *real* generator of /repo emits for /verif/gen-crates/types/ir/family.json (both configurations)."""
import os, glob, shutil, subprocess, re
from mirsym.dump import program, MIRDIR, FLAGS
from vlib.common import REPO, BUILD, env_offline, sha_tree, Inconclusive, harness_crate

CRATE = 'verif_types'


def types_program(extra_crates=('conjure_object',)):
    prog = program(list(extra_crates))
    cdir = harness_crate('gen-crates/types')
    h = sha_tree([cdir, os.path.join(REPO, 'conjure-codegen'), os.path.join(REPO, 'conjure-object'), os.path.join(REPO, 'conjure-serde')])[:16]
    out = os.path.join(MIRDIR, f'{CRATE}-{h}.mir')
    tdir = os.path.join(BUILD, 'target-types')
    if not (os.path.exists(out) and os.path.getsize(out) > 1000 and glob.glob(os.path.join(tdir, 'debug', 'build', 'verif-types-*', 'out', 'conjure'))):
        for old in glob.glob(os.path.join(MIRDIR, f'{CRATE}-*.mir')):
            os.remove(old)
        shutil.copyfile(os.path.join(REPO, 'Cargo.lock'), os.path.join(cdir, 'Cargo.lock'))
        for fp in glob.glob(os.path.join(tdir, 'debug', '.fingerprint', 'verif-types-*')) + glob.glob(os.path.join(tdir, 'debug', 'build', 'verif-types-*')):
            shutil.rmtree(fp, ignore_errors=True)
        p = subprocess.run(['cargo', '+nightly', 'rustc', '--offline', '--lib', '--'] + FLAGS, cwd=cdir,
                           env=env_offline({'CARGO_TARGET_DIR': tdir}), capture_output=True, text=True, timeout=1800)
        if p.returncode != 0 or len(p.stdout) < 1000:
            raise Inconclusive('generation or compilation of the IR family fails on the current tree: ' + p.stderr[-800:])
        open(out, 'w').write(p.stdout)
    # declarations of the generated files (enum variant order) under their module paths: indexed before the MIR is loaded,
    # so that impl headers naming them can be qualified
    outs = sorted(glob.glob(os.path.join(tdir, 'debug', 'build', 'verif-types-*', 'out')), key=os.path.getmtime)
    if not outs:
        raise Inconclusive('generated sources not found')
    for sub, mod in (('conjure', 'types'), ('conjure-exhaustive', 'exhaustive_types'), ('conjure-empty', 'empty_types')):
        base = os.path.join(outs[-1], sub)
        for d, _, fs in os.walk(base):
            for f in fs:
                if f.endswith('.rs'):
                    p_ = os.path.join(d, f)
                    rel = os.path.relpath(p_, base)[:-3].split(os.sep)
                    if rel[-1] == 'mod':
                        rel = rel[:-1]
                    prog.src.add_file(p_, '::'.join([CRATE, mod] + rel))
    prog.gen_out = outs[-1]
    prog.load(CRATE, out, cdir)
    return prog


def gen_fn(prog, cfg, module, method, **kw):
    """a generated function: cfg in ('types', 'exhaustive_types'), module like 'p::test_union'"""
    from mirsym.harness import find_fns
    c = find_fns(prog, method, inpath=f'{CRATE}::{cfg}::{module}::', **kw)
    return c
