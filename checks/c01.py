"""C01 — JSON and Smile wrappers carry every Conjure value in Conjure encoding.
K: the real conjure-serde wrappers + the real serde_json writer on non-finite doubles / bool keys (compiled code, full f64 width).
M: every value/key Behavior leaf of the JSON serializer and of the JSON client deserializer from MIR, between a recorder / an
event player, over all doubles (z3 floating point) and bounded strings."""
import json
import z3
from vlib import kani
from mirsym.dump import program
from mirsym.interp import Interp, St
from mirsym import models_std, models_serde
from mirsym.models_serde import de_err, rec_event
from mirsym.values import Agg, Enum, Ptr, BStr, UNIT, Panic, Unwind, bv, bstr, bstr_py, bstr_eq, val_eq, is_abnormal
from mirsym.harness import Decider, finish_engine, replay, find_fns, sym_str, model_bytes
from vlib.common import Inconclusive

K_GROUPS = {'c01a': ['c01_json_f64_value', 'c01_json_some_f64'], 'c01b': ['c01_json_f32_value', 'c01_json_f64_struct_field'], 'c01c': ['c01_json_bool_key']}


def T_rec_collect_str(it, ctx, args, st):
    v = st.deref_all(args[1]) if isinstance(args[1], Ptr) else args[1]
    rec_event(st, 'collect_str', v)
    yield st, it.ok(UNIT)


def spelled(s, text):
    return bstr_eq(s, bstr(text))


def run(rep, tier):
    run_k(rep, tier)
    run_m_ser(rep)
    run_m_de(rep)
    ops = [{'op': 'json_f64', 'bits': str(0xfff8000000000000)}, {'op': 'json_f64', 'bits': str(0x7ff0000000000000)}, {'op': 'json_f64', 'bits': str(0x3ff8000000000000)}]
    res = replay(ops)
    rep.replayed += 3
    for o, r in zip(ops, res):
        if not r.get('ok'):
            rep.violation('C01:native-twin', f'{o}: native {r}', {'op': o, 'native': r})
    rep.assumptions += ['serde_json / serde_smile transport events faithfully (third party); f64 Display/FromStr are inverse for finite values (key spelling)',
                        'K: Kani/CBMC model of the compiled code; M: recorder / event player for the inner serde_json (de)serializer']
    rep.outside += ['the re-wrapping of nested values by Override at depth > 1 (executed for one level in C05 / C13 harnesses)', 'Base64 of binary (third-party base64 crate)',
                    'the f64-key path through the real serde_json writer under Kani (does not finish in 20 min; decided by M instead)']


def run_k(rep, tier):
    res = kani.run_parallel(K_GROUPS, timeout_s=1200, mem_gb=16)
    failed = kani.record(rep, res)
    rep.functions_encoded += ['conjure_serde::json::to_vec -> Serializer -> ser::Override -> json::ser::{ValueBehavior, KeyBehavior} -> serde_json writer (compiled)']
    rep.bounds['K'] = 'symbolic non-finite f64/f32 at full bit width (every NaN payload and sign) as value, inside Some, as struct field; bool as map key'
    kani.handle_failures(rep, failed, 'C01')


def run_m_ser(rep):
    prog = program(['conjure_serde'])
    tm = dict(models_serde.TMODELS)
    tm[('Rec', 'Serializer', 'collect_str')] = T_rec_collect_str
    rep.bounds['M-ser'] = 'all f64 / f32 values (z3 floating point sort), both bools; JSON and Smile value and key behaviours'
    for fmt in ('json', 'smile'):
        for beh in ('ValueBehavior', 'KeyBehavior'):
            for meth, sort_ in (('serialize_f64', z3.Float64()), ('serialize_f32', z3.Float32()), ('serialize_bool', None)):
                fns = [k for k in find_fns(prog, meth, inpath=f'conjure_serde::{fmt}::ser::<impl at') if impl_self(prog, k).endswith(beh)]
                if not fns:
                    continue               # not overridden: the provided method forwards to the inner serializer unchanged
                if len(fns) != 1:
                    raise Inconclusive(f'C01 harness: {fmt} {beh}::{meth} not unique: {fns}')
                it = Interp(prog, models_serde.MODELS + models_std.MODELS, tm, unwind=6)
                dec = Decider(rep, it)
                st = St()
                v = z3.FP('v', sort_) if sort_ is not None else z3.Bool('b')
                st.aux['rec'] = ()
                for s2, rv in it.run(fns[0], [Agg('Rec', ()), v], st, {'S': ('path', 'Rec', ())}):
                    rep.states += 1
                    tag = f'ser:{fmt}:{beh}:{meth}'
                    if is_abnormal(rv):
                        rep.violation('C01:' + tag, f'{tag}: {rv!r}', {})
                        continue
                    ev = s2.aux.get('rec', ())
                    if len(ev) != 1:
                        rep.violation('C01:' + tag, f'{tag} emits {len(ev)} events', {})
                        continue
                    kind, val = ev[0]
                    if sort_ is None:
                        want_true = kind == 'str' and bstr_py(val) == b'true'
                        want_false = kind == 'str' and bstr_py(val) == b'false'
                        bad = z3.Not(z3.Or(z3.And(v, z3.BoolVal(want_true)), z3.And(z3.Not(v), z3.BoolVal(want_false))))
                    else:
                        nan, pinf, ninf = z3.fpIsNaN(v), z3.And(z3.fpIsInf(v), z3.fpIsPositive(v)), z3.And(z3.fpIsInf(v), z3.fpIsNegative(v))
                        fin = z3.Not(z3.Or(nan, z3.fpIsInf(v)))
                        if kind == 'str':
                            t = bstr_py(val)
                            want = {b'NaN': nan, b'Infinity': pinf, b'-Infinity': ninf}.get(t, z3.BoolVal(False))
                            bad = z3.Not(want)
                        elif kind in ('f64', 'f32', 'collect_str'):
                            same = val_eq(val, v) if z3.is_expr(val) else z3.BoolVal(False)
                            bad = z3.Not(z3.And(fin, same))
                            if beh == 'KeyBehavior' and fmt == 'json' and kind != 'collect_str':
                                bad = z3.BoolVal(True)      # JSON keys must be spelled as strings
                        else:
                            bad = z3.BoolVal(True)
                    m = dec.decide(tag + ':event==conjure-spelling', s2, bad, event=kind)
                    if m is not None:
                        report_ser(rep, fmt, beh, meth, m, v, sort_, f'emits a {kind} event {bstr_py(val) if isinstance(val, BStr) else ""}')
                finish_engine(rep, it)


def impl_self(prog, fname):
    for info in prog.impls:
        for ms in info.methods.values():
            if fname in ms:
                from mirsym.types import ty_str
                return ty_str(info.self_ty)
    return ''


def report_ser(rep, fmt, beh, meth, m, v, sort_, what):
    if sort_ is None:
        rep.violation(f'C01:ser:{fmt}:{beh}:{meth}', f'bool key {m.eval(v, True)}: {what}', {})
        return
    bits = m.eval(z3.fpToIEEEBV(v), True).as_long()
    if sort_ == z3.Float32():
        # widen to f64 bits natively: replay takes f32 bits
        op = {'op': 'json_f64', 'bits32': str(bits), 'key': beh == 'KeyBehavior'}
    else:
        op = {'op': 'json_f64', 'bits': str(bits), 'key': beh == 'KeyBehavior'}
    r, r2 = replay([op])[0], replay([op], 'release')[0]
    rep.replayed += 1
    if not r.get('ok') and r == r2:
        rep.violation(f'C01:ser:nonfinite-spelling', f'{fmt} {beh}::{meth} on bits {bits:#x}: {what}; native {r}', {'op': op, 'native': r})
    elif fmt == 'smile':
        rep.inconc(f'C01: smile {beh}::{meth} counterexample bits {bits:#x} ({what}); the replay binary only materialises JSON')
    else:
        rep.inconc(f'model mismatch C01 {fmt} {beh}::{meth}: bits {bits:#x} ({what}) does not reproduce natively: {r}')


def run_m_de(rep):
    """client deserializer side: the three spellings come back as the three non-finite classes; other strings are not doubles"""
    prog = program(['conjure_serde'])
    rep.bounds['M-de'] = 'all valid-UTF-8 strings of <= 9 bytes delivered as the string event; value and key behaviours of the JSON client deserializer'
    for beh, meths in (('ValueBehavior', ('deserialize_f64', 'deserialize_f32')), ('KeyBehavior', ('deserialize_f64', 'deserialize_f32', 'deserialize_bool'))):
        for meth in meths:
            fns = [k for k in find_fns(prog, meth, inpath='conjure_serde::json::de::client::<impl at') if impl_self(prog, k).endswith(beh)]
            if len(fns) != 1:
                raise Inconclusive(f'C01 harness: json client {beh}::{meth} not unique: {fns}')
            T = 'bool' if meth.endswith('bool') else meth[-3:]
            tm = dict(models_serde.TMODELS)
            it = Interp(prog, M_DE + models_serde.MODELS + models_std.MODELS, tm, unwind=12)
            dec = Decider(rep, it)
            st = St()
            ptr, s = sym_str(st, 's', 9)
            de = Agg('StrEventDe', (s,))
            vis = Agg('PrimVisitor', (T,))
            for s2, rv in it.run(fns[0], [de, vis], st, {'D': ('path', 'StrEventDe', ()), 'V': ('path', 'PrimVisitor', ())}):
                rep.states += 1
                tag = f'de:json-client:{beh}:{meth}'
                if is_abnormal(rv):
                    m = dec.decide(tag + ':abnormal', s2, z3.BoolVal(True))
                    rep.violation('C01:' + tag, f'{tag}: {rv!r} on {model_bytes(m, s)!r}', {})
                    continue
                is_ok = it.variant_of(rv, 'Ok')
                okp = it.payload(rv, 'Ok')
                if T == 'bool':
                    conds = [z3.And(is_ok, z3.Not(z3.Or(spelled(s, 'true'), spelled(s, 'false')))), z3.And(z3.Not(is_ok), z3.Or(spelled(s, 'true'), spelled(s, 'false')))]
                    if okp is not None:
                        conds.append(z3.And(is_ok, okp.fields[0] != spelled(s, 'true')))
                else:
                    special = z3.Or(spelled(s, 'NaN'), spelled(s, 'Infinity'), spelled(s, '-Infinity'))
                    conds = [z3.And(special, z3.Not(is_ok))]
                    if okp is not None:
                        f = okp.fields[0]
                        conds += [z3.And(is_ok, spelled(s, 'NaN'), z3.Not(z3.fpIsNaN(f))),
                                  z3.And(is_ok, spelled(s, 'Infinity'), z3.Not(z3.And(z3.fpIsInf(f), z3.fpIsPositive(f)))),
                                  z3.And(is_ok, spelled(s, '-Infinity'), z3.Not(z3.And(z3.fpIsInf(f), z3.fpIsNegative(f))))]
                        if beh == 'ValueBehavior':
                            conds.append(z3.And(is_ok, z3.Not(special)))        # any other *string* is not a double value
                m = dec.decide(tag + ':spellings-decode-to-their-class', s2, z3.Or(*conds), bytes=9)
                if m is not None:
                    b = model_bytes(m, s)
                    op = {'op': 'json_parse_f64', 'text_hex': b.hex(), 'key': beh == 'KeyBehavior', 'ty': T}
                    r, r2 = replay([op])[0], replay([op], 'release')[0]
                    rep.replayed += 1
                    if not r.get('ok') and r == r2:
                        rep.violation('C01:de:nonfinite-spelling', f'json client {beh}::{meth} on the string {b!r}: native {r}', {'op': op, 'native': r})
                    else:
                        rep.inconc(f'model mismatch C01 de {beh}::{meth}: string {b!r} does not reproduce natively: {r}')
            finish_engine(rep, it)


def M_parse_float(it, ctx, args, st):
    """str::parse::<f64/f32/bool>: floats are an uninterpreted function of the text (never one of the three Conjure spellings,
    which std does not accept: 'NaN' is accepted by std, handled by the caller before parse is reached)"""
    from mirsym.models_std import sval, fork_bool, fresh_bv
    tgt = ctx.gargs[0][1]
    s = sval(st, args[0])
    if tgt == 'bool':
        t, f = bstr_eq(s, bstr('true')), bstr_eq(s, bstr('false'))
        for s2, i in it.fork_on(st, [t, f, z3.Not(z3.Or(t, f))]):
            yield s2, (it.ok(z3.BoolVal(i == 0)) if i < 2 else it.err(Agg('std::str::ParseBoolError', ())))
        return
    ok = z3.Bool(f'parse_float_ok!{id(s)}')
    val = z3.FP(f'parse_float!{id(s)}', z3.Float64() if tgt == 'f64' else z3.Float32())
    for s2, good in fork_bool(it, st, ok):
        yield s2, (it.ok(val) if good else it.err(Agg('std::num::ParseFloatError', ())))


M_DE = [(r'(?:core|std)::str::<impl str>::parse::<(?:f64|f32|bool)>', M_parse_float)]


def replay_cmd(path):
    w = json.load(open(path))
    print(json.dumps(replay([w['witness']['op']])[0], indent=1) if 'op' in w['witness'] else json.dumps(w['witness'], indent=1))
    return 0
