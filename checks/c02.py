"""C02 — generated types read and write the Conjure wire format (unions: the hand-written generated protocol code; the IR family
of /verif/gen-crates/types, default and exhaustive configuration).  The union harness is shared with C10."""
import json, re, itertools
import z3
from mirsym.interp import Interp, St
from mirsym import models_std, models_serde
from mirsym.models_std import fork_bool, sval, chain_ok
from mirsym.models_serde import de_err, rec_event
from mirsym.values import Agg, Enum, Ptr, Seq, BStr, UNIT, Panic, Unwind, bv, bstr, bstr_py, bstr_eq, is_abnormal
from mirsym.harness import Decider, finish_engine, replay, find_fns
from mirsym.parse import Unsupported
from mirsym.types import ty_str
from checks import gentypes
from vlib.common import Inconclusive

P = lambda name, *a: ('path', name, tuple(a))
LISTED = ['integer', 'double', 'text', 'obj']
UNLISTED = ['zzz', 'yyy']                      # two different unlisted names
KEYS = ['type'] + ['integer', 'obj'] + UNLISTED
TVALS = ['integer', 'obj'] + UNLISTED
NMAX = 3


class UDoc:
    """a union document as key/value events: n <= 3 members, key i from KEYS, the value under `type` from TVALS, payload decoding ok or not"""

    def __init__(self, st, tag='u'):
        self.n = z3.BitVec(tag + '_n', 64)
        st.pc.append(z3.ULE(self.n, NMAX))
        self.ksel = [z3.BitVec(f'{tag}_k{i}', 8) for i in range(NMAX)]
        st.pc += [z3.ULT(k, len(KEYS)) for k in self.ksel]
        self.tsel = [z3.BitVec(f'{tag}_t{i}', 8) for i in range(NMAX)]
        st.pc += [z3.ULT(t, len(TVALS)) for t in self.tsel]
        self.pok = [z3.Bool(f'{tag}_payload_ok{i}') for i in range(NMAX)]

    def concrete(self, m):
        n = m.eval(self.n, True).as_long()
        out = []
        for i in range(n):
            k = KEYS[m.eval(self.ksel[i], True).as_long()]
            if k == 'type':
                out.append((k, TVALS[m.eval(self.tsel[i], True).as_long()]))
            else:
                out.append((k, z3.is_true(m.eval(self.pok[i], True))))
        return out


PAYLOAD_TYPES_SEEN = []


def union_models(doc):
    def cell_of(st, mp):
        while isinstance(st.deref(mp), Ptr):
            mp = st.deref(mp)
        return st.deref(mp).fields[0]

    def T_next_key(it, ctx, args, st):
        cell = cell_of(st, args[0])
        pos = st.deref(cell)
        K = ctx.gargs[0]
        if pos >= NMAX:
            yield st, it.ok(it.none)
            return
        for s2, more in fork_bool(it, st, z3.UGT(doc.n, bv(pos))):
            if not more:
                yield s2, it.ok(it.none)
                continue
            for s3, ki in it.fork_on(s2, [doc.ksel[pos] == i for i in range(len(KEYS))]):
                de = Agg('StrEventDe', (bstr(KEYS[ki]),))
                yield from chain_ok(it, it.call_trait(ctx.fr, K, 'serde::Deserialize', 'deserialize', [P('StrEventDe')], [de], s3),
                                    lambda s, v: iter([(s, it.ok(it.some(v)))]))

    def T_next_value(it, ctx, args, st):
        cell = cell_of(st, args[0])
        pos = st.deref(cell)
        st.write(cell, pos + 1)
        V = ctx.gargs[0]
        vname = V[1].split('::')[-1]
        if vname == 'Variant_':
            for s2, ti in it.fork_on(st, [doc.tsel[pos] == i for i in range(len(TVALS))]):
                de = Agg('StrEventDe', (bstr(TVALS[ti]),))
                yield from it.call_trait(ctx.fr, V, 'serde::Deserialize', 'deserialize', [P('StrEventDe')], [de], s2)
            return
        kidx = [i for i in range(len(KEYS)) if it.feasible(st, doc.ksel[pos] == i)]
        st.aux['payload_types'] = st.aux.get('payload_types', ()) + ((tuple(kidx), vname),)
        PAYLOAD_TYPES_SEEN.append((tuple(kidx), vname))          # also kept outside the state: the path may not complete
        for s2, good in fork_bool(it, st, doc.pok[pos]):
            yield s2, (it.ok(Agg('Payload', (vname, pos))) if good else it.err(de_err('payload', vname)))

    def T_next_value_seed(it, ctx, args, st):
        """MapAccess::next_value_seed(seed): the value of the entry whose key was just read; for the `type` entry a string event handed to
        the seed's own DeserializeSeed impl (executed from MIR); payload entries stay abstract and have no seeded form"""
        cell = cell_of(st, args[0])
        pos = st.deref(cell)
        S = ctx.gargs[0]
        is_type = [i for i in range(len(KEYS)) if it.feasible(st, doc.ksel[pos] == i)] == [0]
        if not is_type:
            raise Unsupported(f'next_value_seed::<{ty_str(S)}> on a payload entry (payloads are abstract tokens)')
        st.write(cell, pos + 1)
        for s2, ti in it.fork_on(st, [doc.tsel[pos] == i for i in range(len(TVALS))]):
            de = Agg('StrEventDe', (bstr(TVALS[ti]),))
            yield from it.call_trait(ctx.fr, S, 'serde::de::DeserializeSeed', 'deserialize', [P('StrEventDe')], [args[1], de], s2)

    def T_strde_str(it, ctx, args, st):
        de, visitor = args
        V = ctx.gargs[0]
        yield from it.call_trait(ctx.fr, V, 'serde::de::Visitor', 'visit_str', [P('DeError')], [visitor, st.ref(de.fields[0])], st)

    def M_into_deserializer(it, ctx, args, st):
        yield st, Agg('StrEventDe', (sval(st, args[0]),))

    tm = {('EvMap', 'MapAccess', 'next_key'): T_next_key, ('EvMap', 'MapAccess', 'next_value'): T_next_value, ('EvMap', 'MapAccess', 'next_value_seed'): T_next_value_seed,
          ('StrEventDe', 'Deserializer', 'deserialize_str'): T_strde_str, ('StrEventDe', 'Deserializer', 'deserialize_string'): T_strde_str,
          ('StrEventDe', 'Deserializer', 'deserialize_any'): T_strde_str, ('StrEventDe', 'Deserializer', 'deserialize_identifier'): T_strde_str}
    for k_ in list(tm):
        if k_[0] == 'StrEventDe':
            tm[('StrDeserializer',) + k_[1:]] = tm[k_]
    models = [(r'<&str as (?:[\w:]+::)?de::IntoDeserializer<.*>>::into_deserializer|<&str as .*IntoDeserializer.*>::into_deserializer|(?:[\w:]+::)?de::value::StrDeserializer::<.*>::new', M_into_deserializer)]
    return models, tm


def spec(doc, exhaustive):
    """the wire specification on the symbolic document -> (accept: Bool, variant name index among LISTED+UNLISTED: z3 term)"""
    n, ks, ts, pok = doc.n, doc.ksel, doc.tsel, doc.pok
    TYPE = 0
    alts = []
    names = TVALS            # key alphabet without `type` has the same names as TVALS, in the same order
    for tpos, vpos in ((0, 1), (1, 0)):
        same_name = z3.And(ks[vpos] != TYPE, ks[vpos] - 1 == ts[tpos])          # KEYS[i+1] == TVALS[i]
        listed = z3.ULT(ts[tpos], 2)
        alts.append(z3.And(n == 2, ks[tpos] == TYPE, same_name, pok[vpos], listed if exhaustive else z3.BoolVal(True)))
    return z3.Or(*alts)


from checks.c10 import MODELS as BOX_MODELS   # noqa: E402  (Box<str> helpers)


def run_union(rep, prog, pid):
    rep.bounds['union'] = (f'documents of <= {NMAX} members, keys from {{type, integer, obj, zzz, yyy}} (two listed variants, two different unlisted names) in every order, '
                           'type value from the same names, payload decoding succeeding or failing; default and exhaustive configuration')
    for cfg in ('types', 'exhaustive_types'):
        vm = [k for k in find_fns(prog, 'visit_map', inpath=f'{gentypes.CRATE}::{cfg}::p::test_union::') if 'Visitor_' in prog.fns[k].args[0][1]]
        if len(vm) != 1:
            raise Inconclusive(f'{pid} harness: {cfg} TestUnion visit_map not unique: {vm}')
        st = St()
        doc = UDoc(st)
        um, utm = union_models(doc)
        tm = dict(models_serde.TMODELS)
        tm.update(utm)
        it = Interp(prog, um + BOX_MODELS + models_serde.MODELS + models_std.MODELS, tm, unwind=NMAX + 6)
        dec = Decider(rep, it)
        cell = st.ref(0)
        mp = st.ref(Agg('EvMap', (cell,)))
        vis = Agg(f'{gentypes.CRATE}::{cfg}::p::test_union::Visitor_', ())
        accept = spec(doc, cfg == 'exhaustive_types')
        np_, seen = 0, {'ok': 0, 'err': 0}
        del PAYLOAD_TYPES_SEEN[:]

        def payload_discipline(seen):
            # discipline behind C05 (and C01's encodings): the payload of a *listed* variant is decoded straight from the map access with
            # its declared type -- hence by the wrapped deserializer that rejects / ignores unknown fields -- not through a buffer
            for kidx, vname in seen:
                for ki in kidx:
                    want = {1: ('i32',), 2: ('Obj',)}.get(ki)
                    if want is not None and vname not in want and re.sub(r'\d+$', '', vname) not in want:       # Obj1: same-named type of another configuration
                        rep.structural(f'{pid}:union-payload-buffered', f'{cfg}: the payload of the listed variant {KEYS[ki]!r} is decoded as {vname} instead of its declared type: '
                                       'it leaves the deserializer the caller chose (unknown-field behaviour, Conjure encodings)', {'cfg': cfg, 'key': KEYS[ki], 'decoded_as': vname}, battery_union_wrapped)
        outs = it.run(vm[0], [vis, st.deref(mp)], st, {'A': P('EvMap')})
        while True:
            try:
                s2, rv = next(outs)
            except StopIteration:
                break
            except Exception:
                payload_discipline(list(PAYLOAD_TYPES_SEEN))
                raise
            np_ += 1
            rep.states += 1
            tag = f'union:{cfg}:path{np_}'
            if isinstance(rv, Unwind):
                rep.inconc(f'{pid} {tag}: unwind {rv.where}')
                continue
            if isinstance(rv, Panic):
                m = dec.decide(tag + ':panic', s2, z3.BoolVal(True))
                if m is not None:
                    report_union(rep, pid, cfg, doc, m, f'panic: {rv.msg}')
                continue
            payload_discipline(s2.aux.get('payload_types', ()))
            is_ok = it.variant_of(rv, 'Ok')
            okp = it.payload(rv, 'Ok')
            conds = [is_ok != accept]
            if okp is not None:
                u = okp.fields[0]
                # the variant must be the one the document names; listed names are never classified as unknown
                unk = u.decl.index.get('Unknown')
                tpos_first = doc.ksel[0] == 0
                tname = z3.If(tpos_first, doc.tsel[0], doc.tsel[1])
                want_idx = z3.If(tname == 0, bv(u.decl.index['Integer']), z3.If(tname == 1, bv(u.decl.index['Obj']), bv(unk if unk is not None else 99)))
                conds.append(z3.And(is_ok, u.discr != want_idx))
                if unk is not None and it.payload(u, 'Unknown') is not None and it.feasible(s2, z3.And(is_ok, u.discr == unk)):
                    # the unknown variant exposes the name of the document
                    nm = it.payload(u, 'Unknown').fields[0]
                    t = nm.fields[0]
                    if isinstance(t, Agg):
                        t = s2.deref_all(t.fields[0].fields[0])
                    for i, name in enumerate(TVALS):
                        if i >= 2:
                            conds.append(z3.And(is_ok, u.discr == unk, tname == i, z3.Not(bstr_eq(t, bstr(name)))))
            m = dec.decide(tag + ':accept<=>wire-spec-and-variant', s2, z3.Or(*conds), members=NMAX)
            if m is not None:
                report_union(rep, pid, cfg, doc, m, 'acceptance or classification differs from the wire specification')
                continue
            seen['ok'] += int(it.feasible(s2, is_ok))
            seen['err'] += int(it.feasible(s2, z3.Not(is_ok)))
        if not seen['ok'] or not seen['err']:
            rep.inconc(f'vacuity: {pid} union {cfg}: {seen}')
        finish_engine(rep, it)


def report_union(rep, pid, cfg, doc, m, what):
    members = doc.concrete(m)
    def val(k, v):
        if k == 'type':
            return json.dumps(v)
        good = {'integer': '1', 'obj': '{"foo":1}'}.get(k, '{"any":[1]}')
        bad = {'integer': '"x"', 'obj': '{"foo":"x"}'}.get(k)
        return good if (v or bad is None) else bad
    text = '{' + ','.join(f'{json.dumps(k)}:{val(k, v)}' for k, v in members) + '}'
    keys = [k for k, _ in members]
    if len(keys) != len(set(keys)):
        # duplicate keys: JSON objects with duplicate members are outside the wire specification
        rep.inconc(f'{pid}: counterexample has duplicate members (outside the statement): {text}')
        return
    if any(k not in ('type', 'integer', 'obj') and not v for k, v in members if k != 'type'):
        rep.inconc(f'{pid}: counterexample needs an undecodable `any` payload, which does not exist: {text}')
        return
    op = {'op': 'gen_union', 'doc': text}
    r, r2 = replay([op])[0], replay([op], 'release')[0]
    rep.replayed += 1
    want = py_union_spec(members, cfg == 'exhaustive_types')
    got = r['exhaustive' if cfg == 'exhaustive_types' else 'default']
    if got != want and r == r2:
        rep.violation(f'{pid}:union', f'{cfg} TestUnion, document {text}: {what}; native {got!r}, wire specification {want!r}', {'op': op, 'native': r})
    else:
        rep.inconc(f'model mismatch {pid} union {cfg}: {text} ({what}) does not reproduce natively: {got!r} vs {want!r}')


def py_union_spec(members, exhaustive):
    if len(members) != 2:
        return 'err'
    keys = [k for k, _ in members]
    if keys.count('type') != 1:
        return 'err'
    t = dict(members)['type']
    other = [(k, v) for k, v in members if k != 'type'][0]
    if other[0] != t or not other[1]:
        return 'err'
    if t in ('integer', 'obj'):
        return {'integer': 'Integer', 'obj': 'Obj'}[t]
    return 'err' if exhaustive else f'Unknown({t})'


def run(rep, tier):
    global NMAX
    from checks import c02obj
    NMAX = 3 if tier == 'quick' else 4            # thorough: union documents of <= 4 members, object documents of <= 5
    c02obj.NMAX = 4 if tier == 'quick' else 5
    prog = gentypes.types_program()
    with rep.part('union deserialize'):
        run_union(rep, prog, 'C02')
    with rep.part('union serialize'):
        run_union_serialize(rep, prog)
    from checks import c02obj
    with rep.part('generated object'):
        c02obj.run(rep, prog)
    ops = [{'op': 'gen_union', 'doc': '{"obj":{"foo":1},"type":"obj"}'}, {'op': 'gen_union', 'doc': '{"type":"zzz","zzz":[1]}'},
           {'op': 'gen_union', 'doc': '{"zzz":1,"type":"yyy"}'}, {'op': 'gen_object', 'doc': '{"req":1,"s":"x","sl":5,"e":"ONE"}'},
           {'op': 'gen_object', 'doc': '{"req":1,"s":"x","sl":9007199254740992,"e":"ONE"}'}, {'op': 'gen_object', 'doc': '{"req":null,"s":"x","sl":5,"e":"ONE"}'}]
    res = replay(ops)
    rep.replayed += len(ops)
    want = [('Obj', 'Obj'), ('Unknown(zzz)', 'err'), ('err', 'err'), ('ok', 'ok'), ('err', 'err'), ('err', 'err')]
    for o, r, w in zip(ops, res, want):
        if (r.get('default'), r.get('exhaustive')) != w:
            rep.violation('C02:native-twin', f'{o}: native {r}, expected {w}', {'op': o, 'native': r})
    rep.assumptions += ['documents arrive as key/value events (JSON text parsing is serde_json); payload decoding is an abstract success/failure per member',
                        'the serde-derive expansion of the generated object ObjD and the hand-written union protocol are executed from MIR; field payloads are abstract tokens (decodes / does not decode)']
    rep.outside += ['every valid Conjure definition: only the IR family of /verif/gen-crates/types', 'objects other than ObjD, aliases, primitives in their encodings (C15, C16, C01 cover the leaves)']


def battery_union_wrapped():
    """native twins: the server rejects and the client ignores an undeclared field beneath a union variant, whichever member comes first"""
    docs = ['{"type":"obj","obj":{"foo":1,"bogus":2}}', '{"obj":{"foo":1,"bogus":2},"type":"obj"}']
    out = []
    for d, r in zip(docs, replay([{'op': 'gen_union', 'doc': d} for d in docs])):
        if r.get('default_server') != 'err' or r.get('default') != 'Obj':
            out.append(f'{d}: server {r.get("default_server")!r} (must reject), client {r.get("default")!r} (must ignore the field and yield Obj)')
    return out


def battery_union():
    ops = [({'op': 'gen_union', 'doc': '{"type":"integer","integer":5}'}, '{"type":"integer","integer":5}'), ({'op': 'gen_union', 'doc': '{"obj":{"foo":1},"type":"obj"}'}, '{"type":"obj","obj":{"foo":1}}'),
           ({'op': 'gen_union', 'doc': '{"type":"zzz","zzz":[1]}'}, '{"type":"zzz","zzz":[1]}'), ({'op': 'gen_union', 'doc': '{"type":"text","text":"x"}'}, '{"type":"text","text":"x"}')]
    out = []
    for (o, want), r in zip(ops, replay([o for o, _ in ops])):
        if r.get('reserialized') != want:
            out.append(f'{o["doc"]} re-serializes as {r.get("reserialized")!r}, canonical form {want!r}')
    return out


def run_union_serialize(rep, prog):
    """re-serialisation: {"type": variant, variant: value} in that order"""
    for cfg in ('types', 'exhaustive_types'):
        ser = [k for k in find_fns(prog, 'serialize', inpath=f'{gentypes.CRATE}::{cfg}::p::test_union::') if prog.fns[k].args[0][1].endswith('TestUnion')]
        if len(ser) != 1:
            raise Inconclusive(f'C02 harness: {cfg} TestUnion serialize not unique: {ser}')
        d = prog.src.enum(f'{gentypes.CRATE}::{cfg}::p::test_union::TestUnion')

        def T_ser_map(it, ctx, args, st):
            rec_event(st, 'map', args[1])
            yield st, it.ok(Agg('RecMap', ()))

        def T_ser_entry(it, ctx, args, st):
            k = st.deref_all(args[1])
            v = st.deref_all(args[2])
            rec_event(st, 'entry', (k, v))
            yield st, it.ok(UNIT)

        def T_ser_end(it, ctx, args, st):
            rec_event(st, 'end', None)
            yield st, it.ok(UNIT)
        tm = dict(models_serde.TMODELS)
        tm.update({('Rec', 'Serializer', 'serialize_map'): T_ser_map, ('RecMap', 'SerializeMap', 'serialize_entry'): T_ser_entry, ('RecMap', 'SerializeMap', 'end'): T_ser_end})
        for vi, (vname, _) in enumerate(d.variants):
            it = Interp(prog, BOX_MODELS + models_serde.MODELS + models_std.MODELS, tm, unwind=8)
            it.assoc_types[('Rec', 'Serializer', 'SerializeMap')] = P('RecMap')
            st = St()
            payload = Agg('Payload', (vname,))
            if vname == 'Unknown':
                unk = Agg(f'{gentypes.CRATE}::{cfg}::p::test_union::Unknown', (models_std.box(st, bstr('zzz')), payload))
                u = Enum(d, bv(vi), ((vi, Agg(vname, (unk,))),))
                wire = 'zzz'
            else:
                u = Enum(d, bv(vi), ((vi, Agg(vname, (payload,))),))
                wire = {'Integer': 'integer', 'Double': 'double', 'Text': 'text', 'Obj': 'obj'}[vname]
            st.aux['rec'] = ()
            for s2, rv in it.run(ser[0], [st.ref(u), Agg('Rec', ())], st, {'S': P('Rec')}):
                rep.states += 1
                ev = s2.aux.get('rec', ())
                def txt(x):
                    x = s2.deref_all(x) if isinstance(x, Ptr) else x
                    if isinstance(x, Agg) and x.name == 'Box':
                        x = s2.deref_all(x.fields[0].fields[0])
                    return bstr_py(x) if isinstance(x, BStr) else x
                entries = [(txt(e[1][0]), txt(e[1][1])) for e in ev if e[0] == 'entry']
                ok = len(entries) == 2 and entries[0] == (b'type', wire.encode()) and entries[1][0] == wire.encode() and entries[1][1] == payload and ev[-1][0] == 'end'
                rep.query(f'union-serialize:{cfg}:{vname}:canonical-order', 'unsat' if ok else 'sat', 0.0, events=[str(e)[:60] for e in entries])
                if not ok:
                    rep.structural('C02:union-serialize', f'{cfg} TestUnion::{vname} serializes as {entries} instead of type then {wire}', {'events': str(ev)[:400]}, battery_union)
            finish_engine(rep, it)


def replay_cmd(path):
    w = json.load(open(path))
    print(json.dumps(replay([w['witness']['op']])[0], indent=1))
    return 0
