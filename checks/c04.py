"""C04 — a client call reaches the matching server handler with identical arguments.

Composition on the real expansions of #[conjure_client] and #[conjure_endpoints] over one definition (gen-crates/endpoints):
the MIR of the client method is executed with symbolic argument values, its `Client::send` is a model that applies the
transport/router contract (split the path on the template, percent-decode nothing, form_urlencoded-parse the query, copy
headers and body) and runs the MIR of the matching server `Endpoint::handle`; the handler model records its arguments and
returns a symbolic value, which travels back through the real response serializer and the real response deserializer."""
import json, re, os
import z3
from mirsym.interp import Interp, St
from mirsym import models_std, models_http, models_serde
from mirsym.models_std import fork_bool, It, sval, parse_int_model, fresh_bv
from mirsym.models_http import header_value, header_map, visible_ascii
from mirsym.values import val_eq, Agg, Enum, Ptr, Seq, BStr, UNIT, Panic, Unwind, Coro, bv, bstr, bstr_py, bstr_eq, bstr_concat, bstr_slice, concrete, is_abnormal
from mirsym.parse import Unsupported
from mirsym.harness import sym_str, Decider, finish_engine, replay, model_bytes
from checks import endpoints as ep
from checks.c16 import bearer_oracle
from checks import c07, c11, c18, c06, bodyio
from mirsym.types import ty_str
from vlib.common import Inconclusive

L = 3          # bytes per string argument (three: a percent triplet fits)


# ------------------------------------------------------------------ http::Request as built by the client
# Request = Agg('http::Request', (method, uri, headers tuple of (name, value) in insertion order, extensions tuple, body))
def M_request_new(it, ctx, args, st):
    yield st, Agg('http::Request', (Agg('Method', ('GET',)), None, (), (), args[0]))


def field_ptr(i):
    def m(it, ctx, args, st):
        r = args[0]
        yield st, Ptr(r.addr, r.proj + (('f', i),))
    return m


def hname(v):
    """header name of a HeaderName value; the http crate's standard constants (CONTENT_TYPE, ..) are named after their header"""
    if v.name == 'http::HeaderName':
        return v.fields[0]
    last = v.name.split('::')[-1]
    if re.fullmatch(r'[A-Z][A-Z0-9_]*', last):
        return last.lower().replace('_', '-')
    raise Unsupported(f'header name {v!r:.80}')


def M_headers_insert(it, ctx, args, st):
    hp, name, val = args[0], args[1], args[2]
    cur = st.deref(hp)
    nm = hname(name)
    old = [v for k, v in cur if k == nm]
    st.write(hp, tuple((k, v) for k, v in cur if k != nm) + ((nm, val),))
    yield st, (it.some(old[0]) if old else it.none)


def M_headers_append(it, ctx, args, st):
    hp, name, val = args[0], args[1], args[2]
    cur = st.deref(hp)
    st.write(hp, cur + ((hname(name), val),))
    yield st, z3.BoolVal(any(k == hname(name) for k, _ in cur))


def M_headername_from_static(it, ctx, args, st):
    s = bstr_py(sval(st, args[0]))
    if s is None:
        raise Unsupported('HeaderName::from_static of a symbolic name')
    if s != s.lower():
        yield st, Panic('HeaderName::from_static: invalid (upper-case) header name', ctx.fr.fn.name)
        return
    yield st, Agg('http::HeaderName', (s.decode(),))


def hv_valid(s):
    """http::HeaderValue validity: every byte is >= 32 and != 127, or a tab"""
    return z3.And(*[z3.Or(z3.UGE(bv(i), s.len), z3.And(z3.UGE(b, 32), b != 127), b == 9) for i, b in enumerate(s.bytes)])


def M_hv_try_from(it, ctx, args, st):
    s = args[0] if isinstance(args[0], BStr) else sval(st, args[0])
    if isinstance(s, Agg) and s.name == 'Bytes':
        s = s.fields[0]
    for s2, ok in fork_bool(it, st, hv_valid(s)):
        yield s2, (it.ok(header_value(s)) if ok else it.err(Agg('http::header::InvalidHeaderValue', ())))


def M_hv_from_usize(it, ctx, args, st):
    yield st, Agg('HeaderValueInt', (args[0],))


def M_ext_insert_endpoint(it, ctx, args, st):
    ep_ = args[0]
    st.write(ep_, st.deref(ep_) + (args[1],))
    yield st, it.none


def M_endpoint_new(it, ctx, args, st):
    yield st, Agg('conjure_http::client::Endpoint', tuple(args))


H = r'(?:http|conjure_http::private|conjure_http::private::http)::(?:header::)?(?:name::|value::|map::|request::|response::|extensions::)?'
CLIENT_MODELS = [
    (r'bytes::BytesMut::extend_from_slice', lambda *a: M_bm_extend_logged(*a)), (r'http::Uri::from_maybe_shared::<.*>', lambda *a: M_uri_from_pieces(*a)),
    (H + r'Request::<.*>::new', M_request_new),
    (H + r'Request::<.*>::method_mut', field_ptr(0)), (H + r'Request::<.*>::uri_mut', field_ptr(1)),
    (H + r'Request::<.*>::headers_mut', field_ptr(2)), (H + r'Request::<.*>::extensions_mut', field_ptr(3)),
    (H + r'HeaderMap(?:::<.*>)?::insert::<.*>', M_headers_insert),
    (H + r'HeaderMap(?:::<.*>)?::append::<.*>', M_headers_append),
    (H + r'HeaderName::from_static', M_headername_from_static),
    (r'<http::HeaderValue as std::convert::TryFrom<std::string::String>>::try_from|' + H + r'HeaderValue::from_maybe_shared::<.*>', M_hv_try_from),
    (r'<http::HeaderValue as std::convert::From<usize>>::from', M_hv_from_usize),
    (H + r'Extensions::insert::<conjure_http::client::Endpoint>', M_ext_insert_endpoint),
    (r'conjure_http::client::Endpoint::new', M_endpoint_new),
]
CLIENT_CONSTS = {
    'http::Method::GET': lambda it, st: Agg('Method', ('GET',)), 'http::Method::POST': lambda it, st: Agg('Method', ('POST',)),
    'http::Method::PUT': lambda it, st: Agg('Method', ('PUT',)), 'http::Method::DELETE': lambda it, st: Agg('Method', ('DELETE',)),
    'http::header::AUTHORIZATION': lambda it, st: Agg('http::HeaderName', ('authorization',)),
    'http::header::COOKIE': lambda it, st: Agg('http::HeaderName', ('cookie',)),
    'http::header::ACCEPT': lambda it, st: Agg('http::HeaderName', ('accept',)),
    'http::header::CONTENT_TYPE': lambda it, st: Agg('http::HeaderName', ('content-type',)),
    'http::header::CONTENT_LENGTH': lambda it, st: Agg('http::HeaderName', ('content-length',)),
}



# ------------------------------------------------------------------ ghost structure of the URI buffer
def M_bm_extend_logged(it, ctx, args, st):
    """BytesMut::extend_from_slice, additionally remembering the pieces the buffer was assembled from"""
    p = args[0]
    cur = sval(st, p)
    add = sval(st, args[1])
    new = bstr_concat(cur, add)
    log = st.aux.get('bm_log', ())
    prev = next((pcs for obj, pcs in log if obj is cur), None)
    if prev is None:
        prev = () if bstr_py(cur) == b'' else (cur,)
    st.aux['bm_log'] = log[-3:] + ((new, prev + (add,)),)
    st.write(p, new)
    yield st, UNIT


def tokens_of(st, buf):
    """the buffer as a list of concrete bytes and ('enc', i) atoms (output of the i-th percent-encoding call); None if unknown"""
    pcs = next((pcs for obj, pcs in st.aux.get('bm_log', ()) if obj is buf), None)
    if pcs is None:
        return None
    recs = st.aux.get('pctenc', ())
    toks = []
    for pc in pcs:
        idx = next((i for i, r in enumerate(recs) if r[2] is pc), None)
        if idx is not None:
            toks.append(('enc', idx))
            continue
        py = bstr_py(pc)
        if py is None:
            return None
        toks += list(py)
    return toks


def raw_kept(mask):
    return [b for b in range(128) if not (mask >> b) & 1]


def M_uri_from_pieces(it, ctx, args, st):
    """Uri::from_maybe_shared for a buffer whose structure is known: validity decided piecewise (literal bytes concretely,
    encoded pieces through the bytes their percent-encode set leaves raw); falls back to the bytewise model otherwise"""
    s = sval(st, args[0])
    toks = tokens_of(st, s)
    if toks is None:
        yield from models_http.M_uri_from_maybe_shared(it, ctx, args, st)
        return
    recs = st.aux.get('pctenc', ())
    ok = bool(toks) and toks[0] == ord('/')
    in_query = False
    for t in toks:
        if isinstance(t, int):
            if t == ord('#'):
                break
            if t == ord('?') and not in_query:
                in_query = True
                continue
            ok = ok and (t in c07.QUERY_OK or t >= 0x80 if in_query else t in c07.PATH_OK or t >= 0x80)
        else:
            cm = concrete(recs[t[1]][1])
            if cm is None:
                raise Inconclusive('percent-encode set is not a compile-time constant')
            okset = c07.QUERY_OK if in_query else c07.PATH_OK
            ok = ok and all(b in okset for b in raw_kept(cm)) and ord('%') in okset
    if ok:
        yield st, it.ok(Agg('http::Uri', (s, None, None)))
    else:
        yield from models_http.M_uri_from_maybe_shared(it, ctx, args, st)


# ------------------------------------------------------------------ transport + router contract
class NotRoutable(Exception):
    def __init__(self, msg, hint=None):
        super().__init__(msg)
        self.hint = hint          # (input string, byte) : a witness should put that byte into that argument


def split_tokens(toks, sep):
    out, cur = [], []
    for t in toks:
        if t == sep:
            out.append(cur)
            cur = []
        else:
            cur.append(t)
    out.append(cur)
    return out


def raw_value(st, toks):
    """the text of a token run as a bounded string (an encoded atom stays the very object the client produced)"""
    recs = st.aux.get('pctenc', ())
    if len(toks) == 1 and not isinstance(toks[0], int):
        return recs[toks[0][1]][2]
    out = bstr(b'')
    for t in toks:
        out = bstr_concat(out, bstr(bytes([t])) if isinstance(t, int) else recs[t[1]][2])
    return out


def form_decoded(st, toks, rep=None):
    """form_urlencoded value decoding of a token run: literal bytes concretely; an encoded atom decodes to the client's input
    provided its set escapes every byte that form decoding or query splitting would reinterpret (library contract)"""
    import urllib.parse
    recs = st.aux.get('pctenc', ())
    out = bstr(b'')
    lit = bytearray()
    for t in toks:
        if isinstance(t, int):
            lit.append(t)
            continue
        if lit:
            out = bstr_concat(out, bstr(urllib.parse.unquote_to_bytes(bytes(lit).replace(b'+', b' '))))
            lit = bytearray()
        inp, mask, enc = recs[t[1]]
        cm = concrete(mask)
        bad = [b for b in raw_kept(cm) if not c07.harmless(b, 'query')]
        if bad:
            raise NotRoutable(f'query value keeps {bytes(bad)!r} raw', (inp, bad[0]))
        out = bstr_concat(out, inp) if out.bytes else inp
    if lit:
        out = bstr_concat(out, bstr(urllib.parse.unquote_to_bytes(bytes(lit).replace(b'+', b' ')))) if out.bytes else bstr(urllib.parse.unquote_to_bytes(bytes(lit).replace(b'+', b' ')))
    return out


def route(it, st, req, servers):
    """-> (endpoint name, server request value).  servers: {name: (method, template)} read from the server expansion's metadata"""
    method, uri, headers, exts, body = req.fields
    if uri is None:
        raise NotRoutable('the request has no URI')
    toks = tokens_of(st, uri.fields[0])
    if toks is None:
        raise NotRoutable('URI of unknown structure')
    if ord('#') in toks:
        toks = toks[:toks.index(ord('#'))]
    qi = toks.index(ord('?')) if ord('?') in toks else len(toks)
    ptoks, qtoks = toks[:qi], toks[qi + 1:]
    recs = st.aux.get('pctenc', ())
    segs = split_tokens(ptoks, ord('/'))
    if segs[0] != []:
        raise NotRoutable('path does not start with /')
    segs = segs[1:]
    hits = []
    for name, (smethod, template) in servers.items():
        if smethod != method.name.split('::')[-1] or len(template) != len(segs):
            continue
        pp, ok = [], True
        for (kind, text), seg in zip(template, segs):
            if kind == 'lit':
                ok = ok and all(isinstance(t, int) for t in seg) and bytes(seg) == text
            else:
                for t in seg:
                    if not isinstance(t, int):
                        cm = concrete(recs[t[1]][1])
                        bad = [b for b in raw_kept(cm) if not c07.harmless(b, 'path')]
                        if bad:
                            raise NotRoutable(f'path value keeps {bytes(bad)!r} raw', (recs[t[1]][0], bad[0]))
                pp.append((text.decode(), raw_value(st, seg)))
        if ok:
            hits.append((name, pp))
    if len(hits) != 1:
        raise NotRoutable(f'{len(hits)} server endpoints match the request path')
    name, pp = hits[0]
    qm = {}
    import urllib.parse
    if qtoks:
        for pair in split_tokens(qtoks, ord('&')):
            if not pair:
                continue
            eq = pair.index(ord('=')) if ord('=') in pair else len(pair)
            k, v = pair[:eq], pair[eq + 1:]
            if not all(isinstance(t, int) for t in k):
                raise NotRoutable('symbolic query key')
            key = urllib.parse.unquote_to_bytes(bytes(k).replace(b'+', b' ')).decode('utf-8', 'replace')
            qm.setdefault(key, []).append(form_decoded(st, v))
    hm = {}
    for hname, hval in headers:
        hm.setdefault(hname, []).append(hval)
    hmap = header_map([(k, Agg('GetAll', (bv(len(v)), tuple(v)))) for k, v in hm.items()])
    qmap = Agg('QueryMap', (tuple((k, (bv(len(v)), tuple(v))) for k, v in qm.items()),))
    parts = Agg('http::request::Parts', (UNIT, Agg('UriWithQuery', (qmap,)), UNIT, hmap, Agg('http::Extensions', (Agg('PathParams', (tuple(pp),)),)), UNIT))
    return name, Agg('http::Request', (parts, server_body(it, st, body)))


def server_body(it, st, body):
    """client RequestBody -> the chunk iterator the server reads"""
    if isinstance(body, Enum):
        v = [vn for vn in ('Empty', 'Fixed', 'Streaming') if it.feasible(st, it.variant_of(body, vn))]
        if v == ['Empty']:
            return Agg('ChunkIter', (0, bv(0), ()))
        if v == ['Fixed']:
            b = it.payload(body, 'Fixed').fields[0]
            return Agg('ChunkIter', (0, bv(1), (it.ok(b),)))
    raise Unsupported(f'request body {body!r:.100}')

# ------------------------------------------------------------------ http::Response as built by the server
def M_response_new(it, ctx, args, st):
    yield st, Agg('http::Response', (Agg('http::StatusCode', (z3.BitVecVal(200, 16),)), (), args[0]))


SERVER_MODELS = [
    (H + r'Response::<.*>::new', M_response_new),
    (H + r'Response::<.*>::status_mut', field_ptr(0)), (H + r'Response::<.*>::headers_mut', field_ptr(1)),
]


def client_response(it, st, resp):
    """server Response<ResponseBody> -> the Response<chunk iterator> the client reads (transport contract: status, headers and
    body bytes are delivered unchanged; a fixed body arrives as one chunk)"""
    status, headers, body = resp.fields
    hm = {}
    for hname, hval in headers:
        hm.setdefault(hname, []).append(hval)
    hmap = header_map([(k, Agg('GetAll', (bv(len(v)), tuple(v)))) for k, v in hm.items()])
    if isinstance(body, Enum):
        v = [vn for vn in ('Empty', 'Fixed', 'Streaming') if it.feasible(st, it.variant_of(body, vn))]
        if v == ['Empty']:
            cb = Agg('ChunkIter', (0, bv(0), ()))
        elif v == ['Fixed']:
            cb = Agg('ChunkIter', (0, bv(1), (it.ok(it.payload(body, 'Fixed').fields[0]),)))
        else:
            raise Unsupported(f'response body {v}')
    else:
        raise Unsupported(f'response body {body!r:.100}')
    return Agg('http::Response', (status, hmap, cb))



# ------------------------------------------------------------------ documents: serde_json at its leaves
# J(v): the JSON text of a string value v is a fresh byte string j; st.aux['docs'] remembers (format, type, j, v).  Decoding a
# buffer that provably equals a remembered j yields v and ends cleanly (serde_json contract: from_slice(to_vec(v)) = v); any other
# buffer decodes to an unconstrained outcome.
def json_string(v):
    """serde_json's compact text of a string: quotes, \\" \\\\ \\b \\t \\n \\f \\r, other control bytes as \\u00xx (lower-case hex), the rest verbatim"""
    c8 = lambda ch: z3.BitVecVal(ord(ch), 8)
    out = bstr(b'"')
    for i, b in enumerate(v.bytes):
        present = z3.ULT(bv(i), v.len)
        short = {0x22: '"', 0x5c: '\\', 8: 'b', 9: 't', 10: 'n', 12: 'f', 13: 'r'}
        is_short = z3.Or(*[b == k for k in short])
        letter = b
        for k, ch in short.items():
            letter = z3.If(b == k, c8(ch), letter)
        is_u = z3.And(z3.ULT(b, 0x20), z3.Not(is_short))
        hexd = lambda n: z3.If(z3.ULT(n, 10), n + 48, n + 87)
        hi, lo = z3.ZeroExt(4, z3.Extract(7, 4, b)), z3.ZeroExt(4, z3.Extract(3, 0, b))
        esc = z3.Or(is_short, is_u)
        bytes6 = (z3.If(esc, c8('\\'), b), z3.If(is_u, c8('u'), letter), c8('0'), c8('0'), hexd(hi), hexd(lo))
        ln = z3.If(present, z3.If(is_u, bv(6), z3.If(is_short, bv(2), bv(1))), bv(0))
        out = bstr_concat(out, BStr(bytes6, ln))
    return bstr_concat(out, bstr(b'"'))


def M_json_ser_new(it, ctx, args, st):
    yield st, Agg('serde_json::Serializer', (args[0],))


def M_json_serialize_str(it, ctx, args, st):
    ser = st.deref_all(args[0]) if isinstance(args[0], Ptr) else args[0]
    w = ser.fields[0]
    while isinstance(st.deref(w), Ptr):
        w = st.deref(w)
    v = sval(st, args[1])
    j = json_string(v)
    st.aux['docs'] = st.aux.get('docs', ()) + (('serde_json', 'str', j, v),)
    cur = st.deref(w)
    st.write(w, j if (isinstance(cur, Seq) and not cur.items) or (isinstance(cur, BStr) and bstr_py(cur) == b'') else bstr_concat(cur, j))
    yield st, it.ok(UNIT)


def json_writer(st, ser_arg):
    ser = st.deref_all(ser_arg) if isinstance(ser_arg, Ptr) else ser_arg
    w = ser.fields[0]
    while isinstance(st.deref(w), Ptr):
        w = st.deref(w)
    return w


def M_json_serialize_none(it, ctx, args, st):
    """serde_json: None and unit are written as the literal null"""
    w = json_writer(st, args[0])
    j = bstr(b'null')
    st.aux['docs'] = st.aux.get('docs', ()) + (('serde_json', 'null', j, None),)
    cur = st.deref(w)
    st.write(w, j if (isinstance(cur, Seq) and not cur.items) or (isinstance(cur, BStr) and bstr_py(cur) == b'') else bstr_concat(cur, j))
    yield st, it.ok(UNIT)


def M_json_serialize_some(it, ctx, args, st):
    """serde_json: Some(v) is written as v"""
    T = ctx.gargs[0]
    if os.environ.get('VERIF_DEBUG'):
        print('serialize_some', ty_str(T), ty_str(ctx.self_ty), {k: ty_str(v) for k, v in ctx.fr.tenv.items() if isinstance(v, tuple)}, ctx.fr.fn.name)
    yield from it.call_trait(ctx.fr, T, 'serde::Serialize', 'serialize', [ctx.self_ty], [args[1], args[0]], st)


def M_json_deserialize_option(it, ctx, args, st):
    """serde_json::Deserializer::deserialize_option: the document null -> visit_none, anything else -> visit_some(self)"""
    cur = bodyio.find_cursor(st, args[0])
    if cur is None:
        raise Unsupported('deserialize_option on something that is not the body cursor')
    V = ctx.gargs[0]
    body = cur.fields[0]
    body = st.deref_all(body) if isinstance(body, Ptr) else body
    if isinstance(body, Seq) and not body.items:
        body = bstr(b'')
    vis = lambda m: f'<{ty_str(V)} as serde::de::Visitor>::{m}::<serde_json::Error>'
    if isinstance(body, BStr):
        # JSON: a document is null iff (up to white space) it is the text null; recorded documents are compact
        is_null = bstr_eq(body, bstr(b'null'))
        for s2, nul in fork_bool(it, st, is_null):
            if nul:
                s2.write(cur.fields[1], Agg('CursorState', (z3.BoolVal(True), z3.BoolVal(False), True)))
                yield from it.call(ctx.fr, vis('visit_none'), [args[1]], s2)
            else:
                yield from it.call(ctx.fr, f'<{ty_str(V)} as serde::de::Visitor>::visit_some::<{ty_str(ctx.self_ty)}>', [args[1], args[0]], s2)
        return
    raise Unsupported('deserialize_option on an abstract body')


def known_doc(it, st, cur, ty):
    body = cur.fields[0]
    body = st.deref_all(body) if isinstance(body, Ptr) else body
    if isinstance(body, Seq) and not body.items:
        body = bstr(b'')
    for fmt, t, j, v in st.aux.get('docs', ()):
        if fmt == cur.fields[2] and t == ty and isinstance(body, BStr) and not it.feasible(st, z3.Not(bstr_eq(body, j))):
            return v
    return None


def M_json_deserialize_string(it, ctx, args, st):
    cur = bodyio.find_cursor(st, args[0])
    if cur is None:
        raise Unsupported('deserialize_string on something that is not the body cursor')
    V = ctx.gargs[0]
    cell = cur.fields[1]
    v = known_doc(it, st, cur, 'str')
    if v is not None:
        st.write(cell, Agg('CursorState', (z3.BoolVal(True), z3.BoolVal(False), True)))
        yield from it.call(ctx.fr, f'<{ty_str(V)} as serde::de::Visitor>::visit_str::<serde_json::Error>', [args[1], st.ref(v)], st)
        return
    st.write(cell, Agg('CursorState', (z3.BoolVal(True), z3.BoolVal(False), False)))
    n = it.counter = getattr(it, 'counter', 0) + 1
    for s2, good in fork_bool(it, st, z3.Bool(f'unknown_doc{n}_valid')):
        if good:
            p_, fresh = sym_str(s2, f'unknown_doc{n}', L)
            yield from it.call(ctx.fr, f'<{ty_str(V)} as serde::de::Visitor>::visit_str::<serde_json::Error>', [args[1], p_], s2)
        else:
            yield s2, it.err(Agg('serde_json::Error', ('invalid document',)))


def M_end_known(it, ctx, args, st):
    cur = bodyio.find_cursor(st, args[0])
    cs = st.deref(cur.fields[1])
    if len(cs.fields) > 2 and cs.fields[2]:
        yield st, it.ok(UNIT)
        return
    n = it.counter = getattr(it, 'counter', 0) + 1
    for s2, good in fork_bool(it, st, z3.Bool(f'unknown_doc{n}_rest_is_ws')):
        yield s2, (it.ok(UNIT) if good else it.err(Agg('serde_json::Error', ('trailing characters',))))


def M_erased_de_string(it, ctx, args, st):
    """<Box<dyn erased_serde::Deserializer> as Deserializer>::deserialize_string: erased_serde forwards to the erased deserializer"""
    b = args[0]
    e = st.deref_all(b.fields[0].fields[0]) if isinstance(b, Agg) and b.name == 'Box' else (st.deref_all(b) if isinstance(b, Ptr) else b)
    inner = e.fields[0]
    tgt = st.deref_all(inner)
    ty = f'&mut {tgt.name}<serde_json::de::SliceRead<\'_>>'
    V = ctx.gargs[0]
    yield from it.call(ctx.fr, f'<{ty} as serde::Deserializer>::deserialize_string::<{ty_str(V)}>', [inner, args[1]], st)


def M_erased_de_option(it, ctx, args, st):
    """<Box<dyn erased_serde::Deserializer> as Deserializer>::deserialize_option: erased_serde forwards to the erased deserializer"""
    b = args[0]
    e = st.deref_all(b.fields[0].fields[0]) if isinstance(b, Agg) and b.name == 'Box' else (st.deref_all(b) if isinstance(b, Ptr) else b)
    inner = e.fields[0]
    tgt = st.deref_all(inner)
    ty = f'&mut {tgt.name}<serde_json::de::SliceRead<\'_>>'
    V = ctx.gargs[0]
    yield from it.call(ctx.fr, f'<{ty} as serde::Deserializer>::deserialize_option::<{ty_str(V)}>', [inner, args[1]], st)


def M_erase_ser(it, ctx, args, st):
    yield st, Agg('erased_serde::Serializer', (args[0],))


def M_erased_serialize(it, ctx, args, st):
    """<dyn erased_serde::Serialize>::erased_serialize(value, &mut dyn Serializer): forwards to T::serialize with the erased serializer"""
    v = args[0]
    while isinstance(v, Ptr) and not isinstance(st.deref(v), (BStr, Enum)):
        v = st.deref(v)
    val = st.deref(v) if isinstance(v, Ptr) else v
    if isinstance(val, Enum) and val.decl.name.endswith('Option'):
        # behind `dyn Serialize` the static type is gone; the harness definition only returns string and optional<string> (stated)
        yield from erased_serialize_option(it, ctx, args, st, v, val)
        return
    if not isinstance(val, BStr):
        raise Unsupported(f'erased_serialize of {st.deref_all(v)!r:.80}')
    e = args[1]
    e = st.deref_all(e) if isinstance(e, Ptr) else e
    if isinstance(e, Agg) and e.name == 'Box':
        e = st.deref_all(e.fields[0].fields[0])
    inner = e.fields[0]
    tgt = st.deref_all(inner)
    ty = f'&mut {tgt.name}<&mut std::vec::Vec<u8>>'
    for s2, r in it.call(ctx.fr, f'<{ty} as serde::Serializer>::serialize_str', [inner, v], st):
        if is_abnormal(r):
            yield s2, r
            continue
        okp = it.payload(r, 'Ok')
        for s3, good in fork_bool(it, s2, it.variant_of(r, 'Ok')):
            yield s3, (it.ok(UNIT) if good else it.err(Agg('erased_serde::Error', ())))


def erased_serialize_option(it, ctx, args, st, v, val):
    e = args[1]
    e = st.deref_all(e) if isinstance(e, Ptr) else e
    if isinstance(e, Agg) and e.name == 'Box':
        e = st.deref_all(e.fields[0].fields[0])
    inner = e.fields[0]
    tgt = st.deref_all(inner)
    ty = f'&mut {tgt.name}<&mut std::vec::Vec<u8>>'
    fr0 = type(ctx.fr)()
    fr0.fn, fr0.locals, fr0.tenv, fr0.visits, fr0.depth = ctx.fr.fn, ctx.fr.locals, {}, {}, ctx.fr.depth
    for s2, r in it.call(fr0, f'<std::option::Option<std::string::String> as serde::Serialize>::serialize::<{ty}>', [v if isinstance(v, Ptr) else st.ref(v), inner], st):
        if is_abnormal(r):
            yield s2, r
            continue
        for s3, good in fork_bool(it, s2, it.variant_of(r, 'Ok')):
            yield s3, (it.ok(UNIT) if good else it.err(Agg('erased_serde::Error', ())))


def M_vec_into_bytes(it, ctx, args, st):
    v = args[0]
    yield st, (bstr(b'') if isinstance(v, Seq) and not v.items else v)


DOC_MODELS = [
    (r'serde_json::Serializer::<.*>::new|serde_json::ser::Serializer::<.*>::new', M_json_ser_new),
    (r'<&mut serde_json::(?:ser::)?Serializer<.*> as (?:[\w:]+::)?Serializer>::serialize_str', M_json_serialize_str),
    (r'<&mut serde_json::(?:de::)?Deserializer<.*> as (?:[\w:]+::)?Deserializer(?:<.*>)?>::deserialize_string::<.*>', M_json_deserialize_string),
    (r'<&mut serde_json::(?:ser::)?Serializer<.*> as (?:[\w:]+::)?Serializer>::serialize_(?:none|unit)', M_json_serialize_none),
    (r'<&mut serde_json::(?:ser::)?Serializer<.*> as (?:[\w:]+::)?Serializer>::serialize_some::<.*>', M_json_serialize_some),
    (r'<&mut serde_json::(?:de::)?Deserializer<.*> as (?:[\w:]+::)?Deserializer(?:<.*>)?>::deserialize_option::<.*>', M_json_deserialize_option),
    (r'serde_json::Deserializer::<.*>::end|serde_json::Deserializer::end|serde_json::de::Deserializer::<.*>::end', M_end_known),
    (r'<std::boxed::Box<dyn erased_serde::Deserializer.*> as (?:[\w:]+::)?Deserializer(?:<.*>)?>::deserialize_string::<.*>', M_erased_de_string),
    (r'<std::boxed::Box<dyn erased_serde::Deserializer.*> as (?:[\w:]+::)?Deserializer(?:<.*>)?>::deserialize_option::<.*>', M_erased_de_option),
    (r'.*erased_serde::Serializer.*::erase::<.*>', M_erase_ser),
    (r'.*erased_serde::Serialize.*::erased_serialize', M_erased_serialize),
    (r'<bytes::Bytes as std::convert::From<std::vec::Vec<u8>>>::from|<std::vec::Vec<u8> as std::convert::Into<bytes::Bytes>>::into', M_vec_into_bytes),
]

STENV = {'__T': ('path', 'Handler', ()), '__I': ('path', 'ChunkIter', ()), '__O': ('path', 'Out', ())}


def make_send(prog, servers, handles, rets, async_server=False):
    """async_server: `handles` are the AsyncEndpoint::handle coroutine bodies (`handle::{closure#0}`); they are polled once (every
    awaited future is Ready: the body stream, the deserializer futures and the handler's own future)"""
    def T_send(it, ctx, args, st):
        req = args[1]
        st.aux['sent'] = req
        try:
            name, sreq = route(it, st, req, servers)
        except NotRoutable as e:
            st.aux['routing'] = str(e)
            st.aux['routing_hint'] = e.hint
            yield st, it.err(models_http.error_record('internal', 'not routable: ' + str(e), True, None))
            return
        st.aux['routed_to'] = name
        log = st.ref(())
        st.aux['handler_log'] = log
        handler = Agg('Arc', (st.ref(Agg('Handler', (log, rets.get(name, UNIT)))),))
        runtime = Agg('Arc', (c11.runtime_value(st, ['JsonEncoding', 'SmileEncoding']),))
        endpoint = st.ref(Agg('Endpoint', (handler, runtime)))
        ext = st.ref(Agg('ResponseExtensions', (None,)))
        if async_server:
            outs = bodyio.poll_once(it, st, handles[name], Coro('async-handle', bv(0, 32), (endpoint, sreq, ext), ()), STENV)
        else:
            outs = it.run(handles[name], [endpoint, sreq, ext], st, STENV)
        for s2, rv in outs:
            if is_abnormal(rv):
                yield s2, rv
                continue
            okp = it.payload(rv, 'Ok')
            is_ok = it.variant_of(rv, 'Ok')
            for s3, good in fork_bool(it, s2, is_ok):
                if good:
                    s3.aux['server_result'] = 'ok'
                    yield s3, it.ok(client_response(it, s3, okp.fields[0]))
                else:
                    # transport contract: a non-2xx answer surfaces as an error of the client (conjure_http::client::Client::send)
                    s3.aux['server_result'] = it.payload(rv, 'Err').fields[0]
                    yield s3, it.err(models_http.error_record('remote', 'server error', True, None))
    return T_send


def make_send_async(send):
    def T_send_async(it, ctx, args, st):
        for s2, r in send(it, ctx, args, st):
            yield s2, (r if is_abnormal(r) else Agg('ReadyFuture', (r,)))
    return T_send_async


def is_ready_future(it, ctx, args, st):
    p = args[0]
    v = st.deref_all(p.fields[0]) if isinstance(p, Agg) and p.name == 'Pin' else None
    return isinstance(v, Agg) and v.name == 'ReadyFuture'


def M_poll_ready(it, ctx, args, st):
    v = st.deref_all(args[0].fields[0])
    yield st, Enum(bodyio.POLL, bv(0), ((0, Agg('Ready', (v.fields[0],))),))


ASYNC_CLIENT_MODELS = [(r'<.* as (?:std|core)::future::Future>::poll', M_poll_ready, is_ready_future)]


def T_handler(it, ctx, args, st):
    h = st.deref_all(args[0])
    logp = h.fields[0]
    st.write(logp, st.deref(logp) + ((ctx.callee.method, tuple(args[1:])),))
    yield st, it.ok(h.fields[1])


def T_handler_async(it, ctx, args, st):
    for s2, r in T_handler(it, ctx, args, st):
        yield s2, Agg('ReadyFuture', (r,))


def server_metadata(prog, it, crate=None, pat=r'::__(E\d+)Endpoint<', exclude=None, only=None):
    """{endpoint: (method, [('lit', bytes) | ('param', name)])} from the MIR of EndpointMetadata::method / path of the expansion"""
    out, handles = {}, {}
    for k, f in prog.fns.items():
        m = re.search(pat, f.header)
        if not (k.startswith((crate or ep.CRATE) + '::') and m) or (exclude and exclude in f.header) or (only and only not in f.header):
            continue
        name = m.group(1).lower()
        last = re.sub(r'#\d+$', '', k.rsplit('::', 1)[-1])
        if last in ('method', 'path'):
            st = St()
            res = [(s2, rv) for s2, rv in it.run(k, [st.ref(Agg('Endpoint', ()))], st, ep.TENV)]
            if len(res) != 1 or is_abnormal(res[0][1]):
                raise Inconclusive(f'C04 harness: metadata {k}: {res!r:.200}')
            s2, rv = res[0]
            d = out.setdefault(name, {})
            if last == 'method':
                d['method'] = rv.name.split('::')[-1]
            else:
                segs = s2.deref_all(rv) if isinstance(rv, Ptr) else rv
                tpl = []
                for sg in segs.items:
                    sg = s2.deref_all(sg) if isinstance(sg, Ptr) else sg
                    vn = 'Literal' if it.feasible(s2, it.variant_of(sg, 'Literal')) else 'Parameter'
                    pl = it.payload(sg, vn).fields[0]
                    txt = bstr_py(cow_text(it, s2, pl))
                    tpl.append(('lit' if vn == 'Literal' else 'param', txt))
                d['path'] = tpl
        elif last == 'handle':
            handles[name] = (k + '::{closure#0}') if (only and (k + '::{closure#0}') in prog.fns) else k
    return {k: (v['method'], v['path']) for k, v in out.items()}, handles


def cow_text(it, st, cow):
    v = cow
    for _ in range(4):
        if isinstance(v, Ptr):
            v = st.deref_all(v)
        elif isinstance(v, Enum):
            v = it.payload(v, 'Borrowed').fields[0]
        elif isinstance(v, Agg) and v.fields:
            v = v.fields[0]
        else:
            break
    return v


def client_fn(prog, trait, method, crate=None):
    c = [k for k in prog.fns if k.startswith((crate or ep.CRATE) + '::') and re.search(r'::%s(#\d+)?$' % method, k)
         and re.search(r'[&:]%sClient<' % re.escape(trait), prog.fns[k].header)]
    if len(c) != 1:
        raise Inconclusive(f'C04 harness: client method {trait}::{method} not found uniquely: {c}')
    return c[0]


def valid_token(st, name, K=3):
    p, s = sym_str(st, name, K)
    st.pc.append(bearer_oracle(s))
    return st.ref(Agg('conjure_object::bearer_token::BearerToken', (s,))), s


def opt_i32(it, name):
    has, v = z3.Bool(name + '_some'), z3.BitVec(name, 32)
    return it.opt(has, v), has, v



def deep(st, v, d=0):
    """value with every pointer followed (for structural comparison)"""
    if d > 12:
        return v
    if isinstance(v, Ptr):
        return deep(st, st.deref_all(v), d + 1)
    if isinstance(v, Agg):
        if v.name == 'Box':
            return deep(st, v.fields[0].fields[0], d + 1)
        return Agg(v.name, tuple(deep(st, f, d + 1) for f in v.fields))
    if isinstance(v, Enum):
        return Enum(v.decl, v.discr, tuple((i, deep(st, pl, d + 1)) for i, pl in v.payloads))
    if isinstance(v, Seq):
        return Seq(tuple(deep(st, x, d + 1) for x in v.items))
    return v


def text_header_ok(s):
    """the statement's 'value HTTP can carry as text': visible ASCII (space and tab inside are carried too)"""
    return z3.And(*[z3.Or(z3.UGE(bv(i), s.len), z3.And(z3.UGE(b, 0x20), z3.ULE(b, 0x7e)), b == 9) for i, b in enumerate(s.bytes)])


class Case:
    """one endpoint of the definition: symbolic client arguments, what may legitimately be refused, and how to replay"""

    def __init__(self, name, trait='SvcApi'):
        self.name, self.trait = name, trait
        self.args, self.syms = [], {}
        self.refusable = z3.BoolVal(False)          # some header value cannot be carried as text
        self.ret = None

    def concrete(self, m):
        out = {'op': 'loopback', 'endpoint': self.name}
        for k, (kind, v) in self.syms.items():
            if kind == 'i32':
                x = m.eval(v, True).as_long()
                out[k] = x - (1 << 32) if x >= 1 << 31 else x
            elif kind == 'str':
                out[k] = model_bytes(m, v).hex()
            elif kind == 'token':
                out[k] = model_bytes(m, v).decode('latin1')
            elif kind == 'opt_i32':
                has, x = v
                if z3.is_true(m.eval(has, True)):
                    x = m.eval(x, True).as_long()
                    out[k] = x - (1 << 32) if x >= 1 << 31 else x
                else:
                    out[k] = None
            elif kind == 'opt_str':
                has, x = v
                out[k] = model_bytes(m, x).hex() if z3.is_true(m.eval(has, True)) else None
            elif kind == 'set_str':
                out[k] = sorted(model_bytes(m, x).hex() for x in v)
        return out


def native_verdict(case_op, nat):
    """python reference on the native loopback result: exactly one handler call with the client's arguments, same return value;
    a refusal is admissible only for a header value that is not text"""
    def header_texts():
        return [bytes.fromhex(case_op[k]) for k in ('bar_arg',) if case_op.get(k) is not None]
    refusable = any(any(not (0x20 <= b <= 0x7e or b == 9) for b in h) for h in header_texts())
    calls = nat.get('calls', [])
    if not nat.get('ok'):
        if calls:
            return False, f'the client reports an error although the handler ran: {nat}'
        return (True, 'refused') if refusable else (False, f'refused although every argument is deliverable: {nat.get("cause")}')
    if len(calls) != 1:
        return False, f'{len(calls)} handler invocations'
    c = calls[0]
    for k, v in case_op.items():
        if k in ('op', 'endpoint', 'ret', 'ret_opt', 'ret_list', 'async_server'):
            continue
        if k == 'set_arg':
            if sorted(set(c.get(k) or [])) != sorted(set(v)):
                return False, f'argument {k}: client gave the set {v!r}, handler received {c.get(k)!r}'
            continue
        if c.get(k) != v:
            return False, f'argument {k}: client gave {v!r}, handler received {c.get(k)!r}'
    if 'ret_list' in case_op and nat.get('returned') != case_op['ret_list']:
        return False, f'client returned {nat.get("returned")!r}, handler returned {case_op["ret_list"]!r}'
    if 'ret_opt' in case_op and nat.get('returned') != case_op['ret_opt']:
        return False, f'client returned {nat.get("returned")!r}, handler returned {case_op["ret_opt"]!r}'
    if 'ret' in case_op and nat.get('returned') != case_op['ret']:
        return False, f'client returned {nat.get("returned")!r}, handler returned {case_op["ret"]!r}'
    return True, 'delivered'


def report(rep, case, m, what):
    op = case.concrete(m)
    nat = replay([op])[0]
    nat2 = replay([op], 'release')[0]
    rep.replayed += 1
    ok, why = native_verdict(op, nat)
    ok2, _ = native_verdict(op, nat2)
    if not ok and not ok2:
        rep.violation(f'C04:{case.name}', f'{what}; native loopback with {op}: {why}', {'op': op, 'native': nat})
    else:
        rep.inconc(f'model mismatch C04 {case.name}: {what} with {op} does not reproduce natively ({why}; {str(nat)[:200]})')
        if 'URI of unknown structure' in what and sum('URI of unknown structure' in w for w in rep.inconclusive) >= 6:
            # the client no longer assembles its URI from the pieces the router contract is defined on (six solver-chosen samples are
            # delivered fine natively): nothing more can be decided for this case, stop exploring its paths
            raise Inconclusive(f'C04 {case.name}: the URI is assembled in a way the router contract has nothing to attach to (6 native samples are fine)')


def set_eq(g, w):
    """two sequences hold the same set of values (a BTreeSet argument: order and multiplicity of the insertions do not matter)"""
    if not (isinstance(g, Seq) and isinstance(w, Seq)):
        return z3.BoolVal(False)
    inc = lambda a, b: z3.And(*[z3.Or(*[val_eq(x, y) for y in b.items]) if b.items else z3.BoolVal(False) for x in a.items]) if a.items else z3.BoolVal(True)
    return z3.And(inc(g, w), inc(w, g))


def run_case(rep, it, dec, prog, case, st, tenv, flavour='blocking'):
    me = st.ref(Agg(case.trait + 'Client', (Agg('MockClient', ()),)))
    fn = client_fn(prog, case.trait, case.name, getattr(case, 'crate', None))
    np_ = delivered = 0
    def outcomes():
        if flavour.startswith('blocking'):
            yield from it.run(fn, [me] + case.args, st, tenv)
            return
        for s1, co in it.run(fn, [me] + case.args, st, tenv):
            if is_abnormal(co):
                yield s1, co
            else:
                yield from bodyio.poll_once(it, s1, fn + '::{closure#0}', co, tenv)
    for s2, rv in outcomes():
        np_ += 1
        rep.states += 1
        tag = f'{case.trait}.{case.name}:{flavour}:path{np_}'
        if isinstance(rv, Unwind):
            rep.inconc(f'C04 {tag}: unwind {rv.where}')
            continue
        if isinstance(rv, Panic):
            m = dec.decide(tag + ':panic', s2, z3.BoolVal(True))
            if m is not None:
                report(rep, case, m, f'panic: {rv.msg}')
            continue
        lg = s2.aux.get('handler_log')
        calls = s2.deref(lg) if lg is not None else ()
        is_ok = it.variant_of(rv, 'Ok')
        conds = []
        if len(calls) == 1:
            got = [deep(s2, a) for a in calls[0][1]]
            want = [deep(s2, a) for a in case.args]
            sets = getattr(case, 'set_args', ())
            same = z3.And(*[(set_eq(g, w) if k in sets else val_eq(g, w)) for k, (g, w) in enumerate(zip(got, want))]) if len(got) == len(want) else z3.BoolVal(False)
            okp = it.payload(rv, 'Ok')
            ret_same = val_eq(deep(s2, okp.fields[0]), deep(s2, case.ret)) if (okp is not None and case.ret is not None) else z3.BoolVal(True)
            bad = z3.Or(z3.Not(is_ok), z3.Not(same), z3.Not(ret_same))
            what = 'the handler ran once but the arguments / the returned value differ or the client reports an error'
        elif len(calls) == 0:
            bad = z3.Or(is_ok, z3.Not(case.refusable))
            what = 'the call is refused (handler not invoked) although every argument is deliverable' if s2.aux.get('routing') is None else f'the request is not routable: {s2.aux.get("routing")}'
        else:
            bad, what = z3.BoolVal(True), f'{len(calls)} handler invocations'
        hint = s2.aux.get('routing_hint')
        if hint is not None and len(calls) == 0 and hint[0].bytes:
            bad = z3.And(bad, z3.UGE(hint[0].len, 1), hint[0].bytes[0] == hint[1])
        m = dec.decide(tag + f':calls={len(calls)}:delivered-once-with-equal-arguments', s2, bad, routed=s2.aux.get('routed_to'))
        if m is not None:
            report(rep, case, m, what)
        elif len(calls) == 1:
            delivered += 1
    if not delivered:
        rep.inconc(f'vacuity: {case.trait}.{case.name} never delivers')


# ------------------------------------------------------------------ generated client -> generated endpoints (real conjure-codegen output)
GCRATE = 'verif_service'


def M_to_plain(it, ctx, args, st):
    """ToPlain::to_plain (Plain::fmt through a Display adaptor and ToString): the PLAIN text of the value.  Behind `&dyn Plain` the
    static type is gone; the harness definition only uses integer (i32), string, bearer-token and optional arguments, so the value's
    shape identifies it (stated).  Integers: canonical decimal (C12 decides Plain for every type against its Display)."""
    v = args[0]
    while isinstance(v, Ptr):
        t = st.deref(v)
        if isinstance(t, BStr):
            break
        v = t
    if isinstance(v, Ptr):
        yield st, sval(st, v)
        return
    if z3.is_expr(v) and z3.is_bv(v) and v.size() == 32:
        ctx2 = type('C', (), {'self_ty': ('path', 'i32', ())})()
        yield from models_std.M_int_to_string(it, ctx2, [v], st)
        return
    if isinstance(v, Agg) and v.name.endswith('BearerToken'):
        yield st, v.fields[0]
        return
    raise Unsupported(f'to_plain of {v!r:.80}')


GEN_MODELS = [(r'<.* as conjure_object::(?:plain::)?ToPlain>::to_plain', M_to_plain)]


class GenCase(Case):
    crate = GCRATE

    def concrete(self, m):
        op = Case.concrete(self, m)
        op['op'] = 'loopback_gen'
        if getattr(self, 'async_server', False):
            op['async_server'] = True
        for k, (kind, v) in self.syms.items():
            if kind == 'list_i32':
                out = []
                for x in v:
                    n = m.eval(x, True).as_long()
                    out.append(n - (1 << 32) if n >= 1 << 31 else n)
                op[k] = out
        return op


def run_generated(rep, tier):
    prog = ep.harness_program('gen-crates/service', GCRATE, ['conjure_serde'])
    base = [m for m in ep.MODELS if 'private::response' not in m[0]]
    cmods, _ = bodyio.cursor_models(bodyio.Doc(), {})
    models = GEN_MODELS + ASYNC_CLIENT_MODELS + CLIENT_MODELS + SERVER_MODELS + DOC_MODELS + c06.MODELS + c18.MODELS + cmods + bodyio.ASYNC_MODELS + base + models_http.MODELS + models_serde.MODELS + models_std.MODELS
    it0 = Interp(prog, models, {}, unwind=8)
    servers, handles = server_metadata(prog, it0, GCRATE, r'::__(G\d+)Endpoint<', exclude='AsyncGsvc')
    if set(servers) < {'g1', 'g2', 'g3'}:
        raise Inconclusive(f'C04 harness: generated endpoints not found: {servers}')
    rep.bounds['generated'] = f'generated clients (blocking: g1-g6; async: g1, g3, g4) and generated #[conjure_endpoints] trait of gen-crates/service (real conjure-codegen output; server metadata {servers}); list query argument of 0..2 integers; set<string> query argument of 0..2 distinct members; optional<string> body and optional<string> result, present and absent (these two strings <= 4 bytes in every tier: their JSON texts with escapes are the costly part)'
    tenv = {'T': ('path', 'MockClient', ())}

    def mk(rets):
        tm = {**bodyio.TMODELS, **ep.TMODELS, **models_serde.TMODELS}
        for g in ('g1', 'g2', 'g3', 'g4', 'g5', 'g6', 'g7'):
            tm[('Handler', 'Gsvc', g)] = T_handler
        tm[('MockClient', 'Client', 'send')] = make_send(prog, servers, handles, rets)
        tm[('MockClient', 'AsyncClient', 'send')] = make_send_async(tm[('MockClient', 'Client', 'send')])
        it = Interp(prog, models, tm, unwind=3 * L + 8, merge=c11.MERGE)
        it.ext_consts.update(models_http.CONSTS)
        it.ext_consts.update(CLIENT_CONSTS)
        it.ext_consts.update(c18.CONSTS)
        for tr in ('Client', 'AsyncClient'):
            it.assoc_types[('MockClient', tr, 'ResponseBody')] = ('path', 'ChunkIter', ())
            it.assoc_types[('MockClient', tr, 'BodyWriter')] = ('path', 'Out', ())
        it.const_generic_defaults['N'] = bv(50 * 1024 * 1024)
        return it
    only = os.environ.get('VERIF_C04_ONLY')          # development aid: restrict to one generated endpoint
    # ---- g1
    if only in (None, 'g1'):
        it = mk({})
        dec = Decider(rep, it)
        st = St()
        c = GenCase('g1', 'Gsvc')
        path_arg, header_arg = z3.BitVec('path_arg', 32), z3.BitVec('header_arg', 32)
        qp, qs = sym_str(st, 'query_arg', L)
        tok, ts = valid_token(st, 'token')
        c.args = [tok, path_arg, qp, header_arg]
        c.syms = {'path_arg': ('i32', path_arg), 'query_arg': ('str', qs), 'header_arg': ('i32', header_arg), 'token': ('token', ts)}
        run_case(rep, it, dec, prog, c, st, tenv)
        finish_engine(rep, it)
    # ---- g2 with 0, 1, 2 list elements
    if only in (None, 'g2'):
        for nl in ((0, 1, 2) if tier == 'quick' else (0, 1, 2, 3)):
            it = mk({})
            dec = Decider(rep, it)
            st = St()
            c = GenCase('g2', 'Gsvc')
            pp, ps = sym_str(st, 'p_arg', L)
            oq, oq_has, oq_v = opt_i32(it, 'opt_arg')
            items = [z3.BitVec(f'lst{i}', 32) for i in range(nl)]
            lp = st.ref(Seq(tuple(items)))
            bp, bs = sym_str(st, 'bar_arg', L)
            b_has = z3.Bool('bar_some')
            tok, ts = valid_token(st, 'token')
            c.args = [tok, pp, oq, lp, it.opt(b_has, bp)]
            c.syms = {'p_arg': ('str', ps), 'opt_arg': ('opt_i32', (oq_has, oq_v)), 'lst_arg': ('list_i32', items), 'bar_arg': ('opt_str', (b_has, bs)), 'token': ('token', ts)}
            c.refusable = z3.And(b_has, z3.Not(text_header_ok(bs)))
            run_case(rep, it, dec, prog, c, st, tenv, f'blocking:list{nl}')
            finish_engine(rep, it)
    # ---- g3
    if only in (None, 'g3'):
        st = St()
        c = GenCase('g3', 'Gsvc')
        bp, bs = sym_str(st, 'body_arg', L)
        rp, rs = sym_str(st, 'ret', L)
        it = mk({'g3': rs})
        dec = Decider(rep, it)
        c.args = [bp]
        c.ret = rs
        c.syms = {'body_arg': ('str', bs), 'ret': ('str', rs)}
        run_case(rep, it, dec, prog, c, st, tenv)
        finish_engine(rep, it)


    # ---- g4: set<string> query argument (0..2 members), optional<string> body, optional<string> result
    if only in (None, 'g4'):
        for ns in (0, 1, 2):
            st = St()
            c = GenCase('g4', 'Gsvc')
            members = [sym_str(st, f'set{i}', L) for i in range(ns)]
            if ns == 2:
                st.pc.append(z3.Not(bstr_eq(members[0][1], members[1][1])))
            sp = st.ref(Seq(tuple(s_ for _, s_ in members)))
            bp, bs = sym_str(st, 'opt_body', min(L, 4))
            b_has = z3.Bool('opt_body_some')
            rp, rs = sym_str(st, 'ret_opt', min(L, 4))
            r_has = z3.Bool('ret_opt_some')
            it = mk({})
            it = mk({'g4': it.opt(r_has, rs)})
            dec = Decider(rep, it)
            c.args = [sp, it.opt(b_has, bp)]
            c.set_args = (0,)
            c.ret = it.opt(r_has, rs)
            c.syms = {'set_arg': ('set_str', [s_ for _, s_ in members]), 'opt_body': ('opt_str', (b_has, bs)), 'ret_opt': ('opt_str', (r_has, rs))}
            run_case(rep, it, dec, prog, c, st, tenv, f'blocking:set{ns}')
            finish_engine(rep, it)
    # ---- g5: bearer tokens as path and query arguments (their alphabet contains '/', '+' and '=': the URI must carry them escaped)
    if only in (None, 'g5'):
        it = mk({})
        dec = Decider(rep, it)
        st = St()
        c = GenCase('g5', 'Gsvc')
        tok, ts = valid_token(st, 'tok')
        qt, qs_ = valid_token(st, 'qt')
        c.args = [tok, qt]
        c.syms = {'tok': ('token', ts), 'qt': ('token', qs_)}
        run_case(rep, it, dec, prog, c, st, tenv)
        finish_engine(rep, it)
    # ---- g6: list<integer>, set<string> and a required string as consecutive query arguments (empty collections in front of a value)
    if only in (None, 'g6'):
        for nl, ns in ((0, 0), (1, 0), (0, 1), (2, 1)):
            it = mk({})
            dec = Decider(rep, it)
            st = St()
            c = GenCase('g6', 'Gsvc')
            items = [z3.BitVec(f'lst{i}', 32) for i in range(nl)]
            lp = st.ref(Seq(tuple(items)))
            members = [sym_str(st, f'set{i}', L) for i in range(ns)]
            sp = st.ref(Seq(tuple(s_ for _, s_ in members)))
            qp, qs = sym_str(st, 'q_arg', L)
            c.args = [lp, sp, qp]
            c.set_args = (1,)
            c.syms = {'lst_arg': ('list_i32', items), 'set_arg': ('set_str', [s_ for _, s_ in members]), 'q_arg': ('str', qs)}
            run_case(rep, it, dec, prog, c, st, tenv, f'blocking:list{nl}:set{ns}')
            finish_engine(rep, it)
    # ---- the generated async client (GsvcAsyncClient) against the same endpoints: g1, g3, g4
    if only in (None, 'async'):
        it = mk({})
        dec = Decider(rep, it)
        st = St()
        c = GenCase('g1', 'GsvcAsync')
        path_arg, header_arg = z3.BitVec('path_arg', 32), z3.BitVec('header_arg', 32)
        qp, qs = sym_str(st, 'query_arg', L)
        tok, ts = valid_token(st, 'token')
        c.args = [tok, path_arg, qp, header_arg]
        c.syms = {'path_arg': ('i32', path_arg), 'query_arg': ('str', qs), 'header_arg': ('i32', header_arg), 'token': ('token', ts)}
        run_case(rep, it, dec, prog, c, st, tenv, 'async')
        finish_engine(rep, it)
        st = St()
        c = GenCase('g3', 'GsvcAsync')
        bp, bs = sym_str(st, 'body_arg', L)
        rp, rs = sym_str(st, 'ret', L)
        it = mk({'g3': rs})
        dec = Decider(rep, it)
        c.args = [bp]
        c.ret = rs
        c.syms = {'body_arg': ('str', bs), 'ret': ('str', rs)}
        run_case(rep, it, dec, prog, c, st, tenv, 'async')
        finish_engine(rep, it)
        st = St()
        c = GenCase('g4', 'GsvcAsync')
        members = [sym_str(st, 'set0', L)]
        sp = st.ref(Seq(tuple(s_ for _, s_ in members)))
        bp, bs = sym_str(st, 'opt_body', min(L, 4))
        b_has = z3.Bool('opt_body_some')
        rp, rs = sym_str(st, 'ret_opt', min(L, 4))
        r_has = z3.Bool('ret_opt_some')
        it = mk({})
        it = mk({'g4': it.opt(r_has, rs)})
        dec = Decider(rep, it)
        c.args = [sp, it.opt(b_has, bp)]
        c.set_args = (0,)
        c.ret = it.opt(r_has, rs)
        c.syms = {'set_arg': ('set_str', [s_ for _, s_ in members]), 'opt_body': ('opt_str', (b_has, bs)), 'ret_opt': ('opt_str', (r_has, rs))}
        run_case(rep, it, dec, prog, c, st, tenv, 'async:set1')
        finish_engine(rep, it)
    # ---- the generated ASYNC server flavour (AsyncGsvc expanded by #[conjure_endpoints]): blocking generated client -> async endpoints
    if only in (None, 'asrv'):
        aservers, ahandles = server_metadata(prog, it0, GCRATE, r'::__(G\d+)Endpoint<', only='AsyncGsvc')
        if set(aservers) < {'g1', 'g3', 'g4'}:
            raise Inconclusive(f'C04 harness: generated async endpoints not found: {aservers}')

        def mka(rets):
            it = mk(rets)
            for g in ('g1', 'g2', 'g3', 'g4', 'g5', 'g6'):
                it.tmodels[('Handler', 'AsyncGsvc', g)] = T_handler_async
            it.tmodels[('MockClient', 'Client', 'send')] = make_send(prog, aservers, ahandles, rets, async_server=True)
            return it
        it = mka({})
        dec = Decider(rep, it)
        st = St()
        c = GenCase('g1', 'Gsvc')
        path_arg, header_arg = z3.BitVec('path_arg', 32), z3.BitVec('header_arg', 32)
        qp, qs = sym_str(st, 'query_arg', L)
        tok, ts = valid_token(st, 'token')
        c.args = [tok, path_arg, qp, header_arg]
        c.syms = {'path_arg': ('i32', path_arg), 'query_arg': ('str', qs), 'header_arg': ('i32', header_arg), 'token': ('token', ts)}
        c.async_server = True
        run_case(rep, it, dec, prog, c, st, tenv, 'blocking:async-server')
        finish_engine(rep, it)
        st = St()
        c = GenCase('g3', 'Gsvc')
        bp, bs = sym_str(st, 'body_arg', L)
        rp, rs = sym_str(st, 'ret', L)
        it = mka({'g3': rs})
        dec = Decider(rep, it)
        c.args = [bp]
        c.ret = rs
        c.syms = {'body_arg': ('str', bs), 'ret': ('str', rs)}
        c.async_server = True
        run_case(rep, it, dec, prog, c, st, tenv, 'blocking:async-server')
        finish_engine(rep, it)
        st = St()
        c = GenCase('g4', 'Gsvc')
        members = [sym_str(st, 'set0', L)]
        sp = st.ref(Seq(tuple(s_ for _, s_ in members)))
        bp, bs = sym_str(st, 'opt_body', min(L, 4))
        b_has = z3.Bool('opt_body_some')
        rp, rs = sym_str(st, 'ret_opt', min(L, 4))
        r_has = z3.Bool('ret_opt_some')
        it = mka({})
        it = mka({'g4': it.opt(r_has, rs)})
        dec = Decider(rep, it)
        c.args = [sp, it.opt(b_has, bp)]
        c.set_args = (0,)
        c.ret = it.opt(r_has, rs)
        c.syms = {'set_arg': ('set_str', [s_ for _, s_ in members]), 'opt_body': ('opt_str', (b_has, bs)), 'ret_opt': ('opt_str', (r_has, rs))}
        c.async_server = True
        run_case(rep, it, dec, prog, c, st, tenv, 'blocking:async-server:set1')
        finish_engine(rep, it)


def run(rep, tier):
    global L
    L = 3 if tier == 'quick' else int(os.environ.get('VERIF_C04_L', '6'))          # thorough: strings of <= 6 bytes (two percent triplets, every UTF-8 sequence length), lists of 0..3
    with rep.part('macro client/server'):
        run_macro(rep, tier)
    with rep.part('generated client/server'):
        run_generated(rep, tier)
    twins = [{'op': 'loopback_gen', 'endpoint': 'g1', 'path_arg': -2147483648, 'query_arg': b'/+%'.hex(), 'header_arg': 2147483647, 'token': 'a+/='},
             {'op': 'loopback_gen', 'endpoint': 'g2', 'p_arg': b'%2F'.hex(), 'opt_arg': None, 'lst_arg': [3, -4], 'bar_arg': b' ~ '.hex(), 'token': 'x=='},
             {'op': 'loopback_gen', 'endpoint': 'g2', 'p_arg': '', 'opt_arg': -1, 'lst_arg': [], 'bar_arg': None, 'token': 'x'},
             {'op': 'loopback_gen', 'endpoint': 'g3', 'body_arg': b'"\\\n'.hex(), 'ret': b'\x00\xc3\xa9'.hex()},
             {'op': 'loopback_gen', 'endpoint': 'g4', 'set_arg': sorted([b'a&b'.hex(), b'%'.hex()]), 'opt_body': None, 'ret_opt': None},
             {'op': 'loopback_gen', 'endpoint': 'g4', 'set_arg': [], 'opt_body': b'"x'.hex(), 'ret_opt': b'\xc3\xa9'.hex()},
             {'op': 'loopback_gen', 'endpoint': 'g4', 'set_arg': [''], 'opt_body': '', 'ret_opt': ''},
             {'op': 'loopback_gen', 'endpoint': 'g5', 'tok': 'a/b+c=', 'qt': 'x+/=='}, {'op': 'loopback_gen', 'endpoint': 'g5', 'tok': '~._-', 'qt': '0'},
             {'op': 'loopback_gen', 'endpoint': 'g6', 'lst_arg': [], 'set_arg': [], 'q_arg': b'x&y'.hex()}, {'op': 'loopback_gen', 'endpoint': 'g6', 'lst_arg': [], 'set_arg': [b'='.hex()], 'q_arg': ''},
             {'op': 'loopback_gen', 'endpoint': 'g6', 'lst_arg': [7, -1], 'set_arg': [], 'q_arg': b'?'.hex()},
             # g7 returns an alias of list<integer>: the empty value travels as 204 and must come back as the empty alias
             {'op': 'loopback_gen', 'endpoint': 'g7', 'ret_list': []}, {'op': 'loopback_gen', 'endpoint': 'g7', 'ret_list': [3, -4]}]
    # the same requests against the async server flavour
    twins += [dict(t, async_server=True) for t in twins]
    for op, nat in zip(twins, replay(twins)):
        rep.replayed += 1
        ok, why = native_verdict(op, nat)
        if not ok:
            rep.violation(f'C04:{op["endpoint"]}:twin', f'native loopback {op}: {why}', {'op': op, 'native': nat})


def run_macro(rep, tier):
    prog = ep.endpoints_program(['conjure_serde'])
    base = [m for m in ep.MODELS if 'private::response' not in m[0]]
    cmods, _ = bodyio.cursor_models(bodyio.Doc(), {})
    models = ASYNC_CLIENT_MODELS + CLIENT_MODELS + SERVER_MODELS + DOC_MODELS + c06.MODELS + c18.MODELS + cmods + bodyio.ASYNC_MODELS + base + models_http.MODELS + models_serde.MODELS + models_std.MODELS
    it0 = Interp(prog, models, {}, unwind=8)
    servers, handles = server_metadata(prog, it0)
    rep.bounds['definition'] = f'harness definition gen-crates/endpoints (server metadata read from the expansion: {servers}); strings <= {L} bytes of valid UTF-8 (all byte values), i32 over the full range, tokens <= 3 bytes'
    tenv = {'__C': ('path', 'MockClient', ()), 'C': ('path', 'MockClient', ())}

    def mk(rets):
        tm = {**bodyio.TMODELS, **ep.TMODELS, **models_serde.TMODELS, ('Handler', 'Svc', 'e1'): T_handler, ('Handler', 'Svc', 'e2'): T_handler, ('Handler', 'Svc', 'e3'): T_handler}
        tm[('MockClient', 'Client', 'send')] = make_send(prog, servers, handles, rets)
        tm[('MockClient', 'AsyncClient', 'send')] = make_send_async(tm[('MockClient', 'Client', 'send')])
        it = Interp(prog, models, tm, unwind=3 * L + 8, merge=c11.MERGE)
        it.ext_consts.update(models_http.CONSTS)
        it.ext_consts.update(CLIENT_CONSTS)
        it.ext_consts.update(c18.CONSTS)
        it.assoc_types[('MockClient', 'Client', 'ResponseBody')] = ('path', 'ChunkIter', ())
        it.assoc_types[('MockClient', 'Client', 'BodyWriter')] = ('path', 'Out', ())
        it.assoc_types[('MockClient', 'AsyncClient', 'ResponseBody')] = ('path', 'ChunkIter', ())
        it.assoc_types[('MockClient', 'AsyncClient', 'BodyWriter')] = ('path', 'Out', ())
        it.const_generic_defaults['N'] = bv(50 * 1024 * 1024)
        return it
    # ---- e1: required path (i32), query (string), header (i32), header auth
    it = mk({})
    dec = Decider(rep, it)
    st = St()
    c = Case('e1')
    path_arg, header_arg = z3.BitVec('path_arg', 32), z3.BitVec('header_arg', 32)
    qp, qs = sym_str(st, 'query_arg', L)
    tok, ts = valid_token(st, 'token')
    c.args = [path_arg, qp, header_arg, tok]
    c.syms = {'path_arg': ('i32', path_arg), 'query_arg': ('str', qs), 'header_arg': ('i32', header_arg), 'token': ('token', ts)}
    run_case(rep, it, dec, prog, c, st, tenv)
    finish_engine(rep, it)
    # ---- e2: path (string), optional query (i32), optional header (string), cookie auth
    it = mk({})
    dec = Decider(rep, it)
    st = St()
    c = Case('e2')
    pp, ps = sym_str(st, 'p_arg', L)
    oq, oq_has, oq_v = opt_i32(it, 'opt_arg')
    bp, bs = sym_str(st, 'bar_arg', L)
    b_has = z3.Bool('bar_some')
    tok, ts = valid_token(st, 'token')
    c.args = [pp, oq, it.opt(b_has, bp), tok]
    c.syms = {'p_arg': ('str', ps), 'opt_arg': ('opt_i32', (oq_has, oq_v)), 'bar_arg': ('opt_str', (b_has, bs)), 'token': ('token', ts)}
    c.refusable = z3.And(b_has, z3.Not(text_header_ok(bs)))
    run_case(rep, it, dec, prog, c, st, tenv)
    finish_engine(rep, it)
    # ---- e3: JSON body in, JSON value out
    st = St()
    c = Case('e3')
    bp, bs = sym_str(st, 'body_arg', L)
    rp, rs = sym_str(st, 'ret', L)
    it = mk({'e3': rs})
    dec = Decider(rep, it)
    c.args = [bp]
    c.ret = rs
    c.syms = {'body_arg': ('str', bs), 'ret': ('str', rs)}
    run_case(rep, it, dec, prog, c, st, tenv)
    finish_engine(rep, it)
    # ---- async flavour of the client half (e1, e3)
    it = mk({})
    dec = Decider(rep, it)
    st = St()
    c = Case('e1', 'SvcApiAsync')
    path_arg, header_arg = z3.BitVec('path_arg', 32), z3.BitVec('header_arg', 32)
    qp, qs = sym_str(st, 'query_arg', L)
    tok, ts = valid_token(st, 'token')
    c.args = [path_arg, qp, header_arg, tok]
    c.syms = {'path_arg': ('i32', path_arg), 'query_arg': ('str', qs), 'header_arg': ('i32', header_arg), 'token': ('token', ts)}
    run_case(rep, it, dec, prog, c, st, tenv, 'async')
    finish_engine(rep, it)
    st = St()
    c = Case('e3', 'SvcApiAsync')
    bp, bs = sym_str(st, 'body_arg', L)
    rp, rs = sym_str(st, 'ret', L)
    it = mk({'e3': rs})
    dec = Decider(rep, it)
    c.args = [bp]
    c.ret = rs
    c.syms = {'body_arg': ('str', bs), 'ret': ('str', rs)}
    run_case(rep, it, dec, prog, c, st, tenv, 'async')
    finish_engine(rep, it)
    # ---- the JSON text model against an independent implementation, and reachability twins on the native loopback
    import json as _json
    for txt in (b'', b'a"\\', b'\x00\x1f\n', b'\x08\t\x0c', b'\r/\x7f', b'\xc3\xa9x'):
        got = bstr_py(json_string(bstr(txt)))
        want = _json.dumps(txt.decode(), ensure_ascii=False).encode()
        rep.query(f'model:json_string({txt!r})==reference', 'unsat' if got == want else 'sat', 0.0)
        if got != want:
            rep.inconc(f'C04 model self-check: json_string({txt!r}) = {got!r}, reference {want!r}')
    twins = [{'op': 'loopback', 'endpoint': 'e1', 'path_arg': -2147483648, 'query_arg': b'/+%'.hex(), 'header_arg': 2147483647, 'token': 'a+/'},
             {'op': 'loopback', 'endpoint': 'e2', 'p_arg': b'%2F'.hex(), 'opt_arg': None, 'bar_arg': b' ~ '.hex(), 'token': 'x'},
             {'op': 'loopback', 'endpoint': 'e2', 'p_arg': '', 'opt_arg': -1, 'bar_arg': None, 'token': 'x'},
             {'op': 'loopback', 'endpoint': 'e2', 'p_arg': b'?#'.hex(), 'opt_arg': 0, 'bar_arg': b'\xc3\xa9'.hex(), 'token': 'x'},
             {'op': 'loopback', 'endpoint': 'e3', 'body_arg': b'"\\\n'.hex(), 'ret': b'\x00\xc3\xa9'.hex()}]
    for op, nat in zip(twins, replay(twins)):
        rep.replayed += 1
        ok, why = native_verdict(op, nat)
        if not ok:
            rep.violation(f'C04:{op["endpoint"]}:twin', f'native loopback {op}: {why}', {'op': op, 'native': nat})
    rep.assumptions += ['transport/router contract (outside conjure-rust): the request is matched on method and path template from the server expansion\'s EndpointMetadata; raw path segments go into PathParams; the query is form_urlencoded-parsed; headers and body bytes are delivered unchanged; non-2xx answers surface as client errors',
                        'percent_encoding: percent_decode(utf8_percent_encode(x, set)) = x when "%" is in the set, and the encoded text contains no raw byte of the set (the sets are read from the MIR constants and checked against the URI syntax)',
                        'std: Display of i32 is the canonical decimal text (relational encoding through the same parser model the server side runs)']


def replay_cmd(path):
    w = json.load(open(path))
    op = w['witness']['op']
    nat = replay([op])[0]
    print(json.dumps({'op': op, 'native': nat, 'verdict': native_verdict(op, nat)}, indent=1))
    return 0
