"""C17 — errors encode faithfully; their parameters are partitioned by declared safety.
M: real Error::service_inner MIR (partition of the encoded parameters) over symbolic parameter presence for every sorted safe_args
subset; real conjure_error::encode MIR (ParametersSerializer / StructSerializer / StringSeed / StringVisitor + Any) on a harness
error type with symbolic parameter kinds.  K: ErrorCode::status_code table."""
import json, itertools
import z3
from vlib import kani
from mirsym.dump import program
from mirsym.interp import Interp, St
from mirsym import models_std, models_serde
from mirsym.models_std import fork_bool, sval, It, box
from mirsym.models_serde import de_err
from mirsym.values import Agg, Enum, Ptr, Seq, BStr, UNIT, Panic, Unwind, bv, bstr, bstr_py, bstr_eq, val_eq, is_abnormal, concrete
from mirsym.harness import Decider, finish_engine, replay, find_fn, find_fns
from mirsym.parse import Unsupported
from vlib.common import Inconclusive

NAMES = ['alpha', 'beta', 'delta', 'gamma']      # sorted parameter names (encoded parameters live in a BTreeMap)
NAMES.sort()


# ------------------------------------------------------------------ ordered / hashed maps as association lists with symbolic presence
def it_next_present(it, st, itv, fr):
    kind, src, f, pos, cur = itv.fields
    if pos >= len(src):
        yield st, itv, None
        return
    present, item = src[pos]
    nxt = Agg('It', ('present', src, None, pos + 1, None))
    for s2, p in fork_bool(it, st, present):
        if p:
            yield s2, nxt, item
        else:
            yield from it_next_present(it, s2, nxt, fr)


models_std.EXTRA_ITER_KINDS['present'] = it_next_present


def M_btreemap_into_iter(it, ctx, args, st):
    m = st.deref_all(args[0])
    yield st, Agg('It', ('present', tuple((p, Agg('tuple', (st.ref(k), st.ref(v)))) for p, k, v in m.fields[0]), None, 0, None))


def M_hashmap_new(it, ctx, args, st):
    yield st, Agg('std::collections::HashMap', ((),))


def M_hashmap_insert(it, ctx, args, st):
    mp = args[0]
    cur = st.deref(mp)
    st.write(mp, Agg(cur.name, (cur.fields[0] + ((args[1], args[2]),),)))
    yield st, it.none


def M_error_new(it, ctx, args, st):
    inner = Agg('conjure_error::error::Inner', (args[0], args[1], args[2], Agg('std::collections::HashMap', ((),)), Agg('std::collections::HashMap', ((),)), Seq(())))
    yield st, Agg('conjure_error::error::Error', (box(st, inner),))


def M_cow_deref(it, ctx, args, st):
    c = st.deref(args[0])
    if isinstance(c, Enum):
        p = c.payloads[0][1]
        v = p.fields[0]
        yield st, (v if isinstance(v, Ptr) else st.ref(v))
    else:
        yield st, args[0]


def M_slice_contains_str(it, ctx, args, st):
    seq = st.deref_all(args[0])
    x = st.deref_all(args[1])
    conds = [bstr_eq(st.deref_all(e), x) for e in seq.items]
    yield st, (z3.Or(*conds) if conds else z3.BoolVal(False))


# ---- Peekable (std contract): peek() looks at the next item without consuming it; next_if consumes it when the predicate holds
def M_peekable(it, ctx, args, st):
    yield st, Agg('It', ('peekable', models_std.as_iter(it, st, args[0]), None, 0, None))


def it_next_peekable(it, st, itv, fr):
    kind, src, f, pos, cur = itv.fields
    if cur is not None:
        yield st, Agg('It', ('peekable', src, None, 0, None)), (None if cur == ('none',) else cur[1])
        return
    for s2, inner, item in models_std.it_next(it, st, src, fr):
        yield s2, Agg('It', ('peekable', inner, None, 0, None)), item


models_std.EXTRA_ITER_KINDS['peekable'] = it_next_peekable


def M_peek(it, ctx, args, st):
    p = args[0]
    itv = st.deref(p)
    kind, src, f, pos, cur = itv.fields
    if cur is None:
        for s2, inner, item in models_std.it_next(it, st, src, ctx.fr):
            cur2 = ('none',) if item is None else ('some', item)
            s2.write(p, Agg('It', ('peekable', inner, None, 0, cur2)))
            yield s2, (it.none if item is None else it.some(s2.ref(item)))
        return
    yield st, (it.none if cur == ('none',) else it.some(st.ref(cur[1])))


def M_next_if(it, ctx, args, st):
    p = args[0]
    for s2, o in M_peek(it, ctx, [p], st):
        if o.discr.eq(bv(0)) or it.payload(o, 'Some') is None:
            yield s2, it.none
            continue
        itemp = it.payload(o, 'Some').fields[0]
        for s3, r in it.call_closure(args[1], [itemp], s2, ctx.fr):
            if is_abnormal(r):
                yield s3, r
                continue
            for s4, hit in fork_bool(it, s3, r):
                if hit:
                    itv = s4.deref(p)
                    item = itv.fields[4][1]
                    s4.write(p, Agg('It', ('peekable', itv.fields[1], None, 0, None)))
                    yield s4, it.some(item)
                else:
                    yield s4, it.none


def M_is_some_and(it, ctx, args, st):
    for s2, i, pl in it.enum_cases(args[0], st):
        if i == 0:
            yield s2, z3.BoolVal(False)
        else:
            yield from it.call_closure(args[1], [pl.fields[0]], s2, ctx.fr)


def M_str_cmp(op):
    def f(it, ctx, args, st):
        a, b = bstr_py(sval(st, args[0])), bstr_py(sval(st, args[1]))
        if a is None or b is None:
            raise Unsupported('ordering of symbolic strings')
        yield st, z3.BoolVal({'lt': a < b, 'le': a <= b, 'gt': a > b, 'ge': a >= b}[op])
    return f


MODELS = [
    (r'<&std::collections::BTreeMap<std::string::String, std::string::String> as std::iter::IntoIterator>::into_iter|std::collections::BTreeMap::<std::string::String, std::string::String>::iter', M_btreemap_into_iter),
    (r'std::collections::HashMap::<.*>::new', M_hashmap_new), (r'std::collections::HashMap::<.*>::insert', M_hashmap_insert),
    (r'error::Error::new|conjure_error::error::Error::new', M_error_new),
    (r'<std::borrow::Cow<str> as std::ops::Deref>::deref', M_cow_deref),
    (r'(?:core|std)::slice::<impl \[&str\]>::contains', M_slice_contains_str),
    (r'<.* as std::iter::Iterator>::peekable', M_peekable),
    (r'std::iter::Peekable::<.*>::peek', M_peek), (r'std::iter::Peekable::<.*>::next_if::<.*>', M_next_if),
    (r'std::option::Option::<.*>::is_some_and::<.*>', M_is_some_and),
] + [(r'<&*str as std::cmp::PartialOrd(<&*str>)?>::' + op, M_str_cmp(op)) for op in ('lt', 'le', 'gt', 'ge')]


def run(rep, tier):
    with rep.part('status codes'):
        run_status(rep)
    with rep.part('parameter partition'):
        run_partition(rep, tier)
    with rep.part('encode'):
        run_encode(rep)
    with rep.part('generated error types'):
        run_generated_errors(rep)
    with rep.part('metadata through references'):
        run_metadata_through_refs(rep)
    ops = [{'op': 'error_encode'}, {'op': 'error_encode_kinds'}, {'op': 'error_encode_doubles'}]
    for o, r in zip(ops, replay(ops)):
        rep.replayed += 1
        if not r.get('ok'):
            rep.violation('C17:native-twin', f'native {o}: {r}', {'op': o, 'native': r})
    rep.assumptions += ['BTreeMap<String, String> iterates its entries in key order; HashMap insert stores the pair; Error::new at the boundary (backtrace capture is environment)',
                        'std::iter::Peekable / Option::is_some_and / str ordering by their documented contracts (so that refactorings of the partition loop stay decidable)']
    rep.outside += ['the JSON round trip of SerializableError (reduces to C01/C02 on a struct of strings and a string map)', 'more than 4 parameters',
                    'encode(): the Display text of doubles (library), parameter kinds beyond the listed ones']


# ------------------------------------------------------------------ encode(): one string entry per scalar parameter
P = lambda name, *a: ('path', name, tuple(a))
SE = r'types::serializable_error::'


def M_sb_new(it, ctx, args, st):
    yield st, Agg('SEBuilder', (None, None, None, ()))


def M_sb_set(i):
    def f(it, ctx, args, st):
        b = args[0] if isinstance(args[0], Agg) and args[0].name == 'SEBuilder' else Agg('SEBuilder', (None, None, None, ()))
        fl = list(b.fields)
        v = args[1]
        fl[i] = st.deref_all(v) if isinstance(v, Ptr) else v
        yield st, Agg('SEBuilder', tuple(fl))
    return f


def M_sb_insert(it, ctx, args, st):
    b = args[0]
    k = st.deref_all(args[1]) if isinstance(args[1], Ptr) else args[1]
    v = st.deref_all(args[2]) if isinstance(args[2], Ptr) else args[2]
    yield st, Agg('SEBuilder', b.fields[:3] + (b.fields[3] + ((k, v),),))


def M_sb_extend(it, ctx, args, st):
    """Builder::extend_parameters(iter of (key, value)): insert_parameters for every item, in order"""
    b = args[0]
    from mirsym.models_std import drain, as_iter
    for s2, items in drain(it, st, as_iter(it, st, args[1]), ctx.fr):
        if is_abnormal(items):
            yield s2, items
            continue
        extra = []
        for x in items:
            x = s2.deref_all(x) if isinstance(x, Ptr) else x
            k = s2.deref_all(x.fields[0]) if isinstance(x.fields[0], Ptr) else x.fields[0]
            v = s2.deref_all(x.fields[1]) if isinstance(x.fields[1], Ptr) else x.fields[1]
            extra.append((k, v))
        yield s2, Agg('SEBuilder', b.fields[:3] + (b.fields[3] + tuple(extra),))


def M_sb_parameters(it, ctx, args, st):
    """Builder::parameters(iter): the parameter map is *replaced* by the collected entries (conjure builder setter for a map field)"""
    b = args[0]
    for s2, r in M_sb_extend(it, ctx, [Agg('SEBuilder', b.fields[:3] + ((),)), args[1]], st):
        yield s2, r


def M_sb_build(it, ctx, args, st):
    yield st, Agg('SerializableError', args[0].fields)


def M_display_to_string(it, ctx, args, st):
    """<bool|f64 as ToString>::to_string: bool is "true"/"false"; a double's Display text is the library's (opaque token of the value)"""
    v = args[0] if not isinstance(args[0], Ptr) else st.deref_all(args[0])
    if z3.is_bool(v):
        yield st, BStr(tuple(z3.If(v, z3.BitVecVal(a, 8), z3.BitVecVal(b, 8)) for a, b in zip(b'true\0', b'false')), z3.If(v, bv(4), bv(5)))
    else:
        yield st, Agg('DisplayText', (v,))


ENCODE_MODELS = [
    (SE + r'SerializableError::builder', M_sb_new),
    (SE + r'Builder::<.*>::error_code', M_sb_set(0)), (SE + r'Builder::<.*>::error_name::<.*>', M_sb_set(1)), (SE + r'Builder::<.*>::error_instance_id', M_sb_set(2)),
    (SE + r'Builder::<.*>::insert_parameters::<.*>', M_sb_insert), (SE + r'Builder::<.*>::extend_parameters::<.*>', M_sb_extend), (SE + r'Builder::<.*>::parameters::<.*>', M_sb_parameters), (SE + r'Builder::<.*>::build', M_sb_build),
    (r'<(?:bool|f64|f32) as (?:std|alloc)::string::ToString>::to_string', M_display_to_string),
]
# parameter kinds of the harness error type: how the field's Serialize impl presents it, and the text the statement prescribes
KINDS = ['bool', 'i32', 'i64', 'u64', 'f64', 'string', 'enum', 'some_i32', 'alias_i64', 'none', 'list', 'unit']
SCALAR = {'bool', 'i32', 'i64', 'u64', 'f64', 'string', 'enum', 'some_i32', 'alias_i64'}


def run_encode(rep, tier=None):
    from checks import c13
    from mirsym.models_std import chain_ok, parse_int_model
    prog = program(['conjure_error', 'conjure_object'])
    fn = find_fn(prog, 'encode', inpath='conjure_error::encode')
    rep.bounds['encode'] = f'a harness error type with one parameter of each kind {KINDS} (integers at full width, strings <= 3 bytes, a unit-variant enum, a present optional, an alias)'
    vals = {'bool': z3.Bool('pv_bool'), 'i32': z3.BitVec('pv_i32', 32), 'i64': z3.BitVec('pv_i64', 64), 'u64': z3.BitVec('pv_u64', 64), 'f64': z3.FP('pv_f64', z3.Float64()),
            'some_i32': z3.BitVec('pv_some', 32), 'alias_i64': z3.BitVec('pv_alias', 64)}

    def field_call(it, ctx, SS, sp, kind, s):
        key = s.ref(bstr(kind.encode()))
        if kind in ('bool', 'i32', 'i64', 'u64', 'f64'):
            return it.call_trait(ctx.fr, SS, 'serde::ser::SerializeStruct', 'serialize_field', [P(kind)], [sp, key, s.ref(vals[kind])], s)
        if kind == 'string':
            return it.call_trait(ctx.fr, SS, 'serde::ser::SerializeStruct', 'serialize_field', [P('std::string::String')], [sp, key, s.aux['strp']], s)
        return it.call_trait(ctx.fr, SS, 'serde::ser::SerializeStruct', 'serialize_field', [P('FieldProbe')], [sp, key, s.ref(Agg('FieldProbe', (kind,)))], s)

    def T_ser(it, ctx, args, st):
        S = ctx.gargs[0]
        SS = it.normalize_proj(('proj', 'SerializeStruct', (S, P('serde::Serializer'))))

        def fields(s, sp, k):
            if k == len(KINDS):
                yield from it.call_trait(ctx.fr, SS, 'serde::ser::SerializeStruct', 'end', [], [s.deref(sp)], s)
                return
            yield from chain_ok(it, field_call(it, ctx, SS, sp, KINDS[k], s), lambda s2, _: fields(s2, sp, k + 1))
        yield from chain_ok(it, it.call_trait(ctx.fr, S, 'serde::Serializer', 'serialize_struct', [], [args[1], st.ref(bstr(b'Err')), bv(len(KINDS))], st),
                            lambda s, ss: fields(s, s.ref(ss), 0))

    def T_field_probe(it, ctx, args, st):
        kind = st.deref_all(args[0]).fields[0]
        S, ser = ctx.gargs[0], args[1]
        nm = st.ref(bstr(b'T'))
        if kind == 'enum':
            yield from it.call_trait(ctx.fr, S, 'serde::Serializer', 'serialize_unit_variant', [], [ser, nm, z3.BitVecVal(1, 32), st.ref(bstr(b'VARIANT_B'))], st)
        elif kind == 'some_i32':
            yield from it.call_trait(ctx.fr, S, 'serde::Serializer', 'serialize_some', [P('i32')], [ser, st.ref(vals['some_i32'])], st)
        elif kind == 'alias_i64':
            yield from it.call_trait(ctx.fr, S, 'serde::Serializer', 'serialize_newtype_struct', [P('i64')], [ser, nm, st.ref(vals['alias_i64'])], st)
        elif kind == 'none':
            yield from it.call_trait(ctx.fr, S, 'serde::Serializer', 'serialize_none', [], [ser], st)
        elif kind == 'unit':
            yield from it.call_trait(ctx.fr, S, 'serde::Serializer', 'serialize_unit', [], [ser], st)
        elif kind == 'list':
            SQ = it.normalize_proj(('proj', 'SerializeSeq', (S, P('serde::Serializer'))))
            yield from chain_ok(it, it.call_trait(ctx.fr, S, 'serde::Serializer', 'serialize_seq', [], [ser, it.some(bv(0))], st),
                                lambda s, sq: it.call_trait(ctx.fr, SQ, 'serde::ser::SerializeSeq', 'end', [], [sq], s))
        else:
            raise Unsupported('field kind ' + kind)
    tm = dict(models_serde.TMODELS)
    tm.update({('ErrProbe', 'ErrorType', 'code'): lambda it, ctx, args, st: iter([(st, Agg('ErrorCodeToken', ()))]),
               ('ErrProbe', 'ErrorType', 'name'): lambda it, ctx, args, st: iter([(st, st.ref(bstr(b'Ns:Err')))]),
               ('ErrProbe', 'ErrorType', 'instance_id'): lambda it, ctx, args, st: iter([(st, it.some(Agg('UuidToken', ())))]),
               ('ErrProbe', 'Serialize', 'serialize'): T_ser, ('FieldProbe', 'Serialize', 'serialize'): T_field_probe})
    tm[(c13.ANY, 'Deserializer', 'deserialize_i128')] = c13.T_serde_default_128
    tm[(c13.ANY, 'Deserializer', 'deserialize_u128')] = c13.T_serde_default_128
    it = Interp(prog, ENCODE_MODELS + c13.MODELS + MODELS + models_serde.MODELS + models_std.MODELS, tm, unwind=len(KINDS) + 6)
    dec = Decider(rep, it)
    st = St()
    from mirsym.harness import sym_str
    strp, strv = sym_str(st, 'pv_str', 3)
    st.aux['strp'] = strp
    np_ = 0
    for s2, rv in it.run(fn, [st.ref(Agg('ErrProbe', ()))], st, {'T': P('ErrProbe')}):
        np_ += 1
        rep.states += 1
        tag = f'encode:path{np_}'
        if isinstance(rv, Unwind):
            rep.inconc(f'C17 {tag}: unwind {rv.where}')
            continue
        if isinstance(rv, Panic):
            m = dec.decide(tag + ':panic', s2, z3.BoolVal(True))
            if m is not None:
                report_encode(rep, f'encode panics: {rv.msg}')
            continue
        if not (isinstance(rv, Agg) and rv.name == 'SerializableError'):
            rep.inconc(f'C17 {tag}: unexpected result {rv!r:.100}')
            continue
        params = {}
        dup = False
        for k, v in rv.fields[3]:
            kk = bstr_py(k).decode() if isinstance(k, BStr) and bstr_py(k) is not None else repr(k)
            dup = dup or kk in params
            params[kk] = v
        good = not dup and set(params) == SCALAR and rv.fields[1] is not None
        conds = []
        if good:
            for kind, got in params.items():
                if kind in ('i32', 'i64', 'u64', 'some_i32', 'alias_i64'):
                    bits, signed = {'i32': (32, True), 'i64': (64, True), 'u64': (64, False), 'some_i32': (32, True), 'alias_i64': (64, True)}[kind]
                    if not isinstance(got, BStr):
                        good = False
                        continue
                    ext = (z3.SignExt(64 - bits, vals[kind]) if signed else z3.ZeroExt(64 - bits, vals[kind])) if bits < 64 else vals[kind]
                    rec = next((r for r in s2.aux.get('int_texts', ()) if same_text(r[0], got)), None)
                    if rec is not None and rec[3] == signed:
                        # the text is the Display of rec[1] (ghost record of the to_string model): compare the numbers
                        w = rec[1].size()
                        rv64 = rec[1] if w == 64 else (z3.SignExt(64 - w, rec[1]) if signed else z3.ZeroExt(64 - w, rec[1]))
                        conds.append(rv64 != ext)
                    else:
                        ok, pv = parse_int_model(got, 64, signed)
                        conds.append(z3.Not(z3.And(ok, pv == ext)))
                elif kind == 'bool':
                    good = good and isinstance(got, BStr)
                    if isinstance(got, BStr):
                        conds.append(z3.Not(z3.If(vals['bool'], bstr_eq(got, bstr(b'true')), bstr_eq(got, bstr(b'false')))))
                elif kind == 'string':
                    good = good and isinstance(got, BStr)
                    if isinstance(got, BStr):
                        conds.append(z3.Not(bstr_eq(got, strv)))
                elif kind == 'enum':
                    good = good and isinstance(got, BStr) and bstr_py(got) == b'VARIANT_B'
                elif kind == 'f64':
                    good = good and isinstance(got, Agg) and got.name == 'DisplayText'
                    if good:
                        conds.append(z3.Not(val_eq(got.fields[0], vals['f64'])))
        rep.query(tag + ':one-entry-per-scalar-parameter', 'unsat' if good else 'sat', 0.0, entries=sorted(params))
        if not good:
            report_encode(rep, f'encode() yields parameter entries {sorted(params)} (texts {[(k, repr(v)[:40]) for k, v in params.items()][:6]}); the statement prescribes one string entry for each of {sorted(SCALAR)} and none for optional-absent / list / unit')
            continue
        for ci, c in enumerate(conds):
            m = dec.decide(tag + f':text{ci}==value', s2, c)
            if m is not None:
                report_encode(rep, 'a scalar parameter is encoded as a different text than its value')
                break
    if np_ == 0:
        rep.inconc('vacuity: encode() produced no outcome')
    finish_engine(rep, it)


from mirsym.models_std import same_text   # noqa: E402


def report_encode(rep, what):
    r, r2 = replay([{'op': 'error_encode_kinds'}])[0], replay([{'op': 'error_encode_kinds'}], 'release')[0]
    rep.replayed += 1
    if not r.get('ok') and r == r2:
        rep.violation('C17:encode', f'{what}; native encode of an error with one parameter of each kind: {r}', {'op': {'op': 'error_encode_kinds'}, 'native': r})
    else:
        rep.inconc(f'model mismatch C17 encode: {what}; native {r}')


def battery_instance_id():
    r = replay([{'op': 'error_instance_id'}])[0]
    return [] if r.get('ok') else [f'instance id / metadata through a reference: native {r}']


def T_empty_struct(it, ctx, args, st):
    """Serialize of a parameterless error: serialize_struct(name, 0) then end()"""
    from mirsym.models_std import chain_ok
    S = ctx.gargs[0]
    SS = it.normalize_proj(('proj', 'SerializeStruct', (S, ('path', 'serde::Serializer', ()))))
    yield from chain_ok(it, it.call_trait(ctx.fr, S, 'serde::Serializer', 'serialize_struct', [], [args[1], st.ref(bstr(b'Err')), bv(0)], st),
                        lambda s, ss: it.call_trait(ctx.fr, SS, 'serde::ser::SerializeStruct', 'end', [], [ss], s))


def run_metadata_through_refs(rep):
    """encode() keeps the error's own code, name and explicit instance id -- also when the error type is `&T` (the library's
    `impl ErrorType for &T`, executed from MIR, must forward all four trait methods)"""
    prog = program(['conjure_error', 'conjure_object'])
    fn = find_fn(prog, 'encode', inpath='conjure_error::')
    tm = dict(models_serde.TMODELS)
    tm.update({('ErrProbe', 'ErrorType', 'code'): lambda it, ctx, args, st: iter([(st, Agg('ErrorCodeToken', ()))]),
               ('ErrProbe', 'ErrorType', 'name'): lambda it, ctx, args, st: iter([(st, st.ref(bstr(b'Ns:Err')))]),
               ('ErrProbe', 'ErrorType', 'instance_id'): lambda it, ctx, args, st: iter([(st, it.some(Agg('UuidToken', ())))]),
               ('ErrProbe', 'ErrorType', 'safe_args'): lambda it, ctx, args, st: iter([(st, st.ref(Seq(())))]),
               ('ErrProbe', 'Serialize', 'serialize'): T_empty_struct})

    def M_new_v4(it, ctx, args, st):
        yield st, Agg('FreshUuid', ())
    from checks import c13
    models = [(r'.*Uuid>?::new_v4', M_new_v4)] + ENCODE_MODELS + c13.MODELS + MODELS + models_serde.MODELS + models_std.MODELS
    P_ = lambda n: ('path', n, ())
    for label, T, arg in (('T', P_('ErrProbe'), None), ('&T', ('ref', False, P_('ErrProbe')), 'ref')):
        it = Interp(prog, models, tm, unwind=8)
        st = St()
        probe = st.ref(Agg('ErrProbe', ()))
        a = probe if arg is None else st.ref(probe)
        outs = []
        for s2, rv in it.run(fn, [a], st, {'T': T}):
            rep.states += 1
            outs.append(rv)
            if is_abnormal(rv) or not (isinstance(rv, Agg) and rv.name == 'SerializableError'):
                rep.structural(f'C17:metadata:{label}', f'encode::<{label}> gives {rv!r:.120}', {}, battery_instance_id)
                continue
            code, name, iid = rv.fields[0], rv.fields[1], rv.fields[2]
            ok = isinstance(code, Agg) and code.name == 'ErrorCodeToken' and isinstance(name, BStr) and bstr_py(name) == b'Ns:Err' and isinstance(iid, Agg) and iid.name == 'UuidToken'
            rep.query(f'metadata:{label}:encode-keeps-code-name-and-explicit-instance-id', 'unsat' if ok else 'sat', 0.0, got=repr((code, name, iid))[:160])
            if not ok:
                rep.structural(f'C17:metadata:{label}', f'encode() of an error of type {label}: code {code!r:.40}, name {name!r:.40}, instance id {iid!r:.40} instead of the error\'s own '
                               '(explicit instance ids must survive)', {'type': label}, battery_instance_id)
        if not outs:
            rep.inconc(f'vacuity: encode::<{label}> has no outcome')
        finish_engine(rep, it)
    for fail in battery_instance_id():
        rep.violation('C17:native:instance-id', f'native twin: {fail}', {'native': fail})
    rep.replayed += 1


def battery_gen_error():
    want = {'http': {'name': 'Gateway:HTTPUpstreamFailed', 'code': 'Timeout', 'safe_args': ['alphaArg', 'zetaArg'], 'encoded_name': 'Gateway:HTTPUpstreamFailed', 'encoded_code': 'Timeout',
                     'params': [['alphaArg', '7'], ['secretArg', 's'], ['zetaArg', 'z']], 'safe_params': ['alphaArg', 'zetaArg'], 'unsafe_params': ['secretArg']},
            'plain': {'name': 'Ns:PlainErr', 'code': 'CustomClient', 'safe_args': [], 'encoded_name': 'Ns:PlainErr', 'encoded_code': 'CustomClient', 'params': [], 'safe_params': [], 'unsafe_params': []}}
    r = replay([{'op': 'gen_error'}])[0]
    return [f'generated error {k}: native {r.get(k)}, declared {w}' for k, w in want.items() if r.get(k) != w]


def run_generated_errors(rep):
    """the ErrorType impl the real generator emits for the error definitions of the IR family (executed from MIR): the wire name is
    `<namespace>:<declared name>` verbatim (not the Rust identifier), the code is the declared one, safe_args are exactly the declared
    safe arguments, sorted (what Error::service_inner's partition -- decided above for every sorted subset -- relies on)"""
    import os
    from checks import gentypes
    from vlib.common import VERIF
    prog = gentypes.types_program()
    ir = json.load(open(os.path.join(VERIF, 'gen-crates/types/ir/family.json')))
    import re as _re
    snake = lambda n: _re.sub(r'(?<!^)(?=[A-Z][a-z])|(?<=[a-z0-9])(?=[A-Z])', '_', n).lower()
    for cfg in ('types', 'exhaustive_types'):
        for e in ir['errors']:
            decl = e['errorName']['name']
            want_name = f"{e['namespace']}:{decl}".encode()
            want_code = ''.join(w.capitalize() for w in e['code'].split('_'))
            want_safe = sorted(a['fieldName'].encode() for a in e['safeArgs'])
            it = Interp(prog, models_std.MODELS, {}, unwind=8)
            fns = {m: [k for k in find_fns(prog, m, inpath=f'{gentypes.CRATE}::{cfg}::p::') if 'ErrorType' in impl_header(prog, k) and decl.lower() in k.replace('_', '').lower()] for m in ('name', 'code', 'safe_args')}
            if any(len(v) != 1 for v in fns.values()):
                raise Inconclusive(f'C17 harness: generated ErrorType impl of {decl} ({cfg}) not found uniquely: {fns}')
            st = St()
            me = st.ref(Agg('GeneratedError', ()))
            got = {}
            for m in ('name', 'code', 'safe_args'):
                outs = list(it.run(fns[m][0], [me], st.fork(), {}))
                rep.states += len(outs)
                if len(outs) != 1 or is_abnormal(outs[0][1]):
                    raise Inconclusive(f'C17 harness: {fns[m][0]} has {len(outs)} outcomes')
                s2, rv = outs[0]
                v = s2.deref_all(rv) if isinstance(rv, Ptr) else rv
                if m == 'name':
                    got[m] = bstr_py(v)
                elif m == 'code':
                    got[m] = v.decl.variants[[i for i, (n_, d_) in enumerate(v.decl.variants) if d_ == concrete(v.discr)][0]][0] if isinstance(v, Enum) and concrete(v.discr) is not None else (v.name.split('::')[-1] if isinstance(v, Agg) and not v.fields else repr(v))
                else:
                    got[m] = [bstr_py(s2.deref_all(x) if isinstance(x, Ptr) else x) for x in v.items] if isinstance(v, Seq) else repr(v)
            want = {'name': want_name, 'code': want_code, 'safe_args': want_safe}
            for m in want:
                ok = got[m] == want[m]
                rep.query(f'generated-error:{cfg}:{decl}:{m}==declared', 'unsat' if ok else 'sat', 0.0, got=repr(got[m]))
                if not ok:
                    rep.structural(f'C17:generated:{decl}:{m}', f'{cfg}: the generated ErrorType::{m}() of {e["namespace"]}:{decl} is {got[m]!r}, declared {want[m]!r}', {'cfg': cfg, 'error': decl, m: repr(got[m])}, battery_gen_error)
            finish_engine(rep, it)
    for fail in battery_gen_error():
        rep.violation('C17:native:generated', f'native twin: {fail}', {'native': fail})
    rep.replayed += 1


def impl_header(prog, fname):
    for info in prog.impls:
        for ms in info.methods.values():
            if fname in ms:
                return info.text
    return ''


def run_status(rep):
    res = kani.run_parallel({'c17': ['c17_status_codes']}, timeout_s=600)
    failed = kani.record(rep, res)
    kani.handle_failures(rep, failed, 'C17')


def run_partition(rep, tier):
    prog = program(['conjure_error', 'conjure_object'])
    fn = find_fn(prog, 'service_inner', inpath='conjure_error::error::')
    n = len(NAMES)
    rep.bounds['partition'] = f'error types with parameters {NAMES}: every subset declared safe (safe_args sorted, as the generator emits), every parameter independently encoded (scalar) or omitted (non-scalar / absent), values symbolic strings of <= 2 bytes'
    total = 0
    for k in range(n + 1):
        for safe in itertools.combinations(range(n), k):
            it = Interp(prog, MODELS + models_serde.MODELS + models_std.MODELS, models_serde.TMODELS, unwind=n + 6)
            dec = Decider(rep, it)
            st = St()
            present = [z3.Bool(f'present_{NAMES[i]}') for i in range(n)]
            vals = [BStr((z3.BitVec(f'v{i}_0', 8), z3.BitVec(f'v{i}_1', 8)), z3.BitVec(f'v{i}_len', 64)) for i in range(n)]
            st.pc += [z3.ULE(v.len, 2) for v in vals]
            params = Agg('BTreeMap', (tuple((present[i], bstr(NAMES[i]), vals[i]) for i in range(n)),))
            d = prog.src.struct_fields('SerializableError', 'conjure_error::types::serializable_error')
            if not d or 'parameters' not in d:
                raise Inconclusive(f'C17 harness: SerializableError layout not found: {d}')
            fields = [UNIT] * len(d)
            fields[d.index('parameters')] = params
            se = Agg('conjure_error::types::serializable_error::SerializableError', tuple(fields))
            safe_args = st.ref(Seq(tuple(st.ref(bstr(NAMES[i])) for i in safe)))
            cause = Agg('Cause', ())
            for s2, rv in it.run(fn, [cause, z3.BoolVal(False), se, safe_args], st):
                total += 1
                rep.states += 1
                tag = f'partition:safe={",".join(NAMES[i] for i in safe) or "-"}:path{total}'
                if isinstance(rv, Unwind):
                    rep.inconc(f'C17 {tag}: unwind {rv.where}')
                    continue
                if isinstance(rv, Panic):
                    m = dec.decide(tag + ':panic', s2, z3.BoolVal(True))
                    if m is not None:
                        report(rep, safe, [z3.is_true(m.eval(p, True)) for p in present], f'panic: {rv.msg}')
                    continue
                inner = s2.deref_all(rv.fields[0].fields[0].fields[0])
                sp, up = inner.fields[3].fields[0], inner.fields[4].fields[0]

                def keys(pairs):
                    out = []
                    for kk, vv in pairs:
                        kv = s2.deref_all(kk) if isinstance(kk, Ptr) else kk
                        if isinstance(kv, Enum):
                            kv = kv.payloads[0][1].fields[0]
                            kv = s2.deref_all(kv) if isinstance(kv, Ptr) else kv
                        out.append(bstr_py(kv).decode())
                    return out
                sk, uk = keys(sp), keys(up)
                # every present parameter is in exactly one set: safe iff declared safe
                conds = []
                for i in range(n):
                    nm = NAMES[i]
                    in_s, in_u = sk.count(nm), uk.count(nm)
                    want_s = 1 if i in safe else 0
                    ok_when_present = (in_s == want_s and in_u == 1 - want_s)
                    ok_when_absent = (in_s == 0 and in_u == 0)
                    conds.append(z3.And(present[i], z3.BoolVal(not ok_when_present)))
                    conds.append(z3.And(z3.Not(present[i]), z3.BoolVal(not ok_when_absent)))
                m = dec.decide(tag + ':each-encoded-parameter-in-exactly-one-set-by-declared-safety', s2, z3.Or(*conds), safe_keys=sk, unsafe_keys=uk)
                if m is not None:
                    report(rep, safe, [z3.is_true(m.eval(p, True)) for p in present], f'safe set {sk}, unsafe set {uk}')
            finish_engine(rep, it)
    rep.extra['partition_paths'] = total


def report(rep, safe, present, what):
    op = {'op': 'error_partition', 'safe': [NAMES[i] for i in safe], 'present': [NAMES[i] for i, p in enumerate(present) if p], 'names': NAMES}
    r, r2 = replay([op])[0], replay([op], 'release')[0]
    rep.replayed += 1
    want_s = sorted(n for n in op['present'] if n in op['safe'])
    want_u = sorted(n for n in op['present'] if n not in op['safe'])
    if 'error' in r:
        rep.inconc(f'C17 counterexample not replayable: {r}')
    elif (r.get('safe'), r.get('unsafe')) != (want_s, want_u) and r == r2:
        rep.violation('C17:partition', f'error type with safe args {op["safe"]}, encoded parameters {op["present"]}: {what}; native safe={r.get("safe")} unsafe={r.get("unsafe")}', {'op': op, 'native': r})
    else:
        rep.inconc(f'model mismatch C17: {op} ({what}) does not reproduce natively: {r}')


def replay_cmd(path):
    w = json.load(open(path))
    print(json.dumps(replay([w['witness']['op']])[0], indent=1))
    return 0
