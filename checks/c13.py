"""C13 — the dynamic `any` value is a lossless carrier.  Real AnySerializer / Serialize for Any / Deserializer for Any /
AnyVisitor MIR between serde's primitive impls (by contract) and an event recorder."""
import json
import z3
from mirsym.dump import program
from mirsym.interp import Interp, St
from mirsym import models_std, models_serde
from mirsym.models_serde import de_err, PRIM_HINT
from mirsym.values import Agg, Enum, Ptr, Seq, BStr, UNIT, Panic, Unwind, bv, bstr, bstr_py, bstr_eq, val_eq, is_abnormal
from mirsym.harness import Decider, finish_engine, replay, find_fn, find_fns, sym_str, model_bytes
from mirsym.types import INT_BITS
from vlib.common import Inconclusive

ANY = 'conjure_object::any::Any'
WIDTHS = ['i8', 'i16', 'i32', 'i64', 'i128', 'u8', 'u16', 'u32', 'u64', 'u128']


def T_serde_default_128(it, ctx, args, st):
    """serde's provided Deserializer::deserialize_i128/u128: 'i128 is not supported' unless the impl overrides it"""
    yield st, it.err(Agg('conjure_object::any::Error', (bstr(ctx.callee.method[len('deserialize_'):] + ' is not supported'),)))


def M_any_error_custom(it, ctx, args, st):
    yield st, Agg('conjure_object::any::Error', (de_err('custom'),))


def M_ordered_float_into_inner(it, ctx, args, st):
    v = args[0]
    v = st.deref_all(v) if isinstance(v, Ptr) else v
    yield st, v.fields[0]


def M_ordered_float_new(it, ctx, args, st):
    yield st, Agg('ordered_float::OrderedFloat', (args[0],))


MODELS = [
    (r'ordered_float::OrderedFloat::<.*>::into_inner', M_ordered_float_into_inner),
    (r'<ordered_float::OrderedFloat<.*> as (?:std|core)::convert::From<.*>>::from|<f(?:32|64) as (?:std|core)::convert::Into<ordered_float::OrderedFloat<.*>>>::into', M_ordered_float_new),
    (r'<any::Error as (?:[\w:]+::)?(?:de|ser)::Error>::\w+(::<.*>)?|<conjure_object::any::Error as .*Error>::\w+(::<.*>)?', M_any_error_custom),
]


def mk(prog):
    tm = dict(models_serde.TMODELS)
    tm[(ANY, 'Deserializer', 'deserialize_i128')] = T_serde_default_128
    tm[(ANY, 'Deserializer', 'deserialize_u128')] = T_serde_default_128
    return Interp(prog, MODELS + models_serde.MODELS + models_std.MODELS, tm, unwind=8)


TWIN_OPS = [{'op': 'any_prim', 'ty': 'u64', 'n': str(2**64 - 1)}, {'op': 'any_prim', 'ty': 'i64', 'n': str(-2**63)}, {'op': 'any_json', 'doc': '18446744073709551615'},
            {'op': 'any_json', 'doc': '[1,-2,3.5,"x",null,true,{"k":[]}]'}, {'op': 'any_prim', 'ty': 'i8', 'n': '-128'}, {'op': 'any_prim', 'ty': 'u8', 'n': '255'},
            {'op': 'any_prim', 'ty': 'i128', 'n': str(-2**127)}, {'op': 'any_prim', 'ty': 'u128', 'n': str(2**128 - 1)}, {'op': 'any_prim', 'ty': 'bool', 'n': '1'},
            {'op': 'any_prim', 'ty': 'char', 'n': '65'}, {'op': 'any_prim', 'ty': 'f64', 'n': str(0x7ff8000000000001)}, {'op': 'any_prim', 'ty': 'f32', 'n': str(0x3dcccccd)},
            {'op': 'any_prim', 'ty': 'f64', 'n': str(0x3fb999999999999a)}, {'op': 'any_prim', 'ty': 'i16', 'n': '-32768'}, {'op': 'any_prim', 'ty': 'u32', 'n': str(2**32 - 1)}]


def battery():
    return [f'{o}: {r}' for o, r in zip(TWIN_OPS, replay(TWIN_OPS)) if not r.get('same')]


STR_K = 4


def run(rep, tier):
    global STR_K
    STR_K = 4 if tier == 'quick' else 8
    prog = program(['conjure_object'])
    rep.bounds['values'] = 'every integer width i8..i128 / u8..u128 at full bit width, bool, ASCII char, f32/f64 (all classes incl. every NaN payload), strings and byte strings of <= ' + str(STR_K) + ' bytes, unit, none/some; JSON number events u64/i64/f64'
    new = find_fn(prog, 'new', inpath='conjure_object::any::<impl')
    for fail in battery_nested():
        rep.violation('C13:native-twin:nested', f'an Any nested in a static type does not survive the outer Any: {fail}', {'native': fail})
    rep.replayed += 1
    into = find_fn(prog, 'deserialize_into', inpath='conjure_object::any::<impl')
    ser_any = [k for k in find_fns(prog, 'serialize', inpath='conjure_object::any::ser::<impl') if ANY.split('::')[-1] in prog.fns[k].args[0][1] and 'AnySerializer' not in prog.fns[k].args[0][1]]
    ser_any = [k for k in ser_any if prog.fns[k].args[0][1].strip().endswith('any::Any')]
    if len(ser_any) != 1:
        raise Inconclusive(f'C13 harness: Serialize for Any not found uniquely: {ser_any}')
    kinds = [(w, z3.BitVec('n_' + w, INT_BITS[w])) for w in WIDTHS] + [('bool', z3.Bool('b')), ('char', z3.BitVec('c', 32)),
                                                                        ('f64', z3.FP('f', z3.Float64())), ('f32', z3.FP('g', z3.Float32()))]
    for tname, v in kinds:
        it = mk(prog)
        dec = Decider(rep, it)
        st = St()
        if tname == 'char':
            st.pc.append(z3.ULT(v, 128))          # ASCII chars (AnySerializer stores a char as its one-character string)
        T = ('path', tname, ())
        # (a) Any::new(v).deserialize_into::<T>() == v   and   (b) Serialize for Any emits exactly the event of v
        for s1, r1 in it.run(new, [v], st, {'T': T}):
            rep.states += 1
            if is_abnormal(r1):
                rep.structural(f'C13:new:{tname}', f'Any::new::<{tname}> {r1!r}', {}, battery)
                continue
            okp = it.payload(r1, 'Ok')
            if okp is None or it.feasible(s1, it.variant_of(r1, 'Err')):
                m = dec.decide(f'new:{tname}:never-fails', s1, it.variant_of(r1, 'Err'))
                if m is not None:
                    report_prim(rep, tname, m, v, 'Any::new fails')
                if okp is None:
                    continue
            anyv = okp.fields[0]
            for s2, r2 in it.run(into, [anyv], s1.fork(), {'T': T}):
                rep.states += 1
                if is_abnormal(r2):
                    rep.structural(f'C13:into:{tname}', f'deserialize_into::<{tname}> {r2!r}', {}, battery)
                    continue
                back = it.payload(r2, 'Ok')
                bad = it.variant_of(r2, 'Err')
                if back is not None:
                    bad = z3.Or(bad, z3.Not(val_eq(back.fields[0], v)))
                m = dec.decide(f'roundtrip:{tname}:Any::new(v).deserialize_into()==v', s2, bad, width='full')
                if m is not None:
                    report_prim(rep, tname, m, v, 'value does not survive Any::new + deserialize_into')
            s3 = s1.fork()
            s3.aux['rec'] = ()
            for s4, r4 in it.run(ser_any[0], [s3.ref(anyv), Agg('Rec', ())], s3, {'S': ('path', 'Rec', ())}):
                rep.states += 1
                if is_abnormal(r4):
                    rep.structural(f'C13:ser:{tname}', f'Serialize for Any {r4!r}', {}, battery)
                    continue
                ev = s4.aux.get('rec', ())
                good = len(ev) == 1 and ev[0][0] == tname
                bad = z3.BoolVal(True) if not good else z3.Not(val_eq(ev[0][1], v))
                if tname == 'char' and len(ev) == 1 and ev[0][0] == 'str' and isinstance(ev[0][1], BStr):
                    # a char is a one-character string in every self-describing format (JSON: the same document)
                    sv = ev[0][1]
                    bad = z3.Not(z3.And(sv.len == 1, z3.ZeroExt(24, sv.bytes[0]) == v))
                m = dec.decide(f'events:{tname}:Serialize-for-Any==direct-event', s4, bad, events=[e[0] for e in ev])
                if m is not None:
                    report_prim(rep, tname, m, v, f'Serialize for Any emits {[e[0] for e in ev]} instead of one {tname} event with the same value')
        finish_engine(rep, it)
    with rep.part('visitor identity'):
        run_visitor_identity(rep, prog, ser_any[0])
    with rep.part('strings'):
        run_strings(rep, prog, new, into, ser_any[0])
    with rep.part('integer map keys'):
        run_key_coercion(rep, prog, new)
    with rep.part('newtype structs'):
        run_newtype(rep, prog, new, into)
    with rep.part('binary map keys'):
        run_bytes_keys(rep, prog)
    with rep.part('one-entry objects'):
        run_map_identity(rep, prog)
    # twins
    ops = TWIN_OPS
    res = replay(ops)
    rep.replayed += len(ops)
    for o, r in zip(ops, res):
        if not r.get('same'):
            rep.violation('C13:native-twin', f'{o}: native {r}', {'op': o, 'native': r})
    rep.assumptions += ['serde primitive Serialize/Deserialize impls by contract (one serialize_T call; visitors accept in-range integers of any width; 128-bit methods default to "not supported" unless overridden)',
                        'OrderedFloat(v).0 == v']
    rep.outside += ['sequences, map values and non-integer keys (BTreeMap<Any, Any> ordering), structs and enum variants inside Any; Base64 coercion of bytes; deeper trees']


KEY_OPS = [{'op': 'any_key', 'ty': 'i128', 'n': str(-2**127)}, {'op': 'any_key', 'ty': 'u128', 'n': str(2**128 - 1)}, {'op': 'any_key', 'ty': 'u128', 'n': str(2**64)},
           {'op': 'any_key', 'ty': 'i128', 'n': str(2**63)}, {'op': 'any_key', 'ty': 'i64', 'n': str(-2**63)}, {'op': 'any_key', 'ty': 'u64', 'n': str(2**64 - 1)},
           {'op': 'any_key', 'ty': 'u8', 'n': '255'}, {'op': 'any_key', 'ty': 'i8', 'n': '-128'}, {'op': 'any_key', 'ty': 'i32', 'n': '0'}]


def battery_keys():
    return [f'{o}: {r}' for o, r in zip(KEY_OPS, replay(KEY_OPS)) if not r.get('same')]


def run_key_coercion(rep, prog, new):
    """map keys inside Any: a document key is text; read as an integer-keyed map it is parsed back by KeyDeserializer::deserialize_<W>.
    For every width W and every value n of W: the key text Display(n) (std contract: parse is the inverse of Display -- ghost record)
    reaches the visitor as visit_<W>(n)."""
    from mirsym.models_std import ghost_int_text
    for w in WIDTHS:
        it = mk(prog)
        dec = Decider(rep, it)
        st = St()
        bits = INT_BITS[w]
        n = z3.BitVec('key_' + w, bits)
        text = ghost_int_text(it, st, n, bits, w[0] == 'i')
        kd = [k for k in find_fns(prog, 'deserialize_' + w, inpath='conjure_object::any::de::<impl') if 'KeyDeserializer' in prog.fns[k].args[0][1]]
        if len(kd) != 1:
            raise Inconclusive(f'C13 harness: KeyDeserializer::deserialize_{w} not unique: {kd}')
        np_ = delivered = 0
        for s1, r1 in it.run(new, [st.ref(text)], st, {'T': ('ref', False, ('path', 'str', ()))}):
            okp = it.payload(r1, 'Ok') if not is_abnormal(r1) else None
            if okp is None:
                rep.structural(f'C13:key:new:{w}', f'Any::new(&str) {r1!r}', {}, battery_keys)
                continue
            key = Agg('conjure_object::any::de::KeyDeserializer', (okp.fields[0],))
            for s2, r2 in it.run(kd[0], [key, Agg('PrimVisitor', (w,))], s1, {'V': ('path', 'PrimVisitor', ())}):
                np_ += 1
                rep.states += 1
                if is_abnormal(r2):
                    rep.structural(f'C13:key:{w}', f'KeyDeserializer::deserialize_{w} {r2!r}', {}, battery_keys)
                    continue
                back = it.payload(r2, 'Ok')
                bad = it.variant_of(r2, 'Err')
                if back is not None:
                    bad = z3.Or(bad, back.fields[0] != n)
                m = dec.decide(f'key:{w}:path{np_}:text-key-of-n-is-visited-as-n', s2, bad, width='full')
                if m is not None:
                    x = m.eval(n, True).as_long()
                    if w[0] == 'i' and x >= 1 << (bits - 1):
                        x -= 1 << bits
                    op = {'op': 'any_key', 'ty': w, 'n': str(x)}
                    r, r_rel = replay([op])[0], replay([op], 'release')[0]
                    rep.replayed += 1
                    if not r.get('same') and not r_rel.get('same'):
                        rep.violation(f'C13:key:{w}', f'a JSON object key {x} carried by Any cannot be read back as a {w} map key: native {r}', {'op': op, 'native': r})
                    else:
                        rep.inconc(f'model mismatch C13 key {w} {x}: native {r}')
                else:
                    delivered += 1
        if not delivered:
            rep.inconc(f'vacuity: C13 key coercion {w} never delivers')
        finish_engine(rep, it)
    for fail in battery_keys():
        rep.violation('C13:native-twin:key', f'native twin: {fail}', {'native': fail})
    rep.replayed += len(KEY_OPS)


# ---- serde-derive's contract for a newtype struct `struct N(i32)` (non-transparent): Serialize = serialize_newtype_struct("N", &self.0);
#      Deserialize = deserialize_newtype_struct("N", V) where V::visit_newtype_struct(d) = i32::deserialize(d).map(N), V::visit_seq reads one
#      element, every other visit_* is "invalid type"
def T_nt_serialize(it, ctx, args, st):
    v = st.deref_all(args[0]) if isinstance(args[0], Ptr) else args[0]
    S = ctx.gargs[0]
    yield from it.call_trait(ctx.fr, S, 'serde::Serializer', 'serialize_newtype_struct', [('path', 'i32', ())], [args[1], st.ref(bstr(b'N')), st.ref(v.fields[0])], st)


def T_nt_deserialize(it, ctx, args, st):
    from mirsym.types import ty_str
    D = ctx.gargs[0]
    yield from it.call(ctx.fr, f'<{ty_str(D)} as serde::Deserializer>::deserialize_newtype_struct::<NTVisitor>', [args[0], st.ref(bstr(b'N')), Agg('NTVisitor', ())], st)


def T_nt_visit(it, ctx, args, st):
    from mirsym.types import ty_str
    meth = ctx.callee.method
    if meth == 'visit_newtype_struct':
        D = ctx.gargs[0]
        fr0 = type(ctx.fr)()
        fr0.fn, fr0.locals, fr0.tenv, fr0.visits, fr0.depth = ctx.fr.fn, ctx.fr.locals, {}, {}, ctx.fr.depth
        for s2, r in it.call(fr0, f'<i32 as serde::Deserialize>::deserialize::<{ty_str(D)}>', [args[1]], st):
            if is_abnormal(r):
                yield s2, r
                continue
            okp = it.payload(r, 'Ok')
            for s3, good in models_std.fork_bool(it, s2, it.variant_of(r, 'Ok')):
                yield s3, (it.ok(Agg('NT', (okp.fields[0],))) if good else it.err(it.payload(r, 'Err').fields[0]))
        return
    yield st, it.err(Agg('conjure_object::any::Error', (de_err('invalid_type', meth),)))


def run_newtype(rep, prog, new, into):
    """a non-transparent newtype struct survives Any::new + deserialize_into (every self-describing format carries it as its content)"""
    it = mk(prog)
    it.tmodels[('NT', 'Serialize', 'serialize')] = T_nt_serialize
    it.tmodels[('NT', 'Deserialize', 'deserialize')] = T_nt_deserialize
    for m_ in ['visit_bool', 'visit_str', 'visit_string', 'visit_borrowed_str', 'visit_f32', 'visit_f64', 'visit_unit', 'visit_none', 'visit_some', 'visit_bytes', 'visit_byte_buf',
               'visit_map', 'visit_char', 'visit_newtype_struct', 'visit_enum'] + [f'visit_{s_}{w}' for s_ in 'iu' for w in (8, 16, 32, 64, 128)]:
        it.tmodels[('NTVisitor', 'Visitor', m_)] = T_nt_visit
    dec = Decider(rep, it)
    st = St()
    n = z3.BitVec('nt', 32)
    T = ('path', 'NT', ())
    np_ = 0
    for s1, r1 in it.run(new, [Agg('NT', (n,))], st, {'T': T}):
        okp = it.payload(r1, 'Ok') if not is_abnormal(r1) else None
        if okp is None:
            rep.structural('C13:newtype:new', f'Any::new(newtype) {r1!r:.120}', {}, battery_newtype)
            continue
        for s2, r2 in it.run(into, [okp.fields[0]], s1.fork(), {'T': T}):
            np_ += 1
            rep.states += 1
            if is_abnormal(r2):
                rep.structural('C13:newtype:into', f'deserialize_into::<newtype> {r2!r:.120}', {}, battery_newtype)
                continue
            back = it.payload(r2, 'Ok')
            bad = it.variant_of(r2, 'Err')
            if back is not None:
                bad = z3.Or(bad, back.fields[0].fields[0] != n)
            m = dec.decide(f'newtype:path{np_}:Any::new(N(v)).deserialize_into::<N>()==N(v)', s2, bad)
            if m is not None:
                x = m.eval(n, True).as_long()
                x = x - (1 << 32) if x >= 1 << 31 else x
                op = {'op': 'any_newtype', 'n': x}
                r, r_rel = replay([op])[0], replay([op], 'release')[0]
                rep.replayed += 1
                if not r.get('same') and not r_rel.get('same') and r.get('json_reference_ok'):
                    rep.violation('C13:newtype', f'a serde newtype struct N({x}) does not survive Any::new + deserialize_into (JSON carries it): native {r}', {'op': op, 'native': r})
                else:
                    rep.inconc(f'model mismatch C13 newtype {x}: native {r}')
    if not np_:
        rep.inconc('vacuity: C13 newtype never reaches deserialize_into')
    finish_engine(rep, it)
    for fail in battery_newtype():
        rep.violation('C13:newtype', f'native twin: {fail}', {'native': fail})
    rep.replayed += 2


def battery_newtype():
    ops = [{'op': 'any_newtype', 'n': 5}, {'op': 'any_newtype', 'n': -2147483648}]
    return [f'{o}: {r}' for o, r in zip(ops, replay(ops)) if not r.get('same')]


BYTES_KEY_OPS = [{'op': 'any_key', 'ty': 'bytes', 'n': b'hi'.hex()}, {'op': 'any_key', 'ty': 'bytes', 'n': b'\x00\xff\xfe'.hex()}, {'op': 'any_key', 'ty': 'bytes', 'n': b'a'.hex()}]


def battery_bytes_keys():
    return [f'{o}: {r}' for o, r in zip(BYTES_KEY_OPS, replay(BYTES_KEY_OPS)) if not r.get('same')]


def run_bytes_keys(rep, prog):
    """binary map keys inside Any: a document key is the Base64 text; KeyDeserializer::deserialize_bytes / _byte_buf must hand it to
    Any's own deserialize_bytes (the Base64 coercion decided natively), not to the plain string path"""
    for meth in ('deserialize_bytes', 'deserialize_byte_buf'):
        it = mk(prog)
        reached = []

        def T_any_bytes(it_, ctx, args, st, reached=reached):
            reached.append(ctx.callee.method)
            yield st, it_.ok(Agg('Coerced', ()))
        import re as _re
        it.models.insert(0, (_re.compile(r'<(?:conjure_object::)?any::Any as (?:[\w:]+::)?Deserializer(?:<.*>)?>::deserialize_byte(?:s|_buf)::<.*>'), T_any_bytes, None))
        for m_ in ['visit_bool', 'visit_str', 'visit_string', 'visit_borrowed_str', 'visit_f32', 'visit_f64', 'visit_unit', 'visit_none', 'visit_some', 'visit_bytes', 'visit_byte_buf',
                   'visit_seq', 'visit_map', 'visit_char', 'visit_newtype_struct', 'visit_enum'] + [f'visit_{s_}{w}' for s_ in 'iu' for w in (8, 16, 32, 64, 128)]:
            it.tmodels[('MarkVisitor', 'Visitor', m_)] = lambda it_, ctx, args, st: iter([(st, it_.ok(Agg('Visited', (ctx.callee.method,))))])
        kd = [k for k in find_fns(prog, meth, inpath='conjure_object::any::de::<impl') if 'KeyDeserializer' in prog.fns[k].args[0][1]]
        if len(kd) != 1:
            raise Inconclusive(f'C13 harness: KeyDeserializer::{meth} not unique: {kd}')
        st = St()
        ptr, s = sym_str(st, 'keytext', 4)
        string_any = Agg(ANY, (it.mk_enum('conjure_object::any::Inner', 'String', s),))
        key = Agg('conjure_object::any::de::KeyDeserializer', (string_any,))
        outs = list(it.run(kd[0], [key, Agg('MarkVisitor', ())], st, {'V': ('path', 'MarkVisitor', ())}))
        rep.states += len(outs)
        ok = bool(outs) and all(not is_abnormal(r) and isinstance(it.payload(r, 'Ok'), Agg) and isinstance(it.payload(r, 'Ok').fields[0], Agg)
                                and it.payload(r, 'Ok').fields[0].name == 'Coerced' for _, r in outs)
        rep.query(f'key:bytes:{meth}:reaches-Any::deserialize_bytes', 'unsat' if ok else 'sat', 0.0, reached=list(reached))
        if not ok:
            rep.structural(f'C13:key:bytes:{meth}', f'KeyDeserializer::{meth} on a text key does not go through Any::deserialize_bytes (outcomes {[repr(r)[:80] for _, r in outs][:3]}): '
                           'binary map keys lose their Base64 coercion', {'method': meth}, battery_bytes_keys)
        finish_engine(rep, it)
    for fail in battery_bytes_keys():
        rep.violation('C13:native-twin:bytes-key', f'native twin: {fail}', {'native': fail})
    rep.replayed += len(BYTES_KEY_OPS)


MAGIC_K = 32


def run_map_identity(rep, prog):
    """a JSON object with one member parsed into Any stays that object: AnyVisitor::visit_map on a one-entry document with a symbolic
    key of <= 32 bytes and a symbolic string value of <= 4 bytes yields Any(Map{key: value}) -- no key and no value text is special"""
    it = mk(prog)
    dec = Decider(rep, it)
    vm = [k for k in find_fns(prog, 'visit_map', inpath='conjure_object::any::de::<impl') if 'AnyVisitor' in prog.fns[k].args[0][1]]
    if len(vm) != 1:
        raise Inconclusive(f'C13 harness: AnyVisitor::visit_map not unique: {vm}')
    st = St()
    kp, ks = sym_str(st, 'mapkey', MAGIC_K)
    vp, vs = sym_str(st, 'mapval', 4)
    inner = lambda s_: Agg(ANY, (it.mk_enum('conjure_object::any::Inner', 'String', s_),))
    cell = st.ref(0)

    def T_next_entry(it_, ctx, args, st_):
        pos = st_.deref(cell)
        st_.write(cell, pos + 1)
        yield st_, it_.ok(it_.some(Agg('tuple', (inner(ks), inner(vs)))) if pos == 0 else it_.none)

    def T_next_key(it_, ctx, args, st_):
        pos = st_.deref(cell)
        yield st_, it_.ok(it_.some(inner(ks)) if pos == 0 else it_.none)

    def T_next_value(it_, ctx, args, st_):
        st_.write(cell, st_.deref(cell) + 1)
        yield st_, it_.ok(inner(vs))
    it.tmodels[('OneEntryMap', 'MapAccess', 'next_entry')] = T_next_entry
    it.tmodels[('OneEntryMap', 'MapAccess', 'next_key')] = T_next_key
    it.tmodels[('OneEntryMap', 'MapAccess', 'next_value')] = T_next_value
    it.tmodels[('OneEntryMap', 'MapAccess', 'size_hint')] = lambda it_, ctx, args, st_: iter([(st_, it_.some(bv(1)))])
    vis = [k for k in prog.fns if k.endswith('any::de::AnyVisitor')]
    np_ = 0
    for s2, rv in it.run(vm[0], [Agg('conjure_object::any::de::AnyVisitor', ()), Agg('OneEntryMap', ())], st, {'A': ('path', 'OneEntryMap', ())}):
        np_ += 1
        rep.states += 1
        if is_abnormal(rv):
            rep.inconc(f'C13 map identity: abnormal outcome {rv!r:.120}')
            continue
        okp = it.payload(rv, 'Ok')
        bad = it.variant_of(rv, 'Err')
        if okp is not None:
            a = okp.fields[0]
            inn = a.fields[0] if isinstance(a, Agg) and a.fields else None
            if not isinstance(inn, Enum):
                bad = z3.BoolVal(True)
            else:
                mp = it.payload(inn, 'Map')
                is_map = it.variant_of(inn, 'Map')
                same = z3.BoolVal(False)
                if mp is not None:
                    m_ = mp.fields[0]
                    m_ = s2.deref_all(m_) if isinstance(m_, Ptr) else m_
                    if isinstance(m_, Agg) and len(m_.fields) == 1:
                        m_ = m_.fields[0]
                    if isinstance(m_, Seq) and len(m_.items) == 1:
                        k_, v_ = m_.items[0].fields
                        same = z3.And(val_eq(k_, inner(ks)), val_eq(v_, inner(vs)))
                bad = z3.Or(bad, z3.Not(is_map), z3.Not(same))
        m = dec.decide(f'map-identity:path{np_}:one-entry-object-stays-that-object', s2, bad, key_bytes=MAGIC_K)
        if m is not None:
            key, val = model_bytes(m, ks), model_bytes(m, vs)
            doc = json.dumps({key.decode('utf-8', 'replace'): val.decode('utf-8', 'replace')})
            op = {'op': 'any_json', 'doc': doc}
            r, r_rel = replay([op])[0], replay([op], 'release')[0]
            rep.replayed += 1
            if not r.get('same') and not r_rel.get('same'):
                rep.violation('C13:map-identity', f'the JSON object {doc} does not survive the Any carrier: native {r}', {'op': op, 'native': r})
            else:
                rep.inconc(f'model mismatch C13 map identity {doc}: native {r}')
    if not np_:
        rep.inconc('vacuity: C13 map identity has no outcome')
    finish_engine(rep, it)


def run_visitor_identity(rep, prog, ser_fn):
    """(c) a JSON-shaped event parsed into Any re-serializes to the same event: AnyVisitor::visit_X then Serialize for Any"""
    it = mk(prog)
    dec = Decider(rep, it)
    cases = [('u64', z3.BitVec('ju', 64)), ('i64', z3.BitVec('ji', 64)), ('f64', z3.FP('jf', z3.Float64())), ('bool', z3.Bool('jb')),
             ('u128', z3.BitVec('ju128', 128)), ('i128', z3.BitVec('ji128', 128)), ('i32', z3.BitVec('ji32', 32)), ('u8', z3.BitVec('ju8', 8))]
    for tname, v in cases:
        vis = [k for k in find_fns(prog, 'visit_' + tname, inpath='conjure_object::any::de::<impl') if 'AnyVisitor' in prog.fns[k].args[0][1]]
        if not vis and tname in ('i32', 'u8'):
            # not overridden: serde's provided visit_<narrow> widens to visit_i64 / visit_u64, so the kind held by a nested Any changes
            rep.query(f'AnyVisitor::visit_{tname}:overridden', 'sat', 0.0)
            rep.structural(f'C13:visit:{tname}', f'AnyVisitor does not override visit_{tname}: a {tname} held by a nested Any is widened when read back through Any', {}, battery_nested)
            continue
        if len(vis) != 1:
            raise Inconclusive(f'C13 harness: AnyVisitor::visit_{tname} not unique: {vis}')
        st = St()
        for s1, r1 in it.run(vis[0], [Agg('conjure_object::any::de::AnyVisitor', ()), v], st, {'E': ('path', 'DeError', ())}):
            rep.states += 1
            if is_abnormal(r1):
                rep.structural(f'C13:visit:{tname}', f'AnyVisitor::visit_{tname} {r1!r}', {}, battery)
                continue
            okp = it.payload(r1, 'Ok')
            if okp is None:
                rep.structural(f'C13:visit:{tname}', f'AnyVisitor::visit_{tname} fails', {}, battery)
                continue
            s1.aux['rec'] = ()
            for s2, r2 in it.run(ser_fn, [s1.ref(okp.fields[0]), Agg('Rec', ())], s1, {'S': ('path', 'Rec', ())}):
                rep.states += 1
                ev = s2.aux.get('rec', ())
                good = len(ev) == 1 and ev[0][0] == tname
                bad = z3.BoolVal(True) if not good else z3.Not(val_eq(ev[0][1], v))
                m = dec.decide(f'json->any->json:{tname}:same-event', s2, bad, events=[e[0] for e in ev])
                if m is not None:
                    val = m.eval(v, True)
                    doc = str(val.as_long() if tname[0] == 'u' else val.as_signed_long()) if tname[0] in 'ui' else str(val)
                    report_json(rep, tname, doc, f'a {tname} event parsed into Any re-serializes as {[e[0] for e in ev]}')
    finish_engine(rep, it)


def run_strings(rep, prog, new, into, ser_fn):
    it = mk(prog)
    dec = Decider(rep, it)
    st = St()
    ptr, s = sym_str(st, 's', STR_K)
    T = ('ref', False, ('path', 'str', ()))
    for s1, r1 in it.run(new, [ptr], st, {'T': T}):
        rep.states += 1
        okp = it.payload(r1, 'Ok') if not is_abnormal(r1) else None
        if okp is None:
            rep.structural('C13:new:str', f'Any::new(&str) {r1!r}', {}, battery)
            continue
        anyv = okp.fields[0]
        for s2, r2 in it.run(into, [anyv], s1.fork(), {'T': ('path', 'std::string::String', ())}):
            rep.states += 1
            back = it.payload(r2, 'Ok') if not is_abnormal(r2) else None
            bad = z3.BoolVal(True) if back is None else z3.Or(it.variant_of(r2, 'Err'), z3.Not(bstr_eq(back.fields[0], s)))
            m = dec.decide('roundtrip:str', s2, bad, bytes=STR_K)
            if m is not None:
                txt = model_bytes(m, s)
                op = {'op': 'any_json', 'doc': json.dumps(txt.decode('utf-8', 'replace'))}
                r = replay([op])[0]
                rep.replayed += 1
                if not r.get('same'):
                    rep.violation('C13:roundtrip:str', f'string {txt!r} does not survive the Any carrier: native {r}', {'op': op, 'native': r})
                else:
                    rep.inconc(f'model mismatch C13 string {txt!r}: native {r}')
        s3 = s1.fork()
        s3.aux['rec'] = ()
        for s4, r4 in it.run(ser_fn, [s3.ref(anyv), Agg('Rec', ())], s3, {'S': ('path', 'Rec', ())}):
            rep.states += 1
            ev = s4.aux.get('rec', ())
            good = len(ev) == 1 and ev[0][0] == 'str' and isinstance(ev[0][1], BStr)
            bad = z3.BoolVal(True) if not good else z3.Not(bstr_eq(ev[0][1], s))
            m = dec.decide('events:str', s4, bad)
            if m is not None:
                rep.structural('C13:events:str', f'Serialize for Any of a string emits {[e[0] for e in ev]}', {}, battery)
    finish_engine(rep, it)


def report_prim(rep, tname, m, v, what):
    val = m.eval(v, True)
    if tname in INT_BITS:
        n = val.as_long() if tname[0] == 'u' else val.as_signed_long()
        op = {'op': 'any_prim', 'ty': tname, 'n': str(n)}
    elif tname == 'bool':
        op = {'op': 'any_prim', 'ty': 'bool', 'n': '1' if z3.is_true(val) else '0'}
    elif tname == 'char':
        op = {'op': 'any_prim', 'ty': 'char', 'n': str(val.as_long())}
    else:
        bits = m.eval(z3.fpToIEEEBV(v), True).as_long()
        op = {'op': 'any_prim', 'ty': tname, 'n': str(bits)}
    r, r2 = replay([op])[0], replay([op], 'release')[0]
    rep.replayed += 1
    if not r.get('same') and r == r2:
        key = 'C13:i128-u128-not-forwarded' if tname in ('i128', 'u128') and 'not supported' in str(r) else f'C13:prim:{tname}'
        rep.violation(key, f'{tname} value {op["n"]}: {what}; native {r}', {'op': op, 'native': r})
    else:
        rep.inconc(f'model mismatch C13 {tname}: {op} ({what}) does not reproduce natively: {r}')


def battery_nested():
    r = replay([{'op': 'any_nested'}])[0]
    return [] if r.get('ok') else list(r.get('bad', ['any_nested failed']))


def report_json(rep, tname, doc, what):
    op = {'op': 'any_json', 'doc': doc}
    r, r2 = replay([op])[0], replay([op], 'release')[0]
    rep.replayed += 1
    if 'error' in r:
        rep.inconc(f'C13 json counterexample not replayable ({doc}): {r}')
    elif not r.get('same') and r == r2:
        rep.violation(f'C13:json:{tname}', f'JSON document {doc}: {what}; native re-serialization {r.get("out")!r}', {'op': op, 'native': r})
    else:
        rep.inconc(f'model mismatch C13 json {tname}: document {doc} ({what}) re-serializes identically natively: {r}')


def replay_cmd(path):
    w = json.load(open(path))
    print(json.dumps(replay([w['witness']['op']])[0], indent=1))
    return 0
