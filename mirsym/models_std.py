"""Models of std / core functions, written against their documented contracts (DESIGN.md §3.1 step 4).
Each model: fn(it, ctx, args, st) -> yields (state, value).  Keyed by regex on the callee path as printed in the dump."""
import re
import z3
from .parse import Unsupported
from .values import (Agg, Enum, Ptr, Seq, BStr, FnItem, UNIT, Panic, bv, concrete, bstr, bstr_py, bstr_byte, bstr_eq, bstr_concat,
                     bstr_slice, val_eq, project, update, is_abnormal)
from .types import ty_str, last_seg, INT_BITS, strip_refs
from .decls import BUILTIN_ENUMS

ORD = BUILTIN_ENUMS['std::cmp::Ordering']


def ordering(term64):
    return Enum(ORD, term64, tuple((i, Agg(n, ())) for i, (n, _) in enumerate(ORD.variants)))


def cmp_terms(a, b, signed):
    lt = (a < b) if signed else z3.ULT(a, b)
    return z3.If(lt, bv(-1), z3.If(a == b, bv(0), bv(1)))


def deref(st, p):
    return st.deref_all(p)


def fork_bool(it, st, cond):
    for s2, i in it.fork_on(st, [cond, z3.Not(cond)]):
        yield s2, i == 0


def chain_ok(it, gen, k):
    """gen yields (st, Result); on Ok continue with k(st, value) else propagate Err"""
    for s2, r in gen:
        if is_abnormal(r):
            yield s2, r
            continue
        for s3, i, p in it.enum_cases(r, s2):
            if r.decl.variants[i][0] == 'Ok':
                yield from k(s3, p.fields[0])
            else:
                yield s3, it.err(p.fields[0])


# ------------------------------------------------------------------ Option / Result
def opt_some(e):
    return e.decl.index['Some']


def M_opt_map(it, ctx, args, st):
    for s2, i, p in it.enum_cases(args[0], st):
        if i == 0:
            yield s2, it.none
        else:
            for s3, r in it.call_closure(args[1], [p.fields[0]], s2, ctx.fr):
                yield s3, (r if is_abnormal(r) else it.some(r))


def M_opt_and_then(it, ctx, args, st):
    for s2, i, p in it.enum_cases(args[0], st):
        if i == 0:
            yield s2, it.none
        else:
            yield from it.call_closure(args[1], [p.fields[0]], s2, ctx.fr)


def M_opt_or_else(it, ctx, args, st):
    for s2, i, p in it.enum_cases(args[0], st):
        if i == 1:
            yield s2, it.some(p.fields[0])
        else:
            yield from it.call_closure(args[1], [], s2, ctx.fr)


def M_opt_filter(it, ctx, args, st):
    for s2, i, p in it.enum_cases(args[0], st):
        if i == 0:
            yield s2, it.none
            continue
        a = s2.ref(p.fields[0])
        for s3, r in it.call_closure(args[1], [a], s2, ctx.fr):
            if is_abnormal(r):
                yield s3, r
                continue
            for s4, keep in fork_bool(it, s3, r):
                yield s4, (it.some(p.fields[0]) if keep else it.none)


def M_opt_ok_or_else(it, ctx, args, st):
    for s2, i, p in it.enum_cases(args[0], st):
        if i == 1:
            yield s2, it.ok(p.fields[0])
        else:
            for s3, e in it.call_closure(args[1], [], s2, ctx.fr):
                yield s3, (e if is_abnormal(e) else it.err(e))


def M_opt_ok_or(it, ctx, args, st):
    for s2, i, p in it.enum_cases(args[0], st):
        yield s2, (it.ok(p.fields[0]) if i == 1 else it.err(args[1]))


def M_opt_unwrap_or(it, ctx, args, st):
    for s2, i, p in it.enum_cases(args[0], st):
        yield s2, (p.fields[0] if i == 1 else args[1])


def M_opt_unwrap_or_else(it, ctx, args, st):
    for s2, i, p in it.enum_cases(args[0], st):
        if i == 1:
            yield s2, p.fields[0]
        else:
            yield from it.call_closure(args[1], [], s2, ctx.fr)


def M_opt_unwrap_or_default(it, ctx, args, st):
    t = ctx.targs[0] if ctx.targs else None
    name = ty_str(t) if t is not None else '?'
    for s2, i, p in it.enum_cases(args[0], st):
        if i == 1:
            yield s2, p.fields[0]
        elif name in ('&str', 'str'):
            yield s2, s2.ref(bstr(b''))
        elif name == 'std::string::String':
            yield s2, bstr(b'')
        elif name in INT_BITS:
            yield s2, bv(0, INT_BITS[name])
        elif name == 'bool':
            yield s2, z3.BoolVal(False)
        else:
            raise Unsupported('unwrap_or_default for ' + name)


def M_opt_map_or(it, ctx, args, st):
    for s2, i, p in it.enum_cases(args[0], st):
        if i == 0:
            yield s2, args[1]
        else:
            yield from it.call_closure(args[2], [p.fields[0]], s2, ctx.fr)


def M_map_or_else(it, ctx, args, st):
    """Option::map_or_else(default, f) / Result::map_or_else(default, f): f(payload) for Some / Ok, default() (default(e) for Err) otherwise"""
    v = args[0]
    for s2, i, p in it.enum_cases(v, st):
        name = v.decl.variants[i][0]
        if name in ('Some', 'Ok'):
            yield from it.call_closure(args[2], [p.fields[0]], s2, ctx.fr)
        elif name == 'Err':
            yield from it.call_closure(args[1], [p.fields[0]], s2, ctx.fr)
        else:
            yield from it.call_closure(args[1], [], s2, ctx.fr)


def M_opt_unwrap(it, ctx, args, st):
    for s2, i, p in it.enum_cases(args[0], st):
        name = args[0].decl.variants[i][0]
        if name in ('Some', 'Ok'):
            yield s2, p.fields[0]
        else:
            yield s2, Panic('called `unwrap()`/`expect()` on a `None`/`Err` value', ctx.fr.fn.name)


def M_res_unwrap_err(it, ctx, args, st):
    for s2, i, p in it.enum_cases(args[0], st):
        if args[0].decl.variants[i][0] == 'Err':
            yield s2, p.fields[0]
        else:
            yield s2, Panic('called `Result::unwrap_err()` / `expect_err()` on an `Ok` value', ctx.fr.fn.name)


def M_is_some_and(it, ctx, args, st):
    """Option::is_some_and / is_none_or, Result::is_ok_and / is_err_and"""
    m = ctx.callee.segs[-1][0] if ctx.callee.segs else ctx.callee.method
    hit_variant = {'is_some_and': 'Some', 'is_ok_and': 'Ok', 'is_err_and': 'Err', 'is_none_or': 'Some'}[m]
    for s2, i, pl in it.enum_cases(args[0], st):
        if args[0].decl.variants[i][0] == hit_variant:
            yield from it.call_closure(args[1], [pl.fields[0]], s2, ctx.fr)
        else:
            yield s2, z3.BoolVal(m == 'is_none_or')


def M_range_inclusive_new(it, ctx, args, st):
    yield st, Agg('std::ops::RangeInclusive', (args[0], args[1], z3.BoolVal(False)))


def M_range_contains(it, ctx, args, st):
    """Range / RangeInclusive ::contains for integers (signedness from the element type)"""
    r = st.deref_all(args[0]) if isinstance(args[0], Ptr) else args[0]
    x = st.deref_all(args[1]) if isinstance(args[1], Ptr) else args[1]
    T = ctx.targs[0] if ctx.targs else None
    name = T[1] if T is not None and T[0] == 'path' else None
    if name not in INT_BITS and name != 'char':
        raise Unsupported('Range::contains on ' + ty_str(T) if T else 'Range::contains')
    signed = name in INT_BITS and name[0] == 'i'
    le = (lambda a, b: a <= b) if signed else z3.ULE
    lt = (lambda a, b: a < b) if signed else z3.ULT
    lo, hi = r.fields[0], r.fields[1]
    incl = 'Inclusive' in r.name or 'Inclusive' in ctx.callee.key
    yield st, z3.And(le(lo, x), le(x, hi) if incl else lt(x, hi))


def M_u8_try_from_char(it, ctx, args, st):
    """<u8 as TryFrom<char>>::try_from: Ok for code points <= 0xFF (not only ASCII)"""
    c = args[0]
    for s2, ok in fork_bool(it, st, z3.ULE(c, 0xFF)):
        yield s2, (it.ok(z3.Extract(7, 0, c)) if ok else it.err(Agg('std::char::TryFromCharError', ())))


def M_res_into_iter(it, ctx, args, st):
    """Result<T, E> / Option<T> as IntoIterator: the Ok / Some payload, or nothing"""
    v = args[0]
    byref = isinstance(v, Ptr)          # <&Option<T> as IntoIterator>: yields a reference to the payload
    if byref:
        base = v
        while isinstance(st.deref(base), Ptr):
            base = st.deref(base)
        v = st.deref(base)
    hit = 'Ok' if v.decl.name.endswith('Result') else 'Some'
    for s2, i, pl in it.enum_cases(v, st):
        if v.decl.variants[i][0] != hit:
            yield s2, It('list', ())
        elif byref:
            yield s2, It('list', (Ptr(base.addr, base.proj + (('v', i), ('f', 0))),))
        else:
            yield s2, It('list', (pl.fields[0],))


def M_from_str_trait(it, ctx, args, st):
    """<T as FromStr>::from_str(s)  ==  s.parse::<T>(): routed through the `str::parse::<T>` callee so that a check's own model of
    the parser (floats, bools) applies to both spellings"""
    T = ctx.self_ty
    if T[0] == 'path' and T[1] in INT_BITS:
        ctx2 = type('C', (), {'gargs': [T], 'fr': ctx.fr, 'callee': ctx.callee})()
        yield from M_str_parse(it, ctx2, args, st)
        return
    key = f'core::str::<impl str>::parse::<{ty_str(T)}>'
    for pat, fn, guard in it.models:
        if fn is not M_str_parse and pat.fullmatch(key):
            c = it.parse_callee(key)
            from .interp import CallCtx
            yield from fn(it, CallCtx(it, ctx.fr, c, None), args, st)
            return
    raise Unsupported(f'<{ty_str(T)} as FromStr>::from_str: no model of the parser')


def M_str_starts_with_str(it, ctx, args, st):
    s, pre = sval(st, args[0]), sval(st, args[1])
    py = bstr_py(pre)
    if py is None:
        raise Unsupported('starts_with with a symbolic prefix')
    n = len(py)
    yield st, z3.And(z3.UGE(s.len, n), *[(s.bytes[i] == py[i]) if i < len(s.bytes) else z3.BoolVal(False) for i in range(n)])


def M_str_starts_ends_with_char(end):
    def f(it, ctx, args, st):
        s = sval(st, args[0])
        ch = concrete(args[1])
        if ch is None or ch >= 128:
            raise Unsupported('starts_with / ends_with with a symbolic or non-ASCII char')
        if not s.bytes:
            yield st, z3.BoolVal(False)
        elif end:
            yield st, z3.And(s.len != 0, bstr_byte(s, s.len - 1) == ch)
        else:
            yield st, z3.And(s.len != 0, s.bytes[0] == ch)
    return f


def M_str_ends_with_str(it, ctx, args, st):
    s, suf = sval(st, args[0]), sval(st, args[1])
    py = bstr_py(suf)
    if py is None:
        raise Unsupported('ends_with with a symbolic suffix')
    n = len(py)
    yield st, z3.And(z3.UGE(s.len, n), *[bstr_byte(s, s.len - n + i) == py[i] for i in range(n)])


def M_for_each(it, ctx, args, st):
    itv = itval(st, args[0])

    def go(st, itv):
        for s2, i2, item in it_next(it, st, itv, ctx.fr):
            if item is None:
                yield s2, UNIT
                continue
            if is_abnormal(item):
                yield s2, item
                continue
            for s3, r in it.call_closure(args[1], [item], s2, ctx.fr):
                if is_abnormal(r):
                    yield s3, r
                else:
                    yield from go(s3, i2)
    yield from go(st, itv)


def M_partition(it, ctx, args, st):
    """Iterator::partition::<B, F>: items for which the predicate holds go to the first collection, the others to the second
    (B: Vec -> sequence; HashMap / BTreeMap -> association list of the (key, value) items, in insertion order)"""
    B = ctx.gargs[0]
    bname = B[1] if B[0] == 'path' else ''
    for s2, items in drain(it, st, as_iter(it, st, args[0]), ctx.fr):
        if is_abnormal(items):
            yield s2, items
            continue

        def mk(xs):
            if last_seg(bname) in ('HashMap', 'BTreeMap'):
                return Agg('std::collections::' + last_seg(bname), (tuple((x.fields[0], x.fields[1]) for x in xs),))
            return Seq(tuple(xs))

        def go(st, k, left, right):
            if k == len(items):
                yield st, Agg('tuple', (mk(left), mk(right)))
                return
            for s3, r in it.call_closure(args[1], [st.ref(items[k])], st, ctx.fr):
                if is_abnormal(r):
                    yield s3, r
                    continue
                for s4, yes in fork_bool(it, s3, r):
                    yield from go(s4, k + 1, left + [items[k]] if yes else left, right if yes else right + [items[k]])
        yield from go(s2, 0, [], [])


def M_rposition(it, ctx, args, st):
    """Iterator::rposition on an exact-size double-ended iterator over a bounded byte string / slice: the last index whose item
    satisfies the predicate (searched from the back)"""
    itv = itval(st, args[0])
    kind, src = itv.fields[0], itv.fields[1]
    if kind not in ('ptrseq', 'bytes') or itv.fields[3] != 0:
        raise Unsupported('rposition on iterator kind ' + kind)
    seq = st.deref(src) if kind == 'ptrseq' else src
    if not isinstance(seq, BStr):
        raise Unsupported('rposition on a non-byte sequence')
    K = len(seq.bytes)

    def go(st, k):
        # k: index from the back still to examine (K-1 .. 0); positions >= len do not exist
        if k < 0:
            yield st, it.none
            return
        for s2, exists in fork_bool(it, st, z3.UGT(seq.len, bv(k))):
            if not exists:
                yield from go(s2, k - 1)
                continue
            item = Ptr(src.addr, src.proj + (('i', k),)) if kind == 'ptrseq' else seq.bytes[k]
            for s3, r in it.call_closure(args[1], [item], s2, ctx.fr):
                if is_abnormal(r):
                    yield s3, r
                    continue
                for s4, hit in fork_bool(it, s3, r):
                    if hit:
                        yield s4, it.some(bv(k))
                    else:
                        yield from go(s4, k - 1)
    yield from go(st, K - 1)


def M_ordering_eq(it, ctx, args, st):
    a, b = st.deref_all(args[0]) if isinstance(args[0], Ptr) else args[0], st.deref_all(args[1]) if isinstance(args[1], Ptr) else args[1]
    e = a.discr == b.discr
    yield st, (z3.Not(e) if ctx.callee.method == 'ne' else e)


def M_string_with_capacity(it, ctx, args, st):
    yield st, bstr(b'')


def M_string_push_str(it, ctx, args, st):
    p = args[0]
    while isinstance(st.deref(p), Ptr):
        p = st.deref(p)
    st.write(p, bstr_concat(st.deref(p), sval(st, args[1])))
    yield st, UNIT


def M_string_clear(it, ctx, args, st):
    p = args[0]
    while isinstance(st.deref(p), Ptr):
        p = st.deref(p)
    st.write(p, bstr(b''))
    yield st, UNIT


def M_btreeset_contains_str(it, ctx, args, st):
    s = st.deref_all(args[0])
    x = sval(st, args[1])
    items = s.items if isinstance(s, Seq) else s.fields[0]
    conds = []
    for e in items:
        e = st.deref_all(e) if isinstance(e, Ptr) else e
        conds.append(bstr_eq(e, x))
    yield st, z3.Or(*conds) if conds else z3.BoolVal(False)


def M_opt_is_some(it, ctx, args, st):
    yield st, deref(st, args[0]).discr == 1


def M_opt_is_none(it, ctx, args, st):
    yield st, deref(st, args[0]).discr == 0


def M_opt_as_ref(it, ctx, args, st):
    base = args[0]
    o = deref(st, base)
    yield st, Enum(o.decl, o.discr, tuple((i, Agg(p.name, tuple(Ptr(base.addr, base.proj + (('v', i), ('f', k))) for k in range(len(p.fields)))))
                                          for i, p in o.payloads))


def M_opt_cloned(it, ctx, args, st):
    o = args[0]
    yield st, Enum(o.decl, o.discr, tuple((i, Agg(p.name, tuple(st.deref(x) if isinstance(x, Ptr) else x for x in p.fields))) for i, p in o.payloads))


def M_opt_take(it, ctx, args, st):
    p = args[0]
    v = st.deref(p)
    st.write(p, it.none)
    yield st, v


def M_opt_transpose(it, ctx, args, st):
    o = args[0]
    for s2, i, p in it.enum_cases(o, st):
        if i == 0:
            yield s2, it.ok(it.none)
        else:
            r = p.fields[0]
            for s3, j, q in it.enum_cases(r, s2):
                if j == 0:
                    yield s3, it.ok(it.some(q.fields[0]))
                else:
                    yield s3, it.err(q.fields[0])


def M_res_map_err(it, ctx, args, st):
    for s2, i, p in it.enum_cases(args[0], st):
        if i == 0:
            yield s2, it.ok(p.fields[0])
        else:
            for s3, rv in it.call_closure(args[1], [p.fields[0]], s2, ctx.fr):
                yield s3, (rv if is_abnormal(rv) else it.err(rv))


def M_res_map(it, ctx, args, st):
    for s2, i, p in it.enum_cases(args[0], st):
        if i == 1:
            yield s2, it.err(p.fields[0])
        else:
            for s3, rv in it.call_closure(args[1], [p.fields[0]], s2, ctx.fr):
                yield s3, (rv if is_abnormal(rv) else it.ok(rv))


def M_res_and_then(it, ctx, args, st):
    for s2, i, p in it.enum_cases(args[0], st):
        if i == 1:
            yield s2, it.err(p.fields[0])
        else:
            yield from it.call_closure(args[1], [p.fields[0]], s2, ctx.fr)


def M_res_ok(it, ctx, args, st):
    for s2, i, p in it.enum_cases(args[0], st):
        yield s2, (it.some(p.fields[0]) if i == 0 else it.none)


def M_res_is_ok(it, ctx, args, st):
    yield st, deref(st, args[0]).discr == 0


def M_res_is_err(it, ctx, args, st):
    yield st, deref(st, args[0]).discr == 1


CF = BUILTIN_ENUMS['std::ops::ControlFlow']


def M_try_branch(it, ctx, args, st):
    v = args[0]
    for s2, i, p in it.enum_cases(v, st):
        name = v.decl.variants[i][0]
        if name in ('Ok', 'Some'):
            yield s2, Enum(CF, bv(0), ((0, Agg('Continue', (p.fields[0],))),))
        elif name == 'Err':
            yield s2, Enum(CF, bv(1), ((1, Agg('Break', (it.err(p.fields[0]),))),))
        else:
            yield s2, Enum(CF, bv(1), ((1, Agg('Break', (it.none,))),))


def M_from_residual(it, ctx, args, st):
    r = args[0]
    if r.decl.name == 'Option':
        yield st, it.none
        return
    e = it.payload(r, 'Err').fields[0]
    # `?` converts the error with From::from; identity unless the types differ
    sty = ctx.self_ty
    tr = ctx.trait
    tgt_err = sty[2][1] if len(sty[2]) > 1 else None
    src = tr[2][0] if tr[2] else None
    src_err = src[2][1] if src and len(src[2]) > 1 else None
    if tgt_err is not None and src_err is not None and ty_str(tgt_err) != ty_str(src_err):
        for s2, v in it.call(ctx.fr, f'<{ty_str(tgt_err)} as std::convert::From<{ty_str(src_err)}>>::from', [e], st):
            yield s2, (v if is_abnormal(v) else it.err(v))
        return
    yield st, it.err(e)


def M_identity(it, ctx, args, st):
    yield st, args[0]


def M_clone(it, ctx, args, st):
    yield st, st.deref(args[0])


def M_unit(it, ctx, args, st):
    yield st, UNIT


def M_default_unsupported(it, ctx, args, st):
    raise Unsupported('model missing: ' + ctx.subst_key())


# ------------------------------------------------------------------ closures
def M_call_once(it, ctx, args, st):
    yield from it.call_closure(args[0], args[1:], st, ctx.fr, tupled=True)


# ------------------------------------------------------------------ strings (bounded bytes)
def sval(st, x):
    v = st.deref_all(x) if isinstance(x, Ptr) else x
    if isinstance(v, Agg) and len(v.fields) == 1 and isinstance(v.fields[0], BStr):
        v = v.fields[0]
    if isinstance(v, Seq) and v.items and all(z3.is_expr(b) and z3.is_bv(b) and b.size() == 8 for b in v.items):
        v = BStr(tuple(v.items), bv(len(v.items)))      # a byte array literal viewed as a slice
    if not isinstance(v, BStr):
        raise Unsupported(f'expected a byte string, got {v!r:.100}')
    return v


def M_str_len(it, ctx, args, st):
    yield st, sval(st, args[0]).len


def M_str_is_empty(it, ctx, args, st):
    yield st, sval(st, args[0]).len == 0


def M_str_as_bytes(it, ctx, args, st):
    yield st, args[0]


def M_str_eq(it, ctx, args, st):
    yield st, bstr_eq(sval(st, args[0]), sval(st, args[1]))


def M_str_ne(it, ctx, args, st):
    yield st, z3.Not(bstr_eq(sval(st, args[0]), sval(st, args[1])))


_fresh = [0]


def fresh_bv(name, w=64):
    _fresh[0] += 1
    return z3.BitVec(f'{name}!{_fresh[0]}', w)


def M_trim_end_matches_char(it, ctx, args, st):
    """relational encoding: t = the unique length such that s[t..len] is all `ch` and (t == 0 or s[t-1] != ch)"""
    s = sval(st, args[0])
    ch = concrete(args[1])
    if ch is None or ch > 127:
        raise Unsupported('trim_end_matches with a non-ASCII / symbolic pattern')
    t = fresh_bv('trim')
    cons = [z3.ULE(t, s.len)]
    for i, b in enumerate(s.bytes):
        cons.append(z3.Implies(z3.And(z3.UGE(bv(i), t), z3.ULT(bv(i), s.len)), b == ch))
        cons.append(z3.Implies(t == bv(i + 1), b != ch))
    st.pc.append(z3.And(*cons))
    yield st, st.ref(BStr(s.bytes, t))


def M_str_contains_char(it, ctx, args, st):
    s = sval(st, args[0])
    ch = concrete(args[1])
    if ch is None or ch > 127:
        raise Unsupported('contains with a non-ASCII / symbolic pattern')
    yield st, z3.Or(*[z3.And(z3.ULT(bv(i), s.len), b == bv(ch, 8)) for i, b in enumerate(s.bytes)]) if s.bytes else z3.BoolVal(False)


def M_to_owned_str(it, ctx, args, st):
    yield st, sval(st, args[0])


def M_string_deref(it, ctx, args, st):
    yield st, args[0]


def M_string_into(it, ctx, args, st):
    yield st, args[0]


def M_string_from_str(it, ctx, args, st):
    yield st, it.ok(sval(st, args[0]))


def parse_int_model(s, bits, signed):
    """exact model of <iN/uN as FromStr>::from_str (radix 10): optional sign, >=1 ASCII digits, range check.
    -> (ok: Bool, value: BV(bits))"""
    K = len(s.bytes)
    W = 136
    d = lambda b: z3.And(z3.UGE(b, 48), z3.ULE(b, 57))
    b0 = s.bytes[0] if K else bv(0, 8)
    has_sign = z3.Or(b0 == 45, b0 == 43) if signed else (b0 == 43)
    neg = (b0 == 45) if signed else z3.BoolVal(False)
    start = z3.If(has_sign, bv(1), bv(0))
    ok = z3.And(z3.ULE(s.len, bv(K)), z3.UGT(s.len, start))
    val = z3.BitVecVal(0, W)
    big = z3.BoolVal(False)
    for i, b in enumerate(s.bytes):
        inr = z3.And(z3.UGE(bv(i), start), z3.ULT(bv(i), s.len))
        ok = z3.And(ok, z3.Implies(inr, d(b)))
        nv = val * 10 + z3.ZeroExt(W - 8, b - 48)
        val = z3.If(inr, nv, val)
    # 40+ digits cannot occur for K <= 39; W=136 bits hold 10^40
    if K > 39:
        raise Unsupported('parse_int_model: strings longer than 39 bytes')
    if signed:
        lim_pos = z3.BitVecVal((1 << (bits - 1)) - 1, W)
        lim_neg = z3.BitVecVal(1 << (bits - 1), W)
        inrange = z3.If(neg, z3.ULE(val, lim_neg), z3.ULE(val, lim_pos))
        v = z3.Extract(bits - 1, 0, val)
        v = z3.If(neg, -v, v)
    else:
        inrange = z3.ULE(val, z3.BitVecVal((1 << bits) - 1, W))
        v = z3.Extract(bits - 1, 0, val)
    return z3.And(ok, inrange), v


def M_int_to_string(it, ctx, args, st):
    """<iN/uN as ToString>::to_string (Display): the canonical decimal text, as a fresh string r constrained by
    parse(r) == v and canonical form (no '+', no leading zeros, no "-0") -- std contract, relational encoding"""
    name = ctx.self_ty[1]
    bits, signed = INT_BITS[name], name[0] == 'i'
    v = args[0] if not isinstance(args[0], Ptr) else st.deref_all(args[0])
    K = {8: 4, 16: 6, 32: 11, 64: 20}[bits] if signed else {8: 3, 16: 5, 32: 10, 64: 20}[bits]
    n = it.counter = getattr(it, 'counter', 0) + 1
    r = BStr(tuple(z3.BitVec(f'dec{n}_{i}', 8) for i in range(K)), z3.BitVec(f'dec{n}_len', 64))
    ok, pv = parse_int_model(r, bits, signed)
    b0, b1 = r.bytes[0], r.bytes[1]
    neg = (b0 == 45)
    first = z3.If(neg, b1, b0)
    ndig = z3.If(neg, r.len - 1, r.len)
    st.pc.append(z3.And(ok, pv == v, b0 != 43, z3.Implies(first == 48, z3.And(ndig == 1, z3.Not(neg))),
                        *[z3.Implies(z3.UGE(bv(i), r.len), b == 0) for i, b in enumerate(r.bytes)]))
    st.aux['int_texts'] = st.aux.get('int_texts', ()) + ((r, v, bits, signed),)          # ghost: r is Display of v
    yield st, r


def same_text(a, b):
    """the same symbolic text (structurally identical terms), however the code moved it around"""
    return a is b or (isinstance(a, BStr) and isinstance(b, BStr) and len(a.bytes) == len(b.bytes) and a.len.eq(b.len)
                      and all(x.eq(y) for x, y in zip(a.bytes, b.bytes)))


def ghost_int_text(it, st, v, bits, signed):
    """an opaque text standing for the Display of the integer v (any width up to 128): only the ghost record relates it to v;
    its bytes are otherwise unconstrained ASCII (callers that look at the bytes get an over-approximation)"""
    K = 40
    n = it.counter = getattr(it, 'counter', 0) + 1
    r = BStr(tuple(z3.BitVec(f'itxt{n}_{i}', 8) for i in range(K)), z3.BitVec(f'itxt{n}_len', 64))
    st.pc.append(z3.And(z3.UGE(r.len, 1), z3.ULE(r.len, K), *[z3.ULT(b, 128) for b in r.bytes]))
    # sound facts about the canonical decimal text (not a full definition): a leading '-' exactly for negative values, digits
    # everywhere else, a leading digit 0 exactly for the value 0 (whose text is the single character "0")
    digit = lambda b: z3.And(z3.UGE(b, 48), z3.ULE(b, 57))
    neg = (v < 0) if signed else z3.BoolVal(False)
    b0, b1 = r.bytes[0], r.bytes[1]
    first = z3.If(neg, b1, b0)
    facts = [(b0 == 45) == neg, z3.Implies(neg, z3.UGE(r.len, 2)), digit(first), (first == 48) == (v == 0), z3.Implies(v == 0, r.len == 1)]
    for i, b in enumerate(r.bytes[1:], 1):
        facts.append(z3.Implies(z3.ULT(bv(i), r.len), digit(b)))
    st.pc.append(z3.And(*facts))
    st.aux['int_texts'] = st.aux.get('int_texts', ()) + ((r, v, bits, signed),)
    return r


def M_str_parse(it, ctx, args, st):
    tgt = ctx.gargs[0]
    name = tgt[1]
    s = sval(st, args[0])
    if name in INT_BITS:
        rec = next((r for r in st.aux.get('int_texts', ()) if same_text(r[0], s)), None)
        if rec is not None:
            # s is the Display text of the integer rec[1] (ghost record): std's parse is the inverse of Display, so parse::<T>(s) is
            # Ok(that integer) exactly when it fits T
            src, sbits, ssigned = rec[1], rec[2], rec[3]
            tb, tsigned = INT_BITS[name], name[0] == 'i'
            W = max(sbits, tb) + 1
            wide = z3.SignExt(W - sbits, src) if ssigned else z3.ZeroExt(W - sbits, src)
            lo, hi = (-(1 << (tb - 1)), (1 << (tb - 1)) - 1) if tsigned else (0, (1 << tb) - 1)
            fits = z3.And(wide >= z3.BitVecVal(lo, W), wide <= z3.BitVecVal(hi, W))
            for s2, good in fork_bool(it, st, fits):
                yield s2, (it.ok(z3.Extract(tb - 1, 0, wide)) if good else it.err(Agg('std::num::ParseIntError', ())))
            return
        ok, v = parse_int_model(s, INT_BITS[name], name[0] == 'i')
        for s2, good in fork_bool(it, st, ok):
            yield s2, (it.ok(v) if good else it.err(Agg('std::num::ParseIntError', ())))
        return
    if name in ('f32', 'f64'):
        yield from parse_float_model(it, st, s, name)
        return
    # any other FromStr: dispatch to the implementation (repository type) or its model
    yield from it.call(ctx.fr, f'<{ty_str(tgt)} as std::str::FromStr>::from_str', [args[0]], st)


def parse_float_model(it, st, s, name):
    """str::parse::<f32|f64> (std's dec2flt: correctly rounded, RNE) on a bounded symbolic text.
    Exact for plain decimals  [+-]? digits [. digits*]  |  [+-]? . digits+  with few enough digits that the digit string is an exact
    float (f32: <= 7, f64: <= 15 digits): the value is RNE(p / 10^f), which is what IEEE division of the two exact operands yields.
    A text containing a byte that no float spelling contains is an error.  Everything else (exponents, inf, nan, long digit
    strings) gets an unconstrained outcome: sound over-approximation, counterexamples through it are replayed natively."""
    so = z3.Float32() if name == 'f32' else z3.Float64()
    maxd = 7 if name == 'f32' else 15
    K = len(s.bytes)
    W = 64
    p = z3.BitVecVal(0, W)
    nd = z3.BitVecVal(0, 8)          # digits seen
    nf = z3.BitVecVal(0, 8)          # digits after the dot
    dot = z3.BoolVal(False)
    valid = z3.BoolVal(True)
    alien = z3.BoolVal(False)        # some byte that occurs in no float spelling
    neg = z3.BoolVal(False)
    for i, b in enumerate(s.bytes):
        here = z3.ULT(bv(i), s.len)
        isd = z3.And(z3.UGE(b, 48), z3.ULE(b, 57))
        issign = z3.Or(b == 43, b == 45) if i == 0 else z3.BoolVal(False)
        isdot = b == 46
        letter = z3.Or(*[b == c for c in b'eEinfatyINFATY'])
        alien = z3.Or(alien, z3.And(here, z3.Not(z3.Or(isd, b == 43, b == 45, isdot, letter))))
        ok_here = z3.Or(isd, issign, z3.And(isdot, z3.Not(dot)))
        valid = z3.And(valid, z3.Or(z3.Not(here), ok_here))
        p = z3.If(z3.And(here, isd), p * 10 + z3.ZeroExt(W - 8, b - 48), p)
        nd = z3.If(z3.And(here, isd), nd + 1, nd)
        nf = z3.If(z3.And(here, isd, dot), nf + 1, nf)
        dot = z3.Or(dot, z3.And(here, isdot))
        if i == 0:
            neg = z3.And(here, b == 45)
    plain = z3.And(valid, z3.UGE(nd, 1))
    exact = z3.And(plain, z3.ULE(nd, maxd))
    pow10 = z3.FPVal(1.0, so)
    for k in range(1, K + 1):
        pow10 = z3.If(nf == k, z3.FPVal(float(10 ** k), so), pow10)
    mag = z3.fpDiv(z3.RNE(), z3.fpUnsignedToFP(z3.RNE(), p, so), pow10)
    val = z3.If(neg, z3.fpNeg(mag), mag)
    err = Agg('std::num::ParseFloatError', ())
    for s2, a in fork_bool(it, st, alien):
        if a:
            yield s2, it.err(err)
            continue
        for s3, e in fork_bool(it, s2, exact):
            if e:
                yield s3, it.ok(val)
                continue
            n = it.counter = getattr(it, 'counter', 0) + 1
            fresh = z3.FP(f'parse_{name}_{n}', so)
            for s4, good in fork_bool(it, s3, z3.Bool(f'parse_{name}_{n}_ok')):
                yield s4, (it.ok(fresh) if good else it.err(err))


def M_dyn_error_is(it, ctx, args, st):
    """<dyn Error>::is::<T>(): the dynamic type of the boxed error is the type of the model value standing for it"""
    v = args[0]
    while isinstance(v, Ptr):
        v = st.deref(v)
    if isinstance(v, Agg) and v.name in ('Box', 'std::boxed::Box'):
        v = st.deref_all(v.fields[0].fields[0])
    T = ctx.gargs[0]
    tname = last_seg(T[1]) if T[0] == 'path' else ty_str(T)
    if isinstance(v, Agg):
        yield st, z3.BoolVal(last_seg(v.name) == tname)
    elif isinstance(v, BStr):
        yield st, z3.BoolVal(tname in ('String', 'str'))
    else:
        raise Unsupported(f'<dyn Error>::is::<{ty_str(T)}> of {v!r:.60}')


def M_slice_first_last(last):
    def f(it, ctx, args, st):
        """<[T]>::first / last -> Option<&T>"""
        p = args[0]
        while isinstance(st.deref(p), Ptr):
            p = st.deref(p)
        v = st.deref(p)
        if isinstance(v, Agg) and len(v.fields) == 1 and isinstance(v.fields[0], (Seq, BStr)):
            p, v = Ptr(p.addr, p.proj + (('f', 0),)), v.fields[0]
        if isinstance(v, Seq):
            yield st, (it.some(Ptr(p.addr, p.proj + (('i', len(v.items) - 1 if last else 0),))) if v.items else it.none)
            return
        if not isinstance(v, BStr):
            raise Unsupported('first/last of ' + repr(v)[:60])
        if not v.bytes:
            yield st, it.none
            return
        for s2, empty in fork_bool(it, st, v.len == 0):
            if empty:
                yield s2, it.none
            elif not last:
                yield s2, it.some(Ptr(p.addr, p.proj + (('i', 0),)))
            else:
                yield s2, it.some(s2.ref(bstr_byte(v, v.len - 1)))
    return f


def M_str_find(reverse):
    def f(it, ctx, args, st):
        """str::find / rfind with a concrete pattern (&str or ASCII char): byte index of the first / last occurrence"""
        s = sval(st, args[0])
        pat = args[1]
        c = concrete(pat) if z3.is_expr(pat) else None
        if c is not None:
            if c >= 128:
                raise Unsupported('find with a non-ASCII char')
            py = bytes([c])
        else:
            py = bstr_py(sval(st, pat))
            if py is None:
                raise Unsupported('find with a symbolic pattern')
        K, lp = len(s.bytes), len(py)
        if lp == 0:
            yield st, it.some(s.len if reverse else bv(0))
            return
        order = list(range(0, K - lp + 1))
        if reverse:
            order.reverse()

        def go(st, idx):
            if idx >= len(order):
                yield st, it.none
                return
            k = order[idx]
            hit = z3.And(z3.ULE(bv(k + lp), s.len), *[s.bytes[k + j] == py[j] for j in range(lp)])
            for s2, h in fork_bool(it, st, hit):
                if h:
                    yield s2, it.some(bv(k))
                else:
                    yield from go(s2, idx + 1)
        yield from go(st, 0)
    return f


def M_str_split_once_str(it, ctx, args, st):
    """str::split_once(pat) for a concrete &str pattern: the text before and after its first occurrence"""
    s = sval(st, args[0])
    py = bstr_py(sval(st, args[1]))
    if py is None or not py:
        raise Unsupported('split_once with a symbolic / empty pattern')
    K, lp = len(s.bytes), len(py)

    def go(st, k):
        if k + lp > K:
            yield st, it.none
            return
        hit = z3.And(z3.ULE(bv(k + lp), s.len), *[s.bytes[k + j] == py[j] for j in range(lp)])
        for s2, h in fork_bool(it, st, hit):
            if h:
                yield s2, it.some(Agg('tuple', (s2.ref(bstr_slice(s, bv(0), bv(k))), s2.ref(bstr_slice(s, bv(k + lp), s.len)))))
            else:
                yield from go(s2, k + 1)
    yield from go(st, 0)


def M_str_split_once_char(it, ctx, args, st):
    """str::split_once(ch) for a concrete ASCII char: the text before and after its first occurrence"""
    s = sval(st, args[0])
    ch = concrete(args[1])
    if ch is None or ch >= 128:
        raise Unsupported('split_once with a symbolic / non-ASCII char')
    K = len(s.bytes)

    def go(st, k):
        if k >= K:
            yield st, it.none
            return
        for s2, more in fork_bool(it, st, z3.UGT(s.len, bv(k))):
            if not more:
                yield s2, it.none
                continue
            for s3, hit in fork_bool(it, s2, s.bytes[k] == ch):
                if hit:
                    a, b = bstr_slice(s, bv(0), bv(k)), bstr_slice(s, bv(k + 1), s.len)
                    yield s3, it.some(Agg('tuple', (s3.ref(a), s3.ref(b))))
                else:
                    yield from go(s3, k + 1)
    yield from go(st, 0)


# ------------------------------------------------------------------ lazy iterators  It(kind, src, f, pos, cur)
def It(kind, src=None, f=None, pos=0, cur=None):
    return Agg('It', (kind, src, f, pos, cur))


def it_next(it, st, itv, fr):
    """yields (st, new iterator, item | None)"""
    kind, src, f, pos, cur = itv.fields
    if kind == 'list':
        if pos >= len(src):
            yield st, itv, None
        else:
            yield st, It('list', src, None, pos + 1), src[pos]
    elif kind == 'ptrseq':            # src: Ptr to a Seq / BStr; yields pointers to the elements
        seq = st.deref(src)
        if isinstance(seq, BStr):
            if pos >= len(seq.bytes):
                # capacity reached: only "end" is possible within the bound
                yield st, itv, None
                return
            for s2, more in fork_bool(it, st, z3.UGT(seq.len, bv(pos))):
                if more:
                    yield s2, It('ptrseq', src, None, pos + 1), Ptr(src.addr, src.proj + (('i', pos),))
                else:
                    yield s2, itv, None
            return
        if pos >= len(seq.items):
            yield st, itv, None
        else:
            yield st, It('ptrseq', src, None, pos + 1), Ptr(src.addr, src.proj + (('i', pos),))
    elif kind == 'rev':
        seq = st.deref(src)
        n = len(seq.items)
        if pos >= n:
            yield st, itv, None
        else:
            yield st, It('rev', src, None, pos + 1), Ptr(src.addr, src.proj + (('i', n - 1 - pos),))
    elif kind == 'cloned':
        for s2, inner, item in it_next(it, st, src, fr):
            yield s2, It('cloned', inner), (None if item is None else s2.deref(item))
    elif kind in ('map', 'filter_map', 'filter'):
        for s2, inner, item in it_next(it, st, src, fr):
            if item is None:
                yield s2, It(kind, inner, f), None
                continue
            arg = s2.ref(item) if kind == 'filter' else item
            for s3, r in it.call_closure(f, [arg], s2, fr):
                if is_abnormal(r):
                    yield s3, itv, r
                    continue
                if kind == 'map':
                    yield s3, It(kind, inner, f), r
                elif kind == 'filter':
                    for s4, keep in fork_bool(it, s3, r):
                        if keep:
                            yield s4, It(kind, inner, f), item
                        else:
                            yield from it_next(it, s4, It(kind, inner, f), fr)
                else:
                    for s4, i, p in it.enum_cases(r, s3):
                        if i == 1:
                            yield s4, It(kind, inner, f), p.fields[0]
                        else:
                            yield from it_next(it, s4, It(kind, inner, f), fr)
    elif kind == 'enumerate':
        for s2, inner, item in it_next(it, st, src, fr):
            if item is None:
                yield s2, It(kind, inner, None, pos), None
            else:
                yield s2, It(kind, inner, None, pos + 1), Agg('tuple', (bv(pos), item))
    elif kind == 'flat_map':
        if cur is not None:
            for s2, c2, item in it_next(it, st, cur, fr):
                if item is not None:
                    yield s2, It(kind, src, f, 0, c2), item
                else:
                    yield from it_next(it, s2, It(kind, src, f, 0, None), fr)
            return
        for s2, inner, item in it_next(it, st, src, fr):
            if item is None:
                yield s2, It(kind, inner, f, 0, None), None
                continue
            for s3, sub in it.call_closure(f, [item], s2, fr):
                if is_abnormal(sub):
                    yield s3, itv, sub
                    continue
                if isinstance(sub, Enum) and last_seg(sub.decl.name) in ('Option', 'Result'):
                    # the closure returns an Option / Result: it contributes its Some / Ok payload or nothing
                    hit = 'Some' if last_seg(sub.decl.name) == 'Option' else 'Ok'
                    for s4, i, pl in it.enum_cases(sub, s3):
                        one = It('list', (pl.fields[0],) if sub.decl.variants[i][0] == hit else ())
                        yield from it_next(it, s4, It(kind, inner, f, 0, one), fr)
                    continue
                yield from it_next(it, s3, It(kind, inner, f, 0, as_iter(it, s3, sub)), fr)
    elif kind == 'chars':             # src: BStr holding well-formed UTF-8 (the &str invariant): one path per sequence length
        s = src
        K = len(s.bytes)
        if pos >= K:
            yield st, itv, None
            return
        for s2, more in fork_bool(it, st, z3.UGT(s.len, bv(pos))):
            if not more:
                yield s2, itv, None
                continue
            b0 = s.bytes[pos]
            ze = lambda b: z3.ZeroExt(24, b)
            cases = [(z3.ULT(b0, 0x80), 1)]
            if pos + 1 < K:
                cases.append((z3.And(z3.UGE(b0, 0xC0), z3.ULT(b0, 0xE0)), 2))
            if pos + 2 < K:
                cases.append((z3.And(z3.UGE(b0, 0xE0), z3.ULT(b0, 0xF0)), 3))
            if pos + 3 < K:
                cases.append((z3.UGE(b0, 0xF0), 4))
            for s3, ci in it.fork_on(s2, [c for c, _ in cases]):
                n = cases[ci][1]
                if n == 1:
                    ch = ze(b0)
                elif n == 2:
                    ch = (ze(b0 & 0x1F) << 6) | ze(s.bytes[pos + 1] & 0x3F)
                elif n == 3:
                    ch = (ze(b0 & 0x0F) << 12) | (ze(s.bytes[pos + 1] & 0x3F) << 6) | ze(s.bytes[pos + 2] & 0x3F)
                else:
                    ch = (ze(b0 & 0x07) << 18) | (ze(s.bytes[pos + 1] & 0x3F) << 12) | (ze(s.bytes[pos + 2] & 0x3F) << 6) | ze(s.bytes[pos + 3] & 0x3F)
                if n > 1:
                    s3.pc.append(z3.UGE(s.len, bv(pos + n)))
                yield s3, It('chars', s, None, pos + n), z3.simplify(ch)
    elif kind == 'bytes':             # str::bytes / slice of bytes by value
        s = src
        if pos >= len(s.bytes):
            yield st, itv, None
            return
        for s2, more in fork_bool(it, st, z3.UGT(s.len, bv(pos))):
            if more:
                yield s2, It('bytes', s, None, pos + 1), s.bytes[pos]
            else:
                yield s2, itv, None
    elif kind == 'splitc':            # str::split(char): src = (string, separator byte); pos = start of the next piece (None: finished)
        s, sep = src
        if pos is None or cur == 0:
            yield st, itv, None
            return
        K = len(s.bytes)
        if cur == 1:
            # splitn: the last permitted piece is the whole remainder
            yield st, It('splitc', src, None, None, 0), st.ref(bstr_slice(s, bv(pos), s.len))
            return
        nxt_cur = None if cur is None else cur - 1
        nosep = lambda a, b_: z3.And(*[z3.Or(z3.UGE(bv(i), s.len), s.bytes[i] != sep) for i in range(a, b_)]) if b_ > a else z3.BoolVal(True)
        # the next separator is at j (start <= j < len), or there is none
        for j in range(pos, K):
            cond = z3.And(z3.UGT(s.len, bv(j)), s.bytes[j] == sep, nosep(pos, j))
            if it.feasible(st, cond):
                s2 = st.fork()
                s2.pc.append(cond)
                yield s2, It('splitc', src, None, j + 1, nxt_cur), s2.ref(bstr_slice(s, bv(pos), bv(j)))
        cond = z3.And(nosep(pos, K), z3.UGE(s.len, bv(pos)))
        if it.feasible(st, cond):
            st.pc.append(cond)
            yield st, It('splitc', src, None, None, nxt_cur), st.ref(bstr_slice(s, bv(pos), s.len))
    elif kind in EXTRA_ITER_KINDS:
        yield from EXTRA_ITER_KINDS[kind](it, st, itv, fr)
    else:
        raise Unsupported('iterator kind ' + kind)


EXTRA_ITER_KINDS = {}


def as_iter(it, st, v):
    if isinstance(v, Agg) and v.name == 'It':
        return v
    if isinstance(v, Agg) and v.name.endswith('iter::Empty'):
        return It('list', ())
    if isinstance(v, Enum) and v.decl.name == 'Option':
        # Option as IntoIterator: 0/1 items; only concrete discriminants supported here
        d = concrete(v.discr)
        if d is None:
            raise Unsupported('IntoIterator on a symbolic Option')
        return It('list', (it.payload(v, 'Some').fields[0],) if d == 1 else ())
    if isinstance(v, Seq):
        return It('list', v.items)
    raise Unsupported(f'not an iterator: {v!r:.80}')


def drain(it, st, itv, fr):
    def go(st, itv, acc):
        for s2, i2, item in it_next(it, st, itv, fr):
            if item is None:
                yield s2, acc
            elif is_abnormal(item):
                yield s2, item
            else:
                yield from go(s2, i2, acc + [item])
    yield from go(st, itv, [])


def itval(st, x):
    return st.deref_all(x) if isinstance(x, Ptr) else x


def M_adaptor(kind):
    def f(it, ctx, args, st):
        yield st, It(kind, as_iter(it, st, args[0]), args[1] if len(args) > 1 else None)
    return f


def M_iter_rev(it, ctx, args, st):
    src = args[0]
    if src.fields[0] != 'ptrseq' or src.fields[3] != 0:
        raise Unsupported('rev of a non-slice iterator')
    yield st, It('rev', src.fields[1])


def M_slice_iter(it, ctx, args, st):
    p = args[0]
    v = st.deref(p)
    if isinstance(v, Agg) and len(v.fields) == 1 and isinstance(v.fields[0], (Seq, BStr)):
        p = Ptr(p.addr, p.proj + (('f', 0),))
    yield st, It('ptrseq', p)


def M_into_iter(it, ctx, args, st):
    v = args[0]
    if isinstance(v, Ptr):
        tgt = st.deref(v)
        if isinstance(tgt, (Seq, BStr)):
            yield st, It('ptrseq', v)
            return
    if isinstance(v, Enum) and v.decl.name.endswith('Option') and concrete(v.discr) is None:
        # Option as IntoIterator with a symbolic discriminant: one path per case
        for s2, some in fork_bool(it, st, it.variant_of(v, 'Some')):
            yield s2, It('list', (it.payload(v, 'Some').fields[0],) if some else ())
        return
    yield st, as_iter(it, st, v)


def is_model_iter(st, v):
    v = st.deref_all(v) if isinstance(v, Ptr) else v
    return isinstance(v, Agg) and (v.name == 'It' or v.name.endswith('iter::Empty'))


def is_seq_ptr(st, v):
    if isinstance(v, (Seq, Enum)):
        return isinstance(v, Seq) or v.decl.name == 'Option'
    return isinstance(v, Ptr) and isinstance(st.deref(v), (Seq, BStr))


def M_iter_next(it, ctx, args, st):
    p = args[0]
    itv = st.deref(p)
    for s2, i2, item in it_next(it, st, itv, ctx.fr):
        if is_abnormal(item):
            yield s2, item
            continue
        s2.write(p, i2)
        yield s2, (it.none if item is None else it.some(item))


def M_collect(it, ctx, args, st):
    tgt = ctx.gargs[0] if ctx.gargs else None
    into_result = tgt is not None and tgt[0] == 'path' and tgt[1].endswith('Result')
    for s2, items in drain(it, st, as_iter(it, st, args[0]), ctx.fr):
        if is_abnormal(items):
            yield s2, items
        elif into_result:
            # FromIterator for Result<V, E>: the first Err wins (items after it are not inspected by the real adaptor; the models'
            # closures are pure, so having drained them is unobservable), otherwise Ok(collection of the payloads)
            def go(s, k, acc):
                if k == len(items):
                    yield s, it.ok(Seq(tuple(acc)))
                    return
                r = items[k]
                for s3, good in fork_bool(it, s, it.variant_of(r, 'Ok')):
                    if good:
                        yield from go(s3, k + 1, acc + [it.payload(r, 'Ok').fields[0]])
                    else:
                        yield s3, it.err(it.payload(r, 'Err').fields[0])
            yield from go(s2, 0, [])
        else:
            yield s2, Seq(tuple(items))


def M_count(it, ctx, args, st):
    for s2, items in drain(it, st, as_iter(it, st, args[0]), ctx.fr):
        yield s2, (items if is_abnormal(items) else bv(len(items)))


def pure_calls(it, ctx, clo, items, st):
    """call clo on each item on scratch states; -> list of result terms if every call is pure (normal outcomes only, no write to
    pre-existing cells); several outcomes of one call are merged into one ite-term over their path conditions.  Else None."""
    outs = []
    for item in items:
        s0 = st.fork()
        n0 = len(s0.pc)
        res = list(it.call_closure(clo, [item], s0, ctx.fr))
        if not res or any(is_abnormal(r) for _, r in res):
            return None
        for s1, r in res:
            if any(s1.store.get(a) is not v for a, v in st.store.items()) or not z3.is_expr(r):
                return None
        term = res[-1][1]
        for s1, r in reversed(res[:-1]):
            c = z3.And(*s1.pc[n0:]) if len(s1.pc) > n0 else z3.BoolVal(True)
            term = z3.If(c, r, term)
        outs.append(term)
    return outs


def bytes_items(st, itv):
    """items of a not-yet-advanced iterator over a bounded byte string, as (guard, value) pairs; else None"""
    kind, src, f, pos, cur = itv.fields
    if kind == 'cloned' and src.fields[0] == 'ptrseq' and src.fields[3] == 0:
        seq = st.deref(src.fields[1])
        if isinstance(seq, BStr):
            return [(z3.ULT(bv(i), seq.len), b) for i, b in enumerate(seq.bytes)]
    if kind == 'ptrseq' and pos == 0:
        seq = st.deref(src)
        if isinstance(seq, BStr):
            return [(z3.ULT(bv(i), seq.len), Ptr(src.addr, src.proj + (('i', i),))) for i in range(len(seq.bytes))]
    if kind == 'chars' and pos == 0:
        return [(z3.ULT(bv(i), src.len), z3.ZeroExt(24, b)) for i, b in enumerate(src.bytes)]
    return None


def M_all(it, ctx, args, st):
    p = args[0]
    itv = itval(st, p)
    bi = bytes_items(st, itv)
    if bi is not None:
        rs = pure_calls(it, ctx, args[1], [v for _, v in bi], st)
        if rs is not None:
            yield st, z3.And(*[z3.Implies(g, r) for (g, _), r in zip(bi, rs)]) if rs else z3.BoolVal(True)
            return

    def go(st, itv):
        for s2, i2, item in it_next(it, st, itv, ctx.fr):
            if item is None:
                yield s2, z3.BoolVal(True)
                continue
            if is_abnormal(item):
                yield s2, item
                continue
            for s3, r in it.call_closure(args[1], [item], s2, ctx.fr):
                if is_abnormal(r):
                    yield s3, r
                    continue
                for s4, good in fork_bool(it, s3, r):
                    if good:
                        yield from go(s4, i2)
                    else:
                        yield s4, z3.BoolVal(False)
    yield from go(st, itv)


def M_any(it, ctx, args, st):
    itv = itval(st, args[0])

    def go(st, itv):
        for s2, i2, item in it_next(it, st, itv, ctx.fr):
            if item is None:
                yield s2, z3.BoolVal(False)
                continue
            if is_abnormal(item):
                yield s2, item
                continue
            for s3, r in it.call_closure(args[1], [item], s2, ctx.fr):
                if is_abnormal(r):
                    yield s3, r
                    continue
                for s4, hit in fork_bool(it, s3, r):
                    if hit:
                        yield s4, z3.BoolVal(True)
                    else:
                        yield from go(s4, i2)
    yield from go(st, itv)


def M_find_map(it, ctx, args, st):
    """Iterator::find_map(f): the first Some(..) that f returns"""
    itv = itval(st, args[0]) if isinstance(args[0], Ptr) else as_iter(it, st, args[0])
    p = args[0] if isinstance(args[0], Ptr) else None

    def go(st, itv):
        for s2, i2, item in it_next(it, st, itv, ctx.fr):
            if item is None:
                if p is not None:
                    s2.write(p, i2)
                yield s2, it.none
                continue
            if is_abnormal(item):
                yield s2, item
                continue
            for s3, r in it.call_closure(args[1], [item], s2, ctx.fr):
                if is_abnormal(r):
                    yield s3, r
                    continue
                for s4, hit in fork_bool(it, s3, it.variant_of(r, 'Some')):
                    if hit:
                        if p is not None:
                            s4.write(p, i2)
                        yield s4, r
                    else:
                        yield from go(s4, i2)
    yield from go(st, itv)


def M_find(it, ctx, args, st):
    itv = itval(st, args[0])

    def go(st, itv):
        for s2, i2, item in it_next(it, st, itv, ctx.fr):
            if item is None:
                yield s2, it.none
                continue
            if is_abnormal(item):
                yield s2, item
                continue
            a = s2.ref(item)
            for s3, r in it.call_closure(args[1], [a], s2, ctx.fr):
                if is_abnormal(r):
                    yield s3, r
                    continue
                for s4, hit in fork_bool(it, s3, r):
                    if hit:
                        yield s4, it.some(item)
                    else:
                        yield from go(s4, i2)
    yield from go(st, itv)


def M_position(it, ctx, args, st):
    itv = itval(st, args[0])

    def go(st, itv, k):
        for s2, i2, item in it_next(it, st, itv, ctx.fr):
            if item is None:
                yield s2, it.none
                continue
            if is_abnormal(item):
                yield s2, item
                continue
            for s3, r in it.call_closure(args[1], [item], s2, ctx.fr):
                if is_abnormal(r):
                    yield s3, r
                    continue
                for s4, hit in fork_bool(it, s3, r):
                    if hit:
                        yield s4, it.some(bv(k))
                    else:
                        yield from go(s4, i2, k + 1)
    yield from go(st, itv, 0)


def M_str_bytes(it, ctx, args, st):
    yield st, It('bytes', sval(st, args[0]))


def M_str_split_char_real(it, ctx, args, st):
    ch = concrete(args[1])
    if ch is None or ch >= 128:
        raise Unsupported('str::split with a symbolic / non-ASCII separator')
    yield st, It('splitc', (sval(st, args[0]), z3.BitVecVal(ch, 8)), None, 0)


def M_str_splitn_str(it, ctx, args, st):
    n = concrete(args[1])
    pat = bstr_py(sval(st, args[2]))
    if n is None or pat is None or len(pat) != 1 or pat[0] >= 128:
        raise Unsupported('str::splitn with a symbolic count or a pattern that is not one ASCII byte')
    yield st, It('splitc', (sval(st, args[0]), z3.BitVecVal(pat[0], 8)), None, 0, n)


def M_split_first(it, ctx, args, st):
    p = args[0]
    while isinstance(st.deref(p), Ptr):
        p = st.deref(p)
    v = st.deref(p)
    if isinstance(v, BStr):
        for s2, ne in fork_bool(it, st, v.len != 0):
            if ne:
                yield s2, it.some(Agg('tuple', (Ptr(p.addr, p.proj + (('i', 0),)), s2.ref(bstr_slice(v, bv(1), v.len)))))
            else:
                yield s2, it.none
        return
    if isinstance(v, Seq):
        yield st, (it.some(Agg('tuple', (Ptr(p.addr, p.proj + (('i', 0),)), st.ref(Seq(v.items[1:]))))) if v.items else it.none)
        return
    raise Unsupported('split_first of ' + repr(v)[:60])


def M_u8_class(name):
    rng = lambda b, lo, hi: z3.And(z3.UGE(b, lo), z3.ULE(b, hi))
    tests = {'is_ascii_lowercase': lambda b: rng(b, 97, 122), 'is_ascii_uppercase': lambda b: rng(b, 65, 90), 'is_ascii_digit': lambda b: rng(b, 48, 57),
             'is_ascii_alphabetic': lambda b: z3.Or(rng(b, 97, 122), rng(b, 65, 90)), 'is_ascii_alphanumeric': lambda b: z3.Or(rng(b, 97, 122), rng(b, 65, 90), rng(b, 48, 57)),
             'is_ascii': lambda b: z3.ULT(b, 128), 'is_ascii_hexdigit': lambda b: z3.Or(rng(b, 48, 57), rng(b, 97, 102), rng(b, 65, 70)),
             'is_ascii_whitespace': lambda b: z3.Or(b == 32, b == 9, b == 10, b == 12, b == 13), 'is_ascii_punctuation': lambda b: z3.Or(rng(b, 33, 47), rng(b, 58, 64), rng(b, 91, 96), rng(b, 123, 126)),
             'is_ascii_graphic': lambda b: rng(b, 33, 126), 'is_ascii_control': lambda b: z3.Or(z3.ULT(b, 32), b == 127)}

    def f(it, ctx, args, st):
        b = st.deref_all(args[0]) if isinstance(args[0], Ptr) else args[0]
        yield st, tests[name](b)
    return f


_LATIN1_ALPHA = [0xAA, 0xB5, 0xBA] + [c for c in range(0xC0, 0x100) if c not in (0xD7, 0xF7)]
_LATIN1_NUMERIC = [0xB2, 0xB3, 0xB9, 0xBC, 0xBD, 0xBE]


def M_char_class(name):
    """char::is_ascii_* (exact) and the Unicode predicates is_alphabetic / is_numeric / is_alphanumeric / is_whitespace / is_uppercase /
    is_lowercase: exact below U+0100 (ASCII + Latin-1 tables), an unconstrained Boolean per character above (over-approximation:
    counterexamples through it are replayed natively)"""
    rng = lambda c, lo, hi: z3.And(z3.UGE(c, lo), z3.ULE(c, hi))
    ascii_tests = {'is_ascii_lowercase': lambda c: rng(c, 97, 122), 'is_ascii_uppercase': lambda c: rng(c, 65, 90), 'is_ascii_digit': lambda c: rng(c, 48, 57),
                   'is_ascii_alphabetic': lambda c: z3.Or(rng(c, 97, 122), rng(c, 65, 90)), 'is_ascii_alphanumeric': lambda c: z3.Or(rng(c, 97, 122), rng(c, 65, 90), rng(c, 48, 57)),
                   'is_ascii': lambda c: z3.ULT(c, 128), 'is_ascii_hexdigit': lambda c: z3.Or(rng(c, 48, 57), rng(c, 97, 102), rng(c, 65, 70)),
                   'is_ascii_whitespace': lambda c: z3.Or(c == 32, c == 9, c == 10, c == 12, c == 13), 'is_ascii_punctuation': lambda c: z3.Or(rng(c, 33, 47), rng(c, 58, 64), rng(c, 91, 96), rng(c, 123, 126)),
                   'is_ascii_graphic': lambda c: rng(c, 33, 126), 'is_ascii_control': lambda c: z3.Or(z3.ULT(c, 32), c == 127)}

    def f(it, ctx, args, st):
        c = st.deref_all(args[0]) if isinstance(args[0], Ptr) else args[0]
        if name in ascii_tests:
            yield st, ascii_tests[name](c)
            return
        alpha_lo = z3.Or(rng(c, 97, 122), rng(c, 65, 90), *[c == x for x in _LATIN1_ALPHA])
        num_lo = z3.Or(rng(c, 48, 57), *[c == x for x in _LATIN1_NUMERIC])
        low = {'is_alphabetic': alpha_lo, 'is_numeric': num_lo, 'is_alphanumeric': z3.Or(alpha_lo, num_lo),
               'is_whitespace': z3.Or(c == 32, rng(c, 9, 13), c == 0x85, c == 0xA0),
               'is_uppercase': z3.Or(rng(c, 65, 90), z3.And(rng(c, 0xC0, 0xDE), c != 0xD7)),
               'is_lowercase': z3.Or(rng(c, 97, 122), c == 0xAA, c == 0xB5, c == 0xBA, z3.And(rng(c, 0xDF, 0xFF), c != 0xF7)),
               'is_control': z3.Or(z3.ULT(c, 32), rng(c, 127, 159))}.get(name)
        if low is None:
            raise Unsupported('char::' + name)
        n = it.counter = getattr(it, 'counter', 0) + 1
        hi = z3.Bool(f'unicode_{name}_{n}')
        yield st, z3.If(z3.ULT(c, 0x100), low, hi)
    return f


def M_strip_suffix_char(it, ctx, args, st):
    s = sval(st, args[0])
    ch = concrete(args[1])
    if ch is None or ch >= 128:
        raise Unsupported('strip_suffix with a symbolic / non-ASCII char')
    has = z3.And(s.len != 0, bstr_byte(s, s.len - 1) == ch)
    for s2, hit in fork_bool(it, st, has):
        yield s2, (it.some(s2.ref(bstr_slice(s, bv(0), s.len - 1))) if hit else it.none)


def M_str_trim(it, ctx, args, st):
    """str::trim for ASCII whitespace (space, \\t, \\n, \\x0b, \\x0c, \\r); Unicode whitespace is outside the bounded strings the harnesses use"""
    s = sval(st, args[0])
    ws = lambda b: z3.Or(b == 32, z3.And(z3.UGE(b, 9), z3.ULE(b, 13)))
    K = len(s.bytes)
    # number of leading whitespace bytes
    lead = bv(0)
    run = z3.BoolVal(True)
    for i in range(K):
        run = z3.And(run, z3.UGT(s.len, bv(i)), ws(s.bytes[i]))
        lead = z3.If(run, bv(i + 1), lead)
    trail = bv(0)
    run = z3.BoolVal(True)
    for k in range(K):
        # byte at len-1-k
        b = bstr_byte(s, s.len - 1 - bv(k))
        run = z3.And(run, z3.UGT(s.len, bv(k)), ws(b))
        trail = z3.If(run, bv(k + 1), trail)
    end = z3.If(z3.UGE(lead, s.len), lead, s.len - trail)
    yield st, st.ref(bstr_slice(s, z3.simplify(lead), z3.simplify(end)))


def M_str_trim_side(side):
    def f(it, ctx, args, st):
        """str::trim_start / trim_end for ASCII whitespace (see M_str_trim)"""
        s = sval(st, args[0])
        ws = lambda b: z3.Or(b == 32, z3.And(z3.UGE(b, 9), z3.ULE(b, 13)))
        K = len(s.bytes)
        if side == 'start':
            lead, run = bv(0), z3.BoolVal(True)
            for i in range(K):
                run = z3.And(run, z3.UGT(s.len, bv(i)), ws(s.bytes[i]))
                lead = z3.If(run, bv(i + 1), lead)
            yield st, st.ref(bstr_slice(s, z3.simplify(lead), s.len))
        else:
            trail, run = bv(0), z3.BoolVal(True)
            for k in range(K):
                b = bstr_byte(s, s.len - 1 - bv(k))
                run = z3.And(run, z3.UGT(s.len, bv(k)), ws(b))
                trail = z3.If(run, bv(k + 1), trail)
            yield st, st.ref(bstr_slice(s, bv(0), z3.simplify(s.len - trail)))
    return f


def M_fold(it, ctx, args, st):
    itv, init, clo = itval(st, args[0]), args[1], args[2]

    def go(itv, acc, st):
        for s2, i2, item in it_next(it, st, itv, ctx.fr):
            if item is None:
                yield s2, acc
                continue
            if is_abnormal(item):
                yield s2, item
                continue
            for s3, r in it.call_closure(clo, [acc, item], s2, ctx.fr):
                if is_abnormal(r):
                    yield s3, r
                else:
                    yield from go(i2, r, s3)
    yield from go(as_iter(it, st, itv), init, st)


def M_try_fold(it, ctx, args, st):
    """Iterator::try_fold for R = Option<B> / Result<B, E>"""
    p = args[0]
    itv, init, clo = itval(st, p), args[1], args[2]

    def go(itv, acc, st):
        for s2, i2, item in it_next(it, st, itv, ctx.fr):
            if item is None:
                rt = ctx.gargs[2] if len(ctx.gargs) > 2 else None
                if rt is not None and last_seg(rt[1]) == 'Result':
                    yield s2, it.ok(acc)
                else:
                    yield s2, it.some(acc)
                continue
            if is_abnormal(item):
                yield s2, item
                continue
            for s3, r in it.call_closure(clo, [acc, item], s2, ctx.fr):
                if is_abnormal(r):
                    yield s3, r
                    continue
                for s4, i, pl in it.enum_cases(r, s3):
                    nm = r.decl.variants[i][0]
                    if nm in ('None', 'Err'):
                        yield s4, Enum(r.decl, r.decl and bv(r.decl.variants[i][1]), ((i, pl),))
                    else:
                        yield from go(i2, pl.fields[0], s4)
    yield from go(as_iter(it, st, itv), init, st)


def M_max_by(it, ctx, args, st):
    for s2, items in drain(it, st, as_iter(it, st, args[0]), ctx.fr):
        if is_abnormal(items):
            yield s2, items
            continue
        if not items:
            yield s2, it.none
            continue

        def go(st, best, rest):
            if not rest:
                yield st, it.some(best)
                return
            x = rest[0]
            pa, pb = st.ref(best), st.ref(x)
            for s3, o in it.call_closure(args[1], [pa, pb], st, ctx.fr):
                if is_abnormal(o):
                    yield s3, o
                    continue
                # std: max_by keeps the LAST maximum: replace unless cmp(best, x) == Greater
                for s4, gt in fork_bool(it, s3, o.discr == bv(1)):
                    yield from go(s4, best if gt else x, rest[1:])
        yield from go(s2, items[0], items[1:])


def ord_lt_eq(it, st, ty, a, b):
    """(a < b, a == b) as z3 Bools for keys of type `ty` (std Ord): integers, bool, char, tuples (lexicographic), Reverse, references"""
    a = st.deref_all(a) if isinstance(a, Ptr) else a
    b = st.deref_all(b) if isinstance(b, Ptr) else b
    if ty[0] == 'ref':
        return ord_lt_eq(it, st, ty[2], a, b)
    if ty[0] == 'tuple':
        lt, eq = z3.BoolVal(False), z3.BoolVal(True)
        for k, et in enumerate(ty[2]):
            l2, e2 = ord_lt_eq(it, st, et, a.fields[k], b.fields[k])
            lt = z3.Or(lt, z3.And(eq, l2))
            eq = z3.And(eq, e2)
        return lt, eq
    if ty[0] == 'path':
        name = last_seg(ty[1])
        if name == 'Reverse':
            l2, e2 = ord_lt_eq(it, st, ty[2][0], a.fields[0], b.fields[0])
            return z3.And(z3.Not(l2), z3.Not(e2)), e2
        if name == 'bool':
            return z3.And(z3.Not(a), b), a == b
        if name in INT_BITS:
            return (a < b if name[0] == 'i' else z3.ULT(a, b)), a == b
        if name == 'char':
            return z3.ULT(a, b), a == b
    raise Unsupported('Ord on key type ' + ty_str(ty))


def M_partial_ord_cmpop(it, ctx, args, st):
    """<T as PartialOrd>::{lt,le,gt,ge} for the totally ordered key types ord_lt_eq knows (no floats)"""
    lt, eq = ord_lt_eq(it, st, ctx.self_ty, args[0], args[1])
    m = ctx.callee.method
    yield st, {'lt': lt, 'le': z3.Or(lt, eq), 'gt': z3.And(z3.Not(lt), z3.Not(eq)), 'ge': z3.Not(lt)}[m]


def M_sort_by_cached_key(it, ctx, args, st):
    """slice::sort_by_cached_key: stable in effect like sort_by_key for pure key functions (each key computed once)"""
    yield from M_sort_by_key(it, ctx, args, st)


def M_sort_by_key(it, ctx, args, st):
    """slice::sort_by_key: stable; the key function is called on references to the elements (pure closures: stated)"""
    p, f = args[0], args[1]
    K = ctx.gargs[0]
    items = list(st.deref(p).items)

    def keys(st, k, acc):
        if k == len(items):
            yield st, acc
            return
        for s2, kv in it.call_closure(f, [st.ref(items[k])], st, ctx.fr):
            if is_abnormal(kv):
                yield s2, kv
            else:
                yield from keys(s2, k + 1, acc + [kv])

    def insert(st, sorted_, x):
        def go(st, i):
            if i < 0:
                yield st, [x] + sorted_
                return
            lt, eq = ord_lt_eq(it, st, K, x[0], sorted_[i][0])
            # stable insertion: x goes after the last element whose key is <= x's key
            for s3, before in fork_bool(it, st, lt):
                if before:
                    yield from go(s3, i - 1)
                else:
                    yield s3, sorted_[:i + 1] + [x] + sorted_[i + 1:]
        yield from go(st, len(sorted_) - 1)

    def run(st, acc, rest):
        if not rest:
            st.write(p, Seq(tuple(e for _, e in acc)))
            yield st, UNIT
            return
        for s2, acc2 in insert(st, acc, rest[0]):
            yield from run(s2, acc2, rest[1:])
    for s1, ks in keys(st, 0, []):
        if is_abnormal(ks):
            yield s1, ks
        else:
            yield from run(s1, [], list(zip(ks, items)))


def M_max_by_key(it, ctx, args, st, want_min=False):
    """Iterator::max_by_key: the LAST element with the maximum key (min_by_key: the first with the minimum)"""
    K = ctx.gargs[0]
    for s2, items in drain(it, st, as_iter(it, st, args[0]), ctx.fr):
        if is_abnormal(items):
            yield s2, items
            continue
        if not items:
            yield s2, it.none
            continue

        def go(st, best, bestk, rest):
            if not rest:
                yield st, it.some(best)
                return
            x = rest[0]
            for s3, kx in it.call_closure(args[1], [st.ref(x)], st, ctx.fr):
                if is_abnormal(kx):
                    yield s3, kx
                    continue
                lt, eq = ord_lt_eq(it, s3, K, kx, bestk)
                keep = z3.And(z3.Not(lt), z3.Not(eq)) if False else None
                # max: replace unless x's key is smaller; min: replace only when x's key is strictly smaller
                repl = lt if want_min else z3.Not(lt)
                for s4, r in fork_bool(it, s3, repl):
                    yield from go(s4, x if r else best, kx if r else bestk, rest[1:])
        for s3, k0 in it.call_closure(args[1], [s2.ref(items[0])], s2, ctx.fr):
            if is_abnormal(k0):
                yield s3, k0
            else:
                yield from go(s3, items[0], k0, items[1:])


def M_sort_by(it, ctx, args, st):
    p = args[0]
    seq = st.deref(p)
    f = args[1]

    def insert(st, sorted_, x):
        # stable insertion: place x after the last element e with cmp(e, x) != Greater
        def go(st, i):
            if i < 0:
                yield st, [x] + sorted_
                return
            pa, pb = st.ref(sorted_[i]), st.ref(x)
            for s2, o in it.call_closure(f, [pa, pb], st, ctx.fr):
                if is_abnormal(o):
                    yield s2, o
                    continue
                for s3, gt in fork_bool(it, s2, o.discr == bv(1)):
                    if gt:
                        yield from go(s3, i - 1)
                    else:
                        yield s3, sorted_[:i + 1] + [x] + sorted_[i + 1:]
        yield from go(st, len(sorted_) - 1)

    def run(st, acc, rest):
        if not rest:
            st.write(p, Seq(tuple(acc)))
            yield st, UNIT
            return
        for s2, acc2 in insert(st, acc, rest[0]):
            if is_abnormal(acc2):
                yield s2, acc2
            else:
                yield from run(s2, acc2, rest[1:])
    yield from run(st, [], list(seq.items))


def M_chars_as_str(it, ctx, args, st):
    itv = itval(st, args[0])
    kind, src, f, pos, cur = itv.fields
    if kind != 'chars':
        raise Unsupported('Chars::as_str on ' + kind)
    # remaining text (positions consumed so far are below the length on this path)
    yield st, st.ref(bstr_slice(src, bv(pos), src.len))


def utf8_of_char(c):
    """UTF-8 encoding of a code point (BV32) as a bounded string of 1..4 bytes"""
    x8 = lambda e: z3.Extract(7, 0, e)
    n = z3.If(z3.ULT(c, 0x80), bv(1), z3.If(z3.ULT(c, 0x800), bv(2), z3.If(z3.ULT(c, 0x10000), bv(3), bv(4))))
    one = [x8(c)]
    two = [x8(0xC0 | z3.LShR(c, 6)), x8(0x80 | (c & 0x3F))]
    three = [x8(0xE0 | z3.LShR(c, 12)), x8(0x80 | (z3.LShR(c, 6) & 0x3F)), x8(0x80 | (c & 0x3F))]
    four = [x8(0xF0 | z3.LShR(c, 18)), x8(0x80 | (z3.LShR(c, 12) & 0x3F)), x8(0x80 | (z3.LShR(c, 6) & 0x3F)), x8(0x80 | (c & 0x3F))]
    zero = z3.BitVecVal(0, 8)
    bs = []
    for i in range(4):
        bs.append(z3.simplify(z3.If(n == 1, one[i] if i < 1 else zero, z3.If(n == 2, two[i] if i < 2 else zero, z3.If(n == 3, three[i] if i < 3 else zero, four[i])))))
    return BStr(tuple(bs), n)


def M_char_encode_utf8(it, ctx, args, st):
    c = args[0] if not isinstance(args[0], Ptr) else st.deref_all(args[0])
    yield st, st.ref(utf8_of_char(c))


def M_char_len_utf8(it, ctx, args, st):
    c = args[0] if not isinstance(args[0], Ptr) else st.deref_all(args[0])
    yield st, utf8_of_char(c).len


def M_chars(it, ctx, args, st):
    yield st, It('chars', sval(st, args[0]))


# ------------------------------------------------------------------ Vec / slice
def seqval(st, x):
    v = st.deref_all(x) if isinstance(x, Ptr) else x
    if not isinstance(v, (Seq, BStr)):
        raise Unsupported(f'expected a sequence, got {v!r:.100}')
    return v


def M_vec_new(it, ctx, args, st):
    t = ctx.targs[0] if ctx.targs else None
    if t is not None and t[0] == 'path' and t[1] == 'u8':
        yield st, bstr(b'')
    else:
        yield st, Seq(())


def M_vec_len(it, ctx, args, st):
    v = seqval(st, args[0])
    yield st, (v.len if isinstance(v, BStr) else bv(len(v.items)))


def M_vec_is_empty(it, ctx, args, st):
    v = seqval(st, args[0])
    yield st, (v.len == 0 if isinstance(v, BStr) else z3.BoolVal(len(v.items) == 0))


def bm_append(st, p, add):
    """append to a byte buffer (BytesMut, Vec<u8>, String), remembering (ghost state) the pieces it was assembled from"""
    cur = sval(st, p)
    new = bstr_concat(cur, add)
    log = st.aux.get('bm_log', ())
    prev = next((pcs for obj, pcs in log if obj is cur), None)
    if prev is None:
        prev = () if bstr_py(cur) == b'' else (cur,)
    st.aux['bm_log'] = log[-3:] + ((new, prev + (add,)),)
    tgt = p
    while isinstance(st.deref(tgt), Ptr):
        tgt = st.deref(tgt)
    st.write(tgt, new)


def M_vec_push(it, ctx, args, st):
    p = args[0]
    v = st.deref(p)
    while isinstance(v, Ptr):
        p, v = v, st.deref(v)
    t = ctx.targs[0] if ctx.targs else None
    if isinstance(v, BStr) or (t is not None and t[0] == 'path' and t[1] == 'u8'):
        if not isinstance(v, BStr):
            st.write(p, bstr(b''))
        bm_append(st, p, BStr((args[1],), bv(1)))
        yield st, UNIT
        return
    st.write(p, Seq(v.items + (args[1],)))
    yield st, UNIT


def M_vec_extend_from_slice(it, ctx, args, st):
    p = args[0]
    v = st.deref(p)
    while isinstance(v, Ptr):
        p, v = v, st.deref(v)
    add = st.deref_all(args[1])
    if isinstance(add, Seq) and add.items and all(z3.is_expr(x) and z3.is_bv(x) and x.size() == 8 for x in add.items):
        add = BStr(tuple(add.items), bv(len(add.items)))
    if isinstance(add, BStr):
        if not isinstance(v, BStr):
            st.write(p, bstr(b''))
        bm_append(st, p, add)
    else:
        st.write(p, Seq(v.items + tuple(add.items)))
    yield st, UNIT


def M_vec_deref(it, ctx, args, st):
    yield st, args[0]


def M_slice_contains(it, ctx, args, st):
    v = seqval(st, args[0])
    x = st.deref(args[1])
    yield st, z3.Or(*[val_eq(st.deref_all(e) if isinstance(e, Ptr) and not isinstance(x, Ptr) else e, x) for e in v.items]) if v.items else z3.BoolVal(False)


# ------------------------------------------------------------------ cells, boxes, Arc
def M_refcell_borrow(it, ctx, args, st):
    yield st, Agg('RefGuard', (Ptr(args[0].addr, args[0].proj + (('f', 0),)),))


def M_guard_deref(it, ctx, args, st):
    g = st.deref(args[0])
    yield st, g.fields[0]


def M_bytes_index_range(it, ctx, args, st):
    """<[u8] as Index<Range*>>::index on a bounded byte slice: every range kind, panicking when out of bounds"""
    s = sval(st, args[0])
    r = args[1]
    k = ctx.callee.key
    if 'RangeToInclusive' in k:
        a, b = bv(0), r.fields[0] + 1
    elif 'RangeInclusive' in k:
        a, b = r.fields[0], r.fields[1] + 1
    elif 'RangeTo' in k:
        a, b = bv(0), r.fields[0]
    elif 'RangeFrom' in k:
        a, b = r.fields[0], s.len
    elif 'RangeFull' in k:
        yield st, args[0]
        return
    else:
        a, b = r.fields[0], r.fields[1]
    for s2, good in fork_bool(it, st, z3.And(z3.ULE(a, b), z3.ULE(b, s.len))):
        if good:
            yield s2, s2.ref(bstr_slice(s, a, b))
        else:
            yield s2, Panic('range index out of range for slice', ctx.fr.fn.name)


def M_slice_split_at(it, ctx, args, st):
    s = sval(st, args[0])
    if not isinstance(s, BStr):
        raise Unsupported('split_at on a non-byte slice')
    mid = args[1]
    for s2, ok in fork_bool(it, st, z3.ULE(mid, s.len)):
        if ok:
            yield s2, Agg('tuple', (s2.ref(bstr_slice(s, bv(0), mid)), s2.ref(bstr_slice(s, mid, s.len))))
        else:
            yield s2, Panic('mid > len in split_at', ctx.fr.fn.name)


def M_str_split_at(it, ctx, args, st):
    """str::split_at(mid): panics unless mid <= len and mid is on a char boundary"""
    s = sval(st, args[0])
    mid = args[1]
    for s2, ok in fork_bool(it, st, z3.And(z3.ULE(mid, s.len), is_char_boundary(s, mid))):
        if ok:
            yield s2, Agg('tuple', (s2.ref(bstr_slice(s, bv(0), mid)), s2.ref(bstr_slice(s, mid, s.len))))
        else:
            yield s2, Panic('str::split_at: mid out of bounds / not on a char boundary', ctx.fr.fn.name)


def M_eq_ignore_ascii_case(it, ctx, args, st):
    """str / [u8] ::eq_ignore_ascii_case: same length and bytes equal after ASCII lower-casing"""
    a, b = sval(st, args[0]), sval(st, args[1])
    low = lambda x: z3.If(z3.And(z3.UGE(x, 65), z3.ULE(x, 90)), x + 32, x)
    n = min(len(a.bytes), len(b.bytes))
    conds = [a.len == b.len, z3.ULE(a.len, bv(n))]
    for k in range(n):
        conds.append(z3.Or(z3.ULE(a.len, bv(k)), low(a.bytes[k]) == low(b.bytes[k])))
    yield st, z3.And(*conds)


def M_str_split_at_checked(it, ctx, args, st):
    """str::split_at_checked(mid): Some((head, tail)) iff mid <= len and mid is on a char boundary"""
    s = sval(st, args[0])
    mid = args[1]
    for s2, ok in fork_bool(it, st, z3.And(z3.ULE(mid, s.len), is_char_boundary(s, mid))):
        if ok:
            yield s2, it.some(Agg('tuple', (s2.ref(bstr_slice(s, bv(0), mid)), s2.ref(bstr_slice(s, mid, s.len)))))
        else:
            yield s2, it.none


def M_iter_zip(it, ctx, args, st):
    a = as_iter(it, st, itval(st, args[0]) if isinstance(args[0], Ptr) else args[0])
    b = args[1]
    b = st.deref_all(b) if isinstance(b, Ptr) else b
    yield st, It('zip2', (a, as_iter(it, st, b)))


def it_next_zip2(it, st, itv, fr):
    kind, src, f, pos, cur = itv.fields
    a, b = src
    for s2, a2, x in it_next(it, st, a, fr):
        if x is None:
            yield s2, It('zip2', (a2, b)), None
            continue
        for s3, b2, y in it_next(it, s2, b, fr):
            if y is None:
                yield s3, It('zip2', (a2, b2)), None
            else:
                yield s3, It('zip2', (a2, b2)), Agg('tuple', (x, y))


EXTRA_ITER_KINDS['zip2'] = it_next_zip2


def it_next_skip(it, st, itv, fr):
    """Iterator::skip(n) with a concrete n: the first next() drops n items (f holds the number still to drop)"""
    kind, src, n, pos, cur = itv.fields
    if n == 0:
        for s2, inner, item in it_next(it, st, src, fr):
            yield s2, It('skip', inner, 0), item
        return
    for s2, inner, item in it_next(it, st, src, fr):
        if item is None or is_abnormal(item):
            yield s2, It('skip', inner, 0), item
        else:
            yield from it_next_skip(it, s2, It('skip', inner, n - 1), fr)


def it_next_take(it, st, itv, fr):
    kind, src, n, pos, cur = itv.fields
    if n == 0:
        yield st, itv, None
        return
    for s2, inner, item in it_next(it, st, src, fr):
        yield s2, It('take', inner, n - 1 if item is not None else 0), item


def it_next_chain(it, st, itv, fr):
    kind, src, f, pos, cur = itv.fields
    a, b = src
    if a is not None:
        for s2, a2, item in it_next(it, st, a, fr):
            if item is not None:
                yield s2, It('chain', (a2, b)), item
            else:
                yield from it_next_chain(it, s2, It('chain', (None, b)), fr)
        return
    for s2, b2, item in it_next(it, st, b, fr):
        yield s2, It('chain', (None, b2)), item


EXTRA_ITER_KINDS.update({'skip': it_next_skip, 'take': it_next_take, 'chain': it_next_chain})


# ---- Peekable<I> over any iterator type (model iterators and harness iterators alike): Agg('Peekable', (inner, peeked)) where
#      peeked is None (nothing buffered) or the buffered Option<Item>
def M_iter_peekable(it, ctx, args, st):
    yield st, Agg('Peekable', (args[0], None))


def _peek_inner_next(it, ctx, p, I, st):
    inner = Ptr(p.addr, p.proj + (('f', 0),))
    yield from it.call_trait(ctx.fr, I, 'std::iter::Iterator', 'next', [], [inner], st)


def _peekable_I(ctx):
    t = strip_refs(ctx.self_ty) if ctx.callee.kind != 'path' else None
    if t is not None and t[0] == 'path' and t[2]:
        return t[2][0]
    ta = ctx.targs
    if ta:
        return ta[0]
    raise Unsupported('Peekable: iterator type not visible at the call')


def M_peekable_peek(it, ctx, args, st):
    p = args[0]
    while isinstance(st.deref(p), Ptr):
        p = st.deref(p)
    pk = st.deref(p)
    I = _peekable_I(ctx)
    cell = Ptr(p.addr, p.proj + (('f', 1),))

    def answer(s, buffered):
        for s2, some in fork_bool(it, s, it.variant_of(buffered, 'Some')):
            if some:
                i = buffered.decl.index['Some']
                yield s2, it.some(Ptr(cell.addr, cell.proj + (('v', i), ('f', 0))))
            else:
                yield s2, it.none
    if pk.fields[1] is not None:
        yield from answer(st, pk.fields[1])
        return
    for s2, r in _peek_inner_next(it, ctx, p, I, st):
        if is_abnormal(r):
            yield s2, r
            continue
        s2.write(cell, r)
        yield from answer(s2, r)


def M_peekable_next(it, ctx, args, st):
    p = args[0]
    while isinstance(st.deref(p), Ptr):
        p = st.deref(p)
    pk = st.deref(p)
    I = _peekable_I(ctx)
    if pk.fields[1] is not None:
        st.write(Ptr(p.addr, p.proj + (('f', 1),)), None)
        yield st, pk.fields[1]
        return
    yield from _peek_inner_next(it, ctx, p, I, st)


def is_peekable(it, ctx, args, st):
    v = args[0]
    v = st.deref_all(v) if isinstance(v, Ptr) else v
    return isinstance(v, Agg) and v.name == 'Peekable'


# ---- TakeWhile<I, P> over any iterator type: Agg('TakeWhile', (inner, pred, done))
def M_iter_take_while(it, ctx, args, st):
    yield st, Agg('TakeWhile', (args[0], args[1], False))


def M_take_while_next(it, ctx, args, st):
    p = args[0]
    while isinstance(st.deref(p), Ptr):
        p = st.deref(p)
    tw = st.deref(p)
    if tw.fields[2]:
        yield st, it.none
        return
    I = _peekable_I(ctx)
    for s2, r in _peek_inner_next(it, ctx, p, I, st):
        if is_abnormal(r):
            yield s2, r
            continue
        for s3, some in fork_bool(it, s2, it.variant_of(r, 'Some')):
            if not some:
                yield s3, it.none
                continue
            item = it.payload(r, 'Some').fields[0]
            for s4, keep in it.call_closure(tw.fields[1], [s3.ref(item)], s3, ctx.fr):
                if is_abnormal(keep):
                    yield s4, keep
                    continue
                for s5, k in fork_bool(it, s4, keep):
                    if k:
                        yield s5, it.some(item)
                    else:
                        s5.write(Ptr(p.addr, p.proj + (('f', 2),)), True)
                        yield s5, it.none


def is_take_while(it, ctx, args, st):
    v = args[0]
    v = st.deref_all(v) if isinstance(v, Ptr) else v
    return isinstance(v, Agg) and v.name == 'TakeWhile'


def M_option_string_as_deref(it, ctx, args, st):
    """Option<String>::as_deref(&self) -> Option<&str>"""
    o = args[0]
    ov = st.deref_all(o) if isinstance(o, Ptr) else o
    for s2, some in fork_bool(it, st, it.variant_of(ov, 'Some')):
        if some:
            yield s2, it.some(s2.ref(sval(s2, it.payload(ov, 'Some').fields[0])))
        else:
            yield s2, it.none


def M_option_or(it, ctx, args, st):
    """Option::or(self, other)"""
    a = args[0]
    for s2, some in fork_bool(it, st, it.variant_of(a, 'Some')):
        yield s2, (a if some else args[1])


def M_iter_skip_take(kind):
    def f(it, ctx, args, st):
        n = concrete(args[1])
        if n is None:
            raise Unsupported(f'Iterator::{kind} with a symbolic count')
        yield st, It(kind, as_iter(it, st, args[0]), n)
    return f


def M_iter_once(it, ctx, args, st):
    yield st, It('list', (args[0],))


def M_iter_chain(it, ctx, args, st):
    yield st, It('chain', (as_iter(it, st, args[0]), as_iter(it, st, args[1])))


def M_iter_last(it, ctx, args, st):
    for s2, items in drain(it, st, as_iter(it, st, args[0]), ctx.fr):
        yield s2, (items if is_abnormal(items) else (it.some(items[-1]) if items else it.none))


def M_iter_nth(it, ctx, args, st):
    n = concrete(args[1])
    if n is None:
        raise Unsupported('Iterator::nth with a symbolic index')
    p = args[0]
    def go(st, itv, k):
        for s2, i2, item in it_next(it, st, itv, ctx.fr):
            if item is None or is_abnormal(item):
                s2.write(p, i2)
                yield s2, (it.none if item is None else item)
            elif k == 0:
                s2.write(p, i2)
                yield s2, it.some(item)
            else:
                yield from go(s2, i2, k - 1)
    yield from go(st, itval(st, p), n)


def M_mem_replace(it, ctx, args, st):
    p = args[0]
    old = st.deref(p)
    st.write(p, args[1])
    yield st, old


def M_mem_take(it, ctx, args, st):
    p = args[0]
    old = st.deref(p)
    T = ctx.gargs[0] if ctx.gargs else None
    if z3.is_expr(old) and z3.is_bool(old):
        st.write(p, z3.BoolVal(False))
    elif z3.is_expr(old) and z3.is_bv(old):
        st.write(p, z3.BitVecVal(0, old.size()))
    elif isinstance(old, BStr):
        st.write(p, bstr(b''))
    elif isinstance(old, Seq):
        st.write(p, Seq(()))
    elif isinstance(old, Enum) and last_seg(old.decl.name) == 'Option':
        st.write(p, it.none)
    else:
        raise Unsupported('mem::take of ' + repr(old)[:60])
    yield st, old


def M_refcell_replace(it, ctx, args, st):
    """RefCell::replace(&self, v) -> old value;  RefCell::take / set likewise (borrow flags are not modelled)"""
    cell = Ptr(args[0].addr, args[0].proj + (('f', 0),))
    old = st.deref(cell)
    st.write(cell, args[1])
    yield st, old


def M_strip_prefix_char(it, ctx, args, st):
    s = sval(st, args[0])
    ch = concrete(args[1])
    if ch is None or ch >= 128:
        raise Unsupported('strip_prefix with a symbolic / non-ASCII char')
    has = z3.And(s.len != 0, (s.bytes[0] == ch) if s.bytes else z3.BoolVal(False))
    for s2, hit in fork_bool(it, st, has):
        yield s2, (it.some(s2.ref(bstr_slice(s, bv(1), s.len))) if hit else it.none)


def M_refcell_new(it, ctx, args, st):
    yield st, Agg('std::cell::RefCell', (args[0],))


def M_box_new_uninit(it, ctx, args, st):
    """Box::<[T; N]>::new_uninit of the vec![..] expansion: MaybeUninit { uninit: (), value: ManuallyDrop(MaybeDangling(<unset>)) }"""
    yield st, box(st, Agg('MaybeUninit', (UNIT, Agg('ManuallyDrop', (Agg('MaybeDangling', (None,)),)))))


def M_box_assume_init_into_vec(it, ctx, args, st):
    arr = unbox(st, args[0]).fields[1].fields[0].fields[0]
    if arr is None:
        raise Unsupported('box_assume_init_into_vec_unsafe of an unset array')
    yield st, arr


def M_box_new(it, ctx, args, st):
    yield st, box(st, args[0])


def box(st, v):
    return Agg('Box', (Agg('Unique', (st.ref(v), UNIT)), UNIT))


def unbox(st, b):
    return st.deref(b.fields[0].fields[0])


def M_arc_new(it, ctx, args, st):
    yield st, Agg('Arc', (st.ref(args[0]),))


def M_arc_deref(it, ctx, args, st):
    a = st.deref(args[0])
    yield st, a.fields[0]


def M_arc_clone(it, ctx, args, st):
    yield st, st.deref(args[0])


def M_box_deref(it, ctx, args, st):
    b = st.deref(args[0])
    yield st, b.fields[0].fields[0]


# ------------------------------------------------------------------ comparisons
def M_ord_reverse(it, ctx, args, st):
    yield st, ordering(-args[0].discr)


def M_ord_then_with(it, ctx, args, st):
    for s2, eq in fork_bool(it, st, args[0].discr == 0):
        if eq:
            yield from it.call_closure(args[1], [], s2, ctx.fr)
        else:
            yield s2, args[0]


def M_ord_then(it, ctx, args, st):
    yield st, ordering(z3.If(args[0].discr == 0, args[1].discr, args[0].discr))


def scalar_cmp(a, b, signed):
    if z3.is_bool(a):
        a, b = z3.If(a, bv(1, 8), bv(0, 8)), z3.If(b, bv(1, 8), bv(0, 8))
        signed = False
    return cmp_terms(a, b, signed)


def M_prim_cmp(it, ctx, args, st):
    t = strip_refs(ctx.self_ty)
    a, b = st.deref_all(args[0]), st.deref_all(args[1])
    if t[0] == 'tuple':
        o = bv(0)
        for x, y, et in reversed(list(zip(a.fields, b.fields, t[2]))):
            o = z3.If(val_eq(x, y), o, scalar_cmp(x, y, et[1].startswith('i')))
        yield st, ordering(o)
        return
    yield st, ordering(scalar_cmp(a, b, t[1].startswith('i')))


def M_prim_eq(it, ctx, args, st):
    yield st, val_eq(st.deref_all(args[0]), st.deref_all(args[1]))


def M_prim_ne(it, ctx, args, st):
    yield st, z3.Not(val_eq(st.deref_all(args[0]), st.deref_all(args[1])))


def M_ref_partial_eq(it, ctx, args, st):
    """impl PartialEq<&B> for &A: eq(&self, other) = PartialEq::eq(*self, *other) (likewise ne)"""
    A, B = ctx.self_ty, (ctx.targs[0] if ctx.targs else ctx.self_ty)
    if A[0] != 'ref' or B[0] != 'ref':
        raise Unsupported('PartialEq on references: unexpected types ' + ty_str(A))
    a, b = st.deref(args[0]), st.deref(args[1])
    if not isinstance(a, Ptr) or not isinstance(b, Ptr):
        raise Unsupported('PartialEq on references: arguments are not references to references')
    yield from it.call_trait(ctx.fr, A[2], 'std::cmp::PartialEq', ctx.callee.method, [], [a, b], st, targs=[B[2]])


def M_bool_then_some(it, ctx, args, st):
    """bool::then_some(v): Some(v) if self else None"""
    for s2, t in fork_bool(it, st, args[0]):
        yield s2, (it.some(args[1]) if t else it.none)


def M_bool_then(it, ctx, args, st):
    """bool::then(f): Some(f()) if self else None"""
    for s2, t in fork_bool(it, st, args[0]):
        if not t:
            yield s2, it.none
            continue
        for s3, r in it.call_closure(args[1], [], s2, ctx.fr):
            yield s3, (r if is_abnormal(r) else it.some(r))


# ---- ordered / hashed maps as association lists: Seq of Agg('tuple', (key, value)) in insertion order (what M_collect builds).
#      Exact for maps of at most one entry and for maps whose keys are pairwise different (callers state which); ordering of the
#      iteration is insertion order, not key order.
def _map_seq(st, p):
    while isinstance(st.deref(p), Ptr):
        p = st.deref(p)
    v = st.deref(p)
    if isinstance(v, Agg) and len(v.fields) == 1 and isinstance(v.fields[0], Seq):
        p, v = Ptr(p.addr, p.proj + (('f', 0),)), v.fields[0]
    if not isinstance(v, Seq):
        raise Unsupported('map model on ' + repr(v)[:60])
    return p, v


def M_map_new(it, ctx, args, st):
    yield st, Seq(())


def M_map_insert(it, ctx, args, st):
    p, v = _map_seq(st, args[0])
    if v.items:
        raise Unsupported('map insert into a non-empty association list (key comparison not modelled)')
    st.write(p, Seq(v.items + (Agg('tuple', (args[1], args[2])),)))
    yield st, it.none


def M_map_len(it, ctx, args, st):
    p, v = _map_seq(st, args[0])
    yield st, bv(len(v.items))


def M_map_is_empty(it, ctx, args, st):
    p, v = _map_seq(st, args[0])
    yield st, z3.BoolVal(not v.items)


def M_map_iter(it, ctx, args, st):
    p, v = _map_seq(st, args[0])
    yield st, It('list', tuple(Agg('tuple', (Ptr(p.addr, p.proj + (('i', i), ('f', 0))), Ptr(p.addr, p.proj + (('i', i), ('f', 1))))) for i in range(len(v.items))))


def M_map_first_key_value(it, ctx, args, st):
    p, v = _map_seq(st, args[0])
    if len(v.items) > 1:
        raise Unsupported('first_key_value of a map with several entries (key order not modelled)')
    yield st, (it.some(Agg('tuple', (Ptr(p.addr, p.proj + (('i', 0), ('f', 0))), Ptr(p.addr, p.proj + (('i', 0), ('f', 1)))))) if v.items else it.none)


def is_seq_map(it, ctx, args, st):
    try:
        _map_seq(st, args[0])
        return True
    except Exception:
        return False


MAPT = r'(?:std|core|alloc)::collections::(?:BTreeMap|HashMap)::<.*>::'


def M_from_iter(it, ctx, args, st):
    """<C as FromIterator<T>>::from_iter(iter)  ==  iter.into_iter().collect::<C>()"""
    ctx2 = type('C', (), {'gargs': [ctx.self_ty], 'fr': ctx.fr, 'callee': ctx.callee, 'self_ty': ctx.self_ty})()
    yield from M_collect(it, ctx2, args, st)


def M_from_identity(it, ctx, args, st):
    yield st, args[0]


def M_option_default(it, ctx, args, st):
    yield st, it.none


def M_usize_min(it, ctx, args, st):
    yield st, z3.If(z3.ULT(args[0], args[1]), args[0], args[1])


# ------------------------------------------------------------------ integer conversions (TryFrom / From), char helpers
def _int_name(t):
    t = strip_refs(t)
    return t[1] if t[0] == 'path' and t[1] in INT_BITS else None


def M_int_try_from(it, ctx, args, st):
    tgt = _int_name(ctx.self_ty)
    src = _int_name(ctx.trait[2][0]) if ctx.trait[2] else None
    if tgt is None or src is None:
        raise Unsupported('TryFrom model: ' + ctx.subst_key())
    v = args[0]
    tw, sw = INT_BITS[tgt], INT_BITS[src]
    ssig, tsig = src[0] == 'i', tgt[0] == 'i'
    W = max(tw, sw) + 1
    wide = z3.SignExt(W - sw, v) if ssig else z3.ZeroExt(W - sw, v)
    lo = -(1 << (tw - 1)) if tsig else 0
    hi = (1 << (tw - 1)) - 1 if tsig else (1 << tw) - 1
    ok = z3.And(wide >= z3.BitVecVal(lo, W), wide <= z3.BitVecVal(hi, W))
    out = z3.Extract(tw - 1, 0, wide)
    errname = 'std::convert::Infallible' if src == tgt else 'std::num::TryFromIntError'
    for s2, good in fork_bool(it, st, ok):
        yield s2, (it.ok(out) if good else it.err(Agg(errname, (UNIT,))))


def M_int_from(it, ctx, args, st):
    tgt = _int_name(ctx.self_ty)
    src = _int_name(ctx.trait[2][0]) if ctx.trait[2] else None
    if tgt is None or src is None:
        raise Unsupported('From model: ' + ctx.subst_key())
    v = args[0]
    tw, sw = INT_BITS[tgt], INT_BITS[src]
    if tw == sw:
        yield st, v
    else:
        yield st, (z3.SignExt(tw - sw, v) if src[0] == 'i' else z3.ZeroExt(tw - sw, v))


def M_int_into(it, ctx, args, st):
    src = _int_name(ctx.self_ty)
    tgt = _int_name(ctx.trait[2][0]) if ctx.trait[2] else None
    if tgt is None or src is None:
        # Into<T> for a repository type: From<Self> for T
        yield from it.call(ctx.fr, f'<{ty_str(ctx.trait[2][0])} as std::convert::From<{ty_str(ctx.self_ty)}>>::from', args, st)
        return
    v = args[0]
    tw, sw = INT_BITS[tgt], INT_BITS[src]
    yield st, (v if tw == sw else (z3.SignExt(tw - sw, v) if src[0] == 'i' else z3.ZeroExt(tw - sw, v)))


def M_try_into(it, ctx, args, st):
    tgt = ctx.trait[2][0]
    yield from it.call(ctx.fr, f'<{ty_str(tgt)} as std::convert::TryFrom<{ty_str(ctx.self_ty)}>>::try_from', args, st)


def M_char_to_digit(it, ctx, args, st):
    c, radix = args
    r = concrete(radix)
    if r != 10:
        raise Unsupported('to_digit with radix != 10')
    isd = z3.And(z3.UGE(c, bv(48, 32)), z3.ULE(c, bv(57, 32)))
    yield st, it.opt(isd, c - bv(48, 32))


def M_u32_pow(it, ctx, args, st):
    base, exp = args
    e = concrete(exp)
    w = base.size()
    if e is None:
        # small symbolic exponent: fork on 0..3
        for s2, i in it.fork_on(st, [exp == k for k in range(0, 4)] + [z3.UGE(exp, 4)]):
            if i == 4:
                raise Unsupported('pow with exponent >= 4 not modelled')
            yield from _pow(it, ctx, base, i, s2)
        return
    yield from _pow(it, ctx, base, e, st)


def _pow(it, ctx, base, e, st):
    w = base.size()
    acc = z3.BitVecVal(1, 2 * w)
    for _ in range(e):
        acc = acc * z3.ZeroExt(w, base)
    ov = z3.Extract(2 * w - 1, w, acc) != 0 if e <= 2 else None
    if ov is None:
        # check overflow stepwise for larger exponents
        ov = z3.BoolVal(False)
        cur = z3.BitVecVal(1, 2 * w)
        for _ in range(e):
            cur = cur * z3.ZeroExt(w, base)
            ov = z3.Or(ov, z3.Extract(2 * w - 1, w, cur) != 0)
            cur = z3.ZeroExt(w, z3.Extract(w - 1, 0, cur))
    for s2, bad in fork_bool(it, st, ov):
        if bad:
            yield s2, Panic('attempt to multiply with overflow', 'pow')
        else:
            yield s2, z3.Extract(w - 1, 0, acc)


def M_f64_is_nan(it, ctx, args, st):
    yield st, z3.fpIsNaN(args[0])


def M_f64_is_infinite(it, ctx, args, st):
    yield st, z3.fpIsInf(args[0])


def M_f64_is_finite(it, ctx, args, st):
    yield st, z3.Not(z3.Or(z3.fpIsInf(args[0]), z3.fpIsNaN(args[0])))


def M_f64_is_sign_negative(it, ctx, args, st):
    yield st, z3.fpIsNegative(args[0]) if not z3.is_fp_value(args[0]) else z3.BoolVal(args[0].isNegative())


def M_f64_is_sign_positive(it, ctx, args, st):
    yield st, z3.fpIsPositive(args[0])



# ------------------------------------------------------------------ str / String slicing (Index<Range*>), with the real panics
def is_char_boundary(s, i):
    """i == len, or the byte at i is not a UTF-8 continuation byte"""
    b = bstr_byte(s, i)
    return z3.Or(i == s.len, i == 0, z3.Not(z3.And(z3.UGE(b, 0x80), z3.ULE(b, 0xbf))))


def M_str_index_range(it, ctx, args, st):
    s = sval(st, args[0])
    r = args[1]
    kind = last_seg(ctx.trait[2][0][1])
    if kind == 'Range':
        a, b = r.fields[0], r.fields[1]
    elif kind == 'RangeFrom':
        a, b = r.fields[0], s.len
    elif kind == 'RangeTo':
        a, b = bv(0), r.fields[0]
    elif kind == 'RangeFull':
        yield st, args[0]
        return
    else:
        raise Unsupported('str index with ' + kind)
    ok = z3.And(z3.ULE(a, b), z3.ULE(b, s.len), is_char_boundary(s, a), is_char_boundary(s, b))
    for s2, good in fork_bool(it, st, ok):
        if good:
            yield s2, s2.ref(bstr_slice(s, a, b))
        else:
            yield s2, Panic('byte index out of range / not a char boundary in str slice', ctx.fr.fn.name)


# ------------------------------------------------------------------ format_args! / format!  (compact template encoding of rustc >= 1.89)
def M_fmt_argument(it, ctx, args, st):
    kind = ctx.callee.segs[-1][0]
    yield st, Agg('FmtArg', (kind, ctx.gargs[0] if ctx.gargs else None, args[0]))


def M_fmt_arguments_new(it, ctx, args, st):
    yield st, Agg('FmtArguments', (args[0], args[1] if len(args) > 1 else None))


def render_display(it, ctx, ty, v, st):
    """Display text of a value as a BStr; only what the repository formats with {}"""
    val = st.deref_all(v) if isinstance(v, Ptr) else v
    if isinstance(val, BStr):
        return val
    if isinstance(val, Agg) and len(val.fields) >= 1 and isinstance(val.fields[0], BStr) and ty is not None and last_seg(strip_refs(ty)[1]) in ('String', 'str'):
        return val.fields[0]
    if z3.is_expr(val) and z3.is_bool(val):
        return BStr(tuple(z3.If(val, z3.BitVecVal(a, 8), z3.BitVecVal(b, 8)) for a, b in zip(b'true\0', b'false')), z3.If(val, bv(4), bv(5)))
    if z3.is_expr(val) and z3.is_bv(val) and ty is not None and strip_refs(ty)[0] == 'path' and strip_refs(ty)[1] in INT_BITS:
        ctx2 = type('C', (), {'self_ty': strip_refs(ty)})()
        outs = list(M_int_to_string(it, ctx2, [val], st))
        return outs[0][1]
    if z3.is_expr(val) and z3.is_fp(val):
        return Agg('DisplayText', (val,))
    raise Unsupported(f'Display of {ty_str(ty) if ty else "?"} inside format! is not modelled')


def M_fmt_format(it, ctx, args, st):
    fa = args[0]
    tmpl = bstr_py(sval(st, fa.fields[0]))
    if tmpl is None:
        raise Unsupported('format! with a symbolic template')
    argv = st.deref_all(fa.fields[1]).items if fa.fields[1] is not None else ()
    out = bstr(b'')
    i = 0
    nexta = 0
    while i < len(tmpl):
        b = tmpl[i]
        if b == 0:
            break
        if b < 0x80:
            out = bstr_concat(out, bstr(tmpl[i + 1:i + 1 + b]))
            i += 1 + b
        elif b == 0x80:
            n = tmpl[i + 1] | (tmpl[i + 2] << 8)
            out = bstr_concat(out, bstr(tmpl[i + 3:i + 3 + n]))
            i += 3 + n
        elif b in (0xc0, 0xc8):
            if b == 0xc8:
                # placeholder with default options and an explicit argument index (u16 LE): named/positional arguments used more than once
                nexta = tmpl[i + 1] | (tmpl[i + 2] << 8)
                i += 2
            a = argv[nexta]
            nexta += 1
            if a.fields[0] != 'new_display':
                raise Unsupported('format! argument kind ' + a.fields[0])
            piece = render_display(it, ctx, a.fields[1], a.fields[2], st)
            if not isinstance(piece, BStr):
                # an opaque Display text (a double): only the template "{}" keeps it whole
                if bstr_py(out) == b'' and (i + 1 >= len(tmpl) or tmpl[i + 1] == 0):
                    yield st, piece
                    return
                raise Unsupported('format! of an opaque Display text inside a longer template')
            out = bstr_concat(out, piece)
            i += 1
        else:
            raise Unsupported(f'format! template opcode {b:#x}')
    yield st, out


def M_fmt_arguments_from_str(it, ctx, args, st):
    s = sval(st, args[0])
    py = bstr_py(s)
    if py is None or len(py) > 127:
        raise Unsupported('Arguments::from_str')
    yield st, Agg('FmtArguments', (st.ref(bstr(bytes([len(py)]) + py + b'\0')), None))


# ------------------------------------------------------------------ awaiting a repository async fn: poll its state machine
def M_poll_async_body(it, ctx, args, st):
    import re as _re
    mt = _re.match(r'<\{async fn body of <(.+)>::(\w+)\(\)\} as ', ctx.callee.key)
    if mt:
        # async fn of a trait impl: <X as Trait<..>>::method  ->  the impl's state machine
        from .parse import top_find as _tf
        from .types import ty_parse as _tp, subst as _sub
        inner = mt.group(1)
        k = _tf(inner, ' as ')
        self_ty = it.canon_ty(ctx.fr.fn.crate, _sub(_tp(inner[:k]), ctx.fr.tenv))
        trait = it.canon_ty(ctx.fr.fn.crate, _sub(_tp(inner[k + 4:]), ctx.fr.tenv))
        tgt = it.dispatch_target(self_ty, trait, mt.group(2), [], list(args), st, ctx)
        if tgt is None or callable(tgt):
            raise Unsupported(f'async body of {inner}::{mt.group(2)}: no impl')
        name, tenv = tgt
        yield from it.invoke(name + '::{closure#0}', list(args), st, tenv, ctx.fr.depth + 1)
        return
    m = _re.match(r'<\{async fn body of ([^<({]+)', ctx.callee.key)
    path = m.group(1).strip()
    crate = ctx.fr.fn.crate
    cands = [n for n in it.p.fns if n.endswith(path + '::{closure#0}') and (n.startswith(crate + '::') or n == path + '::{closure#0}')]
    if not cands:
        # named through a re-export (conjure_http::private::f for conjure_http::private::client::f): same crate, same item name
        segs = path.split('::')
        cands = [n for n in it.p.fns if n.endswith('::' + segs[-1] + '::{closure#0}') and n.split('::')[0] == segs[0]]
    if len(cands) != 1:
        raise Unsupported(f'async body of {path}: {len(cands)} state machines')
    # the callee's generics: bound from the coroutine type's own argument list, in declaration order
    tenv = dict(ctx.fr.tenv)
    mg = _re.match(r'<\{async fn body of [^<({]+<(.*)>\(\)\}', ctx.callee.key)
    if mg:
        names = it.p.fn_generics(cands[0].rsplit('::{closure#0}', 1)[0]) or []
        from .parse import split_top as _st
        from .types import ty_parse as _tp, subst as _sub
        for g, a in zip(names, _st(mg.group(1))):
            tenv[g] = it.canon_ty(crate, _sub(_tp(a), ctx.fr.tenv))
    yield from it.invoke(cands[0], list(args), st, tenv, ctx.fr.depth + 1)


def M_write_fmt_to_buffer(it, ctx, args, st):
    """<BytesMut | String | Vec<u8> as fmt::Write / io::Write>::write_fmt(&mut self, args): the formatted text is appended"""
    for s2, text in M_fmt_format(it, ctx, [args[1]], st):
        if is_abnormal(text):
            yield s2, text
            continue
        if not isinstance(text, BStr):
            raise Unsupported('write_fmt of an opaque Display text into a byte buffer')
        bm_append(s2, args[0], text)
        yield s2, it.ok(UNIT)


def _pinned_coro(st, args):
    p = args[0]
    v = st.deref_all(p.fields[0]) if isinstance(p, Agg) and p.name == 'Pin' and p.fields and isinstance(p.fields[0], Ptr) else None
    from .values import Coro as _Coro
    return v if isinstance(v, _Coro) else None


def _coro_body(it, v):
    """the MIR function of a coroutine value named by its source span ({coroutine@file:l:c: l:c (#0)})"""
    import re as _re
    m = _re.match(r'\{coroutine@(.+?):(\d+):(\d+): (\d+):(\d+)', v.name)
    if not m:
        return None
    want = (m.group(1),) + tuple(int(x) for x in m.groups()[1:])
    c = [n for n, f in it.p.fns.items() if '{closure#' in n and f.span and tuple(f.span) == want]
    return c[0] if len(c) == 1 else None


def is_opaque_async_fn_future(it, ctx, args, st):
    v = _pinned_coro(st, args)
    return v is not None and (v.name.startswith('{async fn body of') or v.name in st.aux.get('coro_body', {}) or _coro_body(it, v) is not None)


def M_poll_opaque_future(it, ctx, args, st):
    """poll of an `impl Future` whose value is the coroutine of a repository async fn: dispatch on that value"""
    v = _pinned_coro(st, args)
    body = st.aux.get('coro_body', {}).get(v.name) or _coro_body(it, v)
    if body is not None:
        tenv = st.aux.get('coro_tenv', {}).get(v.name, dict(ctx.fr.tenv))
        yield from it.invoke(body, list(args), st, tenv, ctx.fr.depth + 1)
        return
    c2 = type('Callee', (), {'key': f'<{v.name} as std::future::Future>::poll'})()
    ctx2 = type('C', (), {'callee': c2, 'fr': ctx.fr})()
    yield from M_poll_async_body(it, ctx2, args, st)


def M_char_to_string(it, ctx, args, st):
    c = args[0] if not isinstance(args[0], Ptr) else st.deref_all(args[0])
    if not it.feasible(st, z3.ULT(c, 128)) or it.feasible(st, z3.UGE(c, 128)):
        raise Unsupported('char::to_string of a possibly non-ASCII char (UTF-8 encoding not modelled)')
    yield st, BStr((z3.Extract(7, 0, c),), bv(1))


def M_float_from(it, ctx, args, st):
    tgt = strip_refs(ctx.self_ty)[1]
    v = args[0]
    so = z3.Float64() if tgt == 'f64' else z3.Float32()
    if z3.is_fp(v):
        yield st, z3.fpFPToFP(z3.RNE(), v, so)
    elif z3.is_bv(v):
        src = ctx.trait[2][0][1]
        yield st, (z3.fpSignedToFP(z3.RNE(), v, so) if src[0] == 'i' else z3.fpUnsignedToFP(z3.RNE(), v, so))
    else:
        raise Unsupported('float From of ' + repr(v)[:60])

P = r'(?:std|core|alloc)::'
OPT = P + r'option::Option::<.*>::'
RES = P + r'result::Result::<.*>::'
ITER = r'<.* as ' + P + r'iter::Iterator>::'

MODELS = [
    (OPT + r'map::<.*>', M_opt_map), (OPT + r'and_then::<.*>', M_opt_and_then), (OPT + r'or_else::<.*>', M_opt_or_else),
    (OPT + r'filter::<.*>', M_opt_filter), (OPT + r'ok_or_else::<.*>', M_opt_ok_or_else), (OPT + r'ok_or::<.*>', M_opt_ok_or),
    (OPT + r'unwrap_or', M_opt_unwrap_or), (OPT + r'unwrap_or_default', M_opt_unwrap_or_default), (OPT + r'unwrap_or_else::<.*>', M_opt_unwrap_or_else), (OPT + r'map_or::<.*>', M_opt_map_or), (OPT + r'map_or_else::<.*>', M_map_or_else), (RES + r'map_or_else::<.*>', M_map_or_else),
    (OPT + r'(unwrap|expect)', M_opt_unwrap), (RES + r'(unwrap|expect)', M_opt_unwrap),
    (RES + r'(unwrap_err|expect_err)', M_res_unwrap_err), (OPT + r'(is_some_and|is_none_or)::<.*>', M_is_some_and), (RES + r'(is_ok_and|is_err_and)::<.*>', M_is_some_and),
    (P + r'ops::RangeInclusive::<.*>::new', M_range_inclusive_new), (P + r'ops::(?:range::)?Range(?:Inclusive)?::<.*>::contains::<.*>', M_range_contains),
    (r'<u8 as ' + P + r'convert::TryFrom<char>>::try_from', M_u8_try_from_char),
    (r'<&*' + P + r'(?:result::Result|option::Option)<.*> as ' + P + r'iter::IntoIterator>::into_iter', M_res_into_iter, lambda it, ctx, args, st: isinstance(args[0], Enum) or (isinstance(args[0], Ptr) and isinstance(st.deref_all(args[0]), Enum))),
    (r'<(?:[iu](?:8|16|32|64|128|size)|f64|f32|bool) as ' + P + r'str::FromStr>::from_str', M_from_str_trait),
    (P + r'str::<impl str>::split_once::<char>', M_str_split_once_char),
    (P + r'str::<impl str>::split_once::<&str>', M_str_split_once_str),
    (r'<(?:bytes::BytesMut|' + P + r'string::String|' + P + r'vec::Vec<u8>) as ' + P + r'(?:fmt|io)::Write>::write_fmt', M_write_fmt_to_buffer),
    (r'<\(?dyn ' + P + r'error::Error[^>]*\)?>::is::<.*>', M_dyn_error_is),
    (P + r'slice::<impl \[.*\]>::first', M_slice_first_last(False)), (P + r'slice::<impl \[.*\]>::last', M_slice_first_last(True)),
    (P + r'str::<impl str>::find::<(?:&str|char)>', M_str_find(False)), (P + r'str::<impl str>::rfind::<(?:&str|char)>', M_str_find(True)),
    (P + r'str::<impl str>::starts_with::<char>', M_str_starts_ends_with_char(False)), (P + r'str::<impl str>::ends_with::<char>', M_str_starts_ends_with_char(True)),
    (P + r'str::<impl str>::starts_with::<&str>', M_str_starts_with_str), (P + r'str::<impl str>::ends_with::<&str>', M_str_ends_with_str),
    (P + r'slice::<impl \[u8\]>::starts_with', M_str_starts_with_str), (P + r'slice::<impl \[u8\]>::ends_with', M_str_ends_with_str),
    (ITER + r'take_while::<.*>', M_iter_take_while), (r'<' + P + r'iter::TakeWhile<.*> as ' + P + r'iter::Iterator>::next', M_take_while_next, is_take_while),
    (P + r'option::Option::<(?:std|alloc)::string::String>::as_deref', M_option_string_as_deref),
    (P + r'option::Option::<.*>::or', M_option_or),
    (ITER + r'peekable', M_iter_peekable), (P + r'iter::Peekable::<.*>::peek', M_peekable_peek, is_peekable),
    (r'<' + P + r'iter::Peekable<.*> as ' + P + r'iter::Iterator>::next', M_peekable_next, is_peekable),
    (ITER + r'skip', M_iter_skip_take('skip')), (ITER + r'take', M_iter_skip_take('take')), (ITER + r'chain::<.*>', M_iter_chain),
    (ITER + r'last', M_iter_last), (ITER + r'nth', M_iter_nth),
    (P + r'iter::once::<.*>', M_iter_once),
    (ITER + r'partition::<.*>', M_partition),
    (ITER + r'for_each::<.*>', M_for_each), (ITER + r'rposition::<.*>', M_rposition),
    (r'<' + P + r'cmp::Ordering as ' + P + r'cmp::PartialEq>::(eq|ne)', M_ordering_eq),
    (r'<\(.*\) as ' + P + r'cmp::PartialOrd>::(lt|le|gt|ge)', M_partial_ord_cmpop),
    (P + r'string::String::with_capacity|' + P + r'string::String::new', M_string_with_capacity), (P + r'string::String::push_str', M_string_push_str), (P + r'string::String::clear', M_string_clear),
    (r'<' + P + r'iter::(?:TakeWhile|Peekable)<.*> as ' + P + r'iter::IntoIterator>::into_iter', lambda it, ctx, args, st: iter([(st, args[0])])),
    (P + r'collections::BTreeSet::<' + P + r'string::String>::contains::<str>', M_btreeset_contains_str),
    (OPT + r'is_some', M_opt_is_some), (OPT + r'is_none', M_opt_is_none), (OPT + r'as_ref', M_opt_as_ref),
    (OPT + r'(cloned|copied)', M_opt_cloned), (OPT + r'take', M_opt_take), (OPT + r'transpose', M_opt_transpose),
    (RES + r'map_err::<.*>', M_res_map_err), (RES + r'map::<.*>', M_res_map), (RES + r'and_then::<.*>', M_res_and_then),
    (RES + r'ok', M_res_ok), (RES + r'is_ok', M_res_is_ok), (RES + r'is_err', M_res_is_err),
    (r'<.* as ' + P + r'ops::Try>::branch', M_try_branch),
    (r'<.* as ' + P + r'ops::FromResidual<.*>>::from_residual', M_from_residual),
    (r'<.* as ' + P + r'ops::FnOnce<.*>>::call_once', M_call_once),
    (r'<.* as ' + P + r'ops::FnMut<.*>>::call_mut', M_call_once),
    (r'<.* as ' + P + r'ops::Fn<.*>>::call', M_call_once),
    (P + r'str::<impl str>::len', M_str_len), (P + r'str::<impl str>::is_empty', M_str_is_empty),
    (P + r'str::<impl str>::as_bytes', M_str_as_bytes), (P + r'str::<impl str>::trim_end_matches::<char>', M_trim_end_matches_char),
    (P + r'str::<impl str>::contains::<char>', M_str_contains_char),
    (P + r'str::<impl str>::parse::<.*>', M_str_parse), (P + r'str::<impl str>::chars', M_chars), (P + r'str::Chars::as_str', M_chars_as_str),
    (r'<&*(?:' + P + r'string::String|str) as ' + P + r'cmp::PartialEq(<&*(?:' + P + r'string::String|str)>)?>::eq', M_str_eq),
    (r'<&*(?:' + P + r'string::String|str) as ' + P + r'cmp::PartialEq(<&*(?:' + P + r'string::String|str)>)?>::ne', M_str_ne),
    (r'<&?str as ' + P + r'cmp::PartialEq(<&?str>)?>::eq', M_str_eq),
    (r'<' + P + r'string::String as ' + P + r'cmp::PartialEq(<.*>)?>::eq', M_str_eq),
    (r'<&?str as ' + P + r'(string::ToString|borrow::ToOwned)>::(to_string|to_owned)', M_to_owned_str),
    (r'<' + P + r'string::String as ' + P + r'(string::ToString|clone::Clone)>::(to_string|clone)', M_to_owned_str),
    (r'<' + P + r'string::String as ' + P + r'convert::From<&str>>::from', M_to_owned_str),
    (r'<' + P + r'string::String as ' + P + r'ops::Deref>::deref', M_string_deref),
    (P + r'string::String::as_str', M_string_deref), (P + r'string::String::into_boxed_str', M_string_into),
    (P + r'string::String::len', M_str_len), (P + r'string::String::is_empty', M_str_is_empty),
    (r'<' + P + r'string::String as ' + P + r'str::FromStr>::from_str', M_string_from_str),
    (ITER + r'cloned::<.*>', M_adaptor('cloned')), (ITER + r'copied::<.*>', M_adaptor('cloned')),
    (ITER + r'map::<.*>', M_adaptor('map')), (ITER + r'filter::<.*>', M_adaptor('filter')),
    (ITER + r'filter_map::<.*>', M_adaptor('filter_map')), (ITER + r'flat_map::<.*>', M_adaptor('flat_map')),
    (ITER + r'enumerate', M_adaptor('enumerate')), (ITER + r'rev', M_iter_rev),
    (r'<.* as ' + P + r'iter::FromIterator<.*>>::from_iter::<.*>', M_from_iter),
    (MAPT + r'new', M_map_new), (MAPT + r'insert', M_map_insert, is_seq_map), (MAPT + r'len', M_map_len, is_seq_map), (MAPT + r'is_empty', M_map_is_empty, is_seq_map),
    (MAPT + r'iter', M_map_iter, is_seq_map), (MAPT + r'first_key_value', M_map_first_key_value, is_seq_map),
    (P + r'bool::<impl bool>::then_some::<.*>', M_bool_then_some), (P + r'bool::<impl bool>::then::<.*>', M_bool_then),
    (ITER + r'collect::<.*>', M_collect), (ITER + r'count', M_count), (ITER + r'all::<.*>', M_all), (ITER + r'any::<.*>', M_any),
    (ITER + r'find_map::<.*>', M_find_map),
    (ITER + r'find::<.*>', M_find), (ITER + r'position::<.*>', M_position),
    (P + r'char::methods::<impl char>::encode_utf8', M_char_encode_utf8), (P + r'char::methods::<impl char>::len_utf8', M_char_len_utf8),
    (P + r'str::<impl str>::bytes', M_str_bytes), (P + r'str::<impl str>::split::<char>', M_str_split_char_real),
    (P + r'str::<impl str>::strip_suffix::<char>', M_strip_suffix_char),
    (P + r'str::<impl str>::splitn::<&str>', M_str_splitn_str), (P + r'slice::<impl \[.*\]>::split_first', M_split_first),
    (P + r'char::methods::<impl char>::is_ascii_lowercase', M_char_class('is_ascii_lowercase')),
    (P + r'char::methods::<impl char>::is_ascii_uppercase', M_char_class('is_ascii_uppercase')),
    (P + r'char::methods::<impl char>::is_ascii_digit', M_char_class('is_ascii_digit')),
    (P + r'char::methods::<impl char>::is_ascii_alphabetic', M_char_class('is_ascii_alphabetic')),
    (P + r'char::methods::<impl char>::is_ascii_alphanumeric', M_char_class('is_ascii_alphanumeric')),
    (P + r'char::methods::<impl char>::is_ascii', M_char_class('is_ascii')),
    (P + r'char::methods::<impl char>::is_ascii_hexdigit', M_char_class('is_ascii_hexdigit')),
    (P + r'char::methods::<impl char>::is_ascii_whitespace', M_char_class('is_ascii_whitespace')),
    (P + r'char::methods::<impl char>::is_ascii_punctuation', M_char_class('is_ascii_punctuation')),
    (P + r'char::methods::<impl char>::is_ascii_graphic', M_char_class('is_ascii_graphic')),
    (P + r'char::methods::<impl char>::is_ascii_control', M_char_class('is_ascii_control')),
    (P + r'char::methods::<impl char>::is_alphabetic', M_char_class('is_alphabetic')),
    (P + r'char::methods::<impl char>::is_numeric', M_char_class('is_numeric')),
    (P + r'char::methods::<impl char>::is_alphanumeric', M_char_class('is_alphanumeric')),
    (P + r'char::methods::<impl char>::is_whitespace', M_char_class('is_whitespace')),
    (P + r'char::methods::<impl char>::is_uppercase', M_char_class('is_uppercase')),
    (P + r'char::methods::<impl char>::is_lowercase', M_char_class('is_lowercase')),
    (P + r'char::methods::<impl char>::is_control', M_char_class('is_control')),
    (P + r'num::<impl u8>::is_ascii_lowercase', M_u8_class('is_ascii_lowercase')),
    (P + r'num::<impl u8>::is_ascii_uppercase', M_u8_class('is_ascii_uppercase')),
    (P + r'num::<impl u8>::is_ascii_digit', M_u8_class('is_ascii_digit')),
    (P + r'num::<impl u8>::is_ascii_alphabetic', M_u8_class('is_ascii_alphabetic')),
    (P + r'num::<impl u8>::is_ascii_alphanumeric', M_u8_class('is_ascii_alphanumeric')),
    (P + r'num::<impl u8>::is_ascii_hexdigit', M_u8_class('is_ascii_hexdigit')),
    (P + r'num::<impl u8>::is_ascii_whitespace', M_u8_class('is_ascii_whitespace')),
    (P + r'num::<impl u8>::is_ascii_punctuation', M_u8_class('is_ascii_punctuation')),
    (P + r'num::<impl u8>::is_ascii_graphic', M_u8_class('is_ascii_graphic')),
    (P + r'num::<impl u8>::is_ascii_control', M_u8_class('is_ascii_control')),
 (P + r'str::<impl str>::trim', M_str_trim), (P + r'str::<impl str>::trim_start', M_str_trim_side('start')), (P + r'str::<impl str>::trim_end', M_str_trim_side('end')), (ITER + r'fold::<.*>', M_fold), (ITER + r'try_fold::<.*>', M_try_fold),
    (ITER + r'max_by::<.*>', M_max_by),
    (ITER + r'max_by_key::<.*>', M_max_by_key), (ITER + r'min_by_key::<.*>', lambda it, ctx, args, st: M_max_by_key(it, ctx, args, st, True)),
    (r'<' + P + r'(slice::Iter|iter::\w+|str::Chars|vec::IntoIter|collections::btree_set::Iter|collections::btree_map::Iter)<.*> as ' + P + r'iter::Iterator>::next', M_iter_next),
    (r'<.* as ' + P + r'iter::Iterator>::next', M_iter_next, lambda it, ctx, args, st: is_model_iter(st, args[0])),
    (r'<.* as ' + P + r'iter::IntoIterator>::into_iter', M_into_iter, lambda it, ctx, args, st: is_model_iter(st, args[0]) or is_seq_ptr(st, args[0])),
    (P + r'slice::<impl \[.*\]>::iter', M_slice_iter), (P + r'slice::<impl \[.*\]>::sort_by::<.*>', M_sort_by), (P + r'slice::<impl \[.*\]>::sort_by_key::<.*>', M_sort_by_key), (P + r'slice::<impl \[.*\]>::sort_by_cached_key::<.*>', M_sort_by_cached_key),
    (P + r'slice::<impl \[.*\]>::len', M_vec_len), (P + r'slice::<impl \[.*\]>::is_empty', M_vec_is_empty),
    (P + r'slice::<impl \[.*\]>::contains', M_slice_contains),
    (P + r'collections::BTreeSet::<.*>::iter', M_slice_iter), (P + r'collections::HashMap::<.*>::values', M_slice_iter),
    (P + r'vec::Vec::<.*>::(?:new|with_capacity)', M_vec_new), (P + r'vec::Vec::<.*>::extend_from_slice', M_vec_extend_from_slice), (P + r'vec::Vec::<.*>::len', M_vec_len), (P + r'vec::Vec::<.*>::is_empty', M_vec_is_empty),
    (P + r'vec::Vec::<.*>::push', M_vec_push),
    (r'<' + P + r'vec::Vec<.*> as ' + P + r'ops::Deref(Mut)?>::deref(_mut)?', M_vec_deref),
    (P + r'cell::RefCell::<.*>::borrow(_mut)?', M_refcell_borrow), (P + r'cell::RefCell::<.*>::new', M_refcell_new), (P + r'cell::RefCell::<.*>::replace', M_refcell_replace), (P + r'mem::replace::<.*>', M_mem_replace), (P + r'mem::take::<.*>', M_mem_take), (P + r'slice::<impl \[u8\]>::split_at', M_slice_split_at), (P + r'str::<impl str>::split_at_checked', M_str_split_at_checked), (P + r'str::<impl str>::split_at', M_str_split_at), (P + r'(?:str::<impl str>|slice::ascii::<impl \[u8\]>)::eq_ignore_ascii_case', M_eq_ignore_ascii_case), (ITER + r'zip::<.*>', M_iter_zip), (r'<\[u8\] as ' + P + r'ops::Index<' + P + r'ops::Range\w*(?:<usize>)?>>::index', M_bytes_index_range), (P + r'str::<impl str>::strip_prefix::<char>', M_strip_prefix_char),
    (r'<' + P + r'cell::Ref(Mut)?<.*> as ' + P + r'ops::Deref(Mut)?>::deref(_mut)?', M_guard_deref),
    (P + r'boxed::Box::<.*>::new_uninit', M_box_new_uninit), (P + r'boxed::box_assume_init_into_vec_unsafe::<.*>', M_box_assume_init_into_vec),
    (P + r'boxed::Box::<.*>::new', M_box_new), (P + r'sync::Arc::<.*>::new', M_arc_new),
    (r'<' + P + r'sync::Arc<.*> as ' + P + r'ops::Deref>::deref', M_arc_deref),
    (r'<' + P + r'sync::Arc<.*> as ' + P + r'clone::Clone>::clone', M_arc_clone),
    (r'<' + P + r'boxed::Box<.*> as ' + P + r'ops::Deref(Mut)?>::deref(_mut)?', M_box_deref),
    (P + r'cmp::Ordering::reverse', M_ord_reverse), (P + r'cmp::Ordering::then_with::<.*>', M_ord_then_with),
    (P + r'cmp::Ordering::then', M_ord_then),
    (r'<&?(?:[iu](?:8|16|32|64|128|size)|bool|char|\(.*\)) as ' + P + r'cmp::Ord>::cmp', M_prim_cmp),
    (r'<&?(?:[iu](?:8|16|32|64|128|size)|bool|char) as ' + P + r'cmp::PartialEq(<.*>)?>::eq', M_prim_eq),
    (r'<&?(?:[iu](?:8|16|32|64|128|size)|bool|char) as ' + P + r'cmp::PartialEq(<.*>)?>::ne', M_prim_ne),
    (P + r'cmp::min::<usize>|<usize as ' + P + r'cmp::Ord>::min|' + P + r'cmp::Ord::min', M_usize_min),
    (r'<[iu](?:8|16|32|64|128|size) as ' + P + r'convert::TryFrom<[iu](?:8|16|32|64|128|size)>>::try_from', M_int_try_from),
    (r'<[iu](?:8|16|32|64|128|size) as ' + P + r'convert::From<[iu](?:8|16|32|64|128|size)>>::from', M_int_from),
    (r'<[iu](?:8|16|32|64|128|size) as ' + P + r'convert::Into<[iu](?:8|16|32|64|128|size)>>::into', M_int_into),
    (r'<.* as ' + P + r'convert::TryInto<.*>>::try_into', M_try_into),
    (r'<.* as ' + P + r'convert::Into<.*>>::into', M_int_into),
    (P + r'char::methods::<impl char>::to_digit', M_char_to_digit), (P + r'num::<impl u32>::pow', M_u32_pow),
    (P + r'f(?:64|32)::<impl f(?:64|32)>::is_nan|' + P + r'num::<impl f(?:64|32)>::is_nan', M_f64_is_nan),
    (P + r'f(?:64|32)::<impl f(?:64|32)>::is_infinite|' + P + r'num::<impl f(?:64|32)>::is_infinite', M_f64_is_infinite),
    (P + r'f(?:64|32)::<impl f(?:64|32)>::is_finite|' + P + r'num::<impl f(?:64|32)>::is_finite', M_f64_is_finite),
    (P + r'f(?:64|32)::<impl f(?:64|32)>::is_sign_negative|' + P + r'num::<impl f(?:64|32)>::is_sign_negative', M_f64_is_sign_negative),
    (P + r'f(?:64|32)::<impl f(?:64|32)>::is_sign_positive|' + P + r'num::<impl f(?:64|32)>::is_sign_positive', M_f64_is_sign_positive),
    (r'<[iu](?:8|16|32|64|128|size) as ' + P + r'clone::Clone>::clone|<bool as ' + P + r'clone::Clone>::clone', M_clone),
    (r'<(?:&.*|' + P + r'(?:option::Option|result::Result|vec::Vec|string::String|boxed::Box|collections::\w+)<?.*>?) as ' + P + r'clone::Clone>::clone', M_clone),
    (r'<' + P + r'option::Option<.*> as ' + P + r'default::Default>::default', M_option_default),
    (r'<&.* as ' + P + r'cmp::PartialEq(?:<&.*>)?>::(?:eq|ne)', M_ref_partial_eq, lambda it, ctx, args, st: ctx.self_ty[0] == 'ref' and strip_refs(ctx.self_ty)[0] == 'path' and strip_refs(ctx.self_ty)[1] not in INT_BITS and last_seg(strip_refs(ctx.self_ty)[1]) not in ('str', 'String', 'bool', 'char', 'Option')),
    (r'<(bool|char|f32|f64|[iu](?:8|16|32|64|128|size)|' + P + r'string::String) as ' + P + r'convert::From<\1>>::from', M_from_identity),
    (r'<' + P + r'string::String as ' + P + r'convert::From<char>>::from', M_char_to_string),
    (r'<' + P + r'option::Option<.*> as ' + P + r'cmp::PartialEq>::eq', M_prim_eq), (r'<' + P + r'option::Option<.*> as ' + P + r'cmp::PartialEq>::ne', M_prim_ne),
    (r'<\{async fn body of .*\} as (?:futures_core|std::future|core::future)::Future>::poll', M_poll_async_body),
    (r'<impl .*Future<.*>.* as (?:futures_core|std::future|core::future)::Future>::poll', M_poll_opaque_future, is_opaque_async_fn_future),
    (r'<' + P + r'boxed::Box<dyn .*> as ' + P + r'convert::From<.*>>::from', M_identity),
    (P + r'iter::empty::<.*>', lambda it, ctx, args, st: iter([(st, It('list', ()))])),
    (r'<char as ' + P + r'string::ToString>::to_string', M_char_to_string),
    (r'<[iu](?:8|16|32|64|size) as ' + P + r'string::ToString>::to_string', M_int_to_string),
    (r'<f(?:64|32) as ' + P + r'convert::From<(?:f32|f64|[iu](?:8|16|32))>>::from', M_float_from),
    (P + r'mem::drop::<.*>', M_unit),
    (r'<(?:' + P + r'string::String|str) as ' + P + r'ops::Index<' + P + r'ops::Range\w*(<usize>)?>>::index', M_str_index_range),
    (P + r'fmt::rt::Argument::<.*>::new_\w+::<.*>|' + P + r'fmt::rt::Argument::new_\w+::<.*>', M_fmt_argument),
    (P + r'fmt::Arguments::<.*>::new::<.*>|' + P + r'fmt::Arguments::new::<.*>', M_fmt_arguments_new),
    (P + r'fmt::Arguments::<.*>::from_str(_nonconst)?|' + P + r'fmt::Arguments::from_str(_nonconst)?', M_fmt_arguments_from_str),
    (P + r'fmt::format', M_fmt_format), (P + r'hint::must_use::<.*>', M_identity),
    (P + r'convert::identity::<.*>', M_identity),
]
