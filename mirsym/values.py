"""Immutable symbolic values of the MIR interpreter, and structural helpers (projection, update, merge, equality)."""
import collections
import z3
from .parse import Unsupported

Agg = collections.namedtuple('Agg', 'name fields')            # struct / tuple / closure environment / model object
Enum = collections.namedtuple('Enum', 'decl discr payloads')  # payloads: tuple[(variant index, Agg)], discr: BV64 (discriminant value)
Ptr = collections.namedtuple('Ptr', 'addr proj')              # proj: tuple of ('f',i) | ('v',idx) | ('i',k)
Seq = collections.namedtuple('Seq', 'items')                  # Vec / slice / array with concrete length
BStr = collections.namedtuple('BStr', 'bytes len')            # bounded byte string: K symbolic bytes + symbolic length (BV64)
FnItem = collections.namedtuple('FnItem', 'name')
Coro = collections.namedtuple('Coro', 'name discr upvars slots')   # slots: tuple of (j, value)
UNIT = Agg('()', ())


class Panic:
    def __init__(self, msg, where=''):
        self.msg, self.where = msg, where

    def __repr__(self):
        return f'Panic({self.msg!r} @ {self.where})'


class Unwind:
    """loop bound reached on a feasible path: the run is inconclusive for that path"""
    def __init__(self, where):
        self.where = where

    def __repr__(self):
        return f'Unwind({self.where})'


def bv(n, w=64):
    return z3.BitVecVal(n, w)


def is_abnormal(v):
    return isinstance(v, (Panic, Unwind))


def concrete(v):
    """python int of a z3 value if it simplifies to a numeral, else None"""
    if isinstance(v, int):
        return v
    if z3.is_bv(v):
        s = z3.simplify(v)
        if z3.is_bv_value(s):
            return s.as_long()
    if z3.is_bool(v):
        s = z3.simplify(v)
        if z3.is_true(s):
            return True
        if z3.is_false(s):
            return False
    return None


def bstr(py):
    if isinstance(py, str):
        py = py.encode()
    return BStr(tuple(z3.BitVecVal(b, 8) for b in py), bv(len(py)))


def bstr_py(s):
    """python bytes if the whole string is concrete, else None"""
    n = concrete(s.len)
    if n is None:
        return None
    out = []
    for i in range(n):
        if i >= len(s.bytes):
            return None
        b = concrete(s.bytes[i])
        if b is None:
            return None
        out.append(b)
    return bytes(out)


def bstr_byte(s, i):
    """byte at symbolic/concrete index i (0 beyond capacity)"""
    ci = concrete(i)
    if ci is not None:
        return s.bytes[ci] if ci < len(s.bytes) else z3.BitVecVal(0, 8)
    v = z3.BitVecVal(0, 8)
    for k in range(len(s.bytes) - 1, -1, -1):
        v = z3.If(i == bv(k), s.bytes[k], v)
    return v


def bstr_eq(a, b):
    conds = [a.len == b.len]
    K = max(len(a.bytes), len(b.bytes))
    for k in range(K):
        x = a.bytes[k] if k < len(a.bytes) else z3.BitVecVal(0, 8)
        y = b.bytes[k] if k < len(b.bytes) else z3.BitVecVal(0, 8)
        conds.append(z3.Or(z3.UGE(bv(k), a.len), x == y))
    # lengths beyond the capacity of either side cannot be equal to an in-capacity string
    conds.append(z3.ULE(a.len, bv(len(a.bytes))))
    conds.append(z3.ULE(b.len, bv(len(b.bytes))))
    return z3.And(*conds)


def bstr_concat(a, b):
    K = len(a.bytes) + len(b.bytes)
    out = []
    for i in range(K):
        v = z3.BitVecVal(0, 8)
        for j in range(len(b.bytes) - 1, -1, -1):
            v = z3.If(bv(i) - a.len == bv(j), b.bytes[j], v)
        if i < len(a.bytes):
            v = z3.If(z3.ULT(bv(i), a.len), a.bytes[i], v)
        out.append(z3.simplify(v))
    return BStr(tuple(out), z3.simplify(a.len + b.len))


def bstr_slice(s, start, end):
    """s[start..end] with symbolic bounds (caller has established start <= end <= len)"""
    cs = concrete(start)
    out = []
    for i in range(len(s.bytes)):
        if cs is not None:
            out.append(s.bytes[cs + i] if cs + i < len(s.bytes) else z3.BitVecVal(0, 8))
        else:
            out.append(z3.simplify(bstr_byte(s, start + bv(i))))
    return BStr(tuple(out), z3.simplify(end - start))


def project(v, proj):
    for idx, (kind, k) in enumerate(proj):
        if isinstance(v, Coro):
            if kind == 'v':
                continue
            if kind == 'f':
                if idx > 0 and proj[idx - 1][0] == 'v':
                    v = dict(v.slots).get(k)
                else:
                    v = v.upvars[k]
                continue
        if kind == 'f':
            if not isinstance(v, Agg):
                raise Unsupported(f'field .{k} of non-aggregate {v!r:.200}')
            if k >= len(v.fields):
                raise Unsupported(f'field .{k} of {v.name} with {len(v.fields)} fields')
            v = v.fields[k]
        elif kind == 'v':
            if not isinstance(v, Enum):
                raise Unsupported(f'downcast of non-enum {v!r:.200}')
            for i, p in v.payloads:
                if i == k:
                    v = p
                    break
            else:
                raise Unsupported(f'downcast to variant {k} of {v.decl} holding {[i for i, _ in v.payloads]}')
        elif kind == 'i':
            if isinstance(v, BStr):
                v = v.bytes[k]
            else:
                v = v.items[k]
    return v


def update(v, proj, new):
    if not proj:
        return new
    (kind, k), rest = proj[0], proj[1:]
    if isinstance(v, Coro):
        if kind == 'v':
            (_, j), rest2 = proj[1], proj[2:]
            sl = dict(v.slots)
            sl[j] = update(sl.get(j), rest2, new)
            return Coro(v.name, v.discr, v.upvars, tuple(sorted(sl.items())))
        up = list(v.upvars)
        up[k] = update(up[k], rest, new)
        return Coro(v.name, v.discr, tuple(up), v.slots)
    if kind == 'f':
        if v is None:
            raise Unsupported('field write into uninitialised aggregate')
        fs = list(v.fields)
        fs[k] = update(fs[k], rest, new)
        return Agg(v.name, tuple(fs))
    if kind == 'v':
        return Enum(v.decl, v.discr, tuple((i, update(p, rest, new) if i == k else p) for i, p in v.payloads))
    if kind == 'i':
        if isinstance(v, BStr):
            bs = list(v.bytes)
            bs[k] = update(bs[k], rest, new)
            return BStr(tuple(bs), v.len)
        it = list(v.items)
        it[k] = update(it[k], rest, new)
        return Seq(tuple(it))
    raise Unsupported('update ' + kind)


def merge_val(c, a, b):
    """ite(c, a, b) structurally; raises Unsupported if shapes differ"""
    if a is b:
        return a
    if isinstance(a, Enum) and isinstance(b, Enum) and a.decl is b.decl:
        pa, pb = dict(a.payloads), dict(b.payloads)
        out = []
        for i in sorted(set(pa) | set(pb)):
            if i in pa and i in pb:
                out.append((i, merge_val(c, pa[i], pb[i])))
            else:
                out.append((i, pa.get(i, pb.get(i))))
        return Enum(a.decl, z3.If(c, a.discr, b.discr), tuple(out))
    if isinstance(a, Agg) and isinstance(b, Agg) and a.name == b.name and len(a.fields) == len(b.fields):
        return Agg(a.name, tuple(merge_val(c, x, y) for x, y in zip(a.fields, b.fields)))
    if isinstance(a, Seq) and isinstance(b, Seq) and len(a.items) == len(b.items):
        return Seq(tuple(merge_val(c, x, y) for x, y in zip(a.items, b.items)))
    if isinstance(a, BStr) and isinstance(b, BStr):
        K = max(len(a.bytes), len(b.bytes))
        z = z3.BitVecVal(0, 8)
        return BStr(tuple(z3.If(c, a.bytes[k] if k < len(a.bytes) else z, b.bytes[k] if k < len(b.bytes) else z) for k in range(K)),
                    z3.If(c, a.len, b.len))
    if z3.is_expr(a) and z3.is_expr(b) and a.sort() == b.sort():
        return z3.If(c, a, b)
    if isinstance(a, Ptr) and isinstance(b, Ptr) and a == b:
        return a
    if a is None or b is None:
        return a if b is None else b          # one side never initialised the cell: dead on that side
    try:
        if a == b:
            return a
    except Exception:
        pass
    raise Unsupported(f'merge of {type(a).__name__}/{type(b).__name__}: {a!r:.80} vs {b!r:.80}')


def val_eq(a, b):
    """structural equality of two values as a z3 Bool"""
    if isinstance(a, Enum) and isinstance(b, Enum):
        conds = [a.discr == b.discr]
        pb = dict(b.payloads)
        for i, pa in a.payloads:
            if i in pb:
                dv = a.decl.variants[i][1]
                conds.append(z3.Implies(a.discr == bv(dv), val_eq(pa, pb[i])))
        return z3.And(*conds)
    if isinstance(a, Agg) and isinstance(b, Agg):
        if len(a.fields) != len(b.fields):
            return z3.BoolVal(False)
        return z3.And(*[val_eq(x, y) for x, y in zip(a.fields, b.fields)]) if a.fields else z3.BoolVal(True)
    if isinstance(a, BStr) and isinstance(b, BStr):
        return bstr_eq(a, b)
    if isinstance(a, Seq) and isinstance(b, Seq):
        if len(a.items) != len(b.items):
            return z3.BoolVal(False)
        return z3.And(*[val_eq(x, y) for x, y in zip(a.items, b.items)]) if a.items else z3.BoolVal(True)
    if z3.is_expr(a) and z3.is_expr(b):
        if z3.is_fp(a):
            return a == b            # bitwise-ish (smt-lib =): NaN == NaN
        return a == b
    return z3.BoolVal(a == b)
