"""MIR text (rustc -Zunpretty=mir) -> function table.  Pure syntax; no semantics here."""
import re, functools


class Fn:
    __slots__ = ('name', 'rawname', 'crate', 'kind', 'args', 'ret', 'locals', 'blocks', 'parent', 'span', 'header', 'ty')

    def __repr__(self):
        return f'<Fn {self.name}>'


class Unsupported(Exception):
    """MIR form, callee or value shape the engine does not know: the check is inconclusive."""


def _depth_scan(s):
    """yield (i, c, depth) with depth counted over ([{<  (-> and => arrows are not brackets)"""
    d = 0
    n = len(s)
    i = 0
    instr = None
    while i < n:
        c = s[i]
        if instr:
            if c == '\\':
                i += 2
                continue
            if c == instr:
                instr = None
            i += 1
            continue
        if c == '"':
            instr = '"'
            i += 1
            continue
        if c == "'" and i + 2 < n and (s[i + 2] == "'" or (s[i + 1] == '\\' and "'" in s[i + 2:i + 8])):
            # char literal 'x' or '\n' / '\u{..}'
            j = s.index("'", i + 2) if s[i + 1] == '\\' else i + 2
            i = j + 1
            continue
        if c in '([{':
            d += 1
        elif c in ')]}':
            d -= 1
        elif c == '<':
            # `<` is a bracket in types; comparison operators never appear as infix in MIR text
            d += 1
        elif c == '>' and i > 0 and s[i - 1] not in '-=':
            d -= 1
        yield i, c, d
        i += 1


@functools.lru_cache(maxsize=200000)
def split_top(s, sep=','):
    out, cur, last = [], 0, 0
    seplen = len(sep)
    pos = []
    for i, c, d in _depth_scan(s):
        if d == 0 and c == sep[0] and s.startswith(sep, i) and c not in '([{<)]}>':
            pos.append(i)
    start = 0
    for p in pos:
        if p < start:
            continue
        out.append(s[start:p].strip())
        start = p + seplen
    tail = s[start:].strip()
    if tail:
        out.append(tail)
    return tuple(out)


def top_find(s, tok, last=False):
    hit = None
    for i, c, d in _depth_scan(s):
        # depth *after* processing c; tok never starts with a bracket
        if d == 0 and c == tok[0] and s.startswith(tok, i):
            if not last:
                return i
            hit = i
    return hit


def matching_close(s, start):
    """index of the bracket closing the one at s[start]"""
    for i, c, d in _depth_scan(s[start:]):
        if d == 0 and i > 0:
            return start + i
    raise Unsupported('unbalanced: ' + s)


_HDR_FN = re.compile(r'^fn (.+) \{$')


def parse_mir(text, crate):
    """-> (fns: name -> Fn, allocs: name -> bytes, statics: name -> alloc name)"""
    fns, order = {}, []
    allocs, static_alloc = {}, {}
    lines = text.split('\n')
    i = 0
    n = len(lines)
    dupcount = {}
    lastparent = {}
    while i < n:
        l = lines[i]
        f = None
        if l.startswith('fn ') and l.endswith('{'):
            head = l[3:-2]
            # the '(' opening the parameter list: first '(' at bracket depth 0
            p = None
            for k, c, d in _depth_scan(head):
                if c == '(' and d == 1:
                    p = k
                    break
            q = matching_close(head, p)
            f = Fn()
            f.kind = 'fn'
            f.rawname = head[:p]
            f.args = []
            for a in split_top(head[p + 1:q]):
                nm, ty = a.split(': ', 1)
                f.args.append((nm, ty))
            rest = head[q + 1:]
            f.ret = rest[4:] if rest.startswith(' -> ') else '()'
            f.header = l
        elif (l.startswith('const ') or l.startswith('static ')) and l.endswith('= {'):
            f = Fn()
            f.kind = 'const'
            f.args = []
            h = l.split(' ', 1)[1]
            if h.startswith('mut '):
                h = h[4:]
            cut = None
            for k, c, d in _depth_scan(h):
                if c == ':' and d == 0 and h[k:k + 2] == ': ':
                    cut = k
                    break
            f.rawname = h[:cut]
            f.ret = h[cut + 2:-4]
            f.header = l
        elif (l.startswith('const ') or l.startswith('static ')) and ' = const ' in l and l.endswith(';'):
            # one-line item:  const PATH: TYPE = const VALUE;
            h = l.split(' ', 1)[1]
            cut = None
            for k, c, d in _depth_scan(h):
                if c == ':' and d == 0 and h[k:k + 2] == ': ':
                    cut = k
                    break
            eq = h.index(' = const ', cut)
            f = Fn()
            f.kind = 'const'
            f.args = []
            f.rawname = h[:cut]
            f.ret = h[cut + 2:eq]
            f.header = l
            f.crate = crate
            f.locals = {'_0': f.ret}
            f.blocks = {'bb0': (('_0 = ' + h[eq + 3:-1] + ';',), 'return;')}
            f.parent = None
            f.span = None
            k_ = dupcount.get(f.rawname, 0)
            dupcount[f.rawname] = k_ + 1
            f.name = f.rawname if k_ == 0 else f'{f.rawname}#{k_}'
            lastparent[f.rawname] = f.name
            fns[f.name] = f
            i += 1
            continue
        elif l.startswith('alloc') and l.endswith('{'):
            m = re.match(r'^(alloc\d+) \((?:static: ([^,]+), )?size: (\d+), align: \d+\) \{$', l)
            if m:
                size = int(m.group(3))
                data = []
                i += 1
                ok = True
                while i < n and lines[i] != '}':
                    row = lines[i]
                    mm = re.match(r'^\s+(?:0x[0-9a-f]+ │ )?((?:[0-9a-f_╾─╼▒ ]|__)*?) │', row)
                    if mm:
                        for tok in mm.group(1).split():
                            if re.fullmatch(r'[0-9a-f]{2}', tok):
                                data.append(int(tok, 16))
                            else:
                                ok = False
                    else:
                        ok = False
                    i += 1
                if ok and len(data) == size:
                    allocs[m.group(1)] = bytes(data)
                    if m.group(2):
                        static_alloc[m.group(2)] = m.group(1)
            i += 1
            continue
        else:
            i += 1
            continue
        f.crate = crate
        f.locals = {nm: ty for nm, ty in f.args}
        f.blocks = {}
        i += 1
        while i < n and lines[i] != '}':
            s = lines[i].strip()
            if s.startswith('let '):
                mm = re.match(r'^let (mut )?(_\d+): (.+);$', s)
                if mm:
                    f.locals[mm.group(2)] = mm.group(3)
            elif s.startswith('bb') and s.endswith('{'):
                mb = re.match(r'^(bb\d+)( \(cleanup\))?: \{$', s)
                if mb:
                    body = []
                    i += 1
                    while lines[i].strip() != '}':
                        body.append(lines[i].strip())
                        i += 1
                    f.blocks[mb.group(1)] = (tuple(body[:-1]), body[-1]) if body else ((), 'unreachable;')
            i += 1
        # ---- naming: duplicates (macro_rules-generated impls share one span) get #k; closures attach to the latest parent
        raw = f.rawname
        mcl = re.match(r'^(.*)::\{closure#\d+\}(?:::promoted\[\d+\])?$', raw) or re.match(r'^(.*)::promoted\[\d+\]$', raw) \
            or re.match(r'^(.*)::\{constant#\d+\}$', raw)
        if mcl and mcl.group(1) in lastparent:
            par = lastparent[mcl.group(1)]
            name = par + raw[len(mcl.group(1)):]
            f.parent = par
        else:
            k = dupcount.get(raw, 0)
            dupcount[raw] = k + 1
            name = raw if k == 0 else f'{raw}#{k}'
            f.parent = None
        if name in fns:
            k = 1
            while f'{name}#{k}' in fns:
                k += 1
            name = f'{name}#{k}'
        lastparent[raw] = name
        f.name = name
        m = re.search(r'<impl at ([^:>]+):(\d+):(\d+): (\d+):(\d+)>', raw)
        f.span = (m.group(1), int(m.group(2)), int(m.group(3)), int(m.group(4)), int(m.group(5))) if m else None
        fns[name] = f
    return fns, allocs, static_alloc


# ------------------------------------------------------------------ statement-level syntax (cached by text)

_LOCAL = re.compile(r'_\d+$')


@functools.lru_cache(maxsize=None)
def parse_place(p):
    p = p.strip()
    if _LOCAL.match(p):
        return ('local', p)
    # trailing index / subslice
    if p.endswith(']'):
        k = None
        d = 0
        for i in range(len(p) - 1, -1, -1):
            if p[i] == ']':
                d += 1
            elif p[i] == '[':
                d -= 1
                if d == 0:
                    k = i
                    break
        base, idx = p[:k], p[k + 1:-1]
        if _LOCAL.match(idx):
            return ('index', parse_place(base), idx)
        m = re.fullmatch(r'(-?\d+) of (\d+)', idx)
        if m:
            return ('constindex', parse_place(base), int(m.group(1)), int(m.group(2)))
        m = re.fullmatch(r'(\d+)?:(-?\d+)?', idx) or re.fullmatch(r'(\d+)?\.\.(-?\d+)?', idx)
        if m:
            return ('subslice', parse_place(base), int(m.group(1) or 0), int(m.group(2)) if m.group(2) else None)
        raise Unsupported('place index ' + p)
    if p.startswith('(*') and p.endswith(')') and matching_close(p, 0) == len(p) - 1:
        return ('deref', parse_place(p[2:-1]))
    if p.startswith('(') and p.endswith(')') and matching_close(p, 0) == len(p) - 1:
        inner = p[1:-1]
        k = top_find(inner, ': ')
        if k is not None:
            left, ty = inner[:k], inner[k + 2:]
            d = left.rfind('.')
            return ('field', parse_place(left[:d]), int(left[d + 1:]), ty)
        k = top_find(inner, ' as ', last=True)
        if k is not None:
            v = inner[k + 4:]
            m = re.fullmatch(r'variant#(\d+)', v)
            return ('downcast', parse_place(inner[:k]), int(m.group(1)) if m else v)
    raise Unsupported('place ' + p)


@functools.lru_cache(maxsize=None)
def parse_operand(o):
    o = o.strip()
    for pre in ('no_retag copy ', 'no_retag move ', 'copy ', 'move '):
        if o.startswith(pre):
            return ('place', parse_place(o[len(pre):]), pre.strip().split()[-1])
    if o.startswith('const '):
        return ('const', o[6:].strip())
    return ('fnitem', o)


BINOPS = {'Add', 'Sub', 'Mul', 'Div', 'Rem', 'BitXor', 'BitAnd', 'BitOr', 'Shl', 'Shr', 'Eq', 'Lt', 'Le', 'Ne', 'Ge', 'Gt', 'Cmp',
          'Offset', 'AddWithOverflow', 'SubWithOverflow', 'MulWithOverflow', 'AddUnchecked', 'SubUnchecked', 'MulUnchecked',
          'ShlUnchecked', 'ShrUnchecked'}
UNOPS = {'Not', 'Neg', 'PtrMetadata'}


@functools.lru_cache(maxsize=None)
def parse_rvalue(r):
    r = r.strip()
    if r.startswith('&'):
        if r.startswith('&raw const '):
            return ('ref', parse_place(r[11:]))
        if r.startswith('&raw mut '):
            return ('ref', parse_place(r[9:]))
        if r.startswith('&mut '):
            return ('ref', parse_place(r[5:]))
        if r.startswith('&fake shallow '):
            return ('ref', parse_place(r[14:]))
        if r.startswith('&fake '):
            return ('ref', parse_place(r[6:]))
        return ('ref', parse_place(r[1:]))
    m = re.match(r'^(\w+)\(', r)
    if m and r.endswith(')') and matching_close(r, len(m.group(1))) == len(r) - 1:
        op = m.group(1)
        inner = r[len(op) + 1:-1]
        if op in BINOPS:
            a, b = split_top(inner)
            return ('binop', op, parse_operand(a), parse_operand(b))
        if op in UNOPS:
            return ('unop', op, parse_operand(inner))
        if op == 'discriminant':
            return ('discr', parse_place(inner))
        if op == 'Len':
            return ('len', parse_place(inner))
        if op == 'CopyForDeref':
            return ('use', ('place', parse_place(inner), 'copy'))
        if op in ('UbChecks', 'ContractChecks', 'OverflowChecks', 'RuntimeChecks'):
            return ('use', ('const', 'false'))
        if op in ('SizeOf', 'AlignOf'):
            raise Unsupported('rvalue ' + r)
        if op == 'ShallowInitBox':
            return ('use', parse_operand(split_top(inner)[0]))
    # cast:  OPERAND as TYPE (Kind)
    m = re.fullmatch(r'(.+) as (.+) \((\w+(?:\(.*\))?)\)', r)
    if m and (m.group(1).startswith(('copy ', 'move ', 'const '))) and top_find(m.group(1), ' as ') is None:
        return ('cast', m.group(3), parse_operand(m.group(1)), m.group(2))
    if m and m.group(1).startswith(('copy ', 'move ', 'const ')):
        k = top_find(r, ' as ', last=True)
        rest = r[k + 4:]
        kk = rest.rfind(' (')
        return ('cast', rest[kk + 2:-1], parse_operand(r[:k]), rest[:kk])
    # function item reified to a function pointer:  path::f as fn(A) -> R (PointerCoercion(ReifyFnPointer(..), ..))
    mf = re.fullmatch(r'(.+?) as ((?:unsafe )?(?:extern \S+ )?fn\(.*) \((PointerCoercion\(ReifyFnPointer.*\))\)', r)
    if mf and not mf.group(1).startswith(('copy ', 'move ', 'const ')):
        return ('use', ('fnitem', mf.group(1)))
    if r.startswith(('copy ', 'move ', 'const ', 'no_retag ')):
        return ('use', parse_operand(r))
    if r == '()':
        return ('tuple', ())
    if r.startswith('[') and r.endswith(']'):
        inner = r[1:-1]
        k = top_find(inner, '; ')
        if k is not None:
            return ('repeat', parse_operand(inner[:k]), inner[k + 2:])
        return ('array', tuple(parse_operand(x) for x in split_top(inner)))
    if r.startswith('(') and r.endswith(')') and matching_close(r, 0) == len(r) - 1:
        return ('tuple', tuple(parse_operand(x) for x in split_top(r[1:-1])))
    # closure / coroutine aggregate:  {closure@span} { a: op, .. }   |  {closure@span}
    if r.startswith('{'):
        q = matching_close(r, 0)
        head, rest = r[:q + 1], r[q + 1:].strip()
        fields = ()
        if rest.startswith('{') and rest.endswith('}'):
            fields = tuple(parse_operand(x.split(': ', 1)[1]) for x in split_top(rest[1:-1].strip()))
        return ('closure', head, fields)
    # ADT aggregate:  PATH(ops) | PATH { f: op, .. } | PATH
    if r.endswith('}'):
        k = None
        for i, c, d in _depth_scan(r):
            if c == '{' and d == 1 and r[i - 1] == ' ':
                k = i
                break
        if k is not None:
            path = r[:k].strip()
            body = r[k + 1:-1].strip()
            fields = tuple(parse_operand(x.split(': ', 1)[1]) for x in split_top(body)) if body else ()
            return ('adt', path, fields)
    if r.endswith(')'):
        # last top-level '(' group
        k = None
        d = 0
        for i in range(len(r) - 1, -1, -1):
            if r[i] == ')':
                d += 1
            elif r[i] == '(':
                d -= 1
                if d == 0:
                    k = i
                    break
        return ('adt', r[:k], tuple(parse_operand(x) for x in split_top(r[k + 1:-1])))
    return ('adt', r, ())


@functools.lru_cache(maxsize=None)
def parse_stmt(s):
    if s.startswith(('StorageLive', 'StorageDead', 'nop', 'FakeRead', 'PlaceMention', 'AscribeUserType', 'Retag', 'Coverage',
                     'ConstEvalCounter', '//', 'debug ', 'Deinit', 'BackwardIncompatibleDropHint')):
        return None
    if s.startswith('assume('):
        return None
    body = s[:-1]
    k = top_find(body, ' = ') if body.startswith('(') else None          # `(place: impl Future<Output = ..>) = ..`
    lhs, rhs = (body[:k], body[k + 3:]) if k is not None else body.split(' = ', 1)
    m = re.fullmatch(r'discriminant\((.+)\)', lhs)
    if m:
        return ('setdiscr', parse_place(m.group(1)), int(rhs))
    return ('assign', parse_place(lhs), parse_rvalue(rhs))


def _targets(t):
    return t


@functools.lru_cache(maxsize=None)
def parse_term(t):
    if t == 'return;':
        return ('return',)
    if t in ('unreachable;', 'resume;', 'unwind resume;', 'abort;') or t.startswith('unwind terminate'):
        return ('dead', t)
    m = re.fullmatch(r'goto -> (bb\d+);', t)
    if m:
        return ('goto', m.group(1))
    m = re.fullmatch(r'drop\((.+)\) -> \[return: (bb\d+), unwind[^\]]*\];', t)
    if m:
        return ('drop', parse_place(m.group(1)), m.group(2))
    m = re.fullmatch(r'switchInt\((.+)\) -> \[(.+)\];', t)
    if m:
        arms = []
        for arm in split_top(m.group(2)):
            k, tgt = arm.split(': ')
            arms.append((None if k == 'otherwise' else int(k), tgt))
        return ('switch', parse_operand(m.group(1)), tuple(arms))
    if t.startswith('assert('):
        q = matching_close(t, 6)
        inner = t[7:q]
        parts = split_top(inner)
        cond = parts[0]
        neg = False
        if cond.startswith('!'):
            neg = True
            cond = cond[1:]
        m = re.search(r'-> \[success: (bb\d+), unwind[^\]]*\];$', t)
        return ('assert', parse_operand(cond), neg, parts[1] if len(parts) > 1 else '', m.group(1))
    m = re.fullmatch(r'(.+?) = (.+) -> \[return: (bb\d+), unwind[^\]]*\];', t) or re.fullmatch(r'(.+?) = (.+) -> (unwind[^\]]*);', t)
    if m:
        dest, call = m.group(1), m.group(2)
        nxt = m.group(3) if m.group(3).startswith('bb') else None
        # split callee / args at the last top-level (...) group
        d = 0
        k = None
        for i in range(len(call) - 1, -1, -1):
            c = call[i]
            if c == ')':
                d += 1
            elif c == '(':
                d -= 1
                if d == 0:
                    k = i
                    break
        callee, argstr = call[:k], call[k + 1:-1]
        return ('call', parse_place(dest), callee, tuple(parse_operand(a) for a in split_top(argstr)), nxt)
    m = re.fullmatch(r'(.+?) = (.+) -> \[return: (bb\d+), unwind[^\]]*\];', t)
    if t.startswith('yield(') or t.startswith('coroutine_drop'):
        raise Unsupported('terminator ' + t)
    m = re.fullmatch(r'falseEdge -> \[real: (bb\d+), imaginary: bb\d+\];', t) or re.fullmatch(r'falseUnwind -> \[real: (bb\d+), unwind[^\]]*\];', t)
    if m:
        return ('goto', m.group(1))
    raise Unsupported('terminator ' + t)
