"""Models of bytes / percent-encoding / http, by their documented contracts (byte tables quoted from the pinned crate versions
and validated differentially against the real crates by the replay binary)."""
import re
import z3
from .parse import Unsupported
from .values import (Agg, Enum, Ptr, Seq, BStr, UNIT, Panic, bv, concrete, bstr, bstr_py, bstr_byte, bstr_eq, bstr_concat, bstr_slice,
                     is_abnormal)
from .models_std import sval, fork_bool, It, fresh_bv
from .types import ty_str, last_seg


# ------------------------------------------------------------------ bytes::{Bytes, BytesMut}: owned bounded byte strings
def M_bytes_new(it, ctx, args, st):
    yield st, bstr(b'')


def M_bytes_len(it, ctx, args, st):
    yield st, sval(st, args[0]).len


def M_bytes_is_empty(it, ctx, args, st):
    yield st, sval(st, args[0]).len == 0


def M_bytes_deref(it, ctx, args, st):
    yield st, args[0]


def M_bm_reserve(it, ctx, args, st):
    yield st, UNIT


def M_bm_extend(it, ctx, args, st):
    p = args[0]
    cur = sval(st, p)
    add = sval(st, args[1])
    st.write(p, bstr_concat(cur, add))
    yield st, UNIT


def M_bm_freeze(it, ctx, args, st):
    yield st, args[0]


def M_bytes_from(it, ctx, args, st):
    yield st, sval(st, args[0]) if isinstance(args[0], Ptr) else args[0]


def M_bytes_clone(it, ctx, args, st):
    yield st, sval(st, args[0])


# ------------------------------------------------------------------ percent_encoding
CONTROLS_MASK = sum(1 << b for b in list(range(0x20)) + [0x7f])


def M_ascii_controls(it, ctx, args, st):
    yield st, Agg('percent_encoding::AsciiSet', (z3.BitVecVal(CONTROLS_MASK, 128),))


def M_asciiset_add(it, ctx, args, st):
    s = st.deref_all(args[0])
    b = args[1]
    one = z3.BitVecVal(1, 128)
    yield st, Agg('percent_encoding::AsciiSet', (z3.simplify(s.fields[0] | (one << z3.ZeroExt(120, b))),))


def M_asciiset_remove(it, ctx, args, st):
    s = st.deref_all(args[0])
    b = args[1]
    one = z3.BitVecVal(1, 128)
    yield st, Agg('percent_encoding::AsciiSet', (z3.simplify(s.fields[0] & ~(one << z3.ZeroExt(120, b))),))


def M_asciiset_union(it, ctx, args, st):
    a, b = st.deref_all(args[0]), st.deref_all(args[1]) if isinstance(args[1], Ptr) else args[1]
    yield st, Agg('percent_encoding::AsciiSet', (z3.simplify(a.fields[0] | b.fields[0]),))


def hexdigit(n):
    """upper-case hex digit of a 4-bit value as BV8"""
    n8 = z3.ZeroExt(4, n)
    return z3.If(z3.ULT(n8, 10), n8 + 48, n8 + 55)


def encode_bytes(s, mask):
    """utf8_percent_encode(s, set): every byte outside ASCII or in the set becomes %XX (upper hex), others are kept"""
    out = bstr(b'')
    for i, b in enumerate(s.bytes):
        inset = z3.Or(z3.UGE(b, 0x80), z3.Extract(0, 0, z3.LShR(mask, z3.ZeroExt(120, b))) == 1)
        present = z3.ULT(bv(i), s.len)
        piece = BStr((z3.If(inset, bv(ord('%'), 8), b), hexdigit(z3.Extract(7, 4, b)), hexdigit(z3.Extract(3, 0, b))),
                     z3.If(present, z3.If(inset, bv(3), bv(1)), bv(0)))
        out = bstr_concat(out, piece)
    return out


def M_utf8_percent_encode(it, ctx, args, st):
    s = sval(st, args[0])
    aset = st.deref_all(args[1])
    mask = aset.fields[0]
    enc = encode_bytes(s, mask)
    rec = st.aux.get('pctenc', ())
    st.aux['pctenc'] = rec + ((s, mask, enc),)
    # the iterator yields the encoded text in chunks; one chunk carrying all of it is a refinement of that contract
    yield st, It('list', (st.ref(enc),))


# ------------------------------------------------------------------ http::Uri (origin-form only: what UriBuilder produces)
def _ranges(b, rs):
    return z3.Or(*[(b == r) if isinstance(r, int) else z3.And(z3.UGE(b, r[0]), z3.ULE(b, r[1])) for r in rs])


PATH_VALID = [0x21, (0x24, 0x3B), 0x3D, (0x40, 0x5F), (0x61, 0x7A), 0x7C, 0x7E, 0x22, 0x7B, 0x7D, (0x80, 0xFF)]
QUERY_VALID = [0x21, (0x24, 0x3B), 0x3D, (0x3F, 0x7E), (0x80, 0xFF)]
URI_MAX_LEN = 65534


def uri_parse_model(s):
    """-> (ok: Bool, qpos: BV64 position of '?' or len, fpos: BV64 position of '#' or len) for an origin-form URI starting with '/'"""
    K = len(s.bytes)
    in_query = z3.BoolVal(False)
    stopped = z3.BoolVal(False)      # fragment reached: rest is not inspected
    ok = z3.And(s.len != 0, z3.ULE(s.len, bv(URI_MAX_LEN)))
    if K:
        b0 = s.bytes[0]
        ok = z3.And(ok, z3.Or(b0 == ord('/'), b0 == ord('?'), b0 == ord('#'), z3.And(s.len == 1, b0 == ord('*'))))
    qpos, fpos = s.len, s.len
    for i, b in enumerate(s.bytes):
        live = z3.And(z3.ULT(bv(i), s.len), z3.Not(stopped))
        is_q = z3.And(live, z3.Not(in_query), b == ord('?'))
        is_f = z3.And(live, b == ord('#'))
        valid = z3.If(in_query, _ranges(b, QUERY_VALID), z3.Or(_ranges(b, PATH_VALID), b == ord('?')))
        ok = z3.And(ok, z3.Implies(z3.And(live, z3.Not(is_f)), valid))
        qpos = z3.If(z3.And(is_q, qpos == s.len), bv(i), qpos)
        fpos = z3.If(z3.And(is_f, fpos == s.len), bv(i), fpos)
        in_query = z3.Or(in_query, is_q)
        stopped = z3.Or(stopped, is_f)
    return ok, qpos, fpos


def M_uri_from_maybe_shared(it, ctx, args, st):
    s = sval(st, args[0])
    ok, qpos, fpos = uri_parse_model(s)
    for s2, good in fork_bool(it, st, ok):
        if good:
            yield s2, it.ok(Agg('http::Uri', (s, qpos, fpos)))
        else:
            yield s2, it.err(Agg('http::uri::InvalidUri', ()))


MODELS = [
    (r'bytes::Bytes::new|bytes::BytesMut::new|bytes::bytes_mut::BytesMut::new', M_bytes_new),
    (r'bytes::Bytes::len|bytes::BytesMut::len', M_bytes_len), (r'bytes::Bytes::is_empty|bytes::BytesMut::is_empty', M_bytes_is_empty),
    (r'<bytes::Bytes(Mut)? as std::ops::Deref>::deref|<bytes::Bytes(Mut)? as std::convert::AsRef<\[u8\]>>::as_ref', M_bytes_deref),
    (r'bytes::BytesMut::reserve', M_bm_reserve), (r'bytes::BytesMut::extend_from_slice', M_bm_extend),
    (r'bytes::BytesMut::freeze', M_bm_freeze),
    (r'<bytes::Bytes as std::convert::From<.*>>::from|bytes::Bytes::copy_from_slice|bytes::Bytes::from_static', M_bytes_from),
    (r'<bytes::Bytes as std::clone::Clone>::clone', M_bytes_clone),
    (r'percent_encoding::AsciiSet::add', M_asciiset_add), (r'percent_encoding::AsciiSet::remove', M_asciiset_remove),
    (r'percent_encoding::AsciiSet::union', M_asciiset_union),
    (r'percent_encoding::utf8_percent_encode', M_utf8_percent_encode),
    (r'http::Uri::from_maybe_shared::<.*>', M_uri_from_maybe_shared),
]

CONSTS = {
    'percent_encoding::CONTROLS': lambda it, st: st.ref(Agg('percent_encoding::AsciiSet', (z3.BitVecVal(CONTROLS_MASK, 128),))),
    'percent_encoding::NON_ALPHANUMERIC': lambda it, st: st.ref(Agg('percent_encoding::AsciiSet', (z3.BitVecVal(
        sum(1 << b for b in range(128) if not (chr(b).isalnum())), 128),))),
}
