"""Models of bytes / percent-encoding / http, by their documented contracts (byte tables quoted from the pinned crate versions
and validated differentially against the real crates by the replay binary)."""
import re
import z3
from .parse import Unsupported
from .values import (Agg, Enum, Ptr, Seq, BStr, UNIT, Panic, bv, concrete, bstr, bstr_py, bstr_byte, bstr_eq, bstr_concat, bstr_slice,
                     is_abnormal)
from .models_std import sval, fork_bool, It, fresh_bv
from .types import ty_str, last_seg


# ------------------------------------------------------------------ bytes::{Bytes, BytesMut}: owned bounded byte strings
def M_bytes_new(it, ctx, args, st):
    yield st, bstr(b'')


def M_bytes_len(it, ctx, args, st):
    yield st, sval(st, args[0]).len


def M_bytes_is_empty(it, ctx, args, st):
    yield st, sval(st, args[0]).len == 0


def M_bytes_deref(it, ctx, args, st):
    yield st, args[0]


def M_bm_reserve(it, ctx, args, st):
    yield st, UNIT


from .models_std import bm_append


def bm_pieces(st, buf):
    return next((pcs for obj, pcs in st.aux.get('bm_log', ()) if obj is buf), None)


def M_bm_extend(it, ctx, args, st):
    bm_append(st, args[0], sval(st, args[1]))
    yield st, UNIT


def M_buf_remaining(it, ctx, args, st):
    yield st, sval(st, args[0]).len


def M_buf_has_remaining(it, ctx, args, st):
    yield st, sval(st, args[0]).len != 0


def M_slice_index_mut_range(it, ctx, args, st):
    """<[u8] as IndexMut<RangeTo/Range/RangeFrom>>::index_mut: a view (pointer to the whole slice + bounds) that copy_to_slice /
    copy_from_slice write through"""
    sl = args[0]
    r = args[1]
    kind = ctx.callee.key
    v = sval(st, sl)
    if 'RangeTo' in kind:
        lo, hi = bv(0), r.fields[0]
    elif 'RangeFrom' in kind:
        lo, hi = r.fields[0], v.len
    else:
        lo, hi = r.fields[0], r.fields[1]
    for s2, ok in fork_bool(it, st, z3.And(z3.ULE(lo, hi), z3.ULE(hi, v.len))):
        yield s2, (Agg('SubSliceMut', (sl, lo, hi)) if ok else Panic('range end index out of range for slice', ctx.fr.fn.name))


def M_buf_copy_to_slice(it, ctx, args, st):
    """Buf::copy_to_slice(&mut self, dst): dst is filled from the front of self, self advances by dst.len(); panics if self is shorter"""
    src_p, dst = args[0], args[1]
    src = sval(st, src_p)
    if isinstance(dst, Agg) and dst.name == 'SubSliceMut':
        base_p, lo, hi = dst.fields
    else:
        base_p, lo, hi = dst, bv(0), sval(st, dst).len
    n = z3.simplify(hi - lo)
    for s2, ok in fork_bool(it, st, z3.ULE(n, src.len)):
        if not ok:
            yield s2, Panic('Buf::copy_to_slice: not enough remaining bytes', ctx.fr.fn.name)
            continue
        base = sval(s2, base_p)
        new = []
        for i, old in enumerate(base.bytes):
            off = bv(i) - lo
            inside = z3.And(z3.UGE(bv(i), lo), z3.ULT(bv(i), hi))
            new.append(z3.simplify(z3.If(inside, bstr_byte(src, off), old)))
        tgt = base_p
        while isinstance(s2.deref(tgt), Ptr):
            tgt = s2.deref(tgt)
        s2.write(tgt, BStr(tuple(new), base.len))
        sp = src_p
        while isinstance(s2.deref(sp), Ptr):
            sp = s2.deref(sp)
        s2.write(sp, bstr_slice(src, n, src.len))
        yield s2, UNIT


def M_io_error_new(it, ctx, args, st):
    yield st, Agg('std::io::Error', (args[0],))


def M_vec_u8_extend(it, ctx, args, st):
    """Vec<u8>::extend_from_slice (byte vectors are bounded strings; pieces remembered like for BytesMut)"""
    p = args[0]
    cur = st.deref(p)
    while isinstance(cur, Ptr):
        p, cur = cur, st.deref(cur)
    if isinstance(cur, Seq) and not cur.items:
        st.write(p, bstr(b''))
    bm_append(st, p, sval(st, args[1]))
    yield st, UNIT


def M_vec_u8_push(it, ctx, args, st):
    p = args[0]
    cur = st.deref(p)
    while isinstance(cur, Ptr):
        p, cur = cur, st.deref(cur)
    if isinstance(cur, Seq) and not cur.items:
        st.write(p, bstr(b''))
    bm_append(st, p, BStr((args[1],), bv(1)))
    yield st, UNIT


def M_bm_put_u8(it, ctx, args, st):
    bm_append(st, args[0], BStr((args[1],), bv(1)))
    yield st, UNIT


def M_percent_encode_byte(it, ctx, args, st):
    """percent_encoding::percent_encode_byte(b): the three-byte text %XX (upper-case hex) of b"""
    b = args[0]
    yield st, st.ref(BStr((bv(ord('%'), 8), hexdigit(z3.Extract(7, 4, b)), hexdigit(z3.Extract(3, 0, b))), bv(3)))


def M_bm_freeze(it, ctx, args, st):
    yield st, args[0]


def M_bytes_from(it, ctx, args, st):
    yield st, sval(st, args[0]) if isinstance(args[0], Ptr) else args[0]


def M_bytes_clone(it, ctx, args, st):
    yield st, sval(st, args[0])


# ------------------------------------------------------------------ percent_encoding
CONTROLS_MASK = sum(1 << b for b in list(range(0x20)) + [0x7f])


def M_ascii_controls(it, ctx, args, st):
    yield st, Agg('percent_encoding::AsciiSet', (z3.BitVecVal(CONTROLS_MASK, 128),))


def M_asciiset_add(it, ctx, args, st):
    s = st.deref_all(args[0])
    b = args[1]
    one = z3.BitVecVal(1, 128)
    yield st, Agg('percent_encoding::AsciiSet', (z3.simplify(s.fields[0] | (one << z3.ZeroExt(120, b))),))


def M_asciiset_remove(it, ctx, args, st):
    s = st.deref_all(args[0])
    b = args[1]
    one = z3.BitVecVal(1, 128)
    yield st, Agg('percent_encoding::AsciiSet', (z3.simplify(s.fields[0] & ~(one << z3.ZeroExt(120, b))),))


def M_asciiset_union(it, ctx, args, st):
    a, b = st.deref_all(args[0]), st.deref_all(args[1]) if isinstance(args[1], Ptr) else args[1]
    yield st, Agg('percent_encoding::AsciiSet', (z3.simplify(a.fields[0] | b.fields[0]),))


def hexdigit(n):
    """upper-case hex digit of a 4-bit value as BV8"""
    n8 = z3.ZeroExt(4, n)
    return z3.If(z3.ULT(n8, 10), n8 + 48, n8 + 55)


def encode_bytes(s, mask):
    """utf8_percent_encode(s, set): every byte outside ASCII or in the set becomes %XX (upper hex), others are kept"""
    out = bstr(b'')
    for i, b in enumerate(s.bytes):
        inset = z3.Or(z3.UGE(b, 0x80), z3.Extract(0, 0, z3.LShR(mask, z3.ZeroExt(120, b))) == 1)
        present = z3.ULT(bv(i), s.len)
        piece = BStr((z3.If(inset, bv(ord('%'), 8), b), hexdigit(z3.Extract(7, 4, b)), hexdigit(z3.Extract(3, 0, b))),
                     z3.If(present, z3.If(inset, bv(3), bv(1)), bv(0)))
        out = bstr_concat(out, piece)
    return out


def M_utf8_percent_encode(it, ctx, args, st):
    s = sval(st, args[0])
    aset = st.deref_all(args[1])
    mask = aset.fields[0]
    enc = encode_bytes(s, mask)
    rec = st.aux.get('pctenc', ())
    st.aux['pctenc'] = rec + ((s, mask, enc),)
    # the iterator yields the encoded text in chunks; one chunk carrying all of it is a refinement of that contract
    yield st, It('list', (st.ref(enc),))


# ------------------------------------------------------------------ http::Uri (origin-form only: what UriBuilder produces)
def _ranges(b, rs):
    return z3.Or(*[(b == r) if isinstance(r, int) else z3.And(z3.UGE(b, r[0]), z3.ULE(b, r[1])) for r in rs])


PATH_VALID = [0x21, (0x24, 0x3B), 0x3D, (0x40, 0x5F), (0x61, 0x7A), 0x7C, 0x7E, 0x22, 0x7B, 0x7D, (0x80, 0xFF)]
QUERY_VALID = [0x21, (0x24, 0x3B), 0x3D, (0x3F, 0x7E), (0x80, 0xFF)]
URI_MAX_LEN = 65534


def uri_parse_model(s):
    """-> (ok: Bool, qpos: BV64 position of '?' or len, fpos: BV64 position of '#' or len) for an origin-form URI starting with '/'"""
    K = len(s.bytes)
    in_query = z3.BoolVal(False)
    stopped = z3.BoolVal(False)      # fragment reached: rest is not inspected
    ok = z3.And(s.len != 0, z3.ULE(s.len, bv(URI_MAX_LEN)))
    if K:
        b0 = s.bytes[0]
        ok = z3.And(ok, z3.Or(b0 == ord('/'), b0 == ord('?'), b0 == ord('#'), z3.And(s.len == 1, b0 == ord('*'))))
    qpos, fpos = s.len, s.len
    for i, b in enumerate(s.bytes):
        live = z3.And(z3.ULT(bv(i), s.len), z3.Not(stopped))
        is_q = z3.And(live, z3.Not(in_query), b == ord('?'))
        is_f = z3.And(live, b == ord('#'))
        valid = z3.If(in_query, _ranges(b, QUERY_VALID), z3.Or(_ranges(b, PATH_VALID), b == ord('?')))
        ok = z3.And(ok, z3.Implies(z3.And(live, z3.Not(is_f)), valid))
        qpos = z3.If(z3.And(is_q, qpos == s.len), bv(i), qpos)
        fpos = z3.If(z3.And(is_f, fpos == s.len), bv(i), fpos)
        in_query = z3.Or(in_query, is_q)
        stopped = z3.Or(stopped, is_f)
    return ok, qpos, fpos


def M_uri_from_maybe_shared(it, ctx, args, st):
    s = sval(st, args[0])
    ok, qpos, fpos = uri_parse_model(s)
    for s2, good in fork_bool(it, st, ok):
        if good:
            yield s2, it.ok(Agg('http::Uri', (s, qpos, fpos)))
        else:
            yield s2, it.err(Agg('http::uri::InvalidUri', ()))


MODELS = [
    (r'bytes::Bytes::new|bytes::BytesMut::new|bytes::bytes_mut::BytesMut::new', M_bytes_new),
    (r'bytes::Bytes::len|bytes::BytesMut::len', M_bytes_len), (r'bytes::Bytes::is_empty|bytes::BytesMut::is_empty', M_bytes_is_empty),
    (r'<bytes::Bytes(Mut)? as std::ops::Deref>::deref|<bytes::Bytes(Mut)? as std::convert::AsRef<\[u8\]>>::as_ref', M_bytes_deref),
    (r'bytes::BytesMut::reserve', M_bm_reserve), (r'bytes::BytesMut::extend_from_slice', M_bm_extend),
    (r'bytes::BytesMut::freeze', M_bm_freeze),
    (r'<bytes::BytesMut as bytes::BufMut>::put_u8|bytes::BytesMut::put_u8', M_bm_put_u8), (r'<bytes::BytesMut as bytes::BufMut>::put_slice', M_bm_extend),
    (r'percent_encoding::percent_encode_byte', M_percent_encode_byte),
    (r'std::vec::Vec::<u8>::extend_from_slice', M_vec_u8_extend), (r'std::vec::Vec::<u8>::push', M_vec_u8_push),
    (r'bytes::BytesMut::with_capacity', M_bytes_new),
    (r'<bytes::Bytes(Mut)? as bytes::Buf>::remaining', M_buf_remaining), (r'<bytes::Bytes(Mut)? as bytes::Buf>::has_remaining', M_buf_has_remaining),
    (r'<bytes::Bytes(Mut)? as bytes::Buf>::copy_to_slice', M_buf_copy_to_slice),
    (r'<\[u8\] as std::ops::IndexMut<std::ops::Range(?:To|From)?<usize>>>::index_mut|std::slice::index::<impl std::ops::IndexMut<.*> for \[u8\]>::index_mut', M_slice_index_mut_range),
    (r'std::io::Error::new::<.*>', M_io_error_new),
    (r'<bytes::Bytes as std::convert::From<.*>>::from|bytes::Bytes::copy_from_slice|bytes::Bytes::from_static', M_bytes_from),
    (r'<bytes::Bytes as std::clone::Clone>::clone', M_bytes_clone),
    (r'percent_encoding::AsciiSet::add', M_asciiset_add), (r'percent_encoding::AsciiSet::remove', M_asciiset_remove),
    (r'percent_encoding::AsciiSet::union', M_asciiset_union),
    (r'percent_encoding::utf8_percent_encode', M_utf8_percent_encode),
    (r'http::Uri::from_maybe_shared::<.*>', M_uri_from_maybe_shared),
]

CONSTS = {
    'percent_encoding::CONTROLS': lambda it, st: st.ref(Agg('percent_encoding::AsciiSet', (z3.BitVecVal(CONTROLS_MASK, 128),))),
    'percent_encoding::NON_ALPHANUMERIC': lambda it, st: st.ref(Agg('percent_encoding::AsciiSet', (z3.BitVecVal(
        sum(1 << b for b in range(128) if not (chr(b).isalnum())), 128),))),
}


# ------------------------------------------------------------------ conjure_error::Error at the boundary (its inside is C17's subject)
def error_record(kind, cause, cause_safe, etype, safe=(), unsafe=()):
    return Agg('conjure_error::Error', (kind, cause, cause_safe, etype, tuple(safe), tuple(unsafe)))


def M_error_service(it, ctx, args, st):
    name = ctx.callee.segs[-1][0]
    yield st, error_record('service', args[0], name.endswith('_safe'), args[1])


def M_error_internal(it, ctx, args, st):
    name = ctx.callee.segs[-1][0]
    yield st, error_record('internal', args[0], name.endswith('_safe'), None)


def M_error_with_param(it, ctx, args, st):
    e, k, v = args
    key = bstr_py(sval(st, k))
    val = st.deref_all(v) if isinstance(v, Ptr) else v
    f = list(e.fields)
    idx = 4 if 'with_safe_param' in ctx.callee.segs[-1][0] else 5
    f[idx] = f[idx] + ((key.decode() if key is not None else '?', val),)
    yield st, Agg(e.name, tuple(f))


def M_error_type_new(it, ctx, args, st):
    yield st, Agg('conjure_error::' + ctx.callee.segs[-2][0], ())


# ------------------------------------------------------------------ http::HeaderMap / HeaderValue
# HeaderMap = Agg('http::HeaderMap', (entries,)) with entries a tuple of (lower-case name, GetAll value)
# GetAll    = Agg('GetAll', (n: BV64 number of values present, items: tuple of HeaderValue))     (values beyond n are absent)
# HeaderValue = Agg('http::HeaderValue', (bytes: BStr | None, abstract: parse payload | None))
def header_value(bytes_=None, abstract=None):
    return Agg('http::HeaderValue', (bytes_, abstract))


def header_map(entries):
    return Agg('http::HeaderMap', (tuple(entries),))


def _hname(st, v):
    v = st.deref_all(v) if isinstance(v, Ptr) else v
    if isinstance(v, Agg) and v.name == 'http::HeaderName':
        return v.fields[0]
    if isinstance(v, BStr):
        return bstr_py(v).decode().lower()
    raise Unsupported(f'header name {v!r:.80}')


def _lookup(st, hm, name):
    hm = st.deref_all(hm)
    for n, ga in hm.fields[0]:
        if n == name:
            return ga
    return Agg('GetAll', (bv(0), ()))


def M_hm_get_all(it, ctx, args, st):
    yield st, _lookup(st, args[0], _hname(st, args[1]))


def M_hm_get(it, ctx, args, st):
    ga = _lookup(st, args[0], _hname(st, args[1]))
    n, items = ga.fields
    if not items:
        yield st, it.none
        return
    yield st, it.opt(z3.UGT(n, bv(0)), st.ref(items[0]))


def M_hm_contains(it, ctx, args, st):
    ga = _lookup(st, args[0], _hname(st, args[1]))
    yield st, z3.UGT(ga.fields[0], bv(0))


def M_getall_iter(it, ctx, args, st):
    ga = st.deref_all(args[0]) if isinstance(args[0], Ptr) else args[0]
    yield st, Agg('It', ('hvals', ga, None, 0, None))


def visible_ascii(s):
    return z3.And(*[z3.Or(z3.UGE(bv(i), s.len), z3.And(z3.UGE(b, 32), z3.ULT(b, 127)), b == 9) for i, b in enumerate(s.bytes)]) if s.bytes else z3.BoolVal(True)


def M_hv_to_str(it, ctx, args, st):
    hv = st.deref_all(args[0])
    bs, abstract = hv.fields
    if abstract is not None:
        # abstract header value: a text whose parse is carried along
        yield st, it.ok(st.ref(Agg('AbstractStr', (abstract,))))
        return
    vis = visible_ascii(bs)
    for s2, good in fork_bool(it, st, vis):
        yield s2, (it.ok(s2.ref(bs)) if good else it.err(Agg('http::header::ToStrError', ())))


def M_hv_from_static(it, ctx, args, st):
    yield st, header_value(sval(st, args[0]))


def M_hv_eq(it, ctx, args, st):
    a, b = st.deref_all(args[0]), st.deref_all(args[1])
    if a.fields[0] is None or b.fields[0] is None:
        raise Unsupported('HeaderValue == on abstract values')
    yield st, bstr_eq(a.fields[0], b.fields[0])


# ------------------------------------------------------------------ mediatype (already-parsed symbolic structures)
NAMES = {}


def name_code(s):
    s = s.lower()
    if s not in NAMES:
        NAMES[s] = len(NAMES) + 1
    return NAMES[s]


def mt_name(code):
    return Agg('mediatype::Name', (code if z3.is_expr(code) else z3.BitVecVal(code, 8),))


def media_type(it, ty, subty, suffix=None, params=()):
    """ty/subty: Name values; suffix: Option enum of Name or None; params: tuple of (Name, Value)"""
    return Agg('mediatype::MediaType', (ty, subty, suffix if suffix is not None else it.none, Seq(tuple(Agg('tuple', p) for p in params))))


def parse_concrete_media_type(it, text):
    m = re.fullmatch(r'\s*([!#$%&\'*+.^_`|~\w-]+)/([!#$%&\'*.^_`|~\w-]+?)(?:\+([!#$%&\'*.^_`|~\w-]+))?\s*((?:;.*)?)', text)
    if not m:
        return None
    params = []
    for p in [x.strip() for x in m.group(4).split(';') if x.strip()]:
        if '=' not in p:
            return None
        k, v = p.split('=', 1)
        params.append((mt_name(name_code(k.strip())), Agg('mediatype::Value', (bstr(v.strip().strip('"')),))))
    suffix = it.some(mt_name(name_code(m.group(3)))) if m.group(3) else it.none
    return media_type(it, mt_name(name_code(m.group(1))), mt_name(name_code(m.group(2))), suffix, params)


def M_mt_parse(it, ctx, args, st):
    v = st.deref_all(args[0])
    if isinstance(v, Agg) and v.name == 'AbstractStr':
        items = v.fields[0]
        # an abstract text carries the results of parsing it as a list; MediaType::parse sees the single item
        if len(items) != 1:
            raise Unsupported('MediaType::parse of a multi-range abstract text')
        ok, mt = items[0]
        for s2, good in fork_bool(it, st, ok):
            yield s2, (it.ok(mt) if good else it.err(Agg('mediatype::MediaTypeError', ())))
        return
    py = bstr_py(v)
    if py is None:
        raise Unsupported('MediaType::parse of a symbolic text (give the header an abstract parse)')
    mt = parse_concrete_media_type(it, py.decode('latin1'))
    yield st, (it.ok(mt) if mt is not None else it.err(Agg('mediatype::MediaTypeError', ())))


def M_mtl_new(it, ctx, args, st):
    v = st.deref_all(args[0])
    if isinstance(v, Agg) and v.name == 'AbstractStr':
        yield st, Agg('It', ('mtlist', v.fields[0], None, 0, None))
        return
    py = bstr_py(v)
    if py is None:
        raise Unsupported('MediaTypeList::new of a symbolic text (give the header an abstract parse)')
    # concrete header text: comma-separated ranges (no quoted commas in the texts the harnesses produce: stated)
    if b'"' in py:
        raise Unsupported('MediaTypeList::new of a concrete text with quoted strings')
    items = []
    for part in py.decode('latin1').split(','):
        if not part.strip():
            continue
        mt = parse_concrete_media_type(it, part)
        items.append((z3.BoolVal(mt is not None), mt))
    yield st, Agg('It', ('mtlist', tuple(items), None, 0, None))


def M_mt_new(it, ctx, args, st):
    yield st, media_type(it, args[0], args[1])


def M_mt_essence(it, ctx, args, st):
    m = st.deref_all(args[0])
    yield st, Agg(m.name, (m.fields[0], m.fields[1], m.fields[2], Seq(())))


def name_eq(a, b):
    return a.fields[0] == b.fields[0]


def M_name_eq(it, ctx, args, st):
    yield st, name_eq(st.deref_all(args[0]), st.deref_all(args[1]))


def M_name_ne(it, ctx, args, st):
    yield st, z3.Not(name_eq(st.deref_all(args[0]), st.deref_all(args[1])))


def opt_name_eq(it, a, b):
    pa, pb = it.payload(a, 'Some'), it.payload(b, 'Some')
    inner = name_eq(pa.fields[0], pb.fields[0]) if pa is not None and pb is not None else z3.BoolVal(True)
    return z3.And(a.discr == b.discr, z3.Implies(a.discr == 1, inner))


def M_mt_eq(it, ctx, args, st):
    a, b = st.deref_all(args[0]), st.deref_all(args[1])
    if a.fields[3].items or b.fields[3].items:
        raise Unsupported('MediaType == with parameters (compared as maps in the crate)')
    yield st, z3.And(name_eq(a.fields[0], b.fields[0]), name_eq(a.fields[1], b.fields[1]), opt_name_eq(it, a.fields[2], b.fields[2]))


def M_mt_get_param(it, ctx, args, st):
    m = st.deref_all(args[0])
    nm = args[1]
    # last matching parameter wins (params.iter().rev().find(..))
    res = it.none
    out = None
    items = m.fields[3].items
    conds = []
    for item in reversed(items):
        conds.append((name_eq(nm, item.fields[0]), item.fields[1]))
    def go(st, k):
        if k == len(conds):
            yield st, it.none
            return
        c, val = conds[k]
        for s2, hit in fork_bool(it, st, c):
            if hit:
                yield s2, it.some(val)
            else:
                yield from go(s2, k + 1)
    yield from go(st, 0)


def M_value_as_str(it, ctx, args, st):
    v = st.deref_all(args[0]) if isinstance(args[0], Ptr) else args[0]
    yield st, st.ref(v.fields[0])


def M_cow_deref(it, ctx, args, st):
    v = st.deref(args[0])
    if isinstance(v, Enum):
        raise Unsupported('Cow deref of an enum-modelled Cow')
    yield st, args[0]


def it_next_http(it, st, itv, fr):
    kind, src, f, pos, cur = itv.fields
    if kind == 'hvals':
        n, items = src.fields
        if pos >= len(items):
            yield st, itv, None
            return
        for s2, more in fork_bool(it, st, z3.UGT(n, bv(pos))):
            if more:
                yield s2, Agg('It', ('hvals', src, None, pos + 1, None)), s2.ref(items[pos])
            else:
                yield s2, itv, None
    elif kind == 'mtlist':
        if pos >= len(src):
            yield st, itv, None
            return
        present, ok, mt = src[pos] if len(src[pos]) == 3 else (z3.BoolVal(True),) + tuple(src[pos])
        for s2, more in fork_bool(it, st, present):
            if not more:
                yield s2, itv, None
                continue
            nxt = Agg('It', ('mtlist', src, None, pos + 1, None))
            for s3, good in fork_bool(it, s2, ok):
                yield s3, nxt, (it.ok(mt) if good else it.err(Agg('mediatype::MediaTypeError', ())))
    else:
        raise Unsupported('iterator kind ' + kind)


from . import models_std as _ms
_ms.EXTRA_ITER_KINDS.update({'hvals': it_next_http, 'mtlist': it_next_http})

MODELS += [
    (r'conjure_error::Error::service(_safe)?::<.*>|conjure_error::Error::propagated_service(_safe)?::<.*>', M_error_service),
    (r'conjure_error::Error::internal(_safe)?::<.*>', M_error_internal),
    (r'conjure_error::Error::with_(un)?safe_param::<.*>', M_error_with_param),
    (r'conjure_error::(InvalidArgument|PermissionDenied|NotFound|Conflict|RequestEntityTooLarge|FailedPrecondition|Internal|Timeout)::new', M_error_type_new),
    (r'http::HeaderMap::get_all::<.*>|http::header::HeaderMap::get_all::<.*>', M_hm_get_all),
    (r'http::HeaderMap::get::<.*>|http::header::HeaderMap::get::<.*>', M_hm_get),
    (r'http::HeaderMap::contains_key::<.*>', M_hm_contains),
    (r'http::header::GetAll::<.*>::iter', M_getall_iter),
    (r'<http::header::GetAll<.*> as std::iter::IntoIterator>::into_iter|<&http::header::GetAll<.*> as std::iter::IntoIterator>::into_iter', M_getall_iter),
    (r'http::HeaderValue::to_str|http::header::HeaderValue::to_str', M_hv_to_str),
    (r'http::HeaderValue::from_static|http::header::HeaderValue::from_static', M_hv_from_static),
    (r'<&*http::(?:header::)?HeaderValue as std::cmp::PartialEq(?:<.*>)?>::eq', M_hv_eq),
    (r'mediatype::MediaType::parse::<?.*>?|mediatype::MediaType::parse', M_mt_parse),
    (r'mediatype::MediaTypeList::new', M_mtl_new), (r'mediatype::MediaType::new', M_mt_new),
    (r'mediatype::MediaType::essence', M_mt_essence),
    (r'<mediatype::Name as std::cmp::PartialEq>::eq', M_name_eq), (r'<mediatype::Name as std::cmp::PartialEq>::ne', M_name_ne),
    (r'<mediatype::MediaType as std::cmp::PartialEq>::eq', M_mt_eq),
    (r'<mediatype::MediaType as mediatype::ReadParams>::get_param', M_mt_get_param),
    (r'mediatype::Value::as_str', M_value_as_str),
    (r'<std::borrow::Cow<.*> as std::ops::Deref>::deref', M_cow_deref),
]

for _n, _s in (('ACCEPT', 'accept'), ('CONTENT_TYPE', 'content-type'), ('AUTHORIZATION', 'authorization'), ('COOKIE', 'cookie'),
               ('CONTENT_LENGTH', 'content-length')):
    CONSTS['http::header::' + _n] = (lambda s_: (lambda it, st: Agg('http::HeaderName', (s_,))))(_s)
CONSTS['mediatype::names::_STAR'] = lambda it, st: mt_name(name_code('*'))
CONSTS['mediatype::names::Q'] = lambda it, st: mt_name(name_code('q'))
