"""Helpers shared by the property harnesses: symbolic inputs, reference recognisers as z3 terms, deciding a post-condition,
native replay of solver models."""
import os, json, time, subprocess
import z3
from vlib.common import BUILD, VERIF, REPO, env_offline, Inconclusive, seed
from .values import BStr, Ptr, bv, concrete, is_abnormal, Panic, Unwind
from .interp import St


def sym_bytes(name, K):
    return [z3.BitVec(f'{name}_{i}', 8) for i in range(K)]


def sym_str(st, name, K, utf8=True):
    """a fresh symbolic byte string of <= K bytes in the store -> (pointer, BStr)"""
    bs = sym_bytes(name, K)
    ln = z3.BitVec(f'{name}_len', 64)
    st.pc.append(z3.ULE(ln, bv(K)))
    s = BStr(tuple(bs), ln)
    if utf8:
        st.pc.append(utf8_valid(s))
    return st.ref(s), s


def utf8_valid(s):
    """well-formed UTF-8 (RFC 3629 table) of the first len bytes, as a z3 Bool: the type invariant of &str"""
    ACC, N1, N2, N2E0, N2ED, N3, N3F0, N3F4, REJ = range(9)
    S = lambda k: z3.BitVecVal(k, 4)
    state = S(ACC)
    states = [state]
    rng = lambda b, lo, hi: z3.And(z3.UGE(b, lo), z3.ULE(b, hi))
    for b in s.bytes:
        from_acc = z3.If(z3.ULE(b, 0x7f), S(ACC),
                   z3.If(rng(b, 0xc2, 0xdf), S(N1),
                   z3.If(b == 0xe0, S(N2E0),
                   z3.If(z3.Or(rng(b, 0xe1, 0xec), rng(b, 0xee, 0xef)), S(N2),
                   z3.If(b == 0xed, S(N2ED),
                   z3.If(b == 0xf0, S(N3F0),
                   z3.If(rng(b, 0xf1, 0xf3), S(N3),
                   z3.If(b == 0xf4, S(N3F4), S(REJ)))))))))
        cont = rng(b, 0x80, 0xbf)
        nxt = z3.If(state == ACC, from_acc,
              z3.If(state == N1, z3.If(cont, S(ACC), S(REJ)),
              z3.If(state == N2, z3.If(cont, S(N1), S(REJ)),
              z3.If(state == N2E0, z3.If(rng(b, 0xa0, 0xbf), S(N1), S(REJ)),
              z3.If(state == N2ED, z3.If(rng(b, 0x80, 0x9f), S(N1), S(REJ)),
              z3.If(state == N3, z3.If(cont, S(N2), S(REJ)),
              z3.If(state == N3F0, z3.If(rng(b, 0x90, 0xbf), S(N2), S(REJ)),
              z3.If(state == N3F4, z3.If(rng(b, 0x80, 0x8f), S(N2), S(REJ)), S(REJ)))))))))
        state = nxt
        states.append(state)
    return z3.Or(*[z3.And(s.len == bv(j), states[j] == ACC) for j in range(len(states))])


def in_class(b, spec):
    """spec: string like 'a-zA-Z0-9_.-' (ranges and literals; '-' last or first is literal)"""
    conds = []
    i = 0
    while i < len(spec):
        if i + 2 < len(spec) and spec[i + 1] == '-':
            conds.append(z3.And(z3.UGE(b, ord(spec[i])), z3.ULE(b, ord(spec[i + 2]))))
            i += 3
        else:
            conds.append(b == ord(spec[i]))
            i += 1
    return z3.Or(*conds)


def model_bytes(m, s):
    n = m.eval(s.len, True).as_long()
    return bytes(m.eval(b, True).as_long() for b in s.bytes[:n])


class Decider:
    """runs queries `pc /\ bad` and records them in the report"""

    def __init__(self, rep, it):
        self.rep, self.it = rep, it

    def decide(self, name, st, bad, **info):
        """-> model if `bad` is satisfiable under st.pc, else None. unknown -> Inconclusive."""
        t = time.time()
        r = self.it.check(st.pc, z3.simplify(bad) if z3.is_expr(bad) else z3.BoolVal(bool(bad)))
        dt = time.time() - t
        self.rep.solver_time += dt
        verdict = 'sat' if r == z3.sat else 'unsat' if r == z3.unsat else 'unknown'
        self.rep.query(name, verdict, dt, **info)
        if r == z3.unknown:
            raise Inconclusive(f'solver returned unknown for {name}')
        return self.it.solver.model() if r == z3.sat else None

    def witness(self, name, st, cond=None, **info):
        """reachability twin: the path (plus cond) must be satisfiable; returns the model"""
        t = time.time()
        r = self.it.check(st.pc, cond)
        dt = time.time() - t
        self.rep.solver_time += dt
        self.rep.query('twin:' + name, 'sat' if r == z3.sat else 'unsat' if r == z3.unsat else 'unknown', dt, **info)
        if r != z3.sat:
            raise Inconclusive(f'vacuity: reachability twin {name} is not satisfiable')
        return self.it.solver.model()


def finish_engine(rep, it, t_engine=None):
    rep.states += 0
    rep.transitions += it.blocks
    rep.solver_time += 0
    rep.functions_encoded += sorted(it.entered)
    rep.models_used += sorted(it.used_models)
    rep.extra['feasibility_queries'] = rep.extra.get('feasibility_queries', 0) + it.nqueries
    rep.extra['engine_solver_time_s'] = round(rep.extra.get('engine_solver_time_s', 0) + it.tsolve, 2)
    rep.extra['state_merges'] = rep.extra.get('state_merges', 0) + it.merged


def abnormal_outcome(rep, dec, name, st, rv, allow_panic=False):
    """common handling of Panic / Unwind outcomes. returns True if the outcome was abnormal."""
    if isinstance(rv, Unwind):
        rep.inconc(f'{name}: unwinding assertion failed at {rv.where} (bound too small)')
        return True
    if isinstance(rv, Panic):
        return True
    return False


# ------------------------------------------------------------------ native replay
_built = {}


def replay_binary(profile='dev'):
    if profile in _built:
        return _built[profile]
    from vlib.common import harness_crate
    rdir = harness_crate('replay')
    import shutil
    shutil.copyfile(os.path.join(REPO, 'Cargo.lock'), os.path.join(rdir, 'Cargo.lock'))
    tdir = os.path.join(BUILD, 'replay-target')
    cmd = ['cargo', 'build', '--offline'] + (['--release'] if profile == 'release' else [])
    import fcntl
    with open(os.path.join(BUILD, '.replay-build.lock'), 'w') as lk:          # forked workers build one at a time
        fcntl.flock(lk, fcntl.LOCK_EX)
        p = subprocess.run(cmd, cwd=rdir, env=env_offline({'CARGO_TARGET_DIR': tdir}), capture_output=True, text=True, timeout=1800)
    if p.returncode != 0:
        raise Inconclusive('replay binary does not build against the current tree: ' + p.stderr[-600:])
    _built[profile] = os.path.join(tdir, 'release' if profile == 'release' else 'debug', 'verif-replay')
    return _built[profile]


def replay(ops, profile='dev'):
    """run the ops natively -> list of results"""
    exe = replay_binary(profile)
    os.makedirs(os.path.join(BUILD, 'scen'), exist_ok=True)
    path = os.path.join(BUILD, 'scen', f'scen-{os.getpid()}-{int(time.time() * 1e6)}.json')
    json.dump(ops, open(path, 'w'))
    try:
        p = subprocess.run([exe, path], capture_output=True, text=True, timeout=300)
    finally:
        os.remove(path)
    if p.returncode != 0:
        raise Inconclusive('replay binary failed: ' + p.stderr[-400:])
    return json.loads(p.stdout)


def find_fns(prog, method, inpath=None, ret=None, arg0=None):
    """functions named ...::method (including #k duplicates), optionally filtered by a path substring / return / first-arg type text"""
    import re as _re
    out = []
    for k, f in prog.fns.items():
        if not _re.search(r'::' + _re.escape(method) + r'(#\d+)?$', k):
            continue
        if inpath and inpath not in k:
            continue
        if ret and ret not in f.ret:
            continue
        if arg0 and (not f.args or arg0 not in f.args[0][1]):
            continue
        out.append(k)
    return out


def find_fn(prog, method, **kw):
    c = find_fns(prog, method, **kw)
    if len(c) != 1:
        from vlib.common import Inconclusive
        raise Inconclusive(f'harness: expected exactly one function {method} {kw}, found {len(c)}: {c[:4]}')
    return c[0]
