"""mirsym: path-enumerating symbolic executor over rustc MIR text, z3 bit-vectors; library calls go to models.
See DESIGN.md §3.1.  Nothing here is specific to one property."""
import re, os, time, functools, itertools
import z3
from .parse import (Fn, Unsupported, split_top, top_find, matching_close, parse_mir, parse_place, parse_operand, parse_rvalue,
                    parse_stmt, parse_term, _depth_scan)
from .types import (ty_parse, ty_str, subst, unify, ty_eq, head_name, strip_refs, last_seg, same_name, INT_BITS, is_signed,
                    strip_lifetimes, PRELUDE)
from .values import (Agg, Enum, Ptr, Seq, BStr, FnItem, Coro, UNIT, Panic, Unwind, bv, concrete, bstr, bstr_py, bstr_byte,
                     project, update, merge_val, val_eq, is_abnormal)
from .decls import SourceIndex, ImplInfo, span_text, parse_impl_header, BUILTIN_ENUMS, EnumDecl

PROGRESS = bool(os.environ.get('MIRSYM_PROGRESS'))
F64 = z3.Float64()
F32 = z3.Float32()
RNE = z3.RNE()


class St:
    """one symbolic state: store (copied on fork), path condition, allocation counter"""
    __slots__ = ('store', 'pc', 'n', 'aux')

    def __init__(self):
        self.store = {}
        self.pc = []
        self.n = 0
        self.aux = {}

    def fork(self):
        s = St()
        s.store = dict(self.store)
        s.pc = list(self.pc)
        s.n = self.n
        s.aux = dict(self.aux)
        return s

    def alloc(self, v=None):
        self.n += 1
        self.store[self.n] = v
        return self.n

    def ref(self, v):
        return Ptr(self.alloc(v), ())

    def deref(self, p):
        return project(self.store[p.addr], p.proj)

    def deref_all(self, p):
        while isinstance(p, Ptr):
            p = project(self.store[p.addr], p.proj)
        return p

    def write(self, p, v):
        self.store[p.addr] = update(self.store[p.addr], p.proj, v)


class Frame:
    __slots__ = ('fn', 'locals', 'tenv', 'visits', 'depth')


class Callee:
    __slots__ = ('text', 'kind', 'self_ty', 'trait', 'method', 'gargs', 'segs', 'key')


DERIVE_TRAITS = {'Clone', 'Copy', 'Debug', 'PartialEq', 'Eq', 'PartialOrd', 'Ord', 'Hash', 'Default', 'Serialize', 'Deserialize', 'Educe'}


class Program:
    """function table over several crates + declarations read from the sources"""

    def __init__(self, src_root):
        self.src_root = src_root
        self.fns = {}
        self.allocs = {}
        self.statics = {}
        self.crates = {}                 # crate name -> dir
        self.src = SourceIndex()
        self.impls = []                  # [ImplInfo]
        self.by_last = {}                # last path segment -> [fn names]
        self.closures = {}               # (parent fn name, span) -> closure fn name
        self.provided = {}               # 'Trait::method' (last two segments) -> [fn names]
        self.fn_generics_cache = {}
        self.reexports = {}              # crate -> {public path: definition path}

    def load(self, crate, mir_path, crate_dir, src_sub='src'):
        text = open(mir_path, errors='replace').read()
        fns, allocs, statics = parse_mir(text, crate)
        self.crates[crate] = crate_dir
        self.src.add_tree(crate_dir, crate, src_sub)
        for n, f in fns.items():
            q = crate + '::' + n if not n.startswith('<') else crate + '::' + n
            f.name = q
            if f.parent:
                f.parent = crate + '::' + f.parent
            self.fns[q] = f
        for a, b in allocs.items():
            self.allocs[(crate, a)] = b
        for s, a in statics.items():
            self.statics[crate + '::' + s] = (crate, a)
        self._index(crate, fns)

    def _index(self, crate, fns):
        spans = {}
        for f in fns.values():
            last = re.sub(r'#\d+$', '', f.name.split('::')[-1])
            self.by_last.setdefault(last, []).append(f.name)
            m = re.search(r'::\{closure#\d+\}$', f.name)
            if m and f.args:
                sp = re.search(r'\{closure@([^}]*)\}', f.args[0][1])
                if sp:
                    self.closures[(f.parent, sp.group(1))] = f.name
                    self.closures.setdefault((None, sp.group(1)), f.name)
            if f.span and '{closure#' not in f.name and 'promoted[' not in f.name and '{constant#' not in f.name:
                # text between the impl span and the method name may hold nested items (fn-local impls)
                spans.setdefault((crate, f.span), []).append(f)
            if f.span is None and f.kind == 'fn' and '{closure#' not in f.name:
                segs = f.name.split('::')
                if len(segs) >= 2:
                    self.provided.setdefault(segs[-2] + '::' + last, []).append(f.name)
        seen_lines = set()
        for (cr, span), fl in spans.items():
            info = self._impl_info(cr, span, fl)
            if info:
                self.impls.append(info)
                seen_lines.add((info.src, span[1]))
        # impls without any method body (e.g. `impl Behavior for X { type KeyBehavior = Y; }`) never show up in the dump:
        # read their headers from the sources so that provided trait methods can be dispatched on them
        cdir = self.crates.get(crate)
        for path in [p for p in list(self.src.files) if cdir and p.startswith(cdir)]:
            raw, lines = self.src.read(path)
            rel = os.path.relpath(path, os.path.join(cdir, 'src'))[:-3].split(os.sep)
            if rel[-1] in ('mod', 'lib', 'main'):
                rel = rel[:-1]
            module = '::'.join([crate] + rel)
            for k, ln in enumerate(lines):
                if not re.match(r'^(?:unsafe )?impl\b', ln) or (path, k + 1) in seen_lines:
                    continue
                hdr = ''
                j = k
                while j < len(lines) and '{' not in lines[j]:
                    hdr += ' ' + lines[j].strip()
                    j += 1
                if j < len(lines):
                    hdr += ' ' + lines[j].split('{')[0].strip()
                ph = parse_impl_header(hdr.strip())
                if not ph or ph[1] is None or '$' in hdr:
                    continue
                gens, tr, self_ = ph
                info = ImplInfo()
                info.crate, info.span, info.text, info.src = crate, (path, k + 1, 1, k + 1, 1), hdr.strip(), path
                info.module, info.methods, info.kind, info.gens = module, {}, 'impl', gens
                trt = ty_parse(tr)
                info.trait, info.trait_args = trt[1], [self._qualify(a, module, set(gens)) for a in trt[2]]
                info.self_ty = self._qualify(ty_parse(self_), module, set(gens))
                self.impls.append(info)

    def _impl_info(self, crate, span, fl):
        path, l1, c1, l2, c2 = span
        full = path if os.path.isabs(path) else os.path.join(self.src_root, path)
        if not os.path.exists(full):
            return None
        raw, lines = self.src.read(full)
        text = span_text(lines, l1, c1, l2, c2)
        info = ImplInfo()
        info.crate, info.span, info.text, info.src = crate, span, text, full
        # module of the impl: the fn name's prefix before '<impl at'
        name0 = fl[0].name
        info.module = name0.split('::<impl at')[0]
        info.methods = {}
        for f in fl:
            # nested impl spans (fn-local types): the *last* span in the name is this impl's
            meth = re.sub(r'#\d+$', '', f.name.split('::')[-1])
            info.methods.setdefault(meth, []).append(f.name)
        hdr = parse_impl_header(text) if text.lstrip().startswith('impl') else None
        if hdr:
            gens, tr, self_ = hdr
            info.kind = 'macro' if '$' in text else 'impl'
            info.gens = gens + re.findall(r'\$\w+', text)
            info.gens = list(dict.fromkeys(info.gens))
            trt = ty_parse(tr) if tr else None
            info.trait = trt[1] if trt else None
            info.trait_args = list(trt[2]) if trt else []
            info.self_ty = self._qualify(ty_parse(self_), info.module, set(info.gens))
            info.trait_args = [self._qualify(a, info.module, set(info.gens)) for a in info.trait_args]
            return info
        word = text.strip()
        if re.fullmatch(r'\w+', word):
            # derive: the item that follows the attribute
            info.kind = 'derive'
            info.trait = word
            info.trait_args = []
            for k in range(l1 - 1, min(len(lines), l1 + 40)):
                m = re.search(r'\b(?:struct|enum|union)\s+(\w+)\s*(<[^>{(]*>)?', lines[k])
                if m:
                    gens = []
                    if m.group(2):
                        gens = [g.split(':')[0].strip() for g in split_top(m.group(2)[1:-1]) if not g.strip().startswith("'")]
                    info.gens = gens
                    info.self_ty = ('path', info.module + '::' + m.group(1), tuple(('path', g, ()) for g in gens))
                    return info
        return None

    def _qualify(self, t, module, gens):
        """source-level type names -> module-qualified paths (same form as the dump's)"""
        if t is None:
            return None
        k = t[0]
        if k == 'ref':
            return ('ref', t[1], self._qualify(t[2], module, gens))
        if k == 'opaque':
            return t
        args = tuple(self._qualify(a, module, gens) for a in t[2])
        if k != 'path':
            return (k, t[1], args)
        nm = t[1]
        if nm in gens or nm in INT_BITS or nm in ('bool', 'char', 'str', 'f32', 'f64', 'Self', '!'):
            return ('path', nm, args)
        if nm in PRELUDE:
            return ('path', PRELUDE[nm], args)
        if '::' not in nm and nm[:1].isupper():
            # a type named in the impl header without a path: declared in (or imported into) this module; the dump
            # prints the definition path, which ends in ::nm.  Qualify when the declaration site is unambiguous.
            decls = [d.module for d in self.src.enums.get(nm, [])] + [m_ for m_, _ in self.src.structs.get(nm, [])]
            here = [m_ for m_ in decls if m_ == module]
            if len(here) == 1:
                return ('path', module + '::' + nm, args)
            if len(decls) == 1:
                return ('path', decls[0] + '::' + nm, args)
            return ('path', nm, args)
        return ('path', nm, args)

    # ---- generics of a function as declared in the source (names, in order)
    def fn_generics(self, fname):
        if fname in self.fn_generics_cache:
            return self.fn_generics_cache[fname]
        f = self.fns[fname]
        meth = re.sub(r'#\d+$', '', fname.split('::')[-1])
        out = None
        cands = []
        if f.span:
            path = f.span[0]
            full = path if os.path.isabs(path) else os.path.join(self.src_root, path)
            if os.path.exists(full):
                raw, lines = self.src.read(full)
                cands = [(full, f.span[1] - 1)]
        else:
            # free function / provided trait method: the module path names the file; a provided method sits inside `trait Name`
            cdir = self.crates.get(f.crate)
            mods = fname.split('::')[1:-1]
            trait = None
            if mods and mods[-1][:1].isupper():
                trait, mods = mods[-1], mods[:-1]
            files = []
            if cdir:
                base = os.path.join(cdir, 'src', *mods)
                files = [base + '.rs', os.path.join(base, 'mod.rs')] if mods else [os.path.join(cdir, 'src', 'lib.rs')]
            for p in files:
                if os.path.exists(p):
                    raw, lines = self.src.read(p)
                    start = 0
                    if trait:
                        for k, ln in enumerate(lines):
                            if re.search(r'\btrait\s+' + re.escape(trait) + r'\b', ln):
                                start = k
                                break
                    cands.append((p, start))
            if not cands:
                for p in list(self.src.files):
                    if cdir and p.startswith(cdir):
                        cands.append((p, 0))
        best = None
        for full, start in cands:
            raw, lines = self.src.read(full)
            for k in range(start, len(lines)):
                m = re.search(r'\bfn\s+' + re.escape(meth) + r'\s*(<|\()', lines[k])
                if m:
                    txt = ' '.join(lines[k:k + 12])
                    txt = txt[txt.index('fn ' + meth) if ('fn ' + meth) in txt else 0:]
                    mm = re.match(r'fn\s+' + re.escape(meth) + r'\s*<', txt)
                    gens = []
                    if mm:
                        q = matching_close(txt, mm.end() - 1)
                        for g in split_top(txt[mm.end():q]):
                            g = g.strip()
                            if g and not g.startswith("'"):
                                gens.append(re.sub(r'^const ', '', g).split(':')[0].strip())
                    best = gens
                    break
            if best is not None:
                break
        out = best
        self.fn_generics_cache[fname] = out
        return out


class Interp:
    """symbolic executor.  models: [(regex, fn(it, ctx, args, st) -> yields (st, value))] matched on the callee text;
    tmodels: {(type-last-segment, trait-last-segment, method): fn} for foreign / harness Self types."""

    def __init__(self, prog, models=(), tmodels=None, unwind=16, merge=(), query_timeout_ms=60000):
        self.p = prog
        self.models = [(re.compile(m[0]), m[1], m[2] if len(m) > 2 else None) for m in models]
        self.tmodels = dict(tmodels or {})
        self.unwind = unwind
        self.merge = tuple(re.compile(m) for m in merge)
        self.solver = z3.Solver()
        self.solver.set('timeout', query_timeout_ms)
        self.sstack = []
        self.fcache = {}
        self.nqueries = 0
        self.tsolve = 0.0
        self.blocks = 0
        self.merged = 0
        self.entered = set()
        self.used_models = set()
        self.const_cache = {}
        self.max_depth = 400
        self.ext_consts = {}
        self.const_generic_defaults = {}
        self.assoc_types = {}
        self.auto_merge = True

    # ------------------------------------------------------------------ solver
    def _sync(self, pc):
        k = 0
        n = min(len(pc), len(self.sstack))
        while k < n and self.sstack[k] is pc[k]:
            k += 1
        while len(self.sstack) > k:
            self.solver.pop()
            self.sstack.pop()
        for c in pc[k:]:
            self.solver.push()
            self.solver.add(c)
            self.sstack.append(c)

    def check(self, pc, extra=None):
        """-> z3.sat / z3.unsat / z3.unknown for pc (+ extra)"""
        t = time.time()
        self._sync(pc)
        r = self.solver.check(extra) if extra is not None else self.solver.check()
        self.tsolve += time.time() - t
        self.nqueries += 1
        return r

    def feasible(self, st, cond=None):
        if cond is not None:
            s = z3.simplify(cond)
            if z3.is_true(s):
                return True
            if z3.is_false(s):
                return False
            cond = s
        r = self.check(st.pc, cond)
        if r == z3.unknown:
            raise Unsupported('solver returned unknown on a feasibility query')
        return r == z3.sat

    def model(self, st, extra=None):
        r = self.check(st.pc, extra)
        return self.solver.model() if r == z3.sat else None

    def fork_on(self, st, conds):
        """conds: list of z3 Bool; yields (state, index) for every feasible one (states are forks except the last)"""
        live = [i for i, c in enumerate(conds) if self.feasible(st, c)]
        for j, i in enumerate(live):
            s2 = st if j == len(live) - 1 else st.fork()
            c = z3.simplify(conds[i])
            if not z3.is_true(c):
                s2.pc.append(c)
            yield s2, i

    def enum_cases(self, e, st):
        conds = [e.discr == bv(e.decl.variants[i][1]) for i, _ in e.payloads]
        for s2, j in self.fork_on(st, conds):
            i, p = e.payloads[j]
            yield s2, i, p

    # ------------------------------------------------------------------ enum helpers
    def enum_decl(self, tpath):
        d = self.p.src.enum(tpath)
        if d is None:
            raise Unsupported('unknown enum type ' + tpath)
        return d

    def mk_enum(self, tpath, variant, *fields):
        d = self.enum_decl(tpath) if isinstance(tpath, str) else tpath
        i = d.index[variant]
        return Enum(d, bv(d.variants[i][1]), ((i, Agg(variant, tuple(fields))),))

    def some(self, v):
        return self.mk_enum('std::option::Option', 'Some', v)

    @property
    def none(self):
        return self.mk_enum('std::option::Option', 'None')

    def ok(self, v):
        return self.mk_enum('std::result::Result', 'Ok', v)

    def err(self, v):
        return self.mk_enum('std::result::Result', 'Err', v)

    def sym_enum(self, tpath, discr, payloads):
        """payloads: {variant name: fields tuple}"""
        d = self.enum_decl(tpath) if isinstance(tpath, str) else tpath
        return Enum(d, discr, tuple((d.index[n], Agg(n, tuple(f))) for n, f in payloads.items()))

    def opt(self, present, v):
        """Option whose discriminant is the Bool `present`"""
        d = BUILTIN_ENUMS['std::option::Option']
        return Enum(d, z3.If(present, bv(1), bv(0)), ((0, Agg('None', ())), (1, Agg('Some', (v,)))))

    def variant_of(self, e, name):
        i = e.decl.index[name]
        return e.discr == bv(e.decl.variants[i][1])

    def payload(self, e, name):
        i = e.decl.index[name]
        for k, p in e.payloads:
            if k == i:
                return p
        return None

    # ------------------------------------------------------------------ static types
    def tsub(self, fr, tstr):
        """type string of the MIR -> type tree with the frame's generic parameters substituted"""
        t = ty_parse(tstr)
        return subst(t, fr.tenv) if fr.tenv else t

    def place_type(self, fr, pl):
        k = pl[0]
        if k == 'local':
            return self.tsub(fr, fr.fn.locals[pl[1]])
        if k == 'field':
            return self.tsub(fr, pl[3])
        if k == 'deref':
            t = self.place_type(fr, pl[1])
            if t[0] == 'ref':
                return t[2]
            if t[0] == 'path' and last_seg(t[1]) in ('Box', 'Rc', 'Arc') and t[2]:
                return t[2][0]
            raise Unsupported('deref of type ' + ty_str(t))
        if k == 'downcast':
            return self.place_type(fr, pl[1])
        if k in ('index', 'constindex'):
            t = self.place_type(fr, pl[1])
            if t[0] in ('array', 'slice'):
                return t[2][0]
            raise Unsupported('index into type ' + ty_str(t))
        raise Unsupported('type of place ' + str(pl))

    def operand_type(self, fr, op):
        if op[0] == 'place':
            return self.place_type(fr, op[1])
        if op[0] == 'const':
            c = op[1]
            m = re.fullmatch(r'-?\d+_(\w+)', c)
            if m:
                return ('path', m.group(1), ())
            if c in ('true', 'false'):
                return ('path', 'bool', ())
            m = re.fullmatch(r'(\w+)::(MAX|MIN)', c)
            if m and m.group(1) in INT_BITS:
                return ('path', m.group(1), ())
            if c.startswith("'"):
                return ('path', 'char', ())
            return None
        return None

    # ------------------------------------------------------------------ places
    def loc(self, fr, st, pl):
        """place AST -> (addr, proj)"""
        k = pl[0]
        if k == 'local':
            return fr.locals[pl[1]], ()
        if k == 'deref':
            ptr = self.read(fr, st, pl[1])
            if isinstance(ptr, Agg) and ptr.name in ('Box', 'std::boxed::Box'):
                ptr = ptr.fields[0].fields[0]
            if not isinstance(ptr, Ptr):
                raise Unsupported(f'deref of non-pointer {ptr!r:.120} in {fr.fn.name}')
            return ptr.addr, ptr.proj
        if k == 'field':
            a, pr = self.loc(fr, st, pl[1])
            if pl[2] == 0 and len(pl) > 3 and (pl[3].startswith('std::num::NonZero<') or 'niche_types::' in pl[3] or re.fullmatch(r'\(?(?:[iu](?:8|16|32|64|128|size))\)?(?: is .*)?', pl[3].strip()) is not None):
                # integer newtypes of std (StatusCode(NonZero<u16>(NonZeroU16Inner(u16)))) whose models are the bare integer
                base = project(st.store[a], pr) if not any(x[0] == 'I' for x in pr) else None
                if base is not None and z3.is_expr(base) and z3.is_bv(base):
                    return a, pr
            return a, pr + (('f', pl[2]),)
        if k == 'downcast':
            a, pr = self.loc(fr, st, pl[1])
            v = pl[2]
            if isinstance(v, int):
                return a, pr + (('v', v),)
            base = project(st.store[a], pr)
            if isinstance(base, Coro):
                raise Unsupported('named downcast of a coroutine')
            if not isinstance(base, Enum):
                raise Unsupported(f'downcast `as {v}` of non-enum {base!r:.100}')
            return a, pr + (('v', base.decl.index[v]),)
        if k == 'index':
            a, pr = self.loc(fr, st, pl[1])
            idx = st.store[fr.locals[pl[2]]]
            ci = concrete(idx)
            if ci is None:
                return a, pr + (('I', idx),)
            return a, pr + (('i', ci),)
        if k == 'constindex':
            a, pr = self.loc(fr, st, pl[1])
            i = pl[2]
            if i < 0:
                base = project(st.store[a], pr)
                i = len(base.items) + i
            return a, pr + (('i', i),)
        raise Unsupported('place ' + str(pl))

    def read(self, fr, st, pl):
        if pl[0] == 'field' and len(pl) > 3 and pl[1][0] == 'field' and len(pl[1]) > 3 and pl[3].startswith('std::ptr::NonNull<dyn ') \
                and pl[1][3].startswith('std::ptr::Unique<dyn '):
            # the raw pointer inside a Box<dyn Trait>: boxed trait objects are modelled as the value itself (From<T> for Box<dyn ..> is the
            # identity), so the pointer is the address of that value
            a0, pr0 = self.loc(fr, st, pl[1][1])
            base = project(st.store[a0], pr0)
            if not (isinstance(base, Agg) and base.name in ('Box', 'std::boxed::Box')):
                return Ptr(a0, pr0)
        a, pr = self.loc(fr, st, pl)
        if pr and pr[-1][0] == 'I':
            base = project(st.store[a], pr[:-1])
            return self.select(base, pr[-1][1])
        for x in pr:
            if x[0] == 'I':
                raise Unsupported('symbolic index in the middle of a place')
        return project(st.store[a], pr)

    def select(self, base, idx):
        if isinstance(base, BStr):
            return bstr_byte(base, idx)
        items = base.items
        if not items:
            raise Unsupported('select from empty sequence')
        if all(z3.is_expr(x) for x in items):
            # run-length compress tables of constants (lookup tables): one comparison pair per run
            w = idx.size()
            runs = []
            for k, x in enumerate(items):
                if runs and runs[-1][2].eq(x):
                    runs[-1][1] = k
                else:
                    runs.append([k, k, x])
            v = runs[-1][2]
            for a, b, x in reversed(runs[:-1]):
                c = (idx == bv(a, w)) if a == b else z3.And(z3.UGE(idx, bv(a, w)), z3.ULE(idx, bv(b, w)))
                v = z3.If(c, x, v)
            return v
        raise Unsupported('symbolic index into a sequence of aggregates')

    def write(self, fr, st, pl, v):
        a, pr = self.loc(fr, st, pl)
        for x in pr:
            if x[0] == 'I':
                raise Unsupported('write through a symbolic index')
        st.store[a] = update(st.store[a], pr, v)

    # ------------------------------------------------------------------ constants
    def const(self, fr, st, c):
        m = re.fullmatch(r'(-?\d+)_(\w+)(?: is .*)?', c)           # `204_u16 is 1..`: constant of a pattern type (NonZero internals)
        if m and m.group(2) in INT_BITS:
            return bv(int(m.group(1)), INT_BITS[m.group(2)])
        if c == 'true':
            return z3.BoolVal(True)
        if c == 'false':
            return z3.BoolVal(False)
        if c == '()':
            return UNIT
        if c.startswith('"'):
            s = _unescape(c[1:-1])
            return st.ref(bstr(s))
        if c.startswith('b"'):
            return st.ref(bstr(_unescape_bytes(c[2:-1])))
        if c.startswith("'"):
            return bv(ord(_unescape(c[1:-1])), 32)
        if c.startswith('ZeroSized: '):
            t = c[len('ZeroSized: '):]
            sp = re.match(r'\{closure@([^}]*)\}', t)
            if sp:
                return Agg('closure@' + sp.group(1), ())
            mf = re.fullmatch(r'(?:unsafe )?fn\(.*\)(?: -> .+?)? \{(.+)\}', t)
            if mf:
                return FnItem(mf.group(1))
            tt = ty_parse(t)
            return Agg(tt[1] if tt[0] == 'path' else t, ())
        m = re.fullmatch(r'(\w+)::(MAX|MIN)', c) or re.fullmatch(r'std::(\w+)::(MAX|MIN)', c) or re.fullmatch(r'core::num::<impl (\w+)>::(MAX|MIN)', c)
        if m and m.group(1) in INT_BITS:
            w = INT_BITS[m.group(1)]
            if m.group(1)[0] == 'i':
                return bv((1 << (w - 1)) - 1 if m.group(2) == 'MAX' else -(1 << (w - 1)), w)
            return bv((1 << w) - 1 if m.group(2) == 'MAX' else 0, w)
        m = re.fullmatch(r'(?:std|core)::(f32|f64)::(\w+)', c) or re.fullmatch(r'(?:std|core)::f(?:32|64)::<impl (f32|f64)>::(\w+)', c)
        if m:
            so = F64 if m.group(1) == 'f64' else F32
            k = m.group(2)
            if k == 'INFINITY':
                return z3.fpPlusInfinity(so)
            if k == 'NEG_INFINITY':
                return z3.fpMinusInfinity(so)
            if k == 'NAN':
                return z3.fpNaN(so)
        m = re.fullmatch(r'([-+]?[\d.]+(?:[eE][-+]?\d+)?)_?(f32|f64)', c)
        if m:
            return z3.FPVal(float(m.group(1)), F64 if m.group(2) == 'f64' else F32)
        m = re.fullmatch(r'<static\(DefId\([^~]*~ (\w+)\[\w+\]::(.+?)\)\)>', c)
        if m:
            return self.static(st, m.group(1) + '::' + m.group(2))
        m = re.fullmatch(r'\{(alloc\d+): (.+)\}', c)
        if m:
            key = (fr.fn.crate, m.group(1))
            if key in self.p.allocs:
                return st.ref(bstr(self.p.allocs[key]))
            t = m.group(2)
            if t.startswith('&') and re.fullmatch(r'&[\w:]+', t):
                # pointer to a zero-sized static (lazy_static! handle, unit struct)
                return st.ref(Agg(self._canon(fr.fn.crate, t[1:]), ()))
            raise Unsupported('const alloc ' + c)
        m = re.search(r'::promoted\[(\d+)\]$', c)
        if m:
            base = fr.fn.name
            # promoted of the closure's parent are referenced by the closure's own name
            nm = base + f'::promoted[{m.group(1)}]'
            if nm not in self.p.fns:
                raise Unsupported('promoted const ' + c + ' in ' + base)
            return self.eval_const(nm, st, fr.tenv)
        if ('#const:' + c) in fr.tenv:
            return fr.tenv['#const:' + c]
        if c in self.const_generic_defaults and re.fullmatch(r'[A-Z][A-Z0-9_]*', c):
            t = fr.tenv.get(c)
            if t is not None and t[0] == 'path' and re.fullmatch(r'\d+', t[1]):
                return bv(int(t[1]), 64)
            return self.const_generic_defaults[c]
        if c in self.ext_consts:
            return self.ext_consts[c](self, st)
        if c.startswith('<') and '>::' in c and re.fullmatch(r'[A-Z_]\w*', c.split('>::')[-1].split('::')[-1]):
            # <X as Tr>::method::Local  -- unit struct declared inside a trait-impl method (named like adt() names its tuple form)
            return Agg(last_seg(c.split('>::')[-1]).split('::<')[0], ())
        # unit-like / tuple constant of an ADT:  path::Name  |  path::Name(()) | path::Name {{ .. }}
        cc = c
        if '::<' in c and not c.startswith('<'):
            cc = '::'.join(x for k_, x in enumerate(split_top(c, '::')) if not (k_ > 0 and x.startswith('<')))
        m = re.fullmatch(r'((?:[\w]+::)*\w+)(?:::<.*>)?(?:\(.*\)| \{\{.*\}\})?', cc)
        # named const item of a loaded crate
        nm = self._resolve_item(fr.fn.crate, c)
        if nm is not None and self.p.fns[nm].kind == 'const':
            return self.eval_const(nm, st, {})
        if m and re.fullmatch(r'[A-Z][A-Z0-9_]*', m.group(1).split('::')[-1]) and '::' in m.group(1):
            # associated const of an impl (`Self::BODY_LIMIT`): its body is dumped under the impl's span
            path = m.group(1)
            last, owner = path.split('::')[-1], path.split('::')[-2]
            cands = [n for n in self.p.by_last.get(last, []) if self.p.fns[n].kind == 'const' and re.search(r'<impl at [^>]*>::' + last + '$', n)]
            ex = []
            for n in cands:
                for info in self.p.impls:
                    if any(n in ms for ms in info.methods.values()) or n.startswith(info.name + '::') if hasattr(info, 'name') else False:
                        ex.append(n)
            if len(cands) > 1:
                byowner = [n for n in cands if owner in self.p.fns[n].header or any(owner in getattr(i_, 'text', '') for i_ in self.p.impls if n.rsplit('::', 1)[0].endswith(getattr(i_, 'span_name', '\0')))]
                cands = byowner or cands
            if len(cands) == 1:
                return self.eval_const(cands[0], st, fr.tenv)
        if m:
            path = m.group(1)
            last = path.split('::')[-1]
            if last[:1].isupper() or last.startswith('_'):
                # enum unit variant?
                segs = path.split('::')
                if len(segs) >= 2:
                    d = None
                    try:
                        d = self.p.src.enum(self._canon(fr.fn.crate, '::'.join(segs[:-1])))
                    except Unsupported:
                        d = None
                    if d is not None and last in d.index:
                        return Enum(d, bv(d.variants[d.index[last]][1]), ((d.index[last], Agg(last, ())),))
                inner = ()
                if c.endswith('(())'):
                    inner = (UNIT,)
                return Agg(self._canon(fr.fn.crate, path), inner)
        raise Unsupported('const ' + c)

    def static(self, st, qname):
        if qname in self.p.statics:
            data = self.p.allocs[self.p.statics[qname]]
            key = ('static', qname)
            if key not in st.aux:
                st.aux[key] = st.alloc(Seq(tuple(bv(b, 8) for b in data)))
            return Ptr(st.aux[key], ())
        raise Unsupported('static ' + qname)

    def eval_const(self, name, st, tenv):
        saved = self.unwind
        self.unwind = max(saved, 4096)          # const bodies run on concrete data and terminate: the symbolic unwinding bound does not apply
        try:
            outs = list(self.run(name, [], st, tenv))
        finally:
            self.unwind = saved
        if len(outs) != 1 or is_abnormal(outs[0][1]):
            raise Unsupported(f'const body {name} has {len(outs)} outcomes' + (f': {outs[0][1]!r:.160}' if outs else ''))
        return outs[0][1]

    def _canon(self, crate, path):
        """crate-relative path of the dump -> crate-qualified"""
        first = path.split('::')[0]
        if first in self.p.crates or first in ('std', 'core', 'alloc') or first in KNOWN_EXTERNAL:
            return path
        return crate + '::' + path

    def _resolve_item(self, crate, path):
        path = re.sub(r'::<.*?>', '', path)
        for cand in (crate + '::' + path, path):
            if cand in self.p.fns:
                return cand
        return None

    # ------------------------------------------------------------------ operands / rvalues
    def operand(self, fr, st, op):
        k = op[0]
        if k == 'place':
            return self.read(fr, st, op[1])
        if k == 'const':
            return self.const(fr, st, op[1])
        if k == 'fnitem':
            return FnItem(op[1])
        raise Unsupported('operand ' + str(op))

    def int_type(self, fr, op, other=None):
        t = self.operand_type(fr, op)
        if t is None and other is not None:
            t = self.operand_type(fr, other)
        if t is None or t[0] != 'path':
            return None
        return t[1]

    def binop(self, fr, st, op, oa, ob):
        a = self.operand(fr, st, oa)
        b = self.operand(fr, st, ob)
        if z3.is_fp(a) or z3.is_fp(b):
            f = {'Eq': z3.fpEQ, 'Ne': lambda x, y: z3.Not(z3.fpEQ(x, y)), 'Lt': z3.fpLT, 'Le': z3.fpLEQ, 'Gt': z3.fpGT, 'Ge': z3.fpGEQ,
                 'Add': lambda x, y: z3.fpAdd(RNE, x, y), 'Sub': lambda x, y: z3.fpSub(RNE, x, y),
                 'Mul': lambda x, y: z3.fpMul(RNE, x, y), 'Div': lambda x, y: z3.fpDiv(RNE, x, y)}.get(op)
            if f is None:
                raise Unsupported('float binop ' + op)
            return f(a, b)
        if z3.is_bool(a):
            if op == 'Eq':
                return a == b
            if op == 'Ne':
                return a != b
            if op == 'BitAnd':
                return z3.And(a, b)
            if op == 'BitOr':
                return z3.Or(a, b)
            if op == 'BitXor':
                return z3.Xor(a, b)
            if op in ('Lt', 'Le', 'Gt', 'Ge'):
                ia, ib = z3.If(a, bv(1, 8), bv(0, 8)), z3.If(b, bv(1, 8), bv(0, 8))
                return {'Lt': z3.ULT, 'Le': z3.ULE, 'Gt': z3.UGT, 'Ge': z3.UGE}[op](ia, ib)
            raise Unsupported('bool binop ' + op)
        if isinstance(a, Ptr) or isinstance(b, Ptr):
            if op in ('Eq', 'Ne'):
                r = z3.BoolVal(a == b)
                return r if op == 'Eq' else z3.Not(r)
            raise Unsupported('pointer binop ' + op)
        if not z3.is_bv(a) or not z3.is_bv(b):
            raise Unsupported(f'binop {op} on {a!r:.60} / {b!r:.60}')
        if op in ('Eq', 'Ne'):
            return (a == b) if op == 'Eq' else (a != b)
        if op in ('Shl', 'Shr', 'ShlUnchecked', 'ShrUnchecked'):
            w = a.size()
            sh = b
            if sh.size() < w:
                sh = z3.ZeroExt(w - sh.size(), sh)
            elif sh.size() > w:
                sh = z3.Extract(w - 1, 0, sh)
            sh = sh & bv(w - 1, w)
            if op.startswith('Shl'):
                return a << sh
            ty = self.int_type(fr, oa)
            if ty is None:
                raise Unsupported('Shr on operand of unknown signedness')
            return (a >> sh) if is_signed(ty) else z3.LShR(a, sh)
        if op in ('BitAnd', 'BitOr', 'BitXor'):
            return {'BitAnd': a & b, 'BitOr': a | b, 'BitXor': a ^ b}[op]
        if op in ('Add', 'AddUnchecked'):
            return a + b
        if op in ('Sub', 'SubUnchecked'):
            return a - b
        if op in ('Mul', 'MulUnchecked'):
            return a * b
        ty = self.int_type(fr, oa, ob)
        if ty is None:
            raise Unsupported(f'{op} on operands of unknown signedness in {fr.fn.name}')
        sg = is_signed(ty)
        if op in ('Lt', 'Le', 'Gt', 'Ge'):
            if sg:
                return {'Lt': a < b, 'Le': a <= b, 'Gt': a > b, 'Ge': a >= b}[op]
            return {'Lt': z3.ULT, 'Le': z3.ULE, 'Gt': z3.UGT, 'Ge': z3.UGE}[op](a, b)
        if op == 'Cmp':
            lt = (a < b) if sg else z3.ULT(a, b)
            d = BUILTIN_ENUMS['std::cmp::Ordering']
            return Enum(d, z3.If(lt, bv(-1), z3.If(a == b, bv(0), bv(1))), tuple((i, Agg(n, ())) for i, (n, _) in enumerate(d.variants)))
        if op == 'Div':
            return (a / b) if sg else z3.UDiv(a, b)
        if op == 'Rem':
            return z3.SRem(a, b) if sg else z3.URem(a, b)
        w = a.size()
        if op == 'AddWithOverflow':
            s = a + b
            if sg:
                ov = z3.Or(z3.And(a >= 0, b >= 0, s < 0), z3.And(a < 0, b < 0, s >= 0))
            else:
                ov = z3.ULT(s, a)
            return Agg('tuple', (s, ov))
        if op == 'SubWithOverflow':
            s = a - b
            if sg:
                ov = z3.Or(z3.And(a >= 0, b < 0, s < 0), z3.And(a < 0, b >= 0, s >= 0))
            else:
                ov = z3.ULT(a, b)
            return Agg('tuple', (s, ov))
        if op == 'MulWithOverflow':
            if sg:
                wa, wb = z3.SignExt(w, a), z3.SignExt(w, b)
                full = wa * wb
                ov = full != z3.SignExt(w, z3.Extract(w - 1, 0, full))
            else:
                wa, wb = z3.ZeroExt(w, a), z3.ZeroExt(w, b)
                full = wa * wb
                ov = z3.Extract(2 * w - 1, w, full) != 0
            return Agg('tuple', (a * b, ov))
        raise Unsupported('binop ' + op)

    def cast(self, fr, st, kind, op, tstr):
        v = self.operand(fr, st, op)
        if kind == 'IntToInt':
            tgt = self.tsub(fr, tstr)[1]
            if z3.is_bool(v):
                v = z3.If(v, bv(1, 8), bv(0, 8))
                src = 'u8'
            else:
                src = self.int_type(fr, op)
            if tgt == 'bool' or tgt not in INT_BITS and tgt != 'char':
                raise Unsupported('IntToInt to ' + tgt)
            tw = 32 if tgt == 'char' else INT_BITS[tgt]
            if not z3.is_bv(v):
                if isinstance(v, Enum):      # fieldless enum as integer
                    v = v.discr
                    src = 'i64'
                else:
                    raise Unsupported(f'IntToInt of {v!r:.80}')
            sw = v.size()
            if tw == sw:
                return v
            if tw < sw:
                return z3.Extract(tw - 1, 0, v)
            if src is None:
                raise Unsupported('IntToInt of operand of unknown signedness')
            if src == 'char':
                return z3.ZeroExt(tw - sw, v)
            return z3.SignExt(tw - sw, v) if is_signed(src) else z3.ZeroExt(tw - sw, v)
        if kind in ('Transmute', 'PtrToPtr', 'FnPtrToPtr', 'Subtype') or kind.startswith('PointerCoercion') or kind.startswith('PointerExposeProvenance') \
                or kind.startswith('PointerWithExposedProvenance'):
            return v
        if kind == 'IntToFloat':
            tgt = self.tsub(fr, tstr)[1]
            so = F64 if tgt == 'f64' else F32
            src = self.int_type(fr, op)
            return z3.fpSignedToFP(RNE, v, so) if is_signed(src) else z3.fpUnsignedToFP(RNE, v, so)
        if kind == 'FloatToFloat':
            tgt = self.tsub(fr, tstr)[1]
            return z3.fpFPToFP(RNE, v, F64 if tgt == 'f64' else F32)
        if kind == 'FloatToInt':
            # Rust `as`: NaN -> 0, out of range saturates, otherwise truncation toward zero
            tgt = self.tsub(fr, tstr)[1]
            if tgt not in INT_BITS:
                raise Unsupported('FloatToInt cast to ' + str(tgt))
            tw, sg = INT_BITS[tgt], tgt[0] == 'i'
            so = v.sort()
            lo, hi = (-(1 << (tw - 1)), (1 << (tw - 1)) - 1) if sg else (0, (1 << tw) - 1)
            RTZ = z3.RTZ()
            t = z3.fpRoundToIntegral(RTZ, v)
            conv = z3.fpToSBV(RTZ, t, z3.BitVecSort(tw)) if sg else z3.fpToUBV(RTZ, t, z3.BitVecSort(tw))
            # bounds as exact reals compared through the float's real value would need mixed theories; compare in the float domain
            # with bounds that are exactly representable (powers of two): t >= 2^(tw-1) (signed) / 2^tw (unsigned) saturates high
            top = z3.FPVal(float(2 ** (tw - 1) if sg else 2 ** tw), so)
            bot = z3.FPVal(float(-(2 ** (tw - 1))) if sg else 0.0, so)
            return z3.If(z3.fpIsNaN(v), z3.BitVecVal(0, tw),
                         z3.If(z3.fpGEQ(t, top), z3.BitVecVal(hi, tw),
                               z3.If(z3.fpLT(t, bot), z3.BitVecVal(lo, tw), conv)))
        raise Unsupported('cast kind ' + kind)

    def adt(self, fr, st, path, ops):
        """aggregate rvalue  PATH(ops) / PATH { .. } / PATH"""
        vals = tuple(self.operand(fr, st, o) for o in ops)
        p = strip_lifetimes(path)
        # drop generic args
        segs = []
        for k_, s in enumerate(split_top(p, '::')):
            if k_ > 0 and s.startswith('<') and not s.startswith('<impl'):
                continue
            segs.append(s)
        if p.startswith('<'):
            # <X as Tr>::method::Local(..)  -- fn-local tuple struct
            return Agg(last_seg(p.split('>::')[-1]).split('::<')[0], vals)
        clean = [re.sub(r'<.*$', '', s) for s in segs]
        full = self._canon(fr.fn.crate, '::'.join(clean))
        if len(clean) >= 2:
            try:
                d = self.p.src.enum(self._canon(fr.fn.crate, '::'.join(clean[:-1])))
            except Unsupported:
                d = None
            if d is not None and clean[-1] in d.index:
                i = d.index[clean[-1]]
                return Enum(d, bv(d.variants[i][1]), ((i, Agg(clean[-1], vals)),))
        return Agg(full, vals)

    def rvalue(self, fr, st, rv):
        k = rv[0]
        if k == 'use':
            return self.operand(fr, st, rv[1])
        if k == 'ref':
            a, pr = self.loc(fr, st, rv[1])
            for x in pr:
                if x[0] == 'I':
                    raise Unsupported('reference through a symbolic index')
            return Ptr(a, pr)
        if k == 'binop':
            return self.binop(fr, st, rv[1], rv[2], rv[3])
        if k == 'unop':
            v = self.operand(fr, st, rv[2])
            if rv[1] == 'Not':
                return z3.Not(v) if z3.is_bool(v) else ~v
            if rv[1] == 'Neg':
                return z3.fpNeg(v) if z3.is_fp(v) else -v
            if rv[1] == 'PtrMetadata':
                tgt = st.deref_all(v) if isinstance(v, Ptr) else v
                if isinstance(tgt, BStr):
                    return tgt.len
                if isinstance(tgt, Seq):
                    return bv(len(tgt.items))
                raise Unsupported(f'PtrMetadata of {tgt!r:.80}')
        if k == 'discr':
            v = self.read(fr, st, rv[1])
            if isinstance(v, (Enum, Coro)):
                return v.discr
            raise Unsupported(f'discriminant of {v!r:.80}')
        if k == 'len':
            v = self.read(fr, st, rv[1])
            if isinstance(v, BStr):
                return v.len
            return bv(len(v.items))
        if k == 'cast':
            return self.cast(fr, st, rv[1], rv[2], rv[3])
        if k == 'tuple':
            return Agg('tuple', tuple(self.operand(fr, st, o) for o in rv[1])) if rv[1] else UNIT
        if k == 'array':
            return Seq(tuple(self.operand(fr, st, o) for o in rv[1]))
        if k == 'repeat':
            n = int(re.sub(r'_\w+$', '', rv[2].replace('const ', '')))
            v = self.operand(fr, st, rv[1])
            return Seq((v,) * n)
        if k == 'closure':
            head = rv[1]
            vals = tuple(self.operand(fr, st, o) for o in rv[2])
            sp = re.match(r'\{closure@([^}]*)\}', head)
            if sp:
                return Agg('closure@' + sp.group(1), vals)
            m = re.match(r'\{(?:async fn body of|async block@|async closure body of|coroutine@)\s*(.*)\}', head)
            if m:
                # remember the type environment the coroutine was created under (its body is polled from elsewhere)
                st.aux['coro_tenv'] = {**st.aux.get('coro_tenv', {}), head: dict(fr.tenv)}
                pre = fr.fn.name + '::{closure#'
                bodies = [n for n in self.p.by_prefix(pre) if n.count('::{closure#') == fr.fn.name.count('::{closure#') + 1
                          and self.p.fns[n].args and self.p.fns[n].args[0][1].startswith('std::pin::Pin<&mut {')] if hasattr(self.p, 'by_prefix') else \
                         [n for n in self.p.fns if n.startswith(pre) and n.count('::{closure#') == fr.fn.name.count('::{closure#') + 1
                          and self.p.fns[n].args and self.p.fns[n].args[0][1].startswith('std::pin::Pin<&mut {')]
                if len(bodies) == 1:
                    st.aux['coro_body'] = {**st.aux.get('coro_body', {}), head: bodies[0]}
                return Coro(head, bv(0, 32), vals, ())
            raise Unsupported('aggregate ' + head)
        if k == 'adt':
            return self.adt(fr, st, rv[1], rv[2])
        raise Unsupported('rvalue ' + str(rv))

    def assign(self, fr, st, pl, v):
        # discriminant reads come back as BV64; narrow to the destination's declared integer type
        if z3.is_bv(v) and pl[0] == 'local':
            t = fr.fn.locals.get(pl[1])
            if t in INT_BITS and INT_BITS[t] != v.size():
                w = INT_BITS[t]
                v = z3.Extract(w - 1, 0, v) if w < v.size() else z3.SignExt(w - v.size(), v)
        self.write(fr, st, pl, v)

    # ------------------------------------------------------------------ execution
    def new_frame(self, f, args, st, tenv, depth):
        fr = Frame()
        fr.fn, fr.tenv, fr.visits, fr.depth = f, tenv or {}, {}, depth
        fr.locals = {}
        for n in f.locals:
            fr.locals[n] = st.alloc()
        if '_0' not in fr.locals:
            fr.locals['_0'] = st.alloc(UNIT)
        if len(args) != len(f.args):
            raise Unsupported(f'arity mismatch calling {f.name}: {len(args)} args for {len(f.args)} params')
        for (n, _), v in zip(f.args, args):
            st.store[fr.locals[n]] = v
        return fr

    def run(self, fname, args, st, tenv=None, depth=0):
        f = self.p.fns[fname]
        if depth > self.max_depth:
            raise Unsupported('call depth exceeded at ' + fname)
        self.entered.add(fname)
        fr = self.new_frame(f, list(args), st, tenv, depth)
        yield from self.block(fr, 'bb0', st)

    def block(self, fr, bb, st):
        f = fr.fn
        while True:
            self.blocks += 1
            if PROGRESS and self.blocks % 20000 == 0:
                import sys
                print(f'  [mirsym] blocks={self.blocks} queries={self.nqueries} solver={self.tsolve:.1f}s merges={self.merged} in {f.name[-60:]}', file=sys.stderr, flush=True)
            n = fr.visits.get(bb, 0) + 1
            fr.visits[bb] = n
            if n > self.unwind:
                yield st, Unwind(f'{f.name} {bb}')
                return
            stmts, t = f.blocks[bb]
            for s in stmts:
                ps = parse_stmt(s)
                if ps is None:
                    continue
                if ps[0] == 'assign':
                    try:
                        self.assign(fr, st, ps[1], self.rvalue(fr, st, ps[2]))
                    except Unsupported as e:
                        if ' (at ' not in str(e) and '(in ' not in str(e):
                            raise Unsupported(f'{e} (at `{s.strip()[:120]}` in {f.name})') from None
                        raise
                else:   # setdiscr
                    a, pr = self.loc(fr, st, ps[1])
                    cur = project(st.store[a], pr)
                    if isinstance(cur, Coro):
                        st.store[a] = update(st.store[a], pr, Coro(cur.name, bv(ps[2], 32), cur.upvars, cur.slots))
                    elif isinstance(cur, Enum):
                        st.store[a] = update(st.store[a], pr, Enum(cur.decl, bv(cur.decl.variants[ps[2]][1]), cur.payloads))
                    else:
                        raise Unsupported('SetDiscriminant on ' + repr(cur)[:80])
            pt = parse_term(t)
            k = pt[0]
            if k == 'return':
                yield st, st.store[fr.locals['_0']]
                return
            if k == 'dead':
                return
            if k == 'goto':
                bb = pt[1]
                continue
            if k == 'drop':
                bb = pt[2]
                continue
            if k == 'switch':
                v = self.operand(fr, st, pt[1])
                conds, tgts, taken = [], [], []
                for val, tgt in pt[2]:
                    if val is None:
                        c = z3.And(*[z3.Not(x) for x in taken]) if taken else z3.BoolVal(True)
                    else:
                        c = (v == z3.BoolVal(val != 0)) if z3.is_bool(v) else (v == bv(val, v.size()))
                        taken.append(c)
                    conds.append(c)
                    tgts.append(tgt)
                live = list(self.fork_on(st, conds))
                if len(live) == 1:
                    st, i = live[0]
                    bb = tgts[i]
                    continue
                for s2, i in live:
                    fr2 = fr if s2 is st else self.fork_frame(fr)
                    yield from self.block(fr2, tgts[i], s2)
                return
            if k == 'assert':
                c = self.operand(fr, st, pt[1])
                if pt[2]:
                    c = z3.Not(c)
                if self.feasible(st, z3.Not(c)):
                    s2 = st.fork()
                    s2.pc.append(z3.Not(c))
                    yield s2, Panic(pt[3], f.name + ' ' + bb)
                if not self.feasible(st, c):
                    return
                cs = z3.simplify(c)
                if not z3.is_true(cs):
                    st.pc.append(cs)
                bb = pt[4]
                continue
            if k == 'call':
                dest, callee, argops, nxt = pt[1], pt[2], pt[3], pt[4]
                args = [self.operand(fr, st, a) for a in argops]
                outs = self.call(fr, callee, args, st, argops)
                first = True
                pending = None
                for st2, rv in outs:
                    if is_abnormal(rv):
                        yield st2, rv
                        continue
                    if nxt is None:
                        continue          # diverging call
                    fr2 = self.fork_frame(fr)
                    self.assign(fr2, st2, dest, rv)
                    yield from self.block(fr2, nxt, st2)
                return
            raise Unsupported('terminator ' + t)

    def fork_frame(self, fr):
        f2 = Frame()
        f2.fn, f2.locals, f2.tenv, f2.depth = fr.fn, fr.locals, fr.tenv, fr.depth
        f2.visits = dict(fr.visits)
        return f2

    # ------------------------------------------------------------------ calls
    @functools.lru_cache(maxsize=None)
    def parse_callee(self, text):
        c = Callee()
        c.text = text
        t = strip_lifetimes(text)
        t = re.sub(r'\b\w+::core_reexport::', 'core::', t)
        t = re.sub(r"::<'\w+(?:, '\w+)*>", '', t)
        t = re.sub(r"<'\w+(, '\w+)*, ", '<', t)
        c.key = t
        if t.startswith(('move ', 'copy ')):
            c.kind = 'value'
            return c
        if t.startswith('<'):
            q = matching_close(t, 0)
            inner, rest = t[1:q], t[q + 1:]
            k = top_find(inner, ' as ')
            if rest.startswith('::'):
                segs = split_top(rest[2:], '::')
                if k is not None:
                    c.kind = 'trait'
                    c.self_ty = ty_parse(inner[:k])
                    c.trait = ty_parse(inner[k + 4:])
                else:
                    c.kind = 'inherent'
                    c.self_ty = ty_parse(inner)
                    c.trait = None
                c.method = segs[0]
                c.gargs = ()
                if len(segs) > 1 and segs[1].startswith('<'):
                    c.gargs = tuple(ty_parse(a) for a in split_top(segs[1][1:-1]) if not a.strip().startswith("'"))
                    c.segs = segs[2:]
                else:
                    c.segs = segs[1:]
                return c
        c.kind = 'path'
        segs = split_top(t, '::')
        out = []
        for s in segs:
            if s.startswith('<') and not s.startswith('<impl') and out:
                args = tuple(ty_parse(a) for a in split_top(s[1:-1]) if not a.strip().startswith("'"))
                out[-1] = (out[-1][0], args)
            else:
                out.append((s, ()))
        c.segs = tuple(out)
        return c

    def call(self, fr, callee_text, args, st, argops=None):
        """-> generator of (st, value)"""
        c = self.parse_callee(callee_text)
        ctx = CallCtx(self, fr, c, argops)
        if c.kind == 'value':
            f = self.operand(fr, st, parse_operand(c.text))
            yield from self.call_closure(f, args, st, fr)
            return
        key = c.key
        for pat, fn, guard in self.models:
            if pat.fullmatch(key) and (guard is None or guard(self, ctx, args, st)):
                self.used_models.add(pat.pattern)
                yield from fn(self, ctx, args, st)
                return
        if fr.tenv:
            skey = ctx.subst_key()
            if skey != key:
                for pat, fn, guard in self.models:
                    if pat.fullmatch(skey) and (guard is None or guard(self, ctx, args, st)):
                        self.used_models.add(pat.pattern)
                        yield from fn(self, ctx, args, st)
                        return
        tgt = self.resolve(fr, c, args, st, ctx)
        if tgt is None:
            raise Unsupported(f'no model / MIR for callee: {ctx.subst_key()}   (in {fr.fn.name})')
        if callable(tgt):
            yield from tgt(self, ctx, args, st)
            return
        name, tenv = tgt
        yield from self.invoke(name, args, st, tenv, fr.depth + 1)

    def call_trait(self, fr, self_ty, trait, method, gargs, args, st, targs=()):
        """trait-method call on behalf of a model: <self_ty as trait<targs>>::method::<gargs>(args) with type *trees*"""
        tr = ('path', trait, tuple(targs))
        c = Callee()
        c.text = c.key = f'<{ty_str(self_ty)} as {trait}>::{method}'
        c.kind, c.self_ty, c.trait, c.method, c.gargs, c.segs = 'trait', self_ty, tr, method, tuple(gargs), ()
        ctx = CallCtx(self, fr, c, None)
        fr0 = Frame()
        fr0.fn, fr0.locals, fr0.tenv, fr0.visits, fr0.depth = fr.fn, fr.locals, {}, {}, fr.depth
        ctx = CallCtx(self, fr0, c, None)
        for pat, fn, guard in self.models:
            if pat.fullmatch(c.key) and (guard is None or guard(self, ctx, args, st)):
                self.used_models.add(pat.pattern)
                yield from fn(self, ctx, args, st)
                return
        tgt = self.dispatch_target(self_ty, tr, method, list(gargs), args, st, ctx)
        if tgt is None:
            raise Unsupported(f'no impl / model for {c.key}  (called by a model on behalf of {fr.fn.name}; tenv={ {k: ty_str(v) if isinstance(v, tuple) else v for k, v in fr.tenv.items()} })')
        if callable(tgt):
            yield from tgt(self, ctx, args, st)
            return
        name, tenv = tgt
        yield from self.invoke(name, args, st, tenv, fr.depth + 1)

    def invoke(self, name, args, st, tenv, depth=0):
        if not any(m.search(name) for m in self.merge):
            f = self.p.fns[name]
            if not (self.auto_merge and f.ret in SCALAR_RET and len(f.blocks) <= 60):
                yield from self.run(name, args, st, tenv, depth)
                return
            # small scalar-valued helper: merge its outcomes when it is pure (no write to cells that existed before the call)
            n0 = len(st.pc)
            base = st.store
            outs = list(self.run(name, args, st.fork(), tenv, depth))
            aux0 = dict(st.aux)
            pure = len(outs) > 1 and all(not is_abnormal(rv) and z3.is_expr(rv) for _, rv in outs) and \
                all(s_i.store.get(a) is v for s_i, _ in outs for a, v in base.items()) and \
                all(len(s_i.aux) == len(aux0) and all(s_i.aux.get(k) is v for k, v in aux0.items()) for s_i, _ in outs)
            if not pure:
                yield from outs
                return
            acc = outs[-1][1]
            conds = [z3.And(*outs[-1][0].pc[n0:]) if len(outs[-1][0].pc) > n0 else z3.BoolVal(True)]
            for s_i, rv_i in reversed(outs[:-1]):
                c = z3.And(*s_i.pc[n0:]) if len(s_i.pc) > n0 else z3.BoolVal(True)
                conds.append(c)
                acc = z3.If(c, rv_i, acc)
            st.pc.append(z3.simplify(z3.Or(*conds)))
            st.n = max(s_i.n for s_i, _ in outs)
            self.merged += 1
            yield st, acc
            return
        # ---- state merging at the return of this function
        n0 = len(st.pc)
        base = st.store
        outs = list(self.run(name, args, st.fork(), tenv, depth))
        if len(outs) <= 1 or any(is_abnormal(rv) for _, rv in outs):
            normal = [(s, rv) for s, rv in outs if not is_abnormal(rv)]
            if len(normal) <= 1:
                yield from outs
                return
            for s, rv in outs:
                if is_abnormal(rv):
                    yield s, rv
            outs = normal
        try:
            acc_st, acc_rv = outs[-1]
            acc_cond = z3.And(*acc_st.pc[n0:]) if len(acc_st.pc) > n0 else z3.BoolVal(True)
            conds = [acc_cond]
            store = {a: acc_st.store[a] for a in base}
            nmax = acc_st.n
            aux = dict(acc_st.aux)
            for s_i, rv_i in outs[:-1]:
                c = z3.And(*s_i.pc[n0:]) if len(s_i.pc) > n0 else z3.BoolVal(True)
                conds.append(c)
                acc_rv = merge_val(c, rv_i, acc_rv)
                nmax = max(nmax, s_i.n)
                for a in base:
                    va, vb = s_i.store.get(a), store.get(a)
                    if va is not vb:
                        store[a] = merge_val(c, va, vb)
            if _has_fresh_ptr(acc_rv, base):
                raise Unsupported('merge: return value points into callee-allocated cells')
            m = St()
            m.store, m.n, m.aux = store, nmax, aux
            m.pc = st.pc[:n0] + [z3.simplify(z3.Or(*conds))]
            self.merged += 1
            yield m, acc_rv
        except Unsupported:
            yield from outs

    def call_closure(self, clo, args, st, fr=None, tupled=False):
        """clo: Agg('closure@span', env) | FnItem | Ptr to one of these. args: list of argument values (untupled)."""
        if tupled:
            a = args[0]
            args = list(a.fields) if isinstance(a, Agg) else []
        while isinstance(clo, Ptr):
            cp = clo
            clo = st.deref(clo)
            if isinstance(clo, Agg) and clo.name.startswith('closure@'):
                # by-reference environment: pass the pointer itself
                name = self.closure_fn(clo, fr)
                f = self.p.fns[name]
                env = cp if f.args[0][1].startswith('&') else clo
                yield from self.invoke(name, [env] + list(args), st, fr.tenv if fr else {}, (fr.depth + 1) if fr else 0)
                return
        if isinstance(clo, Agg) and ' as fn(' in clo.name and clo.fields and isinstance(clo.fields[0], FnItem):
            clo = clo.fields[0]          # function item reified to a function pointer (`f as fn(..) -> ..`)
        if isinstance(clo, FnItem):
            dummy = fr
            yield from self.call(fr, clo.name, list(args), st)
            return
        if isinstance(clo, Agg) and clo.name.startswith('closure@'):
            name = self.closure_fn(clo, fr)
            f = self.p.fns[name]
            env = st.ref(clo) if f.args[0][1].startswith('&') else clo
            yield from self.invoke(name, [env] + list(args), st, fr.tenv if fr else {}, (fr.depth + 1) if fr else 0)
            return
        if isinstance(clo, Agg) and clo.name.startswith('pyfn'):
            yield from clo.fields[0](self, args, st)
            return
        raise Unsupported(f'call of non-callable {clo!r:.100}')

    def closure_fn(self, clo, fr):
        span = clo.name[len('closure@'):]
        # closures of the current function (or of its parents) first: duplicated macro bodies share spans
        f = fr.fn if fr else None
        names = []
        while f is not None:
            names.append(f.name)
            f = self.p.fns.get(f.parent) if f.parent else None
        for n in names:
            if (n, span) in self.p.closures:
                return self.p.closures[(n, span)]
        if (None, span) in self.p.closures:
            return self.p.closures[(None, span)]
        raise Unsupported('closure body not found for ' + span)

    # ------------------------------------------------------------------ resolution of repository functions
    def resolve(self, fr, c, args, st, ctx):
        tenv = fr.tenv
        crate = fr.fn.crate
        if c.kind in ('trait', 'inherent'):
            self_ty = self.canon_ty(crate, subst(c.self_ty, tenv))
            gargs = [self.canon_ty(crate, subst(g, tenv)) for g in c.gargs]
            if c.kind == 'inherent':
                return self.resolve_inherent(self_ty, c.method, gargs, ctx)
            trait = self.canon_ty(crate, subst(c.trait, tenv))
            return self.dispatch_target(self_ty, trait, c.method, gargs, args, st, ctx)
        segs = c.segs
        names = [s for s, _ in segs]
        if any(n.startswith('<impl ') for n in names):
            # inherent method defined in another module than its type:  mod::path::<impl Type>::method
            k = next(i for i, n in enumerate(names) if n.startswith('<impl '))
            mod = '::'.join(names[:k])
            method = names[-1]
            cands = [n for n in self.p.by_last.get(method, []) if re.search(r'(^|::)' + re.escape(mod) + r'::<impl at [^>]*>::' + re.escape(method) + r'(#\d+)?$', n)
                     and (n.startswith(crate + '::') or n.startswith(mod))]
            if len(cands) == 1:
                fn_g = [self.canon_ty(crate, subst(g, tenv)) for g in segs[-1][1]]
                return cands[0], self.bind_fn_generics(cands[0], dict(tenv), fn_g, ctx)
        # promoted / closures never appear as callees.  free function or inherent method.
        fn_g = [self.canon_ty(crate, subst(g, tenv)) for g in segs[-1][1]]
        path = '::'.join(names)
        cand = self._lookup_free(crate, path)
        if not cand and len(names) >= 3:
            # fn item nested in a method:  mod::Type::method::inner  is dumped as  mod::<impl at ..>::method::inner
            inner, outer = names[-1], names[-2]
            cs = [n for n in self.p.by_last.get(inner, []) if re.search(r'<impl at [^>]*>::' + re.escape(outer) + r'::' + re.escape(inner) + r'(#\d+)?$', n) and n.startswith(crate + '::')]
            if len(cs) == 1:
                cand = cs[0]
        if cand:
            return cand, self.bind_fn_generics(cand, {}, fn_g, ctx)
        if len(segs) >= 2:
            # Type::<A>::method
            tname = '::'.join(names[:-1])
            targs = tuple(self.canon_ty(crate, subst(g, tenv)) for g in segs[-2][1])
            self_ty = ('path', self._canon(crate, tname), targs)
            r = self.resolve_inherent(self_ty, names[-1], fn_g, ctx)
            if r:
                return r
            # tuple-struct / variant constructor used as a function
            last = names[-1]
            if last[:1].isupper():
                def ctor(it, ctx_, a, s):
                    yield s, it.adt_from_path(crate, path, tuple(a))
                return ctor
        return None

    def adt_from_path(self, crate, path, vals):
        clean = path.split('::')
        if len(clean) >= 2:
            try:
                d = self.p.src.enum(self._canon(crate, '::'.join(clean[:-1])))
            except Unsupported:
                d = None
            if d is not None and clean[-1] in d.index:
                i = d.index[clean[-1]]
                return Enum(d, bv(d.variants[i][1]), ((i, Agg(clean[-1], vals)),))
        return Agg(self._canon(crate, path), vals)

    def _lookup_free(self, crate, path):
        for cand in (crate + '::' + path, path):
            f = self.p.fns.get(cand)
            if f is not None and f.kind == 'fn':
                return cand
        # cross-crate through a re-export: match on the last segments
        segs = path.split('::')
        if segs[0] in self.p.crates:
            last = segs[-1]
            cands = [n for n in self.p.by_last.get(last, []) if n.startswith(segs[0] + '::') and self.p.fns[n].span is None
                     and '{closure' not in n and self.p.fns[n].kind == 'fn']
            if len(cands) == 1:
                return cands[0]
            ex = [n for n in cands if n.split('::')[-2:] == segs[-2:]]
            if len(ex) == 1:
                return ex[0]
            # re-export: the public path is a prefix of the definition's module path (json::x  ->  json::de::client::x)
            pre = '::'.join(segs[:-1]) + '::'
            ex = [n for n in cands if n.startswith(pre)]
            if len(ex) == 1:
                return ex[0]
        return None

    def canon_ty(self, crate, t):
        """qualify crate-relative nominal type paths with their crate (type identity is the qualified path)"""
        if t is None:
            return None
        k = t[0]
        if k == 'ref':
            return ('ref', t[1], self.canon_ty(crate, t[2]))
        if k == 'opaque':
            return t
        args = tuple(self.canon_ty(crate, a) for a in t[2])
        if k == 'path':
            nm = t[1]
            if '::' in nm and not nm.startswith('@'):
                nm = self._canon(crate, nm)
            return ('path', nm, args)
        return (k, t[1], args)

    def bind_fn_generics(self, fname, b, gargs, ctx):
        b = dict(b)
        if gargs:
            names = self.p.fn_generics(fname)
            f = self.p.fns[fname]
            if not names or len(names) < len(gargs):
                # macro-generated or `impl Trait` params: take generic-looking names from the MIR signature, in order
                names = list(names or [])
                sig = ' '.join(t for _, t in f.args) + ' ' + f.ret
                if getattr(self, '_fn_impl_gens', None) is None:
                    self._fn_impl_gens = {}
                    for info in self.p.impls:
                        for ms in info.methods.values():
                            for mn in ms:
                                self._fn_impl_gens[mn] = set(info.gens)
                impl_gens = self._fn_impl_gens.get(fname, ())     # generics of the impl stay the impl's, bound or not (defaulted ones may be unbound)
                for g in generic_names(sig):
                    if g not in names and g not in b and g not in impl_gens:
                        names.append(g)
            for g, a in zip(names, gargs):
                b[g] = a
        return b

    def resolve_inherent(self, self_ty, method, gargs, ctx):
        head = strip_refs(self_ty)
        for info in self.p.impls:
            if info.trait is not None or method not in info.methods:
                continue
            b = {}
            if unify(info.self_ty, head, set(info.gens), b):
                name = self.pick_dup(info, method, b, head, ())
                return name, self.bind_fn_generics(name, b, gargs, ctx)
        return None

    def pick_dup(self, info, method, b, self_ty, targs, full_self=None):
        names = info.methods[method]
        if len(names) == 1:
            return names[0]
        # macro-generated duplicates: choose the one whose MIR signature mentions the bound types
        want = [ty_str(v) for k, v in b.items() if k.startswith('$')] or [ty_str(a) for a in targs] + [ty_str(self_ty)]
        want = [last_seg(w) for w in want]
        best = [n for n in names if all(re.search(r'\b' + re.escape(w) + r'\b', self.p.fns[n].header) for w in want)]
        if len(best) == 1:
            return best[0]
        # exact signature match on the first parameter / return type
        ex = [n for n in best or names if any(last_seg(ty_str(ty_parse(t))) in want for _, t in self.p.fns[n].args[:1])]
        if len(ex) == 1:
            return ex[0]
        # impls stamped out by a macro over a metavariable self type (`impl<T> Tr for $ptr` for &T, &mut T, Box<T>): the receiver type
        # in each duplicate's MIR signature (minus the `&self` reference) must unify with the actual self type
        fits = []
        for n in names:
            a0 = self.p.fns[n].args[:1]
            if not a0:
                continue
            try:
                t = ty_parse(a0[0][1])
            except Exception:
                continue
            if t[0] == 'ref':
                t = t[2]
            gens = set(generic_names(a0[0][1])) | set(info.gens)
            same_mut = lambda a_, b_: not (a_[0] == 'ref' and b_[0] == 'ref') or a_[1] == b_[1]
            if any(same_mut(t, cand_ty) and unify(self.canon_ty(self.p.fns[n].crate, t), cand_ty, gens, {}) for cand_ty in ([full_self] if full_self is not None else []) + [self_ty]):
                fits.append(n)
        if len(fits) == 1:
            # bind the impl's generics from the stamped receiver (T in `&T`)
            a0 = self.p.fns[fits[0]].args[0][1]
            t = ty_parse(a0)
            if t[0] == 'ref':
                t = t[2]
            for cand_ty in ([full_self] if full_self is not None else []) + [self_ty]:
                b2 = {}
                if unify(self.canon_ty(self.p.fns[fits[0]].crate, t), cand_ty, set(generic_names(a0)) | set(info.gens), b2):
                    for k_, v_ in b2.items():
                        b.setdefault(k_, v_)
                    break
            return fits[0]
        raise Unsupported(f'ambiguous duplicate {method} in {info}: {names} want={want} self={ty_str(full_self) if full_self is not None else None} fits={fits}')

    def dispatch_target(self, self_ty, trait, method, gargs, args, st, ctx):
        """-> (fn name, tenv) | model callable | None"""
        tname = last_seg(trait[1])
        targs = trait[2]
        self_ty = self.normalize_proj(self_ty)
        head = strip_refs(self_ty)
        # trait objects: dispatch on the concrete value behind the receiver
        if head[0] == 'opaque' and head[1].startswith('dyn ') and args:
            recv = st.deref_all(args[0]) if isinstance(args[0], Ptr) else args[0]
            if isinstance(recv, Agg) and recv.name in ('Box', 'std::boxed::Box'):
                recv = st.deref_all(recv.fields[0].fields[0])
            if isinstance(recv, Agg):
                conc = ('path', recv.name, ())
                return self.dispatch_target(conc, trait, method, gargs, args, st, ctx)
            raise Unsupported(f'dynamic dispatch on {recv!r:.80}')
        if head[0] == 'path' and head[1].startswith('@local::'):
            # fn-local type: its impls are nested under the same method in the dump
            parts = head[1].split('::')
            meth_outer = parts[-2]
            cands = [n for n in self.p.by_last.get(method, []) if re.search(r'::' + re.escape(meth_outer) + r'::<impl at [^>]*>::' + re.escape(method) + r'(#\d+)?$', n)]
            if '@impl' in parts:
                # declared inside a method of a trait impl of module `mod`: same module, and the receiver / return type names the local type
                mod = '::'.join(parts[1:parts.index('@impl')])
                cands = [n for n in cands if same_name(n.split('::<impl at')[0], mod) or n.startswith(mod + '::') or ('::' + mod + '::') in ('::' + n)]
                if len(cands) > 1:
                    nm = parts[-1]
                    ex = [n for n in cands if re.search(r'\b' + re.escape(nm) + r'\b', self.p.fns[n].header.split('::' + method)[-1])]
                    if ex:
                        cands = ex
            if len(cands) > 1:
                # the same local type name declared in several functions (two `deserialize` fns each with a `KeyVisitor`):
                # (1) the function the call comes from, (2) the number of type parameters of the local type
                fname = ctx.fr.fn.name if ctx is not None and getattr(ctx, 'fr', None) is not None else ''
                k = fname.find('::' + meth_outer)
                if k >= 0:
                    pre = fname[:k + len('::' + meth_outer)]
                    ex = [n for n in cands if n.startswith(pre + '::')]
                    if ex:
                        cands = ex
            if len(cands) > 1:
                def arity(n):
                    for info in self.p.impls:
                        for ms in info.methods.values():
                            if n in ms:
                                t = info.self_ty
                                return len(t[2]) if isinstance(t, tuple) and len(t) > 2 and t[0] == 'path' else 0
                    return None
                ex = [n for n in cands if arity(n) == len(head[2])]
                if len(ex) == 1:
                    cands = ex
            if len(cands) == 1:
                b = dict(ctx.fr.tenv)
                f = self.p.fns[cands[0]]
                # the local type's own parameters: bind by unifying its declared self type (first arg / return) is not
                # available from the source here; local Delegator<T> types have exactly one parameter
                if head[2]:
                    b['T'] = head[2][0]
                return cands[0], self.bind_fn_generics(cands[0], b, gargs, ctx)
            if not cands and tname == 'Visitor':
                # serde::de::Visitor's documented defaults on a fn-local visitor: owned / borrowed forms forward to the slice form
                fwd_ = {'visit_string': 'visit_str', 'visit_borrowed_str': 'visit_str', 'visit_byte_buf': 'visit_bytes', 'visit_borrowed_bytes': 'visit_bytes'}
                if method in fwd_:
                    tgt_ = self.dispatch_target(self_ty, trait, fwd_[method], gargs, args, st, ctx)
                    if tgt_ is not None and not callable(tgt_):
                        name_, tenv_ = tgt_
                        owned_ = method in ('visit_string', 'visit_byte_buf')

                        def forward_(it, ctx_, a, s_, name_=name_, tenv_=tenv_, owned_=owned_):
                            a = list(a)
                            if owned_ and not isinstance(a[1], Ptr):
                                a[1] = s_.ref(a[1])
                            yield from it.invoke(name_, a, s_, tenv_, ctx_.fr.depth + 1)
                        return forward_
            raise Unsupported(f'local type impl {ty_str(head)}::{method}: {cands}')
        matches = []
        for info in self.p.impls:
            if info.trait is None or last_seg(info.trait) != tname:
                continue
            b = {}
            gens = set(info.gens)
            if not unify(info.self_ty, self_ty, gens, b):
                b = {}
                if not unify(info.self_ty, head, gens, b) or info.self_ty[0] == 'ref':
                    continue
                if self_ty[0] == 'ref' and not (info.self_ty[0] == 'path' and info.self_ty[1] in gens):
                    pass
            ok = True
            if info.trait_args and targs and len(info.trait_args) == len(targs):
                for p_, c_ in zip(info.trait_args, targs):
                    if not unify(p_, c_, gens, b):
                        ok = False
                        break
            if not ok:
                continue
            matches.append((info, b))
        if len(matches) > 1:
            # prefer non-blanket impls, then the most specific self type
            nb = [(i, b) for i, b in matches if not (i.self_ty[0] == 'path' and i.self_ty[1] in i.gens)]
            if nb:
                matches = nb
            if len(matches) > 1:
                ex = [(i, b) for i, b in matches if i.self_ty[0] == self_ty[0]]
                if ex:
                    matches = ex
            if len(matches) > 1:
                ex = [(i, b) for i, b in matches if strip_refs(i.self_ty)[1] == head[1]]
                if ex:
                    matches = ex
        # impls stamped out by a macro over a metavariable self type (`impl<T> Tr for $ptr`): they only apply when one of the stamped
        # receivers (&T, &mut T, Box<T>, ..) unifies with the actual self type
        def stamped_applies(i):
            if not (i.self_ty[0] == 'path' and i.self_ty[1].startswith('$')):
                return True
            # only impls stamped over *pattern* types (&T, Box<T>: the receiver mentions a generic of the impl) are filtered; impls
            # stamped over concrete types (`impl FromPlain for $t` for i32, bool, ..) are told apart by pick_dup
            real_gens = [g for g in i.gens if not g.startswith('$')]
            recv = [self.p.fns[n].args[0][1] for ns in i.methods.values() for n in ns if self.p.fns[n].args]
            if not recv or not all(any(re.search(r'\b' + re.escape(g) + r'\b', r_) for g in real_gens) for r_ in recv):
                return True
            for ns in i.methods.values():
                for n in ns:
                    a0 = self.p.fns[n].args[:1]
                    if not a0:
                        continue
                    try:
                        t = ty_parse(a0[0][1])
                    except Exception:
                        continue
                    if t[0] == 'ref':
                        t = t[2]
                    if unify(self.canon_ty(self.p.fns[n].crate, t), self_ty, set(generic_names(a0[0][1])) | set(i.gens), {}):
                        return True
            return False
        matches = [(i, b) for i, b in matches if stamped_applies(i)]
        if len(matches) > 1:
            raise Unsupported(f'ambiguous impls for <{ty_str(self_ty)} as {ty_str(trait)}>::{method}: {[m[0] for m in matches][:4]}')
        if matches:
            info, b = matches[0]
            self.infer_item_params(info, b)
            if method in info.methods:
                name = self.pick_dup(info, method, b, head, targs, full_self=self_ty)
                b['Self'] = self_ty
                return name, self.bind_fn_generics(name, b, gargs, ctx)
            # provided method of a repository trait
            prov = self.provided_method(info.trait, method)
            if prov:
                return prov, self.bind_provided(prov, self_ty, targs, gargs, ctx)
            # serde: the provided Serializer::is_human_readable / Deserializer::is_human_readable return true
            if tname in ('Serializer', 'Deserializer') and method == 'is_human_readable':
                return lambda it, ctx_, a, s: iter([(s, z3.BoolVal(True))])
            # std::cmp::PartialEq::ne is !eq unless overridden
            if tname == 'PartialEq' and method == 'ne' and 'eq' in info.methods:
                name = self.pick_dup(info, 'eq', b, head, targs)
                b2 = dict(b)
                b2['Self'] = self_ty

                def ne(it, ctx_, a, s, name=name, b2=b2):
                    for s2, r in it.invoke(name, list(a), s, b2, ctx_.fr.depth + 1):
                        yield s2, (r if is_abnormal(r) else z3.Not(r))
                return ne
            # serde::de::Visitor's documented defaults for the narrow numeric forms: widen and forward
            widen = {'visit_i8': ('visit_i64', True), 'visit_i16': ('visit_i64', True), 'visit_i32': ('visit_i64', True),
                     'visit_u8': ('visit_u64', False), 'visit_u16': ('visit_u64', False), 'visit_u32': ('visit_u64', False), 'visit_f32': ('visit_f64', None)}
            if tname == 'Visitor' and method in widen and widen[method][0] in info.methods:
                tgt, sg = widen[method]
                name = self.pick_dup(info, tgt, b, head, targs)
                b2 = dict(b)
                b2['Self'] = self_ty
                tenv2 = self.bind_fn_generics(name, b2, gargs, ctx)

                def widened(it, ctx_, a, s, name=name, tenv2=tenv2, sg=sg):
                    a = list(a)
                    v = a[1]
                    if sg is None:
                        a[1] = z3.fpFPToFP(z3.RNE(), v, z3.Float64())
                    else:
                        w = 64 - v.size()
                        a[1] = z3.SignExt(w, v) if sg else z3.ZeroExt(w, v)
                    yield from it.invoke(name, a, s, tenv2, ctx_.fr.depth + 1)
                return widened
            # every other visit_* a visitor does not implement: serde's default is Err(invalid_type)
            if tname == 'Visitor' and method.startswith('visit_') and method not in info.methods and method not in (
                    'visit_string', 'visit_borrowed_str', 'visit_byte_buf', 'visit_borrowed_bytes') and 'expecting' in info.methods:
                return lambda it, ctx_, a, s, method=method: iter([(s, it.err(Agg('DeError', ('invalid_type', method))))])
            # serde::de::Visitor's documented defaults: owned / borrowed forms forward to the borrowed-slice form
            fwd = {'visit_string': 'visit_str', 'visit_borrowed_str': 'visit_str', 'visit_byte_buf': 'visit_bytes', 'visit_borrowed_bytes': 'visit_bytes'}
            if tname == 'Visitor' and method in fwd and fwd[method] in info.methods:
                name = self.pick_dup(info, fwd[method], b, head, targs)
                b2 = dict(b)
                b2['Self'] = self_ty
                tenv2 = self.bind_fn_generics(name, b2, gargs, ctx)
                owned = method in ('visit_string', 'visit_byte_buf')

                def forward(it, ctx_, a, s, name=name, tenv2=tenv2, owned=owned):
                    a = list(a)
                    if owned and not isinstance(a[1], Ptr):
                        a[1] = s.ref(a[1])
                    yield from it.invoke(name, a, s, tenv2, ctx_.fr.depth + 1)
                return forward
        # foreign / harness Self type
        for key in ((head[1], tname, method), (last_seg(head[1]) if head[0] in ('path',) else head[0], tname, method), ('*', tname, method)):
            if key in self.tmodels:
                return self.tmodels[key]
        if not matches:
            # derive-generated impl whose header is not in the index?  or provided method on a type with a model
            prov = self.provided_method(trait[1], method)
            if prov and any(last_seg(i.trait or '') == tname and unify(i.self_ty, head, set(i.gens), {}) for i in self.p.impls):
                return prov, self.bind_provided(prov, self_ty, targs, gargs, ctx)
        return None

    def infer_item_params(self, info, b):
        """impl<T, U> .. where T: IntoIterator<Item = U>: bind U from the item type of the std container bound to T"""
        missing = [g for g in info.gens if g not in b]
        if not missing:
            return
        raw, lines = self.p.src.read(info.src)
        text = ' '.join(lines[info.span[1] - 1:info.span[1] + 12])
        for g in missing:
            m = re.search(r'\b(\w+)\s*:\s*(?:[\w:]*::)?IntoIterator<Item\s*=\s*' + re.escape(g) + r'\s*>', text)
            if not m or m.group(1) not in b:
                continue
            t = b[m.group(1)]
            byref = t[0] == 'ref'
            inner = strip_refs(t)
            item = None
            if inner[0] == 'path' and last_seg(inner[1]) in ('Option', 'Vec', 'BTreeSet', 'HashSet', 'VecDeque') and inner[2]:
                item = inner[2][0]
            elif inner[0] in ('slice', 'array'):
                item = inner[1]
            if item is not None:
                b[g] = ('ref', None, item) if byref else item

    def normalize_proj(self, t):
        """<X as Trait>::Assoc  ->  the type the impl (or the harness table `assoc_types`) assigns"""
        if t is None or t[0] == 'opaque':
            return t
        if t[0] == 'ref':
            return ('ref', t[1], self.normalize_proj(t[2]))
        if t[0] != 'proj':
            return t
        sty, tr = self.normalize_proj(t[2][0]), t[2][1]
        key = (last_seg(strip_refs(sty)[1]) if strip_refs(sty)[0] == 'path' else strip_refs(sty)[0], last_seg(tr[1]) if tr else None, t[1])
        if key in self.assoc_types:
            return self.assoc_types[key]
        # repository impl: read `type Assoc = ..;` from the impl block
        for info in self.p.impls:
            if info.trait is None or tr is None or last_seg(info.trait) != last_seg(tr[1]):
                continue
            b = {}
            if not unify(info.self_ty, strip_refs(sty), set(info.gens), b) and not unify(info.self_ty, sty, set(info.gens), b):
                continue
            raw, lines = self.p.src.read(info.src)
            for k in range(info.span[1] - 1, min(len(lines), info.span[1] + 400)):
                m = re.search(r'\btype\s+' + re.escape(t[1]) + r'\s*=\s*(.+?);', lines[k])
                if m:
                    tt = self.p._qualify(ty_parse(m.group(1)), info.module, set(info.gens))
                    return subst(tt, b)
                if k > info.span[1] and re.match(r'^\}', lines[k]):
                    break
        raise Unsupported(f'associated type {ty_str(t)} cannot be normalised')

    def provided_method(self, trait_path, method):
        cands = self.p.provided.get(last_seg(trait_path) + '::' + method, [])
        if len(cands) == 1:
            return cands[0]
        ex = [c for c in cands if same_name('::'.join(c.split('::')[:-1]), trait_path)]
        if len(ex) == 1:
            return ex[0]
        return None

    def bind_provided(self, fname, self_ty, targs, gargs, ctx):
        b = {'Self': self_ty}
        names = self.p.fn_generics(fname) or []
        f = self.p.fns[fname]
        # trait parameters: generic-looking names in the signature that are not the method's own
        sig = ' '.join(t for _, t in f.args) + ' ' + f.ret
        allg = generic_names(sig)
        tparams = [g for g in allg if g not in names][:len(targs)]
        for g, a in zip(tparams, targs):
            b[g] = a
        if not names and gargs:
            # macro-generated provided method (`fn $method<V>`): its generics are the remaining names of the MIR signature
            names = [g for g in allg if g not in tparams]
        for g, a in zip(names, gargs):
            b[g] = a
        return b


def generic_names(sig):
    """generic parameter names occurring in a MIR signature, in order of first appearance: short capitalised identifiers (or __X)
    that are not part of a path (no `::` on either side)"""
    out = []
    for m in re.finditer(r'(?<![\w:])([A-Z][A-Za-z0-9]{0,2}|__[A-Z]\w*)(?![\w]|::)', sig):
        g = m.group(1)
        if sig[max(0, m.start() - 2):m.start()] == '::':
            continue
        if g not in out and g != 'Self':
            out.append(g)
    return out


class CallCtx:
    """what a model gets to know about the call site"""
    __slots__ = ('it', 'fr', 'callee', 'argops', '_skey')

    def __init__(self, it, fr, callee, argops):
        self.it, self.fr, self.callee, self.argops = it, fr, callee, argops
        self._skey = None

    @property
    def key(self):
        return self.callee.key

    @property
    def tenv(self):
        return self.fr.tenv

    def sub(self, t):
        return self.it.canon_ty(self.fr.fn.crate, subst(t, self.fr.tenv))

    @property
    def self_ty(self):
        return self.sub(self.callee.self_ty)

    @property
    def trait(self):
        return self.sub(self.callee.trait)

    @property
    def gargs(self):
        c = self.callee
        if c.kind == 'path':
            return [self.sub(g) for g in c.segs[-1][1]]
        return [self.sub(g) for g in c.gargs]

    @property
    def targs(self):
        """generic args of the type segment (inherent / path calls) or of the trait"""
        c = self.callee
        if c.kind == 'path':
            return [self.sub(g) for g in c.segs[-2][1]] if len(c.segs) >= 2 else []
        return [self.sub(g) for g in (c.trait[2] if c.trait else ())]

    def arg_type(self, i):
        return self.it.operand_type(self.fr, self.argops[i]) if self.argops else None

    def subst_key(self):
        if self._skey is None:
            c = self.callee
            if not self.fr.tenv:
                self._skey = c.key
            elif c.kind == 'trait':
                g = self.gargs
                self._skey = f'<{ty_str(self.sub(c.self_ty))} as {ty_str(self.sub(c.trait))}>::{c.method}' + (
                    '::<' + ', '.join(ty_str(x) for x in g) + '>' if g else '')
            elif c.kind == 'inherent':
                self._skey = f'<{ty_str(self.sub(c.self_ty))}>::{c.method}'
            elif c.kind == 'path':
                parts = []
                for s, a in c.segs:
                    parts.append(s + ('::<' + ', '.join(ty_str(self.sub(x)) for x in a) + '>' if a else ''))
                self._skey = '::'.join(parts)
            else:
                self._skey = c.key
        return self._skey


SCALAR_RET = {'bool', 'u8', 'u16', 'u32', 'u64', 'usize', 'i8', 'i16', 'i32', 'i64', 'isize', 'char'}

KNOWN_EXTERNAL = {'serde', 'serde_json', 'serde_smile', 'serde_bytes', 'http', 'bytes', 'base64', 'chrono', 'uuid', 'regex', 'mediatype',
                  'percent_encoding', 'form_urlencoded', 'futures_core', 'futures_util', 'futures', 'ordered_float', 'lazy_static',
                  'educe', 'staged_builder', 'erased_serde', 'pin_utils', 'once_cell', 'async_trait', 'http_body', 'url', 'static_assertions',
                  'proc_macro2', 'quote', 'syn', 'heck', 'prettyplease', 'anyhow', 'toml', 'petgraph', 'itertools', 'num_traits'}


def _has_fresh_ptr(v, base):
    if isinstance(v, Ptr):
        return v.addr not in base
    if isinstance(v, Agg):
        return any(_has_fresh_ptr(x, base) for x in v.fields)
    if isinstance(v, Enum):
        return any(_has_fresh_ptr(p, base) for _, p in v.payloads)
    if isinstance(v, Seq):
        return any(_has_fresh_ptr(x, base) for x in v.items)
    return False


def _unescape(s):
    out = []
    i = 0
    while i < len(s):
        c = s[i]
        if c == '\\' and i + 1 < len(s):
            n = s[i + 1]
            if n == 'n':
                out.append('\n'); i += 2
            elif n == 't':
                out.append('\t'); i += 2
            elif n == 'r':
                out.append('\r'); i += 2
            elif n == '0':
                out.append('\0'); i += 2
            elif n == 'x':
                out.append(chr(int(s[i + 2:i + 4], 16))); i += 4
            elif n == 'u':
                q = s.index('}', i)
                out.append(chr(int(s[i + 3:q], 16))); i = q + 1
            else:
                out.append(n); i += 2
        else:
            out.append(c)
            i += 1
    return ''.join(out)


def _unescape_bytes(s):
    out = bytearray()
    i = 0
    while i < len(s):
        c = s[i]
        if c == '\\' and i + 1 < len(s):
            n = s[i + 1]
            if n == 'x':
                out.append(int(s[i + 2:i + 4], 16)); i += 4
            elif n in 'ntr0':
                out.append({'n': 10, 't': 9, 'r': 13, '0': 0}[n]); i += 2
            else:
                out.append(ord(n)); i += 2
        else:
            out += c.encode()
            i += 1
    return bytes(out)
