"""Type strings of the MIR dump -> trees; unification and substitution (generic MIR needs a type environment)."""
import re, functools
from .parse import split_top, top_find, matching_close, Unsupported, _depth_scan

INT_BITS = {'i8': 8, 'i16': 16, 'i32': 32, 'i64': 64, 'i128': 128, 'isize': 64,
            'u8': 8, 'u16': 16, 'u32': 32, 'u64': 64, 'u128': 128, 'usize': 64}
PRIMS = set(INT_BITS) | {'bool', 'char', 'str', 'f32', 'f64', '!', 'Self'}

PRELUDE = {'Option': 'std::option::Option', 'Result': 'std::result::Result', 'Vec': 'std::vec::Vec', 'String': 'std::string::String',
           'Box': 'std::boxed::Box', 'PhantomData': 'std::marker::PhantomData', 'BTreeMap': 'std::collections::BTreeMap',
           'BTreeSet': 'std::collections::BTreeSet', 'HashMap': 'std::collections::HashMap', 'Cow': 'std::borrow::Cow',
           'Arc': 'std::sync::Arc', 'Rc': 'std::rc::Rc', 'RefCell': 'std::cell::RefCell'}


def strip_lifetimes(t):
    t = re.sub(r"&'\w+ ", '&', t)
    t = re.sub(r"for<[^>]*> ", '', t)
    t = re.sub(r"::<'\w+(?:, '\w+)*>", '', t)
    t = re.sub(r"<'\w+(?:, '\w+)*>", '', t)
    t = re.sub(r"<'\w+, ", '<', t)
    t = re.sub(r", '\w+(?=[,>])", '', t)
    t = re.sub(r" \+ '\w+", '', t)
    return t


def _canon_path(name):
    if name.startswith(('core::', 'alloc::')):
        name = 'std::' + name.split('::', 1)[1]
    name = name.replace('std::collections::btree_map::BTreeMap', 'std::collections::BTreeMap') \
               .replace('std::collections::btree::map::BTreeMap', 'std::collections::BTreeMap') \
               .replace('std::collections::btree_set::BTreeSet', 'std::collections::BTreeSet') \
               .replace('std::collections::btree::set::BTreeSet', 'std::collections::BTreeSet') \
               .replace('std::collections::hash::map::HashMap', 'std::collections::HashMap') \
               .replace('std::collections::hash_map::HashMap', 'std::collections::HashMap')
    return name


@functools.lru_cache(maxsize=None)
def ty_parse(t):
    t = strip_lifetimes(t.strip())
    if t.startswith('&mut '):
        return ('ref', True, ty_parse(t[5:]))
    if t.startswith('&'):
        return ('ref', False, ty_parse(t[1:]))
    if t.startswith('*const '):
        return ('ref', False, ty_parse(t[7:]))
    if t.startswith('*mut '):
        return ('ref', True, ty_parse(t[5:]))
    if t.startswith('(') and t.endswith(')') and matching_close(t, 0) == len(t) - 1:
        return ('tuple', '', tuple(ty_parse(a) for a in split_top(t[1:-1])))
    if t.startswith('[') and t.endswith(']'):
        inner = t[1:-1]
        k = top_find(inner, '; ')
        if k is not None:
            return ('array', inner[k + 2:], (ty_parse(inner[:k]),))
        return ('slice', '', (ty_parse(inner),))
    if t.startswith('{'):
        return ('opaque', t, ())
    if t.startswith(('dyn ', 'impl ', 'fn(', 'unsafe fn(', 'extern ')):
        return ('opaque', t, ())
    if t.startswith('<'):
        q = matching_close(t, 0)
        inner, rest = t[1:q], t[q + 1:]
        k = top_find(inner, ' as ')
        if k is not None and rest.startswith('::'):
            selft = ty_parse(inner[:k])
            trait = ty_parse(inner[k + 4:])
            segs = split_top(rest[2:], '::') if '::' in rest[2:] else (rest[2:],)
            if len(segs) == 1:
                # associated type projection  <X as Trait>::Assoc  (possibly with args)
                a = ty_parse(segs[0])
                return ('proj', a[1], (selft, trait) + tuple(a[2]))
            # fn-local type:  <X as Trait>::method::Local<D>
            a = ty_parse(segs[-1])
            return ('path', '@local::' + '::'.join(segs[:-1]) + '::' + a[1], a[2])
        if k is None and rest.startswith('::'):
            a = ty_parse(rest[2:])
            return ('proj', a[1], (ty_parse(inner), None) + tuple(a[2]))
    # type declared inside a method of a trait impl:  mod::_::<impl Trait for T>::method::Local<..>  (serde-derive's __Field, __Visitor)
    pimpl = t.find('::<impl ')
    if pimpl > 0 and not t.startswith('<'):
        q = matching_close(t, pimpl + 2)
        rest = t[q + 1:]
        if rest.startswith('::'):
            segs = split_top(rest[2:], '::')
            if len(segs) >= 2:
                a = ty_parse(segs[-1])
                return ('path', '@local::' + _canon_path(t[:pimpl]) + '::@impl::' + '::'.join(segs[:-1]) + '::' + a[1], a[2])
    # path with generic args (possibly in the middle: a::B<X>::C is not a type we meet)
    k = None
    for i, c, d in _depth_scan(t):
        if c == '<' and d == 1:
            k = i
            break
    if k is not None and t.endswith('>'):
        head = t[:k]
        if head.endswith('::'):
            head = head[:-2]
        args = tuple(ty_parse(a) for a in split_top(t[k + 1:-1]) if not a.strip().startswith("'") and not re.match(r'^\w+ = ', a.strip()))
        return ('path', _canon_path(head), args)
    return ('path', _canon_path(t), ())


def ty_str(t):
    if t is None:
        return '?'
    k = t[0]
    if k == 'ref':
        return ('&mut ' if t[1] else '&') + ty_str(t[2])
    if k == 'tuple':
        return '(' + ', '.join(ty_str(a) for a in t[2]) + ')'
    if k == 'slice':
        return '[' + ty_str(t[2][0]) + ']'
    if k == 'array':
        return '[' + ty_str(t[2][0]) + '; ' + t[1] + ']'
    if k == 'opaque':
        return t[1]
    if k == 'proj':
        return '<' + ty_str(t[2][0]) + ' as ' + ty_str(t[2][1]) + '>::' + t[1]
    return t[1] + ('<' + ', '.join(ty_str(a) for a in t[2]) + '>' if t[2] else '')


def subst(t, env):
    if t is None:
        return None
    k = t[0]
    if k == 'ref':
        return ('ref', t[1], subst(t[2], env))
    if k == 'path' and not t[2] and t[1] in env:
        return env[t[1]]
    if k == 'opaque':
        return t
    return (k, t[1], tuple(subst(a, env) for a in t[2]))


def head_name(t):
    while t[0] == 'ref':
        t = t[2]
    return t[1] if t[0] in ('path', 'proj') else t[0]


def strip_refs(t):
    while t[0] == 'ref':
        t = t[2]
    return t


def last_seg(name):
    return name.split('::')[-1]


def same_name(a, b):
    """two type paths denote the same nominal type?  equal, or one is a module-suffix of the other
    (a source-level `Override` inside module ser vs the dump's `ser::Override`; std paths vs prelude names)."""
    if a == b:
        return True
    a = PRELUDE.get(a, a)
    b = PRELUDE.get(b, b)
    if a == b:
        return True
    if a.endswith('::' + b) or b.endswith('::' + a):
        return True
    # public re-export path vs definition path: same first (crate) and last segment, one a subsequence of the other
    sa, sb = a.split('::'), b.split('::')
    if sa[-1] != sb[-1] or sa[0] != sb[0] or len(sa) < 2 or len(sb) < 2:
        return False
    if len(sa) > len(sb):
        sa, sb = sb, sa
    it = iter(sb)
    return all(x in it for x in sa)


def unify(pat, con, vars_, b):
    """bind generic names of `pat` (in vars_) so that pat == con; b is updated"""
    if pat is None or con is None:
        return pat is con
    if pat[0] == 'path' and not pat[2] and pat[1] in vars_:
        if pat[1] in b:
            return ty_eq(b[pat[1]], con)
        b[pat[1]] = con
        return True
    if pat[0] == 'path' and pat[2] and pat[1] in vars_ and con[0] == 'path' and len(pat[2]) == len(con[2]):
        # macro_rules! header `impl .. for $name<T>`: the type *name* is a macro variable
        head = ('path', con[1], ())
        if pat[1] in b and not ty_eq(b[pat[1]], head):
            return False
        b[pat[1]] = head
        return all(unify(p, c, vars_, b) for p, c in zip(pat[2], con[2]))
    if pat[0] != con[0]:
        return False
    if pat[0] == 'ref':
        return unify(pat[2], con[2], vars_, b)
    if pat[0] == 'opaque':
        return pat[1] == con[1]
    if pat[0] in ('path', 'proj'):
        if not same_name(pat[1], con[1]):
            return False
    elif pat[0] == 'array':
        pass
    if len(pat[2]) != len(con[2]):
        # a path printed with fewer arguments than the pattern omits trailing *defaulted* parameters (Serializer<W> is
        # Serializer<W, CompactFormatter>): the missing ones stay unbound when they are plain generic names of the pattern
        if pat[0] == 'path' and len(con[2]) < len(pat[2]) and all(p[0] == 'path' and not p[2] and p[1] in vars_ for p in pat[2][len(con[2]):]):
            return all(unify(p, c, vars_, b) for p, c in zip(pat[2], con[2]))
        return False
    return all(unify(p, c, vars_, b) for p, c in zip(pat[2], con[2]))


def ty_eq(a, b):
    return unify(a, b, (), {})


def is_int(tstr):
    return tstr in INT_BITS


def is_signed(tstr):
    return tstr[0] == 'i' and tstr in INT_BITS
