"""`regex` crate, modelled from the pattern literal found in the dump: a bounded matcher over symbolic bytes.
Subset: anchored (^...$) patterns made of literals, classes, (non-)capturing groups and greedy repeats; capture groups at the
top level only.  Anything else -> Unsupported (inconclusive).  Group boundaries are only well-defined here when the match is
unambiguous; `ambiguity(...)` is the query that establishes that within the bound."""
import re
import z3
try:
    import re._parser as sre_parse, re._constants as C
except ImportError:                                   # pragma: no cover
    import sre_parse, sre_constants as C
from .parse import Unsupported
from .values import Agg, Enum, Ptr, BStr, Seq, bv, bstr_py, UNIT
from .models_std import sval, fork_bool, fresh_bv


def compile_pattern(pat):
    try:
        tree = sre_parse.parse(pat)
    except Exception as e:
        raise Unsupported(f'regex pattern not parsable: {e}')
    nodes = list(tree)
    if not nodes or nodes[0] != (C.AT, C.AT_BEGINNING) or nodes[-1] != (C.AT, C.AT_END):
        raise Unsupported('regex model: pattern must be anchored with ^ and $')
    return nodes[1:-1]


def _in_class(items, b):
    ors = []
    neg = False
    for op, av in items:
        if op == C.NEGATE:
            neg = True
        elif op == C.LITERAL:
            if av > 127:
                raise Unsupported('regex model: non-ASCII literal')
            ors.append(b == av)
        elif op == C.RANGE:
            if av[1] > 127:
                raise Unsupported('regex model: non-ASCII range')
            ors.append(z3.And(z3.UGE(b, av[0]), z3.ULE(b, av[1])))
        else:
            raise Unsupported(f'regex model: class item {op}')
    e = z3.Or(*ors) if ors else z3.BoolVal(False)
    if neg:
        raise Unsupported('regex model: negated class (would need UTF-8 aware matching)')
    return e


F = z3.BoolVal(False)

def _lead_len(b, L):
    """lead byte of an L-byte UTF-8 sequence (the subject is a &str: well-formed by type invariant)"""
    if L == 1:
        return z3.And(z3.ULT(b, 0x80), b != 10)          # `.` does not match \n
    lo, hi = {2: (0xC0, 0xDF), 3: (0xE0, 0xEF), 4: (0xF0, 0xF7)}[L]
    return z3.And(z3.UGE(b, lo), z3.ULE(b, hi))


def _any_fwd(cur, s):
    K = len(s.bytes)
    new = [F] * (K + 1)
    for p in range(K):
        for L in (1, 2, 3, 4):
            if p + L <= K:
                new[p + L] = z3.Or(new[p + L], z3.And(cur[p], z3.ULE(bv(p + L), s.len), _lead_len(s.bytes[p], L)))
    return new


def _any_bwd(cur, s):
    K = len(s.bytes)
    new = [F] * (K + 1)
    for p in range(K):
        alts = [z3.And(cur[p + L], z3.ULE(bv(p + L), s.len), _lead_len(s.bytes[p], L)) for L in (1, 2, 3, 4) if p + L <= K]
        new[p] = z3.Or(*alts)
    return new



def fwd(nodes, cur, s):
    """cur[p]: the pattern so far can end at position p.  -> vector after `nodes`"""
    K = len(s.bytes)
    for op, av in nodes:
        if op == C.LITERAL:
            if av > 127:
                raise Unsupported('regex model: non-ASCII literal')
            cur = [F] + [z3.And(cur[p], z3.ULT(bv(p), s.len), s.bytes[p] == av) for p in range(K)]
        elif op == C.IN:
            cur = [F] + [z3.And(cur[p], z3.ULT(bv(p), s.len), _in_class(av, s.bytes[p])) for p in range(K)]
        elif op == C.ANY:
            cur = _any_fwd(cur, s)
        elif op == C.SUBPATTERN:
            cur = fwd(list(av[3]), cur, s)
        elif op in (C.MAX_REPEAT, C.MIN_REPEAT):
            lo, hi, sub = av
            acc = list(cur) if lo == 0 else [F] * (K + 1)
            step = cur
            for r in range(1, K + 1):
                step = fwd(list(sub), step, s)
                if r >= lo and (hi == C.MAXREPEAT or r <= hi):
                    acc = [z3.Or(a, x) for a, x in zip(acc, step)]
                if hi != C.MAXREPEAT and r >= hi:
                    break
            cur = acc
        else:
            raise Unsupported(f'regex model: node {op}')
    return [z3.simplify(x) for x in cur]


def bwd(nodes, cur, s):
    """cur[p]: the rest of the pattern can start at position p.  -> vector before `nodes`"""
    K = len(s.bytes)
    for op, av in reversed(nodes):
        if op == C.LITERAL:
            cur = [z3.And(cur[p + 1], z3.ULT(bv(p), s.len), s.bytes[p] == av) for p in range(K)] + [F]
        elif op == C.IN:
            cur = [z3.And(cur[p + 1], z3.ULT(bv(p), s.len), _in_class(av, s.bytes[p])) for p in range(K)] + [F]
        elif op == C.ANY:
            cur = _any_bwd(cur, s)
        elif op == C.SUBPATTERN:
            cur = bwd(list(av[3]), cur, s)
        elif op in (C.MAX_REPEAT, C.MIN_REPEAT):
            lo, hi, sub = av
            acc = list(cur) if lo == 0 else [F] * (K + 1)
            step = cur
            for r in range(1, K + 1):
                step = bwd(list(sub), step, s)
                if r >= lo and (hi == C.MAXREPEAT or r <= hi):
                    acc = [z3.Or(a, x) for a, x in zip(acc, step)]
                if hi != C.MAXREPEAT and r >= hi:
                    break
            cur = acc
        else:
            raise Unsupported(f'regex model: node {op}')
    return [z3.simplify(x) for x in cur]


def analyse(nodes, s):
    """-> (accepts: Bool, groups: {g: (start candidates vector, end candidates vector)})"""
    K = len(s.bytes)
    start = [z3.BoolVal(True)] + [F] * K
    end = [s.len == bv(p) for p in range(K + 1)]
    groups = {}
    pre = []
    cur = start
    for i, (op, av) in enumerate(nodes):
        before = cur
        cur = fwd([nodes[i]], cur, s)
        if op == C.SUBPATTERN and av[0] is not None:
            _check_no_nested_groups(av[3])
            b_after = bwd(nodes[i + 1:], end, s)
            b_before = bwd(nodes[i:], end, s)
            groups[av[0]] = ([z3.And(x, y) for x, y in zip(before, b_before)], [z3.And(x, y) for x, y in zip(cur, b_after)])
    accepts = z3.simplify(z3.Or(*[z3.And(x, y) for x, y in zip(cur, end)]))
    return accepts, groups


def _check_no_nested_groups(nodes):
    for op, av in nodes:
        if op == C.SUBPATTERN:
            if av[0] is not None:
                raise Unsupported('regex model: nested capture group')
            _check_no_nested_groups(av[3])
        elif op in (C.MAX_REPEAT, C.MIN_REPEAT):
            _check_no_nested_groups(av[2])


def ambiguity(nodes, s):
    """Bool: some capture-group boundary has two different candidate positions (match not unique)"""
    accepts, groups = analyse(nodes, s)
    alts = []
    for g, (st_, en) in groups.items():
        for vec in (st_, en):
            for p in range(len(vec)):
                for q in range(p + 1, len(vec)):
                    alts.append(z3.And(vec[p], vec[q]))
    return z3.Or(*alts) if alts else z3.BoolVal(False)


# ------------------------------------------------------------------ models
def M_regex_new(it, ctx, args, st):
    pat = bstr_py(sval(st, args[0]))
    if pat is None:
        raise Unsupported('Regex::new of a symbolic pattern')
    yield st, it.ok(Agg('regex::Regex', (pat.decode(),)))


def M_lazy_deref(it, ctx, args, st):
    """lazy_static!: <NAME as Deref>::deref -> the value built by the generated __static_ref_initialize (run from MIR)"""
    name = ctx.self_ty[1]
    cands = [n for n in it.p.fns if n.endswith('::deref::__static_ref_initialize') and n.startswith(name.rsplit('::', 1)[0] + '::')]
    # several lazy statics in one module would share the prefix: disambiguate by return type use is not needed here
    if len(cands) != 1:
        raise Unsupported(f'lazy_static deref of {name}: {len(cands)} initialisers')
    key = ('lazy', name)
    if key not in st.aux:
        outs = [(s2, v) for s2, v in it.run(cands[0], [], st, {})]
        if len(outs) != 1:
            raise Unsupported('lazy_static initialiser forks')
        st.aux[key] = st.alloc(outs[0][1])
    yield st, Ptr(st.aux[key], ())


def M_captures(it, ctx, args, st):
    rex = st.deref_all(args[0])
    s = sval(st, args[1])
    nodes = compile_pattern(rex.fields[0])
    accepts, groups = analyse(nodes, s)
    for s2, hit in fork_bool(it, st, accepts):
        if not hit:
            yield s2, it.none
            continue
        spans = []
        for g in sorted(groups):
            sv, ev = groups[g]
            a, b = fresh_bv(f'g{g}s'), fresh_bv(f'g{g}e')
            s2.pc.append(z3.Or(*[z3.And(a == bv(p), c) for p, c in enumerate(sv)]))
            s2.pc.append(z3.Or(*[z3.And(b == bv(p), c) for p, c in enumerate(ev)]))
            spans.append(Agg('regex::Match', (a, b)))
        whole = Agg('regex::Match', (bv(0), s.len))
        yield s2, it.some(Agg('regex::Captures', (Seq((whole,) + tuple(spans)),)))


def M_is_match(it, ctx, args, st):
    rex = st.deref_all(args[0])
    s = sval(st, args[1])
    accepts, _ = analyse(compile_pattern(rex.fields[0]), s)
    yield st, accepts


def M_captures_get(it, ctx, args, st):
    caps = st.deref_all(args[0])
    from .values import concrete
    i = concrete(args[1])
    items = caps.fields[0].items
    if i is None or i >= len(items):
        yield st, it.none
    else:
        yield st, it.some(items[i])


def M_match_end(it, ctx, args, st):
    m = st.deref_all(args[0])
    yield st, m.fields[1]


def M_match_start(it, ctx, args, st):
    m = st.deref_all(args[0])
    yield st, m.fields[0]


MODELS = [
    (r'regex::Regex::new', M_regex_new),
    (r'regex::Regex::captures', M_captures), (r'regex::Regex::is_match', M_is_match),
    (r'regex::Captures::<.*>::get|regex::Captures::get', M_captures_get),
    (r'regex::Match::<.*>::end|regex::Match::end', M_match_end),
    (r'regex::Match::<.*>::start|regex::Match::start', M_match_start),
]
