"""serde *protocol* models: primitive Deserialize/Serialize impls and de::Error constructors by their documented contracts,
plus small harness-side event players.  The repository's own Serializer/Deserializer/Visitor impls are executed from MIR."""
import re
import z3
from .parse import Unsupported
from .values import Agg, Enum, Ptr, Seq, BStr, UNIT, Panic, bv, concrete, bstr, bstr_eq, is_abnormal
from .types import ty_str, last_seg, INT_BITS, strip_refs
from .models_std import fork_bool, sval

SER = r'(?:[\w:]+::)?'          # serde is reached through several re-export paths (private::_::_serde, conjure_object::serde, serde)


def de_err(kind, *detail):
    return Agg('DeError', (kind,) + tuple(detail))


def M_de_error(it, ctx, args, st):
    kind = ctx.callee.method
    det = []
    for a in args:
        v = st.deref_all(a) if isinstance(a, Ptr) else a
        det.append(v)
    yield st, de_err(kind, *det)


PRIM_HINT = {'std::string::String': 'deserialize_string', 'bool': 'deserialize_bool', 'f64': 'deserialize_f64', 'f32': 'deserialize_f32',
             'char': 'deserialize_char', '()': 'deserialize_unit'}
for _t in INT_BITS:
    if _t not in ('isize', 'usize'):
        PRIM_HINT[_t] = 'deserialize_' + _t
PRIM_HINT['isize'] = 'deserialize_i64'
PRIM_HINT['usize'] = 'deserialize_u64'


def M_prim_deserialize(it, ctx, args, st):
    """<T as Deserialize>::deserialize::<D>(d) for a primitive T: d.deserialize_<hint>(PrimVisitor<T>)"""
    t = ctx.self_ty
    name = t[1] if t[0] == 'path' else ('()' if t[0] == 'tuple' and not t[2] else None)
    if name not in PRIM_HINT:
        raise Unsupported('Deserialize for ' + ty_str(t))
    D = ctx.gargs[0]
    vis = Agg('PrimVisitor', (name,))
    callee = f'<{ty_str(D)} as serde::Deserializer>::{PRIM_HINT[name]}::<PrimVisitor>'
    yield from it.call(ctx.fr, callee, [args[0], vis], st)


def prim_visit(it, ctx, args, st):
    """<PrimVisitor as Visitor>::visit_X(self, v): serde's primitive visitors by contract"""
    vis, meth = args[0], ctx.callee.method
    T = vis.fields[0]
    v = args[1] if len(args) > 1 else None
    if T == 'std::string::String':
        if meth in ('visit_str', 'visit_string', 'visit_borrowed_str'):
            yield st, it.ok(sval(st, v))
            return
        yield st, it.err(de_err('invalid_type', meth))
        return
    if T == 'bool':
        yield st, (it.ok(v) if meth == 'visit_bool' else it.err(de_err('invalid_type', meth)))
        return
    if T in INT_BITS:
        m = re.fullmatch(r'visit_([iu])(8|16|32|64|128)', meth)
        if not m:
            yield st, it.err(de_err('invalid_type', meth))
            return
        ssig, sw = m.group(1) == 'i', int(m.group(2))
        if sw == 128 and INT_BITS[T] != 128:
            # serde: primitive visitors below 128 bits do not override visit_i128/visit_u128 -> default error
            yield st, it.err(de_err('custom', f'{m.group(1)}128 is not supported'))
            return
        tw, tsig = INT_BITS[T], T[0] == 'i'
        W = max(tw, sw) + 1
        wide = z3.SignExt(W - sw, v) if ssig else z3.ZeroExt(W - sw, v)
        lo = -(1 << (tw - 1)) if tsig else 0
        hi = (1 << (tw - 1)) - 1 if tsig else (1 << tw) - 1
        ok = z3.And(wide >= z3.BitVecVal(lo, W), wide <= z3.BitVecVal(hi, W))
        out = z3.Extract(tw - 1, 0, wide)
        for s2, good in fork_bool(it, st, ok):
            yield s2, (it.ok(out) if good else it.err(de_err('invalid_value', meth)))
        return
    if T in ('f64', 'f32'):
        so = z3.Float64() if T == 'f64' else z3.Float32()
        if meth == 'visit_' + T:
            yield st, it.ok(v)
            return
        m = re.fullmatch(r'visit_([iu])(8|16|32|64)', meth)
        if m:
            yield st, it.ok(z3.fpSignedToFP(z3.RNE(), v, so) if m.group(1) == 'i' else z3.fpUnsignedToFP(z3.RNE(), v, so))
            return
        if meth in ('visit_f32', 'visit_f64'):
            yield st, it.ok(z3.fpFPToFP(z3.RNE(), v, so))
            return
        yield st, it.err(de_err('invalid_type', meth))
        return
    raise Unsupported('PrimVisitor for ' + T)


# ---- harness deserializer delivering exactly one string event
def T_strde_any(it, ctx, args, st):
    de, visitor = args
    V = ctx.gargs[0]
    yield from it.call(ctx.fr, f'<{ty_str(V)} as serde::de::Visitor>::visit_string::<DeError>', [visitor, de.fields[0]], st)


MODELS = [
    (r'<.* as ' + SER + r'de::Error>::\w+(::<.*>)?', M_de_error),
    (r'<(std::string::String|bool|f64|f32|char|\(\)|[iu](8|16|32|64|128|size)) as ' + SER + r'Deserialize(<.*>)?>::deserialize::<.*>', M_prim_deserialize),
]

TMODELS = {
    ('StrEventDe', 'Deserializer', 'deserialize_string'): T_strde_any,
    ('StrEventDe', 'Deserializer', 'deserialize_str'): T_strde_any,
    ('StrEventDe', 'Deserializer', 'deserialize_any'): T_strde_any,
}
for _m in ['visit_bool', 'visit_str', 'visit_string', 'visit_borrowed_str', 'visit_f32', 'visit_f64', 'visit_unit', 'visit_none', 'visit_some',
           'visit_bytes', 'visit_byte_buf', 'visit_seq', 'visit_map', 'visit_char', 'visit_newtype_struct', 'visit_enum'] + \
          [f'visit_{s}{w}' for s in 'iu' for w in (8, 16, 32, 64, 128)]:
    TMODELS[('PrimVisitor', 'Visitor', _m)] = prim_visit
