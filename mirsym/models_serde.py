"""serde *protocol* models: primitive Deserialize/Serialize impls and de::Error constructors by their documented contracts,
plus small harness-side event players.  The repository's own Serializer/Deserializer/Visitor impls are executed from MIR."""
import re
import z3
from .parse import Unsupported
from .values import Agg, Enum, Ptr, Seq, BStr, UNIT, Panic, bv, concrete, bstr, bstr_eq, is_abnormal
from .types import ty_str, last_seg, INT_BITS, strip_refs
from .models_std import fork_bool, sval

SER = r'(?:[\w:]+::)?'          # serde is reached through several re-export paths (private::_::_serde, conjure_object::serde, serde)


def de_err(kind, *detail):
    return Agg('DeError', (kind,) + tuple(detail))


def M_de_error(it, ctx, args, st):
    kind = ctx.callee.method
    det = []
    for a in args:
        v = st.deref_all(a) if isinstance(a, Ptr) else a
        det.append(v)
    yield st, de_err(kind, *det)


PRIM_HINT = {'std::string::String': 'deserialize_string', 'bool': 'deserialize_bool', 'f64': 'deserialize_f64', 'f32': 'deserialize_f32',
             'char': 'deserialize_char', '()': 'deserialize_unit'}
for _t in INT_BITS:
    if _t not in ('isize', 'usize'):
        PRIM_HINT[_t] = 'deserialize_' + _t
PRIM_HINT['isize'] = 'deserialize_i64'
PRIM_HINT['usize'] = 'deserialize_u64'


def M_prim_deserialize(it, ctx, args, st):
    """<T as Deserialize>::deserialize::<D>(d) for a primitive T: d.deserialize_<hint>(PrimVisitor<T>)"""
    t = ctx.self_ty
    name = t[1] if t[0] == 'path' else ('()' if t[0] == 'tuple' and not t[2] else None)
    if name not in PRIM_HINT:
        raise Unsupported('Deserialize for ' + ty_str(t))
    D = ctx.gargs[0]
    vis = Agg('PrimVisitor', (name,))
    callee = f'<{ty_str(D)} as serde::Deserializer>::{PRIM_HINT[name]}::<PrimVisitor>'
    yield from it.call(ctx.fr, callee, [args[0], vis], st)


def prim_visit(it, ctx, args, st):
    """<PrimVisitor as Visitor>::visit_X(self, v): serde's primitive visitors by contract"""
    vis, meth = args[0], ctx.callee.method
    T = vis.fields[0]
    v = args[1] if len(args) > 1 else None
    if T == 'std::string::String':
        if meth in ('visit_str', 'visit_string', 'visit_borrowed_str'):
            yield st, it.ok(sval(st, v))
            return
        yield st, it.err(de_err('invalid_type', meth))
        return
    if T == 'char':
        if meth == 'visit_char':
            yield st, it.ok(v)
            return
        if meth in ('visit_str', 'visit_string', 'visit_borrowed_str'):
            sv = sval(st, v)
            one = z3.And(sv.len == 1, z3.ULT(sv.bytes[0], 128)) if sv.bytes else z3.BoolVal(False)
            for s2, good in fork_bool(it, st, one):
                yield s2, (it.ok(z3.ZeroExt(24, sv.bytes[0])) if good else it.err(de_err('invalid_value', meth)))
            return
        yield st, it.err(de_err('invalid_type', meth))
        return
    if T == 'bool':
        yield st, (it.ok(v) if meth == 'visit_bool' else it.err(de_err('invalid_type', meth)))
        return
    if T in INT_BITS:
        m = re.fullmatch(r'visit_([iu])(8|16|32|64|128)', meth)
        if not m:
            yield st, it.err(de_err('invalid_type', meth))
            return
        ssig, sw = m.group(1) == 'i', int(m.group(2))
        if sw == 128 and INT_BITS[T] != 128:
            # serde: primitive visitors below 128 bits do not override visit_i128/visit_u128 -> default error
            yield st, it.err(de_err('custom', f'{m.group(1)}128 is not supported'))
            return
        tw, tsig = INT_BITS[T], T[0] == 'i'
        W = max(tw, sw) + 1
        wide = z3.SignExt(W - sw, v) if ssig else z3.ZeroExt(W - sw, v)
        lo = -(1 << (tw - 1)) if tsig else 0
        hi = (1 << (tw - 1)) - 1 if tsig else (1 << tw) - 1
        ok = z3.And(wide >= z3.BitVecVal(lo, W), wide <= z3.BitVecVal(hi, W))
        out = z3.Extract(tw - 1, 0, wide)
        for s2, good in fork_bool(it, st, ok):
            yield s2, (it.ok(out) if good else it.err(de_err('invalid_value', meth)))
        return
    if T in ('f64', 'f32'):
        so = z3.Float64() if T == 'f64' else z3.Float32()
        if meth == 'visit_' + T:
            yield st, it.ok(v)
            return
        m = re.fullmatch(r'visit_([iu])(8|16|32|64)', meth)
        if m:
            yield st, it.ok(z3.fpSignedToFP(z3.RNE(), v, so) if m.group(1) == 'i' else z3.fpUnsignedToFP(z3.RNE(), v, so))
            return
        if meth in ('visit_f32', 'visit_f64'):
            yield st, it.ok(z3.fpFPToFP(z3.RNE(), v, so))
            return
        yield st, it.err(de_err('invalid_type', meth))
        return
    raise Unsupported('PrimVisitor for ' + T)


# ---- harness deserializer delivering exactly one string event
def T_strde_any(it, ctx, args, st):
    de, visitor = args
    V = ctx.gargs[0]
    yield from it.call(ctx.fr, f'<{ty_str(V)} as serde::de::Visitor>::visit_string::<DeError>', [visitor, de.fields[0]], st)


MODELS = [
    (r'<.* as ' + SER + r'de::Error>::\w+(::<.*>)?', M_de_error),
    (r'<(std::string::String|bool|f64|f32|char|\(\)|[iu](8|16|32|64|128|size)) as ' + SER + r'Deserialize(<.*>)?>::deserialize::<.*>', M_prim_deserialize),
]

TMODELS = {
    ('StrEventDe', 'Deserializer', 'deserialize_string'): T_strde_any,
    ('StrEventDe', 'Deserializer', 'deserialize_str'): T_strde_any,
    ('StrEventDe', 'Deserializer', 'deserialize_any'): T_strde_any,
}
for _m in ['visit_bool', 'visit_str', 'visit_string', 'visit_borrowed_str', 'visit_f32', 'visit_f64', 'visit_unit', 'visit_none', 'visit_some',
           'visit_bytes', 'visit_byte_buf', 'visit_seq', 'visit_map', 'visit_char', 'visit_newtype_struct', 'visit_enum'] + \
          [f'visit_{s}{w}' for s in 'iu' for w in (8, 16, 32, 64, 128)]:
    TMODELS[('PrimVisitor', 'Visitor', _m)] = prim_visit


# ------------------------------------------------------------------ primitive Serialize impls (serde, by contract) and an event recorder
PRIM_SER = {'bool': 'serialize_bool', 'f32': 'serialize_f32', 'f64': 'serialize_f64', 'char': 'serialize_char', 'str': 'serialize_str',
            'std::string::String': 'serialize_str'}
for _t in INT_BITS:
    PRIM_SER[_t] = 'serialize_' + ('i64' if _t == 'isize' else 'u64' if _t == 'usize' else _t)


def M_prim_serialize(it, ctx, args, st):
    """<T as Serialize>::serialize::<S>(&v, s) for a primitive T: s.serialize_T(v)"""
    t = strip_refs(ctx.self_ty)
    name = t[1] if t[0] == 'path' else ('()' if t[0] == 'tuple' and not t[2] else None)
    S = ctx.gargs[0]
    v = args[0]
    while isinstance(v, Ptr) and not isinstance(st.deref(v), BStr):
        v = st.deref(v)
    if name == '()':
        yield from it.call_trait(ctx.fr, S, 'serde::Serializer', 'serialize_unit', [], [args[1]], st)
        return
    if name not in PRIM_SER:
        raise Unsupported('Serialize for ' + ty_str(t))
    yield from it.call_trait(ctx.fr, S, 'serde::Serializer', PRIM_SER[name], [], [args[1], v], st)


def rec_event(st, *ev):
    st.aux['rec'] = st.aux.get('rec', ()) + (ev,)


def T_rec_leaf(it, ctx, args, st):
    m = ctx.callee.method
    v = args[1] if len(args) > 1 else None
    if isinstance(v, Ptr):
        v = st.deref_all(v)
    rec_event(st, m[len('serialize_'):], v)
    yield st, it.ok(UNIT)


def T_rec_some(it, ctx, args, st):
    rec_event(st, 'some', None)
    T = ctx.gargs[0]
    yield from it.call_trait(ctx.fr, T, 'serde::Serialize', 'serialize', [('path', 'Rec', ())], [args[1], args[0]], st)


for _m in ['bool', 'i8', 'i16', 'i32', 'i64', 'i128', 'u8', 'u16', 'u32', 'u64', 'u128', 'f32', 'f64', 'char', 'str', 'bytes', 'none', 'unit']:
    TMODELS[('Rec', 'Serializer', 'serialize_' + _m)] = T_rec_leaf
TMODELS[('Rec', 'Serializer', 'serialize_some')] = T_rec_some

MODELS += [
    (r'<&*(?:bool|f64|f32|char|str|std::string::String|\(\)|[iu](?:8|16|32|64|128|size)) as ' + SER + r'Serialize>::serialize::<.*>', M_prim_serialize),
]


# ------------------------------------------------------------------ Option<T>: serde's impls by contract
def _opt_value(st, v):
    while isinstance(v, Ptr):
        v = st.deref(v)
    return v


def M_option_serialize(it, ctx, args, st):
    """<Option<T> as Serialize>::serialize::<S>(&self, s): None -> s.serialize_none(); Some(v) -> s.serialize_some::<T>(&v)"""
    t = strip_refs(ctx.self_ty)
    T = t[2][0]
    S = ctx.gargs[0]
    opt = _opt_value(st, args[0])
    import os
    if os.environ.get('VERIF_DEBUG'):
        print('option_serialize', ty_str(ctx.self_ty), ty_str(T), ty_str(S), ctx.fr.fn.name)
    if not isinstance(opt, Enum):
        raise Unsupported(f'Option::serialize of {opt!r:.80}')
    for s2, some in fork_bool(it, st, it.variant_of(opt, 'Some')):
        if some:
            pl = it.payload(opt, 'Some').fields[0]
            yield from it.call_trait(ctx.fr, S, 'serde::Serializer', 'serialize_some', [T], [args[1], s2.ref(pl)], s2)
        else:
            yield from it.call_trait(ctx.fr, S, 'serde::Serializer', 'serialize_none', [], [args[1]], s2)


def M_ref_serialize(it, ctx, args, st):
    """<&T as Serialize>::serialize = (**self).serialize"""
    t = ctx.self_ty
    inner = t[2] if t[0] == 'ref' else t
    v = args[0]
    yield from it.call_trait(ctx.fr, inner, 'serde::Serialize', 'serialize', [ctx.gargs[0]], [st.deref(v) if isinstance(v, Ptr) and isinstance(st.deref(v), Ptr) else v, args[1]], st)


def M_option_deserialize(it, ctx, args, st):
    """<Option<T> as Deserialize>::deserialize::<D>(d) = d.deserialize_option(OptionVisitor<T>)"""
    t = ctx.self_ty
    T = t[2][0]
    D = ctx.gargs[0]
    vis = Agg('OptionVisitor', (T,))
    yield from it.call(ctx.fr, f'<{ty_str(D)} as serde::Deserializer>::deserialize_option::<OptionVisitor>', [args[0], vis], st)


def option_visit(it, ctx, args, st):
    """serde's OptionVisitor<T>: visit_none / visit_unit -> None; visit_some(d) -> T::deserialize(d).map(Some); anything else: invalid type"""
    vis, meth = args[0], ctx.callee.method
    T = vis.fields[0]
    if meth in ('visit_none', 'visit_unit'):
        yield st, it.ok(it.none)
        return
    if meth == 'visit_some':
        D = ctx.gargs[0]
        fr0 = type(ctx.fr)()
        fr0.fn, fr0.locals, fr0.tenv, fr0.visits, fr0.depth = ctx.fr.fn, ctx.fr.locals, {}, {}, ctx.fr.depth
        for s2, r in it.call(fr0, f'<{ty_str(T)} as serde::Deserialize>::deserialize::<{ty_str(D)}>', [args[1]], st):
            if is_abnormal(r):
                yield s2, r
                continue
            for s3, good in fork_bool(it, s2, it.variant_of(r, 'Ok')):
                yield s3, (it.ok(it.some(it.payload(r, 'Ok').fields[0])) if good else it.err(it.payload(r, 'Err').fields[0]))
        return
    yield st, it.err(de_err('invalid_type', meth))


for _m in ['visit_bool', 'visit_str', 'visit_string', 'visit_borrowed_str', 'visit_f32', 'visit_f64', 'visit_unit', 'visit_none', 'visit_some',
           'visit_bytes', 'visit_byte_buf', 'visit_seq', 'visit_map', 'visit_char', 'visit_newtype_struct', 'visit_enum'] + \
          [f'visit_{s}{w}' for s in 'iu' for w in (8, 16, 32, 64, 128)]:
    TMODELS[('OptionVisitor', 'Visitor', _m)] = option_visit

MODELS += [
    (r'<&*std::option::Option<.*> as ' + SER + r'Serialize>::serialize::<.*>', M_option_serialize),
    (r'<std::option::Option<.*> as ' + SER + r'Deserialize(<.*>)?>::deserialize::<.*>', M_option_deserialize),
]


# ------------------------------------------------------------------ &'de str: serde's borrowed-string impl by contract
def M_borrowed_str_deserialize(it, ctx, args, st):
    """<&'de str as Deserialize>::deserialize::<D>(d) = d.deserialize_str(StrVisitor): only a string *borrowed from the input*
    (visit_borrowed_str) is accepted; transient and owned strings are an invalid type"""
    D = ctx.gargs[0]
    yield from it.call(ctx.fr, f'<{ty_str(D)} as serde::Deserializer>::deserialize_str::<BorrowedStrVisitor>', [args[0], Agg('BorrowedStrVisitor', ())], st)


def borrowed_str_visit(it, ctx, args, st):
    meth = ctx.callee.method
    if meth == 'visit_borrowed_str':
        yield st, it.ok(args[1] if isinstance(args[1], Ptr) else st.ref(sval(st, args[1])))
    else:
        yield st, it.err(de_err('invalid_type', meth))


for _m in ['visit_bool', 'visit_str', 'visit_string', 'visit_borrowed_str', 'visit_f32', 'visit_f64', 'visit_unit', 'visit_none', 'visit_some',
           'visit_bytes', 'visit_byte_buf', 'visit_seq', 'visit_map', 'visit_char', 'visit_newtype_struct', 'visit_enum'] + \
          [f'visit_{s}{w}' for s in 'iu' for w in (8, 16, 32, 64, 128)]:
    TMODELS[('BorrowedStrVisitor', 'Visitor', _m)] = borrowed_str_visit


# ---- harness deserializer delivering one string event in a chosen way: Agg('StrDeliver', (text, 'borrowed' | 'transient' | 'owned'))
def T_strdeliver(it, ctx, args, st):
    de, visitor = args
    de = st.deref_all(de) if isinstance(de, Ptr) else de
    V = ctx.gargs[0]
    meth = {'borrowed': 'visit_borrowed_str', 'transient': 'visit_str', 'owned': 'visit_string'}[de.fields[1]]
    a = de.fields[0] if meth == 'visit_string' else st.ref(de.fields[0])
    yield from it.call_trait(ctx.fr, V, 'serde::de::Visitor', meth, [('path', 'DeError', ())], [visitor, a], st)


for _m in ('deserialize_str', 'deserialize_string', 'deserialize_any', 'deserialize_identifier'):
    TMODELS[('StrDeliver', 'Deserializer', _m)] = T_strdeliver

MODELS += [
    (r"<&(?:'\w+ )?str as " + SER + r'Deserialize(<.*>)?>::deserialize::<.*>', M_borrowed_str_deserialize),
]
