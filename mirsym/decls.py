"""Declarations read from the Rust sources the dump points to: enum variant order, struct field order, impl headers."""
import os, re
from .parse import split_top, Unsupported, top_find
from .types import ty_parse, PRELUDE, PRIMS, strip_lifetimes


class EnumDecl:
    def __init__(self, name, variants, module=''):
        self.name = name                    # last segment
        self.module = module                # module path (crate-qualified) the enum sits in
        self.variants = variants            # [(name, discriminant value)]
        self.index = {n: i for i, (n, _) in enumerate(variants)}

    def __repr__(self):
        return f'<enum {self.module}::{self.name}>'


BUILTIN_ENUMS = {
    'std::option::Option': EnumDecl('Option', [('None', 0), ('Some', 1)], 'std::option'),
    'std::result::Result': EnumDecl('Result', [('Ok', 0), ('Err', 1)], 'std::result'),
    'std::ops::ControlFlow': EnumDecl('ControlFlow', [('Continue', 0), ('Break', 1)], 'std::ops'),
    'std::task::Poll': EnumDecl('Poll', [('Ready', 0), ('Pending', 1)], 'std::task'),
    'std::cmp::Ordering': EnumDecl('Ordering', [('Less', -1), ('Equal', 0), ('Greater', 1)], 'std::cmp'),
    'std::borrow::Cow': EnumDecl('Cow', [('Borrowed', 0), ('Owned', 1)], 'std::borrow'),
    'std::ops::Bound': EnumDecl('Bound', [('Included', 0), ('Excluded', 1), ('Unbounded', 2)], 'std::ops'),
    'std::convert::Infallible': EnumDecl('Infallible', [], 'std::convert'),
    'serde::de::Unexpected': EnumDecl('Unexpected', [(n, i) for i, n in enumerate(
        ['Bool', 'Unsigned', 'Signed', 'Float', 'Char', 'Str', 'Bytes', 'Unit', 'Option', 'NewtypeStruct', 'Seq', 'Map', 'Enum',
         'UnitVariant', 'NewtypeVariant', 'TupleVariant', 'StructVariant', 'Other'])], 'serde::de'),
}
for _k in list(BUILTIN_ENUMS):
    BUILTIN_ENUMS[_k.replace('std::', 'core::', 1)] = BUILTIN_ENUMS[_k]
BUILTIN_ENUMS['std::ops::control_flow::ControlFlow'] = BUILTIN_ENUMS['std::ops::ControlFlow']
BUILTIN_ENUMS['std::task::poll::Poll'] = BUILTIN_ENUMS['std::task::Poll']


def _strip_comments(src):
    # keep line structure (spans are line/column based)
    out = []
    i, n = 0, len(src)
    while i < n:
        c = src[i]
        if src.startswith('//', i):
            j = src.find('\n', i)
            j = n if j < 0 else j
            out.append(' ' * (j - i))
            i = j
        elif src.startswith('/*', i):
            j = src.find('*/', i + 2)
            j = n if j < 0 else j + 2
            out.append(re.sub(r'[^\n]', ' ', src[i:j]))
            i = j
        elif c == '"':
            j = i + 1
            while j < n and src[j] != '"':
                j += 2 if src[j] == '\\' else 1
            out.append('"' + re.sub(r'[^\n]', ' ', src[i + 1:j]) + '"')
            i = j + 1
        else:
            out.append(c)
            i += 1
    return ''.join(out)


def _match_brace(s, k):
    d = 0
    for i in range(k, len(s)):
        if s[i] == '{':
            d += 1
        elif s[i] == '}':
            d -= 1
            if d == 0:
                return i
    return len(s) - 1


def _split_depth0(body):
    out, cur, d = [], '', 0
    for c in body:
        if c in '([{<':
            d += 1
        elif c in ')]}>':
            d -= 1
        if c == ',' and d == 0:
            out.append(cur)
            cur = ''
        else:
            cur += c
    if cur.strip():
        out.append(cur)
    return out


class SourceIndex:
    """all enum / struct declarations under a set of source roots"""

    def __init__(self):
        self.enums = {}      # last segment -> [EnumDecl]
        self.structs = {}    # last segment -> [(module, [field names])]
        self.files = {}      # path -> (raw text, lines)

    def read(self, path):
        if path not in self.files:
            raw = open(path, errors='replace').read()
            self.files[path] = (raw, raw.split('\n'))
        return self.files[path]

    def add_file(self, path, module):
        raw, _ = self.read(path)
        src = _strip_comments(raw)
        src = re.sub(r'->', '  ', src)
        for m in re.finditer(r'\benum\s+(\w+)\b[^;{]*\{', src):
            end = _match_brace(src, m.end() - 1)
            body = src[m.end():end]
            variants = []
            nextd = 0
            for part in _split_depth0(body):
                p = re.sub(r'#\s*\[[^\]]*\]', ' ', part.replace('\n', ' ')).strip()
                # nested attribute brackets (e.g. #[serde(rename = "a")]) handled by the non-greedy class above only when flat
                p = re.sub(r'^(#\s*\[.*?\]\s*)+', '', p).strip()
                mm = re.match(r'^(\w+)', p)
                if not mm:
                    continue
                md = re.search(r'=\s*(-?\d+)\s*$', p)
                if md:
                    nextd = int(md.group(1))
                variants.append((mm.group(1), nextd))
                nextd += 1
            self.enums.setdefault(m.group(1), []).append(EnumDecl(m.group(1), variants, module))
        for m in re.finditer(r'\bstruct\s+(\w+)\b([^;{(]*)\{', src):
            end = _match_brace(src, m.end() - 1)
            body = src[m.end():end]
            fields = []
            for part in _split_depth0(body):
                p = re.sub(r'^(\s*#\s*\[[^\]]*\]\s*)+', '', part.replace('\n', ' ').strip()).strip()
                p = re.sub(r'^(#\s*\[.*?\]\s*)+', '', p).strip()
                mm = re.match(r'^(?:pub(?:\([^)]*\))?\s+)?(\w+)\s*:', p)
                if mm:
                    fields.append(mm.group(1))
            self.structs.setdefault(m.group(1), []).append((module, fields))
        for m in re.finditer(r'\bstruct\s+(\w+)\b[^;{(]*[(;]', src):
            if not any(mod == module for mod, _ in self.structs.get(m.group(1), [])):
                self.structs.setdefault(m.group(1), []).append((module, []))

    def add_tree(self, root, crate, src_sub='src'):
        base = os.path.join(root, src_sub)
        for d, dn, fn in os.walk(base):
            dn[:] = [x for x in dn if x not in ('target', 'test')]
            for f in fn:
                if not f.endswith('.rs'):
                    continue
                p = os.path.join(d, f)
                rel = os.path.relpath(p, base)[:-3].split(os.sep)
                if rel[-1] in ('mod', 'lib', 'main'):
                    rel = rel[:-1]
                self.add_file(p, '::'.join([crate] + rel))

    def enum(self, path):
        """path: canonical (crate-qualified where known) type path"""
        if path in BUILTIN_ENUMS:
            return BUILTIN_ENUMS[path]
        last = path.split('::')[-1]
        if last in PRELUDE and PRELUDE[last] in BUILTIN_ENUMS and '::' not in path:
            return BUILTIN_ENUMS[PRELUDE[last]]
        cands = self.enums.get(last, [])
        if not cands:
            return None
        if len(cands) == 1:
            return cands[0]
        # longest common module suffix wins
        qual = path.split('::')[:-1]

        def score(dcl):
            mod = dcl.module.split('::')
            s = 0
            while s < len(mod) and s < len(qual) and mod[-1 - s] == qual[-1 - s]:
                s += 1
            return s
        best = sorted(cands, key=score, reverse=True)
        if score(best[0]) == score(best[1]) and best[0].variants != best[1].variants:
            raise Unsupported(f'ambiguous enum {path}: {[c.module for c in cands]}')
        return best[0]

    def struct_fields(self, name, module_hint=''):
        cands = self.structs.get(name.split('::')[-1], [])
        if not cands:
            return None
        if len(cands) == 1:
            return cands[0][1]
        for mod, fields in cands:
            if module_hint and (mod.endswith(module_hint) or module_hint.endswith(mod)):
                return fields
        return cands[0][1]


# ------------------------------------------------------------------ impl headers

class ImplInfo:
    __slots__ = ('crate', 'span', 'module', 'gens', 'trait', 'trait_args', 'self_ty', 'methods', 'kind', 'text', 'src')

    def __repr__(self):
        return f'<impl {self.trait} for {self.self_ty} @{self.span}>'


def span_text(lines, l1, c1, l2, c2):
    if l1 == l2:
        return lines[l1 - 1][c1 - 1:c2 - 1]
    out = [lines[l1 - 1][c1 - 1:]] + lines[l1:l2 - 1] + [lines[l2 - 1][:c2 - 1]]
    return ' '.join(x.strip() for x in out)


def parse_impl_header(text):
    """'impl<A, B: X> Trait<TA> for Type<A>' -> (gens, trait_str|None, self_str)"""
    t = strip_lifetimes(' '.join(text.split()))
    t = re.sub(r'\bwhere\b.*$', '', t).strip()
    if not t.startswith('impl'):
        return None
    rest = t[4:].lstrip()
    gens = []
    if rest.startswith('<'):
        d = 0
        for i, c in enumerate(rest):
            if c == '<':
                d += 1
            elif c == '>' and rest[i - 1] not in '-=':
                d -= 1
                if d == 0:
                    q = i
                    break
        for g in split_top(rest[1:q]):
            g = g.strip()
            if g.startswith("'") or not g:
                continue
            if g.startswith('const '):
                g = g[6:]
            gens.append(g.split(':')[0].strip())
        rest = rest[q + 1:].strip()
    k = top_find(rest, ' for ')
    if k is not None:
        return gens, rest[:k].strip().lstrip('!'), rest[k + 5:].strip()
    return gens, None, rest
