"""MIR dumps of /repo's crates, regenerated from the current working tree (cached by source hash)."""
import os, subprocess, glob, shutil, hashlib
from vlib.common import REPO, BUILD, env_offline, sha_tree, Inconclusive

MIRDIR = os.path.join(BUILD, 'mir')
FLAGS = ['-Zunpretty=mir', '-Ztrim-diagnostic-paths=no', '-C', 'debug-assertions=off', '-C', 'overflow-checks=on']
PKG_DIR = {'conjure_object': 'conjure-object', 'conjure_serde': 'conjure-serde', 'conjure_error': 'conjure-error',
           'conjure_http': 'conjure-http', 'conjure_codegen': 'conjure-codegen', 'conjure_macros': 'conjure-macros',
           'conjure_test': 'conjure-test'}
# path dependencies inside the workspace whose sources influence a crate's MIR (macros expand into it)
DEPS = {'conjure_object': [], 'conjure_serde': ['conjure_object'], 'conjure_error': ['conjure_object', 'conjure_serde'],
        'conjure_http': ['conjure_object', 'conjure_serde', 'conjure_error', 'conjure_macros'],
        'conjure_codegen': ['conjure_object', 'conjure_serde'], 'conjure_macros': [],
        'conjure_test': ['conjure_object', 'conjure_serde', 'conjure_error', 'conjure_http', 'conjure_macros', 'conjure_codegen']}


def crate_dir(crate):
    return os.path.join(REPO, PKG_DIR[crate])


def dump(crate, features=None):
    """-> path of the MIR text of `crate` for /repo's current sources"""
    os.makedirs(MIRDIR, exist_ok=True)
    roots = [crate_dir(crate)] + [crate_dir(d) for d in DEPS[crate]] + [os.path.join(REPO, 'Cargo.lock'), os.path.join(REPO, 'Cargo.toml')]
    h = sha_tree(roots)[:16]
    tag = crate + ('-' + '-'.join(features) if features else '')
    out = os.path.join(MIRDIR, f'{tag}-{h}.mir')
    if os.path.exists(out) and os.path.getsize(out) > 1000:
        return out
    for old in glob.glob(os.path.join(MIRDIR, f'{tag}-*.mir')):
        os.remove(old)
    tdir = os.path.join(BUILD, 'target-mir')
    # force rustc to run again for this crate even if cargo thinks it is fresh
    for fp in glob.glob(os.path.join(tdir, 'debug', '.fingerprint', PKG_DIR[crate] + '-*')):
        shutil.rmtree(fp, ignore_errors=True)
    cmd = ['cargo', '+nightly', 'rustc', '--offline', '-p', PKG_DIR[crate], '--lib']
    if features:
        cmd += ['--features', ','.join(features)]
    cmd += ['--'] + FLAGS
    env = env_offline({'CARGO_TARGET_DIR': tdir})
    p = subprocess.run(cmd, cwd=REPO, env=env, capture_output=True, text=True, timeout=1800)
    if p.returncode != 0 or len(p.stdout) < 1000:
        raise Inconclusive(f'MIR dump of {crate} failed: ' + p.stderr[-800:])
    with open(out + '.tmp', 'w') as f:
        f.write(p.stdout)
    os.replace(out + '.tmp', out)
    return out


def program(crates, extra=()):
    """Program with the given /repo crates loaded"""
    from .interp import Program
    prog = Program(REPO)
    for c in crates:
        prog.load(c, dump(c), crate_dir(c))
    return prog
