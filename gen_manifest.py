#!/usr/bin/env python3-vt
"""Regenerates MANIFEST.json from the table below (kept in one place so it is always valid)."""
import json, os
V = '/verif'
CHECKS = {
 'C06': dict(engine='M', technique='symbolic execution of the real StdRequestDeserializer (blocking + async state machine), request_body_encoding, encoding plumbing and read_body MIR over symbolic chunk histories, size limits and parsed Content-Types; z3 decides acceptance == exactly one complete valid document',
             text='On every path of the real MIR (const-generic limit N symbolic, <= 3 stream items with symbolic lengths incl. empty chunks and stream errors, Content-Type absent/unparsable/parsed with suffix and parameters, both encoding registration orders) the solver decides: accepted <=> Content-Type essence equals a registered encoding and no stream error and total <= N and the buffer is the in-order concatenation and the document is valid and nothing but whitespace follows; refusals are INVALID_ARGUMENT or the stream error; no panic. Optional and binary body deserializers likewise. Counterexamples are re-materialised as concrete bodies and replayed on the real build.',
             note='Trusted: mirsym; boundary models of serde_json/serde_smile (document cursor: deserialize consumes one document, end() iff only whitespace follows), erased_serde::erase transparent, mediatype parse results symbolic, futures always Ready. Outside: document well-formedness itself; > 3 stream items.',
             ref='§5 C06'),
 'C09': dict(engine='M', technique='non-interference decided by z3 over the real #[conjure_endpoints] expansion and helper/decoder MIR: one symbolic execution, path formulas instantiated twice with renamed unsafe inputs',
             text='The handlers expanded by the real macro (path/query/header arguments with safe and unsafe declarations, required and optional decoders, header and cookie auth) are executed from MIR on a symbolic request; for every pair of paths the solver decides whether two requests of the same shape that agree on all declared-safe arguments can differ in a safe observation (SafeParams values, error safe params, text of a cause flagged safe). Safe arguments must appear under their declared names; BearerToken Debug is executed with a recording formatter and must be constant. Counterexample pairs are replayed on the real endpoints.',
             note='Trusted: mirsym + http/percent-decoding/serde boundary models; std parse-error messages treated as input-dependent, constant-message error types as constant. Implicit flows (which error) are outside the property. Outside: body arguments, generator-emitted traits.',
             ref='§5 C09'),
 'C11': dict(engine='M', technique='symbolic execution of the real ConjureRuntime::{response_body_encoding, request_body_encoding} MIR with all closures and mime_* helpers over symbolic parsed media ranges; z3 compares each path outcome with the statement written as z3 terms',
             text='For one Accept value with <= 2 symbolic media ranges (type, subtype, +suffix, parameter, q text of <= 5 symbolic bytes, unparsable entries) and both registration orders of JSON/Smile, every path of the real selection code (stable sort_by, max_by, the 12 closures, accepts/mime_specificity/mime_quality) is compared by the solver with the statement (permitted, highest quality, first listed, first registered; silent where equally specific ranges mix q=0 and q>0). mime_quality_inner: all ASCII q strings <= 6 bytes, no panic, RFC-valid qvalues exact. Request side: essence equality incl. suffix. Counterexamples replayed on the real runtime.',
             note='Trusted: mirsym; models of mediatype (parsed structures, Name equality, essence, get_param), http header access, std iterator/sort contracts. Outside: text->range parsing; > 2 ranges (thorough: 3).',
             ref='§5 C11'),
 'C18': dict(engine='M', technique='symbolic execution of the real client decode_* functions and read_body/async_read_body (coroutine state machines executed from MIR) over symbolic chunk histories; z3 compares with a sequential oracle and blocking vs async twins',
             text='read_body and async_read_body are executed from MIR on the same symbolic history (<= 3 items, symbolic lengths incl. empty chunks, stream errors, optional limit over 64 bits) and compared by the solver with the item-by-item oracle (which error, every output byte); the decode_* entry points (value / default / unit / binary / optional binary, blocking and async) return Ok exactly for 204 where admitted or Content-Type == application/json with no stream error, body == concatenation, one valid document and only whitespace after it. Counterexamples are replayed natively (both flavours).',
             note='Trusted: mirsym; boundary model of serde_json (document cursor) under conjure-serde client_from_slice + end executed from MIR; futures always Ready. Outside: JSON well-formedness; Pending interleavings; > 3 items.',
             ref='§5 C18'),
 'C07': dict(engine='M', technique='symbolic execution of the real UriBuilder MIR over symbolic parameter bytes with z3; percent-encode sets const-evaluated from the MIR of the AsciiSet chains; length-only abstraction for the build() unwrap',
             text='For the template /a/{v1}/b/{v2}?k={q1}&j={q2} and all valid-UTF-8 values up to the bound (every byte value) the solver decides, on the real MIR of new/push_literal/push_*_parameter_raw/push_escaped/build, that every value goes through percent-encoding exactly once with a set that leaves only harmless bytes raw for its position, that the buffer is exactly literals+separators+encoded values, and that build() cannot panic on content; a second query over lengths only finds the >65534-byte panic (known finding). Counterexamples are replayed on the real build with a server-side decode oracle.',
             note='Trusted: mirsym, models of percent_encoding (bytewise contract), http::Uri byte tables (quoted from http 1.x), bytes. Outside: longer values (bytewise map), macro/generator-side key and literal encoding.',
             ref='§5 C07'),
 'C08': dict(engine='M', technique='symbolic execution of the real memoised log-safety recursion (conjure-codegen Context MIR) on symbolic type graphs with state merging; z3 compares with a greatest-fixpoint oracle for every evaluation order',
             text='is_safe_arg is executed from MIR (with its closures, RefCell memo table and generated IR accessors) on a symbolic type graph (kinds, declared safeties, member types and reference targets symbolic) after symbolic earlier calls on the same Context; the solver decides equality with the greatest fixpoint of the log-safety rules on every path. Counterexamples are written out as IR and replayed on the real generator.',
             note='Trusted: mirsym + models of HashMap index/RefCell/Option/iterator adaptors; bounds: 2 types x 2 members full alphabet, 3 types reduced alphabet (quick). Outside: larger graphs; quote! emission (covered by replay only).',
             ref='§5 C08'),
 'C19': dict(engine='M', technique='symbolic execution of the real #[conjure_endpoints] expansion (Endpoint::handle) with path_param/query_param/header_param/parse_*_auth and the FromPlain decoders from MIR; z3 decides code, `param` name and handler invocation for every corruption pattern',
             text='For two macro-expanded endpoints whose Rust identifiers differ from declared and wire names, every source (path, query, header, auth header, cookie) has symbolic multiplicity 0..2 and symbolic bytes; on every path the solver decides: an error iff some argument is undecodable, handler not invoked, code INVALID_ARGUMENT (PERMISSION_DENIED for auth), `param` == declared name of the first undecodable argument; otherwise the handler is called exactly once with exactly the decoded values. Counterexamples are replayed on the real endpoints (dev+release).',
             note='Trusted: mirsym + models of http headers, percent_decode, parsed query map (form_urlencoded outside), Error as a record. Outside: body/context arguments, longer values.',
             ref='§5 C19'),
 'C13': dict(engine='M', technique='symbolic execution of the real AnySerializer / Serialize for Any / Deserializer for Any / AnyVisitor MIR with full-width symbolic integers, floats (z3 FP) and bounded strings between serde primitive impls (by contract) and an event recorder',
             text='For every integer width up to 128 bits (full width), bool, ASCII char, f32/f64 incl. all NaN payloads, and strings <= 4 bytes the solver decides Any::new(v).deserialize_into::<T>() == v and that Serialize for Any emits exactly the event v itself emits; JSON number/bool events pushed through AnyVisitor re-serialize to the identical event. Counterexamples replayed natively.',
             note='Trusted: mirsym; serde primitive impls by contract (incl. the default deserialize_i128/u128 = not supported unless overridden). Outside: sequences/maps/structs/variants inside Any, Base64 coercion, deeper trees.',
             ref='§5 C13'),
 'C01': dict(engine='K+M', technique='Kani/CBMC on the compiled conjure-serde wrappers + real serde_json writer over full-width symbolic non-finite doubles; MIR symbolic execution (z3 floating point) of every JSON/Smile value and key Behavior leaf and of the JSON client float/bool key visitors',
             text='K: json::to_vec of a symbolic non-finite f64/f32 (value, Some, struct field) and of a bool map key yields exactly the Conjure spelling bytes, for every NaN payload and sign. M: each overridden Behavior leaf (serialize_f32/f64/bool of json/smile value and key behaviours) run from MIR against an event recorder emits "NaN"/"Infinity"/"-Infinity" exactly for the three classes and the untouched number otherwise (keys as strings); the JSON client value/key visitors turn exactly those spellings (all strings <= 9 bytes) back into the three classes and bool keys from "true"/"false". Round trip = these two halves + event transport by serde_json/serde_smile (assumed).',
             note='Trusted: Kani/CBMC; mirsym + recorder/event-player models of the inner (de)serializers. Outside: Override re-wrapping at depth > 1 (one level is executed in C05/C13), Base64 of binary, finite-float text.',
             ref='§5 C01'),
 'C02': dict(engine='M', technique='symbolic execution of the union protocol code emitted by the real generator (Visitor_::visit_map, Variant_, VariantVisitor_, Serialize) together with conjure_object::private (UnionField_, UnionTypeField_) over symbolic key/value event documents; z3 compares with the wire specification',
             text='The real conjure-codegen of /repo generates the IR family of /verif/gen-crates/types (default and exhaustive); the MIR of the generated union code is executed on documents of <= 3 members with keys from {type, two listed variants, two different unlisted names} in every order, symbolic type value and payload decodability; the solver decides accepted <=> exactly {type: v, v: payload} in either order (unlisted v only when not exhaustive), the variant delivered, and that serialization emits type then variant. Counterexamples become JSON documents replayed on the generated types.',
             note='Trusted: mirsym; event-level models of MapAccess/Deserializer, abstract payloads. Claimed for the union protocol of the IR family only; object field protocols (serde-derive output) and aliases are exercised natively (twins) but not decided symbolically; leaves are covered by C15/C16/C01.',
             ref='§5 C02'),
 'C10': dict(engine='M', technique='symbolic execution of generated enum FromStr/FromPlain/as_str and union protocol code (both configurations) plus conjure_object::private::{valid_enum_variant, Variant} from MIR over all bounded names; z3 decides classification',
             text='For all valid-UTF-8 enum names <= 8 bytes: default configuration accepts exactly listed or well-formed ([A-Z0-9_]+) names, classifies listed values as themselves and never as unknown, exposes the name unchanged; exhaustive accepts exactly the listed ones. Unions: as C02 with two different unlisted names (unknown variants survive with their name when not exhaustive, are rejected when exhaustive, listed variants are never unknown). Counterexamples replayed on the generated types (FromStr, PLAIN and JSON).',
             note='Trusted: mirsym; the serde-derive Deserialize of the generated enum (untagged arm) is not executed symbolically (native twins only). Outside: longer names, payload shapes (C13).',
             ref='§5 C10'),
 'C05': dict(engine='M', technique='symbolic execution of the whole conjure-serde unknown-field wrapper chain from MIR (31 repository functions incl. fn-local Delegator types) over symbolic object documents; z3 decides reject-and-name (server) / accept-and-drop (client)',
             text='JSON and Smile, server and client deserialize_struct entry points are executed from MIR down through Override, UnknownFieldsBehavior, StructVisitor/StructMapAccess, Key/ValueDeserializeSeed, WrappingDeserializer, DelegatingDeserializer/Visitor with an event-playing inner deserializer and a derive-like client visitor; documents have <= 2 members with keys from the declared fields (0, 1 or 2 of them) plus one undeclared key in every order. Server: Err(unknown_field(key)) naming exactly the injected key iff it occurs; client: always Ok with exactly the declared members. Counterexamples replayed on the real deserializers.',
             note='Trusted: mirsym; models of the inner serde_json/serde_smile event stream and of a serde-derive struct visitor. One nesting level is decided exhaustively; deeper nesting re-enters the same wrappers (C01).',
             ref='§5 C05'),
 'C14': dict(engine='K', technique='bounded model checking of the compiled code (Kani/CBMC) over symbolic f64 triples at full bit width',
             text='Order/equality/hash laws (reflexive incl. NaN==NaN, eq<=>cmp==Equal, antisymmetry, transitivity, NaN greatest, equal=>identical hash stream) are decided by CBMC over all f64 bit patterns for DoubleOps on f64/Option/Vec(<=2) and for DoubleKey, on the real OrderedFloat code. Failures are replayed by concrete playback before being reported.',
             note='Trusted: Kani/CBMC translation; recording Hasher stands for every Hasher. Outside: containers > 2 elements; BTreeMap DoubleOps and educe-derived generated types (not yet covered, stated in evidence).',
             ref='§5 C14'),
 'C16': dict(engine='M', technique='symbolic execution of the real MIR (is_valid/valid_char + VALID_CHARS table, FromStr/new/from_plain/Deserialize, rid accessors, from_components) with z3 over all bounded byte strings; regex literal taken from the dump and compared with the spec grammar',
             text='For all valid-UTF-8 byte strings up to the bound (16 bytes bearer, 13 bytes rid; every byte value) the solver decides acceptance == specification grammar on every entry path, accepted values render back identically, rid components are exactly the grammar groups and re-join, from_components succeeds iff each component is valid. Counterexamples are replayed on the real build (dev+release) before being reported.',
             note='Trusted: nightly MIR printer, mirsym interpreter, listed std/serde/regex models (regex: bounded matcher over the pattern literal read from the dump, unambiguity of groups checked by a query). Outside: longer strings; the regex crate itself.',
             ref='§5 C16'),
 'C15': dict(engine='K+M', technique='bounded model checking of the compiled code (Kani/CBMC, full-width symbolic integers) + MIR symbolic execution with z3 for the text/any routes',
             text='For every numeric construction route (new, TryFrom x6, From x6, Deserialize via serde\'s real integer visitor) the solver decides over the full integer width that Ok <=> |n| <= 2^53-1 and the value is kept. Loop-free code, so no unwinding bound; a failure is replayed natively by concrete playback before it is reported.',
             note='Trusted: Kani 0.68/CBMC 6.11 translation of the dev-profile build; the harness deserializer (delivers one symbolic number event). Outside: digit loop of i64::from_str (std).',
             ref='§5 C15'),
}
NA = {
 'C03': 'deciding step is rustc accepting the emitted module tree; neither rustc nor the quote/syn/prettyplease pipeline can be encoded for a solver within reach (DESIGN.md §6)',
 'C20': 'relation between two process executions of the whole generator incl. file I/O and hash seeds; no solver encoding within reach (DESIGN.md §6)',
}
ALL = ['C%02d' % i for i in range(1, 21)]
PENDING = 'check not built yet in this session (see DESIGN.md build order); not claimed until its check exists'
man = dict(
 version=1,
 setup_cmd='./setup.sh',
 hooks=dict(guard='palantir_conjure_rust_verif', enable='none needed: engine M reads private functions from the nightly MIR dump, engine K and the replay binary use public API only (RUSTFLAGS="--cfg palantir_conjure_rust_verif" would reach dependency builds)',
            baseline_off_cmd='cd /repo && cargo test --workspace --no-fail-fast --offline', source_commits=[], add_only=True),
 engines=[dict(name='mirsym', path='mirsym/', serves_properties=[], kind_free_text='symbolic executor over rustc MIR dumps of /repo (regenerated per run) with z3; library calls replaced by listed models'),
          dict(name='kani', path='kani/', serves_properties=['C15'], kind_free_text='Kani 0.68 proof harnesses (CBMC) over the compiled real code, public API')],
 checks=[], not_applicable=[],
 notes='exit 2 from a check = inconclusive (machinery could not decide); never reported as pass or violation.')
for pid in ALL:
    if pid in CHECKS:
        c = CHECKS[pid]
        man['checks'].append(dict(property_id=pid, quick_cmd=f'./check {pid} --tier quick', thorough_cmd=f'./check {pid} --tier thorough',
            evidence_file=f'/verif/evidence/{pid}.json', replay_cmd_template=f'./check {pid} --replay {{path}}', engine=c['engine'],
            level_claimed=dict(category='model_checking', text=c['text'], design_ref=c['ref']), level_note=c['note'], technique=c['technique']))
    else:
        man['not_applicable'].append(dict(property_id=pid, reason=NA.get(pid, PENDING)))
for e in man['engines']:
    if e['name'] == 'mirsym': e['serves_properties'] = [p for p in CHECKS if 'M' in CHECKS[p]['engine']]
    if e['name'] == 'kani': e['serves_properties'] = [p for p in CHECKS if 'K' in CHECKS[p]['engine']]
json.dump(man, open(os.path.join(V, 'MANIFEST.json'), 'w'), indent=1)
print('wrote MANIFEST.json:', len(man['checks']), 'checks,', len(man['not_applicable']), 'n/a')
