#!/usr/bin/env python3-vt
"""Regenerates MANIFEST.json from the table below (kept in one place so it is always valid)."""
import json, os
V = '/verif'
CHECKS = {
 'C15': dict(engine='K+M', technique='bounded model checking of the compiled code (Kani/CBMC, full-width symbolic integers) + MIR symbolic execution with z3 for the text/any routes',
             text='For every numeric construction route (new, TryFrom x6, From x6, Deserialize via serde\'s real integer visitor) the solver decides over the full integer width that Ok <=> |n| <= 2^53-1 and the value is kept. Loop-free code, so no unwinding bound; a failure is replayed natively by concrete playback before it is reported.',
             note='Trusted: Kani 0.68/CBMC 6.11 translation of the dev-profile build; the harness deserializer (delivers one symbolic number event). Outside: digit loop of i64::from_str (std).',
             ref='§5 C15'),
}
NA = {
 'C03': 'deciding step is rustc accepting the emitted module tree; neither rustc nor the quote/syn/prettyplease pipeline can be encoded for a solver within reach (DESIGN.md §6)',
 'C20': 'relation between two process executions of the whole generator incl. file I/O and hash seeds; no solver encoding within reach (DESIGN.md §6)',
}
ALL = ['C%02d' % i for i in range(1, 21)]
PENDING = 'check not built yet in this session (see DESIGN.md build order); not claimed until its check exists'
man = dict(
 version=1,
 setup_cmd='./setup.sh',
 hooks=dict(guard='palantir_conjure_rust_verif', enable='none needed: engine M reads private functions from the nightly MIR dump, engine K and the replay binary use public API only (RUSTFLAGS="--cfg palantir_conjure_rust_verif" would reach dependency builds)',
            baseline_off_cmd='cd /repo && cargo test --workspace --no-fail-fast --offline', source_commits=[], add_only=True),
 engines=[dict(name='mirsym', path='mirsym/', serves_properties=[], kind_free_text='symbolic executor over rustc MIR dumps of /repo (regenerated per run) with z3; library calls replaced by listed models'),
          dict(name='kani', path='kani/', serves_properties=['C15'], kind_free_text='Kani 0.68 proof harnesses (CBMC) over the compiled real code, public API')],
 checks=[], not_applicable=[],
 notes='exit 2 from a check = inconclusive (machinery could not decide); never reported as pass or violation.')
for pid in ALL:
    if pid in CHECKS:
        c = CHECKS[pid]
        man['checks'].append(dict(property_id=pid, quick_cmd=f'./check {pid} --tier quick', thorough_cmd=f'./check {pid} --tier thorough',
            evidence_file=f'/verif/evidence/{pid}.json', replay_cmd_template=f'./check {pid} --replay {{path}}', engine=c['engine'],
            level_claimed=dict(category='model_checking', text=c['text'], design_ref=c['ref']), level_note=c['note'], technique=c['technique']))
    else:
        man['not_applicable'].append(dict(property_id=pid, reason=NA.get(pid, PENDING)))
for e in man['engines']:
    if e['name'] == 'mirsym': e['serves_properties'] = [p for p in CHECKS if 'M' in CHECKS[p]['engine']]
    if e['name'] == 'kani': e['serves_properties'] = [p for p in CHECKS if 'K' in CHECKS[p]['engine']]
json.dump(man, open(os.path.join(V, 'MANIFEST.json'), 'w'), indent=1)
print('wrote MANIFEST.json:', len(man['checks']), 'checks,', len(man['not_applicable']), 'n/a')
