#!/usr/bin/env python3
"""Confirm seeded changes delivered by sub-agents: suite passes with the change, demo fails with it and passes without.
usage: tools_verify_seeds.py <seed-dir> <id> [<id> ...]   (seed-dir has <id>/patch.diff, demo .rs, meta.json)"""
import sys, os, re, json, subprocess, shutil, glob
SD = sys.argv[1]
TAG = os.environ.get('VS_TAG', '')
WT = '/tmp/vs-wt' + TAG
ENV = dict(os.environ, CARGO_NET_OFFLINE='true', CARGO_TARGET_DIR='/tmp/vs-target' + os.environ.get('VS_TAG', ''))
def sh(cmd, cwd=None, timeout=3000):
    p = subprocess.run(cmd, shell=True, cwd=cwd, env=ENV, capture_output=True, text=True, timeout=timeout)
    return p.returncode, p.stdout + p.stderr
out = {}
resf = os.path.join(SD, 'verify%s.json' % TAG)
if os.path.exists(resf):
    out = json.load(open(resf))
for sid in sys.argv[2:]:
    d = os.path.join(SD, sid)
    meta = json.load(open(os.path.join(d, 'meta.json')))
    cmd = meta['demo_cmd']
    crate = re.search(r'cargo test.*?-p (\S+)', cmd).group(1)
    tname = re.search(r'--test (\S+)', cmd).group(1)
    demos = [f for f in glob.glob(os.path.join(d, '*.rs'))]
    assert len(demos) == 1, demos
    sh(f'git -C /repo worktree remove --force {WT}')
    shutil.rmtree(WT, ignore_errors=True)
    rc, o = sh(f'git -C /repo worktree add -q --detach {WT} HEAD')
    r = {'applies': None}
    try:
        os.makedirs(os.path.join(WT, crate, 'tests'), exist_ok=True)
        demo_dst = os.path.join(WT, crate, 'tests', tname + '.rs')
        shutil.copy(demos[0], demo_dst)
        rc, o = sh(f'cargo test --offline -p {crate} --test {tname}', cwd=WT)
        r['demo_passes_without_change'] = rc == 0
        r['demo_without_tail'] = o[-300:]
        rc, o = sh(f'git apply {os.path.join(d, "patch.diff")}', cwd=WT)
        r['applies'] = rc == 0
        if rc == 0:
            rc, o = sh(f'cargo test --offline -p {crate} --test {tname}', cwd=WT)
            r['demo_fails_with_change'] = rc != 0 and ('test result: FAILED' in o or 'panicked' in o)
            r['demo_with_tail'] = o[-400:]
            os.remove(demo_dst)
            rc, o = sh('cargo test --workspace --no-fail-fast --offline --lib --bins --tests', cwd=WT)
            passed = sum(int(x) for x in re.findall(r'test result: \w+\. (\d+) passed', o))
            failed = sum(int(x) for x in re.findall(r'test result: \w+\. \d+ passed; (\d+) failed', o))
            r['suite_passed'], r['suite_failed'], r['suite_rc'] = passed, failed, rc
            r['suite_passes_with_change'] = rc == 0 and failed == 0 and passed >= 112
    finally:
        sh(f'git -C /repo worktree remove --force {WT}')
        shutil.rmtree(WT, ignore_errors=True)
    out[sid] = r
    json.dump(out, open(resf, 'w'), indent=1)
    print(sid, {k: v for k, v in r.items() if not k.endswith('_tail')}, flush=True)
